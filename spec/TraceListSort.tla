--------------------------- MODULE TraceListSort ---------------------------
(***************************************************************************)
(* X04 (extra) -- trace validation: executions recorded from the real list *)
(* views (harness/props/x04.py) are checked against the reference          *)
(* ListSort.tla.  A trace is [mode, lay, namelen, events]: lay = the token *)
(* layout of the field the harness generated ("sp" | "cm" | "up");         *)
(* an event is [op, v, w, i, kind, rev, res, obs, ...]:                    *)
(*   open     a new list object on the field; obs = list(view)             *)
(*   reopen   the SAME list object entered again (its state persists)      *)
(*   append remove replace refset refremove sep sep0 nl cmt reformat       *)
(*            as in C11 (cmt carries the number i of the new comment line) *)
(*   sort     sort(key=<kind>, reverse=rev) / sort_elements; obs = the     *)
(*            list afterwards: must be an ordered permutation              *)
(*   close    leaving the with-block: res, obs = the field's list in a     *)
(*            fresh parse of dump() (read by the real code), lay2 = the    *)
(*            written field text lexed back into layout tokens (inverse of *)
(*            the concretization), ind = per token of lay2 the number of   *)
(*            blanks a further line starts with (at its CT, else 0),       *)
(*            doc = document-level observation                             *)
(* Checked at close: lay2 is a valid field; the REFERENCE reader gives the *)
(* abstract values on lay2; while the comment attachment is known every    *)
(* value still has its comment lines (in front of it and inside it);       *)
(* after reformat_when_finished lay2 has the documented shape and every    *)
(* indent is len(name)+2.  ValueError on leaving as in C11, plus -- only   *)
(* while KNOWN_HIDDEN = "1", the open finding X04-sort-hidden-separator -- *)
(* after a sort put an item with a hidden separator first (a line         *)
(* <<"REJECT", tid, "known-hidden">> tells the harness that the finding    *)
(* was needed to explain the trace).  A field outside UpDomain is only opened: reading must not    *)
(* fail (ValueError accepted only while KNOWN_TRAIL = "1").                *)
(***************************************************************************)
EXTENDS ListSort, Json, IOUtils, TLCExt

Traces == JsonDeserialize(IOEnv.TRACE_FILE)
Diag        == IOEnv.TRACE_DIAG = "1"
KnownHidden == IOEnv.KNOWN_HIDDEN = "1"
KnownTrail  == IOEnv.KNOWN_TRAIL = "1"

VARIABLES tid, l, cur, chg
tvars == <<xvars, tid, l, cur, chg>>

Tr == Traces[tid]
FC(an) == [i \in 1..Len(an) |-> [f |-> an[i].f, c |-> an[i].c]]
UpItemsOK(vs) == \A i \in 1..Len(vs) : EndsGt(vs[i][Len(vs[i])])

Derive(m, lay) == /\ vals' = ValsOf(m, lay) /\ ann' = AnnOf(m, lay) /\ pend' = PendOf(m, lay)
                  /\ tail' = "none" /\ res' = "ok" /\ cknown' = TRUE /\ reform' = FALSE /\ khid' = FALSE

TInit == /\ tid \in 1..Len(Traces)
         /\ l = 1
         /\ cur = Traces[tid].lay
         /\ chg = FALSE
         /\ vals = <<>> /\ ann = <<>> /\ pend = <<>> /\ tail = "none" /\ res = "ok"
         /\ cknown = TRUE /\ reform = FALSE /\ khid = FALSE

\* (a disjunction or implication inside an action makes TLC branch: pure checks are evaluated as values)
Chk(P)    == P = TRUE
Either(e) == Same(e.res) /\ e.res \in {"ok", "ValueError"} /\ KeepX
InDomain  == Chk(Tr.mode # "up" \/ UpDomain(cur))

\* the witness of a sort: the stable permutation when it explains the observation, else occurrence by occurrence
Occ(s, i)    == Cardinality({j \in 1..i : s[j] = s[i]})
Witness(kind, rev, ov, nv) ==
   LET p == SortPerm(kind, rev, ov) IN
   IF Permute(ov, p) = nv THEN p
   ELSE [i \in 1..Len(nv) |-> CHOOSE j \in 1..Len(ov) : ov[j] = nv[i] /\ Occ(ov, j) = Occ(nv, i)]

Written(e) == Chk(  \* the checks on the text a with-block wrote
   /\ Valid(Anon(e.lay2))
   /\ ValsOf(Tr.mode, e.lay2) = vals
   /\ cknown => SameBag(Pairs(vals, FC(ann)), Pairs(vals, FC(AnnOf(Tr.mode, e.lay2))))
   /\ reform => /\ HasShape(Tr.mode, e.lay2)
                 /\ LET sp == Spans(Tr.mode, e.lay2) IN        \* every value but an unindented first one: len(name)+2 blanks
                    \A k \in 1..Len(sp) : sp[k][1] > 2 => e.ind[sp[k][1] - 2] = Tr.namelen + 2)

TStep ==
   /\ l <= Len(Tr.events)
   /\ LET e == Tr.events[l] IN
      /\ \/ /\ e.op = "open" /\ InDomain /\ Derive(Tr.mode, cur) /\ e.obs = vals' /\ UNCHANGED cur /\ chg' = FALSE
         \/ /\ e.op = "open" /\ ~InDomain /\ Len(Tr.events) = 1          \* the text of the last item is unclear: just read it
            /\ Chk(e.res = "ok" \/ (KnownTrail /\ e.res = "ValueError" /\ PrintT(<<"REJECT", tid, "known-trail">>)))
            /\ res' = e.res /\ UNCHANGED <<vals, tail, ann, pend, cknown, reform, khid, cur, chg>>
         \/ /\ e.op = "reopen" /\ Same("ok") /\ KeepX /\ e.obs = vals /\ UNCHANGED <<cur, chg>>
         \/ /\ e.op = "append" /\ XAppend(e.v) /\ e.obs = vals' /\ UNCHANGED cur /\ chg' = TRUE
         \/ /\ e.op = "remove" /\ (IF LHas(vals, e.v) THEN XRemove(e.v) ELSE Either(e)) /\ e.obs = vals'
            /\ UNCHANGED cur /\ chg' = Chk(chg \/ LHas(vals, e.v))
         \/ /\ e.op = "replace" /\ (IF LHas(vals, e.v) THEN XReplace(e.v, e.w) ELSE Either(e)) /\ e.obs = vals'
            /\ UNCHANGED cur /\ chg' = Chk(chg \/ LHas(vals, e.v))
         \/ /\ e.op = "refset" /\ XRefSet(e.i, e.w) /\ e.obs = vals' /\ UNCHANGED cur /\ chg' = TRUE
         \/ /\ e.op = "refremove" /\ XRefRemove(e.i) /\ e.obs = vals' /\ UNCHANGED cur /\ chg' = TRUE
         \/ /\ e.op \in {"sep", "sep0"} /\ Tr.mode # "sp" /\ XAppendSep /\ e.obs = vals' /\ UNCHANGED cur /\ chg' = TRUE
         \/ /\ e.op = "nl" /\ (IF tail = "none" THEN XAppendNl ELSE Either(e)) /\ e.obs = vals' /\ UNCHANGED <<cur, chg>>
         \/ /\ e.op = "cmt" /\ XAppendCmt(e.i) /\ e.obs = vals' /\ UNCHANGED <<cur, chg>>
         \/ /\ e.op = "reformat" /\ XReformat /\ e.obs = vals' /\ UNCHANGED cur /\ chg' = TRUE
         \/ /\ e.op = "sort"
            /\ Chk(IsSortedPerm(e.kind, e.rev, vals, ann, e.obs, ann, FALSE))
            /\ XSortTo(e.obs, Permute(ann, Witness(e.kind, e.rev, vals, e.obs)))
            /\ UNCHANGED cur /\ chg' = TRUE
         \/ /\ e.op = "close" /\ e.res = "ok" /\ chg                     \* the field was written
            /\ Chk(\/ vals = <<>>                                        \* (writing an EMPTY list is unspecified)
                   \/ (Written(e) /\ e.obs = vals /\ e.read = "ok"))
            /\ cur' = e.lay2 /\ chg' = FALSE
            /\ vals' = vals /\ res' = "ok" /\ UNCHANGED <<ann, cknown, reform, khid>>
            /\ tail' = (IF tail = "none" THEN "nl" ELSE tail)            \* _update_field ends the token list with a newline
            /\ pend' = (IF tail = "none" /\ pend # <<>> THEN Append(pend, NL) ELSE pend)
         \/ /\ e.op = "close" /\ e.res = "ok" /\ ~chg                    \* nothing to write
            /\ e.lay2 = Squeeze(cur) /\ Chk(vals = <<>> \/ e.obs = vals)
            /\ Same("ok") /\ KeepX /\ UNCHANGED <<cur, chg>>
         \/ /\ e.op = "close" /\ e.res = "ValueError" /\ chg
            /\ Chk(\/ CloseMayRefuse
                   \/ (KnownHidden /\ XCloseMayRefuse(TRUE) /\ PrintT(<<"REJECT", tid, "known-hidden">>)))
            /\ e.lay2 = Squeeze(cur)
            /\ Same("ValueError") /\ KeepX /\ UNCHANGED <<cur, chg>>
      /\ res' = e.res              \* the call returned / raised what the reference says
      /\ e.doc = "ok"              \* and nothing else in the document moved
   /\ l' = l + 1 /\ UNCHANGED tid
   /\ (Diag => PrintT(<<"AT", tid, l>>))
   /\ (l' = Len(Tr.events) + 1 => PrintT(<<"ACCEPTED", tid>>))

TSpec == TInit /\ [][TStep]_tvars
\* machinery checks: the harness generated a layout of the automaton and edits an uploaders list only while
\* every item is a complete "Name <email>"
TLayoutOK == Len(Tr.lay) > 300 \/ WellFormed(IF Tr.mode = "up" THEN "cm" ELSE Tr.mode, Anon(Tr.lay))
TValuesWellFormed == \A i \in 1..Len(vals) : vals[i] # <<>> /\ IsWord(vals[i][1]) /\ IsWord(vals[i][Len(vals[i])])
=============================================================================
