CONSTANTS
  CacheKeyedByNameOnly = FALSE
  ContentCacheByFile = FALSE
  ResultsAliased = FALSE
  GetMemberRewinds = FALSE
  LazyScanDiesOnFault = TRUE
  CloseForgetsPosition = FALSE
  EmitH = FALSE
SPECIFICATION Spec
INVARIANT CacheCoherent
INVARIANT NoOtherMemo
INVARIANT NoHiddenState
PROPERTY HistExact
PROPERTY RepeatStable
VIEW HView
CHECK_DEADLOCK FALSE
