CONSTANTS
  Sigma = {}
  NSigma = {}
  MaxParas = 1
  MaxPats = 2
  MaxPatLen = 2
  MaxSyms = 4
  MaxNameLen = 2
  Discipline = "full"
  DotAll = TRUE
  FindFirst = FALSE
  AffixFrom = 0
  Emit = "lts"
  BlockLen = 0
  LookupMemo = FALSE
  FilesEndCounter = FALSE
  ScanStopsAtLicense = FALSE
  InsertByValue = FALSE
  Marks = {0}
  Faults <- MCFaults
  MaxFiles = 3
  MaxLic = 2
  FPool <- MCFPoolS
  FNames <- MCFNames
SPECIFICATION FSpec
INVARIANT ImplOrder
PROPERTY FindIsLast
VIEW FView
CHECK_DEADLOCK FALSE
