CONSTANTS
  Sigma = {}
  NSigma = {}
  MaxParas = 1
  MaxPats = 2
  MaxPatLen = 2
  MaxSyms = 4
  MaxNameLen = 2
  Discipline = "full"
  DotAll = TRUE
  FindFirst = FALSE
  Emit = "lts"
  BlockLen = 0
  LookupMemo = FALSE
  NParas = 2
  FPool <- MCFPool
  FNames <- MCFNames
SPECIFICATION FSpec
PROPERTY FindIsLast
VIEW FView
CHECK_DEADLOCK FALSE
