---------------------------- MODULE OrderedMap ----------------------------
(***************************************************************************)
(* C09 -- reference model of a Deb822 paragraph as an insertion-ordered,   *)
(* case-insensitive, case-preserving mapping.                              *)
(*                                                                         *)
(* abs is a sequence of entries [n |-> name, s |-> spelling, v |-> value]. *)
(* A *name* is the case-folded identity of a key (an integer: its rank in  *)
(* the sort order of the lower-cased names, so that SortFields needs no    *)
(* string comparison); the *spelling* is the text of the key as first      *)
(* inserted; v is the value.  All operators on sequences are pure and      *)
(* prefixed M so that LinkedSet.tla (implementation layer) and             *)
(* TraceOrderedMap.tla (trace validation) re-use them.                     *)
(*                                                                         *)
(* Domain of names: the model never looks inside a name, so a name stands  *)
(* for ANY legal field name - US-ASCII 33..126 without the colon, not      *)
(* starting with the comment character or a hyphen, of any length >= 1     *)
(* (a single letter, whose two cases are its spellings, included).  No     *)
(* action, DumpParse and the parsed start states included, may depend on   *)
(* the shape of the name: the binding draws the shape per history          *)
(* (harness/props/c09.py, name_pool) and the traces carry the spellings    *)
(* verbatim.                                                               *)
(***************************************************************************)
EXTENDS Naturals, Sequences, FiniteSets, SequencesExt, TLC, Json

CONSTANTS Names,      \* set of names (naturals)
          Spells,     \* set of spellings offered when inserting
          Values,     \* set of values (strings)
          Emit        \* TRUE: print one EDGE line per evaluated action instance

VARIABLES abs,        \* the mapping
          res         \* result of the last call: "ok", a value, "true"/"false", "KeyError", "ValueError"

avars == <<abs, res>>

MHas(m, n)  == \E i \in 1..Len(m) : m[i].n = n
MIdx(m, n)  == CHOOSE i \in 1..Len(m) : m[i].n = n
MGet(m, n)  == m[MIdx(m, n)]
MRm(m, n)   == SelectSeq(m, LAMBDA e : e.n # n)
MKeys(m)    == [i \in 1..Len(m) |-> m[i].n]
MUnique(m)  == \A i, j \in 1..Len(m) : m[i].n = m[j].n => i = j

\* assignment: an existing name keeps position and spelling, only the value changes
MSet(m, n, s, v) == IF MHas(m, n) THEN [m EXCEPT ![MIdx(m, n)].v = v]
                    ELSE Append(m, [n |-> n, s |-> s, v |-> v])
MFirst(m, n)     == <<MGet(m, n)>> \o MRm(m, n)
MLast(m, n)      == MRm(m, n) \o <<MGet(m, n)>>
MBefore(m, n, r) == LET rest == MRm(m, n) i == MIdx(rest, r)
                    IN SubSeq(rest, 1, i - 1) \o <<MGet(m, n)>> \o SubSeq(rest, i, Len(rest))
MAfter(m, n, r)  == LET rest == MRm(m, n) i == MIdx(rest, r)
                    IN SubSeq(rest, 1, i) \o <<MGet(m, n)>> \o SubSeq(rest, i + 1, Len(rest))
MSort(m)         == SortSeq(m, LAMBDA x, y : x.n < y.n)

\* sort_fields(key=f): "same semantics as for sorted" - a STABLE sort by the caller's key.  A key
\* function is abstracted to kf : name -> natural (kf[n] is applied, so a sequence indexed by name
\* rank serves as well: that is what the recorded traces carry).  Entries are decorated with their
\* position so that the comparison is a strict total order (the result does not depend on the
\* stability of SortSeq itself).
MSortBy(m, kf)   == LET dm == [i \in 1..Len(m) |-> [e |-> m[i], i |-> i]]
                        sd == SortSeq(dm, LAMBDA x, y : \/ kf[x.e.n] < kf[y.e.n]
                                                       \/ (kf[x.e.n] = kf[y.e.n] /\ x.i < y.i))
                    IN [i \in 1..Len(m) |-> sd[i].e]

\* Faults of the caller-supplied key function (notes/SIZE_STRESS.md part 5).  The key function
\* misbehaves for exactly one name fn (NoFault: for none), in one of the modes
\*   "raise"    f(k) raises the caller's own exception when called for fn,
\*   "incomp"   f(k) returns for fn a key that cannot be ordered against the others (TypeError
\*              from the comparison),
\*   "cmpraise" f(k) returns for fn a key whose comparison raises the caller's own exception.
\* The fault can only strike when fn is a key of the mapping; with two or more keys it MUST strike
\* (every key is computed and every element takes part in at least one comparison), the call then
\* fails with the caller's exception resp. TypeError and - "sorted" semantics: no result, nothing
\* assigned - the mapping is unchanged.  With fn the ONLY key nothing needs to be compared and an
\* implementation may or may not call f at all: unspecified (either outcome, the mapping is the
\* same one-element mapping anyway).
NoFault    == 0
KeyVals    == {0, 1}                                   \* a cfg may override this definition
KeyFns     == [Names -> KeyVals]
FaultModes == {"raise", "incomp", "cmpraise"}
SortErr(fm)           == IF fm = "incomp" THEN "TypeError" ELSE "CallerError"
SortHit(m, fn, fm)    == fn # NoFault /\ MHas(m, fn) /\ Len(m) >= 2
SortUnspec(m, fn, fm) == fn # NoFault /\ MHas(m, fn) /\ Len(m) = 1
SortOut(m, kf, fn, fm) == IF SortHit(m, fn, fm) THEN [m |-> m, r |-> SortErr(fm)]
                          ELSE [m |-> MSortBy(m, kf), r |-> "ok"]
\* dump(fd) into a file object whose k-th write() raises, parsing from an iterator of lines that
\* raises at its k-th step: the caller's exception comes out, the mapping is what it was (dump of
\* an EMPTY mapping may not write at all: unspecified whether the fault is ever met)
\* the faulted calls are explored with one representative key function (name 2 first, 1 and 3 tie):
\* when the fault strikes the outcome does not depend on it, when it does not (fn absent) the call
\* is the fault-free sort by the same keys; the recorded traces draw arbitrary pairs (kf, fn)
FaultKf == [n \in Names |-> n % 2]
IOKinds == {"dump", "parse"}
IOUnspec(m, kind) == kind = "dump" /\ Len(m) = 0

\* outcome of a relative move: [m |-> new mapping, r |-> result]
\* (item = reference -> ValueError, checked first as the statement says "re-ordering a key
\*  relative to itself raises ValueError"; a missing item or reference -> KeyError)
MRel(m, n, r, f(_, _, _)) ==
    IF n = r THEN [m |-> m, r |-> "ValueError"]
    ELSE IF ~MHas(m, n) \/ ~MHas(m, r) THEN [m |-> m, r |-> "KeyError"]
    ELSE [m |-> f(m, n, r), r |-> "ok"]
MMove(m, n, f(_, _)) == IF MHas(m, n) THEN [m |-> f(m, n), r |-> "ok"] ELSE [m |-> m, r |-> "KeyError"]

----------------------------------------------------------------------------
Edge(op, args) == Emit => PrintT(<<"EDGE", ToJson([from |-> abs, op |-> op, args |-> args, res |-> res', to |-> abs'])>>)
\* alt: the set of results the binding has to accept (more than {res'} only in an unspecified zone)
EdgeAlt(op, args, alt) == Emit => PrintT(<<"EDGE", ToJson([from |-> abs, op |-> op, args |-> args, res |-> res',
                                                            alt |-> alt, to |-> abs'])>>)

Init == abs = <<>> /\ res = "ok"

Set(n, s, v) == abs' = MSet(abs, n, s, v) /\ res' = "ok" /\ Edge("set", <<n, s, v>>)
Get(n)       == /\ abs' = abs
                /\ res' = IF MHas(abs, n) THEN MGet(abs, n).v ELSE "KeyError"
                /\ Edge("get", <<n>>)
Has(n)       == abs' = abs /\ res' = (IF MHas(abs, n) THEN "true" ELSE "false") /\ Edge("has", <<n>>)
Del(n)       == /\ IF MHas(abs, n) THEN abs' = MRm(abs, n) /\ res' = "ok"
                                   ELSE abs' = abs /\ res' = "KeyError"
                /\ Edge("del", <<n>>)
Apply(o)     == abs' = o.m /\ res' = o.r
MoveFirst(n)     == Apply(MMove(abs, n, MFirst)) /\ Edge("first", <<n>>)
MoveLast(n)      == Apply(MMove(abs, n, MLast)) /\ Edge("last", <<n>>)
MoveBefore(n, r) == Apply(MRel(abs, n, r, MBefore)) /\ Edge("before", <<n, r>>)
MoveAfter(n, r)  == Apply(MRel(abs, n, r, MAfter)) /\ Edge("after", <<n, r>>)
Sort         == abs' = MSort(abs) /\ res' = "ok" /\ Edge("sort", <<>>)
SortBy(kf, fn, fm) == /\ Apply(SortOut(abs, kf, fn, fm))
                      /\ EdgeAlt("sortby", <<kf, fn, fm>>,
                                 IF SortUnspec(abs, fn, fm) THEN {"ok", SortErr(fm)} ELSE {res'})
IOFault(kind) == /\ abs' = abs
                 /\ res' = (IF IOUnspec(abs, kind) THEN "ok" ELSE "CallerError")
                 /\ EdgeAlt("iofault", <<kind>>, IF IOUnspec(abs, kind) THEN {"ok", "CallerError"} ELSE {res'})
\* copy() and dump()+parse rebuild the object; the mapping they produce must be the same
Copy         == abs' = abs /\ res' = "ok" /\ Edge("copy", <<>>)
DumpParse    == abs' = abs /\ res' = "ok" /\ Edge("dumpparse", <<>>)

Next == \/ \E n \in Names : \/ \E s \in Spells, v \in Values : Set(n, s, v)
                            \/ Get(n) \/ Has(n) \/ Del(n) \/ MoveFirst(n) \/ MoveLast(n)
                            \/ \E r \in Names : MoveBefore(n, r) \/ MoveAfter(n, r)
        \/ Sort \/ Copy \/ DumpParse
        \/ \E kf \in KeyFns : SortBy(kf, NoFault, "none")
        \/ \E fn \in Names, fm \in FaultModes : SortBy(FaultKf, fn, fm)
        \/ \E kind \in IOKinds : IOFault(kind)

Spec == Init /\ [][Next]_avars
AbsView == abs        \* res is an output, no action reads it: states are identified by abs

----------------------------------------------------------------------------
\* properties of the reference itself
TypeOK      == /\ \A i \in 1..Len(abs) : abs[i].n \in Names /\ abs[i].s \in Spells /\ abs[i].v \in Values
NamesUnique == MUnique(abs)
\* a failing call leaves the mapping unchanged
ErrAtomic   == [][res' \in {"KeyError", "ValueError", "TypeError", "CallerError"} => abs' = abs]_avars
\* the spelling of a name never changes while the name stays in the mapping
SpellingKept == [][\A n \in Names : (MHas(abs, n) /\ MHas(abs', n)) => MGet(abs', n).s = MGet(abs, n).s]_avars
\* a sort whose key function faults for a present key (two or more keys) fails and changes nothing;
\* one that does not meet the fault is the plain stable sort: a permutation ordered by key, ties
\* in their previous order
SortLaw == \A kf \in KeyFns : LET m == MSortBy(abs, kf) IN
              /\ Len(m) = Len(abs) /\ \A n \in Names : MHas(abs, n) <=> MHas(m, n)
              /\ \A i, j \in 1..Len(m) : i < j =>
                     \/ kf[m[i].n] < kf[m[j].n]
                     \/ (kf[m[i].n] = kf[m[j].n] /\ MIdx(abs, m[i].n) < MIdx(abs, m[j].n))
              /\ \A i \in 1..Len(m) : m[i] = MGet(abs, m[i].n)
\* only Set/Del change the key set or a value; re-ordering is a permutation
PermutationOnly == [][(Len(abs') = Len(abs)) => \A n \in Names : MHas(abs, n) <=> MHas(abs', n)]_avars
=============================================================================
