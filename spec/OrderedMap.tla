---------------------------- MODULE OrderedMap ----------------------------
(***************************************************************************)
(* C09 -- reference model of a Deb822 paragraph as an insertion-ordered,   *)
(* case-insensitive, case-preserving mapping.                              *)
(*                                                                         *)
(* abs is a sequence of entries [n |-> name, s |-> spelling, v |-> value]. *)
(* A *name* is the case-folded identity of a key (an integer: its rank in  *)
(* the sort order of the lower-cased names, so that SortFields needs no    *)
(* string comparison); the *spelling* is the text of the key as first      *)
(* inserted; v is the value.  All operators on sequences are pure and      *)
(* prefixed M so that LinkedSet.tla (implementation layer) and             *)
(* TraceOrderedMap.tla (trace validation) re-use them.                     *)
(***************************************************************************)
EXTENDS Naturals, Sequences, FiniteSets, SequencesExt, TLC, Json

CONSTANTS Names,      \* set of names (naturals)
          Spells,     \* set of spellings offered when inserting
          Values,     \* set of values (strings)
          Emit        \* TRUE: print one EDGE line per evaluated action instance

VARIABLES abs,        \* the mapping
          res         \* result of the last call: "ok", a value, "true"/"false", "KeyError", "ValueError"

avars == <<abs, res>>

MHas(m, n)  == \E i \in 1..Len(m) : m[i].n = n
MIdx(m, n)  == CHOOSE i \in 1..Len(m) : m[i].n = n
MGet(m, n)  == m[MIdx(m, n)]
MRm(m, n)   == SelectSeq(m, LAMBDA e : e.n # n)
MKeys(m)    == [i \in 1..Len(m) |-> m[i].n]
MUnique(m)  == \A i, j \in 1..Len(m) : m[i].n = m[j].n => i = j

\* assignment: an existing name keeps position and spelling, only the value changes
MSet(m, n, s, v) == IF MHas(m, n) THEN [m EXCEPT ![MIdx(m, n)].v = v]
                    ELSE Append(m, [n |-> n, s |-> s, v |-> v])
MFirst(m, n)     == <<MGet(m, n)>> \o MRm(m, n)
MLast(m, n)      == MRm(m, n) \o <<MGet(m, n)>>
MBefore(m, n, r) == LET rest == MRm(m, n) i == MIdx(rest, r)
                    IN SubSeq(rest, 1, i - 1) \o <<MGet(m, n)>> \o SubSeq(rest, i, Len(rest))
MAfter(m, n, r)  == LET rest == MRm(m, n) i == MIdx(rest, r)
                    IN SubSeq(rest, 1, i) \o <<MGet(m, n)>> \o SubSeq(rest, i + 1, Len(rest))
MSort(m)         == SortSeq(m, LAMBDA x, y : x.n < y.n)

\* outcome of a relative move: [m |-> new mapping, r |-> result]
\* (item = reference -> ValueError, checked first as the statement says "re-ordering a key
\*  relative to itself raises ValueError"; a missing item or reference -> KeyError)
MRel(m, n, r, f(_, _, _)) ==
    IF n = r THEN [m |-> m, r |-> "ValueError"]
    ELSE IF ~MHas(m, n) \/ ~MHas(m, r) THEN [m |-> m, r |-> "KeyError"]
    ELSE [m |-> f(m, n, r), r |-> "ok"]
MMove(m, n, f(_, _)) == IF MHas(m, n) THEN [m |-> f(m, n), r |-> "ok"] ELSE [m |-> m, r |-> "KeyError"]

----------------------------------------------------------------------------
Edge(op, args) == Emit => PrintT(<<"EDGE", ToJson([from |-> abs, op |-> op, args |-> args, res |-> res', to |-> abs'])>>)

Init == abs = <<>> /\ res = "ok"

Set(n, s, v) == abs' = MSet(abs, n, s, v) /\ res' = "ok" /\ Edge("set", <<n, s, v>>)
Get(n)       == /\ abs' = abs
                /\ res' = IF MHas(abs, n) THEN MGet(abs, n).v ELSE "KeyError"
                /\ Edge("get", <<n>>)
Has(n)       == abs' = abs /\ res' = (IF MHas(abs, n) THEN "true" ELSE "false") /\ Edge("has", <<n>>)
Del(n)       == /\ IF MHas(abs, n) THEN abs' = MRm(abs, n) /\ res' = "ok"
                                   ELSE abs' = abs /\ res' = "KeyError"
                /\ Edge("del", <<n>>)
Apply(o)     == abs' = o.m /\ res' = o.r
MoveFirst(n)     == Apply(MMove(abs, n, MFirst)) /\ Edge("first", <<n>>)
MoveLast(n)      == Apply(MMove(abs, n, MLast)) /\ Edge("last", <<n>>)
MoveBefore(n, r) == Apply(MRel(abs, n, r, MBefore)) /\ Edge("before", <<n, r>>)
MoveAfter(n, r)  == Apply(MRel(abs, n, r, MAfter)) /\ Edge("after", <<n, r>>)
Sort         == abs' = MSort(abs) /\ res' = "ok" /\ Edge("sort", <<>>)
\* copy() and dump()+parse rebuild the object; the mapping they produce must be the same
Copy         == abs' = abs /\ res' = "ok" /\ Edge("copy", <<>>)
DumpParse    == abs' = abs /\ res' = "ok" /\ Edge("dumpparse", <<>>)

Next == \/ \E n \in Names : \/ \E s \in Spells, v \in Values : Set(n, s, v)
                            \/ Get(n) \/ Has(n) \/ Del(n) \/ MoveFirst(n) \/ MoveLast(n)
                            \/ \E r \in Names : MoveBefore(n, r) \/ MoveAfter(n, r)
        \/ Sort \/ Copy \/ DumpParse

Spec == Init /\ [][Next]_avars
AbsView == abs        \* res is an output, no action reads it: states are identified by abs

----------------------------------------------------------------------------
\* properties of the reference itself
TypeOK      == /\ \A i \in 1..Len(abs) : abs[i].n \in Names /\ abs[i].s \in Spells /\ abs[i].v \in Values
NamesUnique == MUnique(abs)
\* a failing call leaves the mapping unchanged
ErrAtomic   == [][res' \in {"KeyError", "ValueError"} => abs' = abs]_avars
\* the spelling of a name never changes while the name stays in the mapping
SpellingKept == [][\A n \in Names : (MHas(abs, n) /\ MHas(abs', n)) => MGet(abs', n).s = MGet(abs, n).s]_avars
\* only Set/Del change the key set or a value; re-ordering is a permutation
PermutationOnly == [][(Len(abs') = Len(abs)) => \A n \in Names : MHas(abs, n) <=> MHas(abs', n)]_avars
=============================================================================
