CONSTANTS
  ApEntries = {"replace_file", "download_file", "download_gunzip_lines"}
  ApMode = "std"
  ApMaxW = 2
  ApBuffered = FALSE
  ApEmit = TRUE
SPECIFICATION ApSpec
CHECK_DEADLOCK FALSE
INVARIANT OldOrNew
