CONSTANTS
  NC = 8
  Chunk = 5
  Classes = {0, 1}
  Scripts <- MCScripts
  ShortLen = 3
  LongLens = {6, 11}
  LongErr = TRUE
  ArgK = {0, 1, 2, 3, 6, 7}
  Lims <- LimsSix
  Preds <- PredsThree
  MaxGens = 1
  Latch = TRUE
  UseClosed = FALSE
  Bug = "none"
  Emit = FALSE
SPECIFICATION Spec
INVARIANT RTypeOK
INVARIANT ITypeOK
INVARIANT OutIsPrefix
INVARIANT Refines
INVARIANT GensAgree
INVARIANT ReadAhead
INVARIANT NoRepoll
INVARIANT ExpiredOK
PROPERTY SameResult
PROPERTY PeekPure
PROPERTY Monotone
PROPERTY ErrAtomic
VIEW View
