CONSTANTS
  FDirRaises = FALSE
  FUniSpace = FALSE
  FLstrip = FALSE
  FNativeFirst = FALSE
  FKeepCR = FALSE
  FSharedName = FALSE
  FSharedTar = FALSE
  FHandleLast = FALSE
  Emit = FALSE
SPECIFICATION TSpec
CHECK_DEADLOCK FALSE
