--------------------------- MODULE Deb822OptsDocs ---------------------------
(***************************************************************************)
(* X16 -- bounded enumeration of DOCUMENTS for the reading options of       *)
(* Deb822Opts.tla: every sequence of at most MaxLines lines over the        *)
(* alphabet                                                                 *)
(*   F1C F1L F2C F2L  'Name: data' for two names in two spellings           *)
(*   M1C              'Name:' (empty first line)                            *)
(*   C  B  W1  W2  #  continuation, empty, white space (1 / >= 2), comment  *)
(* (the token of line i is "t<i>"), under both values of the strictness     *)
(* flag and the six filters of Wants.  The laws below are the statement R   *)
(* of Deb822Opts.tla in algebraic form; they are checked for EVERY such     *)
(* document (also the ill-formed ones: the model follows the code there),   *)
(* the armor laws for every block of field / continuation lines.            *)
(* CASE lines (Emit): one per document that is well-formed under at least   *)
(* one value of the flag and passes EmitMin, with the result of Deb822(..)  *)
(* and of iter_paragraphs for every (flag, filter) -- the statement's and,  *)
(* where different, the as-built one -- and of split_gpg_and_payload.       *)
(* ARMOR lines: the same for clearsigned paragraphs.                        *)
(*                                                                         *)
(* Negative controls (each must make TLC report the named invariant):       *)
(*   FExact    -> CaseInsensitiveFilter   (as built: finding)               *)
(*   FStop     -> FilterIsRestriction     (as built: finding)               *)
(*   FKeepCont -> FilterIsRestriction                                       *)
(*   FWsFlip   -> DefaultsLaw                                               *)
(***************************************************************************)
EXTENDS Deb822Opts

CONSTANTS MaxLines,       \* bound on the number of lines
          EmitMin,        \* CASE lines only for documents of at least so many lines
          FExact, FStop, FKeepCont, FWsFlip,
          Emit

VARIABLES doc

CfgFlags == Flags(FExact, FStop, FALSE, FKeepCont, FWsFlip, FALSE, FALSE)

Tok(i) == "t" \o ToString(i)
Syms == {"F1C", "F1L", "F2C", "F2L", "M1C", "C", "B", "W1", "W2", "#"}
Mk(sym, i) ==
    CASE sym = "F1C" -> Ln("F", 1, "C", Tok(i))
      [] sym = "F1L" -> Ln("F", 1, "L", Tok(i))
      [] sym = "F2C" -> Ln("F", 2, "C", Tok(i))
      [] sym = "F2L" -> Ln("F", 2, "L", Tok(i))
      [] sym = "M1C" -> Ln("M", 1, "C", Empty)
      [] sym = "C"   -> Ln("C", 0, "", Tok(i))
      [] sym = "B"   -> Ln("B", 0, "", Empty)
      [] sym = "W1"  -> Ln("W1", 0, "", Tok(i))
      [] sym = "W2"  -> Ln("W2", 0, "", Tok(i))
      [] sym = "#"   -> Ln("#", 0, "", Tok(i))

NS(n, s) == [n |-> n, s |-> s]
Wants == <<WantAll, WantOf(<<>>), WantOf(<<NS(1, "C")>>), WantOf(<<NS(1, "L")>>),
           WantOf(<<NS(2, "C"), NS(1, "C")>>), WantOf(<<NS(9, "C"), NS(2, "L")>>)>>
WIdx == 1..Len(Wants)

DInit == doc = <<>>
DNext == /\ Len(doc) < MaxLines
         /\ \E sym \in Syms : doc' = Append(doc, Mk(sym, Len(doc) + 1))
DSpec == DInit /\ [][DNext]_doc

----------------------------------------------------------------------------
NonEmpty(ps) == SelectSeq(ps, LAMBDA p : p # <<>>)
ItAll(d, ws) == Iter(d, ws, WantAll, CfgFlags)

\* the filter is the restriction of the unfiltered result: order and spelling of the input, unwanted
\* fields leave with their continuation lines, later paragraphs are not lost
FilterIsRestriction ==
    \A ws \in BOOLEAN, w \in WIdx :
        LET a == ItAll(doc, ws) IN
        Iter(doc, ws, Wants[w], CfgFlags) = NonEmpty([i \in 1..Len(a) |-> KeepOnly(a[i], Wants[w])])

CtorIsFirst ==
    \A ws \in BOOLEAN, w \in WIdx :
        LET a == ItAll(doc, ws) IN
        Ctor(doc, ws, Wants[w], CfgFlags) = IF a = <<>> THEN <<>> ELSE KeepOnly(a[1], Wants[w])

CaseInsensitiveFilter ==
    \A ws \in BOOLEAN : /\ Iter(doc, ws, Wants[3], CfgFlags) = Iter(doc, ws, Wants[4], CfgFlags)
                        /\ Ctor(doc, ws, Wants[3], CfgFlags) = Ctor(doc, ws, Wants[4], CfgFlags)

\* the order of the list and names that do not occur are irrelevant; an empty list keeps nothing
FilterIsASet ==
    \A ws \in BOOLEAN :
        /\ Iter(doc, ws, Wants[5], CfgFlags) = Iter(doc, ws, WantOf(<<NS(1, "C"), NS(2, "C")>>), CfgFlags)
        /\ Iter(doc, ws, WantOf(<<NS(9, "C"), NS(1, "C"), NS(8, "L")>>), CfgFlags) = Iter(doc, ws, Wants[3], CfgFlags)
        /\ Iter(doc, ws, Wants[2], CfgFlags) = <<>>
        /\ Iter(doc, ws, WantOf(<<NS(1, "C"), NS(2, "C")>>), CfgFlags) = ItAll(doc, ws)   \* only names 1, 2 occur

\* with the flag TRUE a white-space-only line IS a blank line; with FALSE one of a single character is ignored
WsToBlank(d)  == [i \in 1..Len(d) |-> IF IsWsC(d[i].c) THEN BLn ELSE d[i]]
DropW1(d)     == SelectSeq(d, LAMBDA ln : ln.c # "W1")
StrictLaw ==
    \A w \in WIdx :
        /\ Iter(doc, TRUE, Wants[w], CfgFlags) = Iter(WsToBlank(doc), TRUE, Wants[w], CfgFlags)
        /\ Iter(doc, TRUE, Wants[w], CfgFlags) = Iter(WsToBlank(doc), FALSE, Wants[w], CfgFlags)
        /\ Iter(doc, FALSE, Wants[w], CfgFlags) = Iter(DropW1(doc), FALSE, Wants[w], CfgFlags)

\* comments are invisible to the parser
DropComments(d) == SelectSeq(d, LAMBDA ln : ln.c # "#")
CommentLaw ==
    \A ws \in BOOLEAN : /\ ItAll(doc, ws) = ItAll(DropComments(doc), ws)
                        /\ Ctor(doc, ws, WantAll, CfgFlags) = Ctor(DropComments(doc), ws, WantAll, CfgFlags)

\* split_gpg_and_payload on unsigned input: ([], first run of non-blank lines, []), declaratively
Lead(d)      == {i \in 1..Len(d) : \A j \in 1..i : d[j].c = "B" \/ IsWsC(d[j].c)}
FirstIdx(d)  == Cardinality(Lead(d)) + 1
RunEnd(d, ws) == LET ends == {i \in FirstIdx(d)..Len(d) : IsBlank(d[i].c, ws)} IN
                 IF ends = {} THEN Len(d) ELSE (CHOOSE i \in ends : \A j \in ends : i <= j) - 1
SplitUnsigned ==
    \A ws \in BOOLEAN :
        LET r == Split(doc, ws) IN
        IF FirstIdx(doc) > Len(doc) THEN r.t = "err"
        ELSE /\ r.t = "split" /\ r.x.pre = <<>> /\ r.x.post = <<>>
             /\ r.x.pay = SubSeq(doc, FirstIdx(doc), RunEnd(doc, ws))
\* ... and the constructor parses exactly that part (documents without comments)
SplitFeedsParser ==
    \A ws \in BOOLEAN : doc = DropComments(doc) =>
        LET r == Split(doc, ws) IN
        Ctor(doc, ws, WantAll, CfgFlags) = IF r.t = "err" THEN <<>> ELSE Assemble(r.x.pay, WantAll, CfgFlags)

\* clearsign armor around one block of field / continuation lines
IsBlock(d) == d # <<>> /\ d[1].c \in {"F", "M"} /\ \A i \in 1..Len(d) : d[i].c \in {"F", "M", "C"}
ArmorShapes == {<<nh, bl, sb, ng>> : nh \in 0..2, bl \in BOOLEAN, sb \in BOOLEAN, ng \in 1..2}
ArmorLaw ==
    IsBlock(doc) => \A sh \in ArmorShapes, ws \in BOOLEAN :
        LET a == Armor(doc, sh[1], sh[2], sh[3], sh[4])
            r == Split(a, ws)
        IN /\ r.t = "split" /\ r.x.pre = ArmorPre(sh[1]) /\ r.x.pay = doc /\ r.x.post = ArmorPost(sh[3], sh[4])
           /\ \A w \in {1, 3} : /\ Ctor(a, ws, Wants[w], CfgFlags) = Ctor(doc, ws, Wants[w], CfgFlags)
                                /\ Iter(a, ws, Wants[w], CfgFlags) = Iter(doc, ws, Wants[w], CfgFlags)

ResultsUnique == \A ws \in BOOLEAN : LET a == ItAll(doc, ws) IN \A i \in 1..Len(a) : MUnique(a[i])

\* defaults of the strictness flag (constant level, tiny: an INVARIANT so that the negative control is a
\* reported violation)
DefaultsLaw ==
    /\ Len(doc) >= 0          \* (state level on purpose: a constant-level invariant that is false is a TLC error, not a violation)
    /\ \A api \in {"iter", "ctor"}, arg \in {"none", "empty", "other"} : EffWs("plain", api, arg, CfgFlags)
    /\ \A arg \in {"none", "empty"} : ~EffWs("lenient", "iter", arg, CfgFlags) /\ EffWs("lenient", "ctor", arg, CfgFlags)
    /\ \A cls \in {"plain", "lenient"}, api \in {"iter", "ctor"} : EffWs(cls, api, "T", CfgFlags) /\ ~EffWs(cls, api, "F", CfgFlags)

----------------------------------------------------------------------------
\* emission
Same(k, s) == IF k = s THEN "=" ELSE k
\* as-built results: "=" when no defect switch changes anything, else what `exact` alone (e), `stop` alone (s)
\* and both (b) give, so that the harness can attribute a divergence to ONE finding
FX(exact, stop) == Flags(exact, stop, FALSE, FALSE, FALSE, FALSE, FALSE)
PerWant(ws) == [w \in WIdx |->
    LET c  == Ctor(doc, ws, Wants[w], StmtFlags)
        i  == Iter(doc, ws, Wants[w], StmtFlags)
        ie == Iter(doc, ws, Wants[w], FX(TRUE, FALSE))
        is == Iter(doc, ws, Wants[w], FX(FALSE, TRUE))
        ib == Iter(doc, ws, Wants[w], FX(TRUE, TRUE))
    IN [c |-> c, i |-> i, kc |-> Same(Ctor(doc, ws, Wants[w], BuiltFlags), c),
        ki |-> IF ie = i /\ is = i /\ ib = i THEN "=" ELSE [e |-> ie, s |-> is, b |-> ib]]]
Case(ws) == [dom |-> InDomain(doc, ws), w |-> PerWant(ws), split |-> Split(doc, ws)]
EmitCase ==
    (Emit /\ Len(doc) >= EmitMin /\ (InDomain(doc, TRUE) \/ InDomain(doc, FALSE))) =>
        PrintT(<<"CASE", ToJson([doc |-> doc, T |-> Case(TRUE), F |-> Case(FALSE)])>>)
EmitArmor ==
    (Emit /\ IsBlock(doc) /\ InDomain(doc, TRUE)) =>
        \A sh \in ArmorShapes :
            LET a == Armor(doc, sh[1], sh[2], sh[3], sh[4]) IN
            PrintT(<<"ARMOR", ToJson([doc |-> a, sh |-> sh, split |-> Split(a, TRUE),
                                      c |-> Ctor(a, TRUE, WantAll, StmtFlags), i |-> Iter(a, TRUE, WantAll, StmtFlags)])>>)
\* the tables of defaults and of the filters, once
ASSUME Emit => PrintT(<<"TABLE", ToJson([wants |-> Wants,
    effws |-> [cls \in {"plain", "lenient"} |-> [api \in {"iter", "ctor"} |->
                 [arg \in {"none", "empty", "T", "F", "other"} |-> EffWs(cls, api, arg, StmtFlags)]]]])>>)
=============================================================================
