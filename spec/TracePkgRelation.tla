------------------------- MODULE TracePkgRelation -------------------------
(***************************************************************************)
(* C13 -- trace validation: executions recorded from the real              *)
(* PkgRelation.str / PkgRelation.parse_relations (harness/props/c13.py)    *)
(* are checked against Format / Parse of PkgRelation.                      *)
(*                                                                         *)
(* A trace of kind "rt" is one format -> parse -> format execution on a    *)
(* random structure (deeper than the model-checked space):                 *)
(*   [kind, r, t, p, warn, exc, t2, same, tc,                              *)
(*    re, rs, ts, ps, warns, sames, fmtsame, pm, mixok, ed]                *)
(*   r     the structure given to PkgRelation.str (atoms as in PkgRelation,*)
(*         payload strings interned to ids)                                *)
(*   t     the produced string as token codes (independent tokenizer of    *)
(*         the harness; EncTok / DecTok)                                   *)
(*   p     what parse_relations returned for that string, same abstraction *)
(*   warn  a warning was emitted;  exc: name of an exception raised ("")   *)
(*   t2    str(p) as token codes;  same: str(p) == the first string        *)
(* Steps (l):                                                              *)
(*   1 Format(r) = t      DIAGNOSTIC: blank details of the formatter are   *)
(*                        not part of the property; a mismatch prints      *)
(*                        <<"REJECT", tid, "format">> (reported as drift)  *)
(*                        and the trace goes on                            *)
(*   2 Parse(t) = [p, warn], no exception: the parser automaton of the     *)
(*                        specification explains what the code returned    *)
(*   3 p = r, no warning  (Inverse, NoWarning)                             *)
(*   4 t2 = t, same       (Stable)                                         *)
(*     tc = t: the input dicts had their keys inserted in a random order;  *)
(*     tc is the string of an EQUAL structure with the keys in the order   *)
(*     of parse_relations -- Format is a function of the structure alone   *)
(*   5 history (PkgRelationMemo): after step 4 the harness EDITED the      *)
(*     returned structure in place (appended to every arch list, reversed  *)
(*     and extended every restriction formula, popped keys) and parsed the *)
(*     SAME string again, edited THAT result and parsed a third time:      *)
(*     re = <<[p, warn, same]>> (same: str(p) == the string).  Parse(t) -- *)
(*     memo-free, history-free -- must still explain every one of them:    *)
(*     Parse(t) = re[i].p = r, no warning                                  *)
(*   6 then a DIFFERENT relation rs that shares an alternative with r was  *)
(*     formatted (ts), parsed (ps, warns) and formatted again (sames):     *)
(*     Parse(ts) = ps = rs, no warning; fmtsame: str(r) gave the first     *)
(*     string again after an edited deep copy of r had been formatted      *)
(*     (the formatter remembers nothing)                                   *)
(*     pm / mixok: the first string put into a relation field of a         *)
(*     Packages / Sources / BuildInfo paragraph (a rotating field, input   *)
(*     form and key spelling) and read back through its `relations`        *)
(*     property, the paragraph not modified since construction:            *)
(*     Parse(t) = pm = r; mixok: no warning, str(pm) == the string, the    *)
(*     other relation fields are []                                        *)
(*   7 EDITS IN PLACE: the harness parsed the first string once more and   *)
(*     edited THAT structure through the real list / dict methods (ed.es,  *)
(*     edits as in PkgRelation: any container at any nesting level -- the  *)
(*     result list, a conjunct, a dict key, an arch list, a formula, a     *)
(*     group; append / insert / delete / item assignment / reverse), then  *)
(*     formatted it (ed.t), parsed that (ed.p, ed.warn) and formatted      *)
(*     again (ed.same); ed.live is the edited object itself, abstracted;   *)
(*     ed.on: the harness did this leg (the harness decides, not the code) *)
(*     The specification derives the edited structure e from the parse of  *)
(*     step 2 with EditTrail (every edit applicable): ed.live = e, and the *)
(*     statement for e -- a structure like any other, however the caller   *)
(*     came by it: Parse(ed.t) = ed.p = e, no warning, same string again   *)
(* <<"ACCEPTED", tid>> is printed for a trace that passes 2 .. 7.          *)
(*                                                                         *)
(* A trace of kind "probe" (DIAGNOSTIC, a rejection is reported as drift)  *)
(* is one parse_relations call on a string that is NOT formatter output:   *)
(* formatter output with the blanks between tokens changed at random and   *)
(* sometimes a token dropped.  Only step 2 applies: Parse must predict the *)
(* returned structure, the warning and the exception (IndexError of        *)
(* parse_archs on a blank architecture list).  It measures how well the    *)
(* automaton matches the blank tolerance of the real regexes.              *)
(***************************************************************************)
EXTENDS PkgRelation, IOUtils, TLCExt

Traces == JsonDeserialize(IOEnv.TRACE_FILE)
Diag   == IOEnv.TRACE_DIAG = "1"

VARIABLES tid, l
tvars == <<vars, tid, l>>

Tr == Traces[tid]
Toks(codes) == [i \in 1..Len(codes) |-> DecTok(codes[i])]

TInit == /\ tid \in 1..Len(Traces)
         /\ l = 1
         /\ rel = <<>>
         /\ ctx = "trace"
         /\ kord = CanonOrder

Advance == /\ l' = l + 1
           /\ UNCHANGED <<vars, tid>>
           /\ (Diag => PrintT(<<"AT", tid, l>>))

TFormat == /\ Tr.kind = "rt"
           /\ l = 1
           /\ (Format(Tr.r) # Toks(Tr.t)) => PrintT(<<"REJECT", tid, "format">>)
           /\ Advance

TParse == /\ Tr.kind = "rt"
          /\ l = 2
          /\ Tr.exc = ""
          /\ LET p == Parse(Toks(Tr.t))
             IN ~p.exc /\ p.warn = Tr.warn /\ p.rel = Tr.p
          /\ Advance

TInverse == /\ Tr.kind = "rt"
            /\ l = 3
            /\ ~Tr.warn
            /\ Tr.p = Tr.r
            /\ Advance

TStable == /\ Tr.kind = "rt"
           /\ l = 4
           /\ Tr.same
           /\ Tr.t2 = Tr.t
           /\ Tr.tc = Tr.t
           /\ Advance

TReparse == /\ Tr.kind = "rt"
            /\ l = 5
            /\ Len(Tr.re) >= 2
            \* (step 2 found Parse(Toks(Tr.t)) = [rel |-> Tr.p, warn |-> Tr.warn], no exception: the
            \*  memo-free parse of the string is not evaluated again -- fields of a thousand relations)
            /\ LET p == [rel |-> Tr.p, warn |-> Tr.warn]
               IN \A i \in 1..Len(Tr.re) :
                     /\ p.warn = Tr.re[i].warn /\ p.rel = Tr.re[i].p
                     /\ ~Tr.re[i].warn
                     /\ Tr.re[i].p = Tr.r
                     /\ Tr.re[i].same
            /\ Advance

TShare == /\ Tr.kind = "rt"
          /\ l = 6
          /\ LET p == Parse(Toks(Tr.ts))
             IN ~p.exc /\ p.warn = Tr.warns /\ p.rel = Tr.ps
          /\ ~Tr.warns
          /\ Tr.ps = Tr.rs
          /\ Tr.sames
          /\ Tr.fmtsame
          /\ Tr.p = Tr.pm                       \* Tr.p = Parse(Toks(Tr.t)).rel (step 2)
          /\ Tr.pm = Tr.r
          /\ Tr.mixok
          /\ Advance

TEdited == /\ Tr.kind = "rt"
           /\ l = 7
           /\ Tr.ed.on => Len(Tr.ed.es) >= 1
           /\ ~Tr.ed.on => Tr.ed.es = <<>>                   \* (the quick tier edits after every other execution)
           /\ Tr.ed.on =>
              LET tr == EditTrail(Tr.p, Tr.ed.es, 1)          \* Tr.p = Parse(Toks(Tr.t)).rel (step 2) = Tr.r (step 3)
              IN /\ Len(tr) = Len(Tr.ed.es)                   \* every edit was applicable
                 /\ LET e == tr[Len(tr)]
                        p == Parse(Toks(Tr.ed.t))
                    IN /\ Tr.ed.live = e                      \* the object the caller holds has the value the model says
                       /\ ~p.exc /\ p.warn = Tr.ed.warn /\ p.rel = Tr.ed.p
                       /\ ~Tr.ed.warn
                       /\ Tr.ed.p = e
                       /\ Tr.ed.same
           /\ Advance
           /\ PrintT(<<"ACCEPTED", tid>>)

TProbe == /\ Tr.kind = "probe"
          /\ l = 1
          /\ LET p == Parse(Toks(Tr.t))
             IN IF Tr.exc # "" THEN p.exc
                ELSE ~p.exc /\ p.warn = Tr.warn /\ p.rel = Tr.p
          /\ Advance
          /\ PrintT(<<"ACCEPTED", tid>>)

TNext == TFormat \/ TParse \/ TInverse \/ TStable \/ TReparse \/ TShare \/ TEdited \/ TProbe
TSpec == TInit /\ [][TNext]_tvars
=============================================================================
