------------------------- MODULE TracePkgRelation -------------------------
(***************************************************************************)
(* C13 -- trace validation: executions recorded from the real              *)
(* PkgRelation.str / PkgRelation.parse_relations (harness/props/c13.py)    *)
(* are checked against Format / Parse of PkgRelation.                      *)
(*                                                                         *)
(* A trace is one format -> parse -> format execution on a random          *)
(* structure (deeper than the model-checked space):                        *)
(*   [r, t, p, warn, exc, t2, same]                                        *)
(*   r     the structure given to PkgRelation.str (atoms as in PkgRelation,*)
(*         payload strings interned to ids)                                *)
(*   t     the produced string as token codes (independent tokenizer of    *)
(*         the harness; EncTok / DecTok)                                   *)
(*   p     what parse_relations returned for that string, same abstraction *)
(*   warn  a warning was emitted;  exc: name of an exception raised ("")   *)
(*   t2    str(p) as token codes;  same: str(p) == the first string        *)
(* Steps (l):                                                              *)
(*   1 Format(r) = t      DIAGNOSTIC: blank details of the formatter are   *)
(*                        not part of the property; a mismatch prints      *)
(*                        <<"REJECT", tid, "format">> (reported as drift)  *)
(*                        and the trace goes on                            *)
(*   2 Parse(t) = [p, warn], no exception: the parser automaton of the     *)
(*                        specification explains what the code returned    *)
(*   3 p = r, no warning  (Inverse, NoWarning)                             *)
(*   4 t2 = t, same       (Stable)                                         *)
(* <<"ACCEPTED", tid>> is printed for a trace that passes 2, 3 and 4.      *)
(***************************************************************************)
EXTENDS PkgRelation, IOUtils, TLCExt

Traces == JsonDeserialize(IOEnv.TRACE_FILE)
Diag   == IOEnv.TRACE_DIAG = "1"

VARIABLES tid, l
tvars == <<vars, tid, l>>

Tr == Traces[tid]
Toks(codes) == [i \in 1..Len(codes) |-> DecTok(codes[i])]

TInit == /\ tid \in 1..Len(Traces)
         /\ l = 1
         /\ rel = <<>>
         /\ ctx = "trace"

Advance == /\ l' = l + 1
           /\ UNCHANGED <<vars, tid>>
           /\ (Diag => PrintT(<<"AT", tid, l>>))

TFormat == /\ l = 1
           /\ (Format(Tr.r) # Toks(Tr.t)) => PrintT(<<"REJECT", tid, "format">>)
           /\ Advance

TParse == /\ l = 2
          /\ Tr.exc = ""
          /\ LET p == Parse(Toks(Tr.t))
             IN ~p.exc /\ p.warn = Tr.warn /\ p.rel = Tr.p
          /\ Advance

TInverse == /\ l = 3
            /\ ~Tr.warn
            /\ Tr.p = Tr.r
            /\ Advance

TStable == /\ l = 4
           /\ Tr.same
           /\ Tr.t2 = Tr.t
           /\ Advance
           /\ PrintT(<<"ACCEPTED", tid>>)

TNext == TFormat \/ TParse \/ TInverse \/ TStable
TSpec == TInit /\ [][TNext]_tvars
=============================================================================
