CONSTANTS
  MaxLen = 0
  MaxLines = 0
  BigSel = {}
  Emit = TRUE
  DashFirstOK = FALSE
  CommentClosesField = FALSE
  DupAcrossBlank = FALSE
  CaseSensitiveDup = FALSE
  MaxEv = 2
  LeakOpen = FALSE
  LeakPara = FALSE
SPECIFICATION CSpec
INVARIANT CallLocal
INVARIANT EmitHist
PROPERTY Untouched
CHECK_DEADLOCK FALSE
