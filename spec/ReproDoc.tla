------------------------------ MODULE ReproDoc ------------------------------
(***************************************************************************)
(* C05 / C10 -- reference model of a document held by the format-          *)
(* preserving deb822 parser (debian._deb822_repro) and of the edits made   *)
(* through Deb822ParagraphElement / Deb822FileElement.                     *)
(*                                                                         *)
(* A document is a sequence of parts: paragraphs and separators (blank     *)
(* lines, possibly with a free-floating comment).  A paragraph is a        *)
(* sequence of field instances                                             *)
(*     [n |-> name, s |-> spelling, v |-> value blob, c |-> comment blob]  *)
(* A name is the case-folded identity of the field (its rank in sort       *)
(* order); the spelling is that of the field-name token; v identifies the  *)
(* exact text of the value (an original blob 1..K, or NewS / NewM for a    *)
(* value written by an edit); c identifies the comment lines attached to   *)
(* the field (0 = none).  The text of a field is a function of these four, *)
(* so "only whole fields are moved/removed/inserted, byte for byte" is     *)
(* exactly: dump = concatenation of the instance texts in model order.     *)
(* A paragraph also remembers whether it was parsed with duplicated        *)
(* fields (dup): the code uses a different class for those, and an index   *)
(* other than 0 is only meaningful there.                                  *)
(*                                                                         *)
(* Keys: [n |-> name, i |-> -1] is the plain name, [n, i >= 0] is (name,i) *)
(* = the i-th occurrence in document order.                                *)
(***************************************************************************)
EXTENDS Integers, Sequences, FiniteSets, TLC, Json

CONSTANTS Names,        \* ranks 1..k
          Start,        \* set of start documents
          MaxParas,     \* insert/append are offered while the document has fewer paragraphs
          EditFields,   \* TRUE: field-level actions are offered (FALSE: only insert/append)
          SetVals,      \* value blobs offered to assignments (subset of NewVals)
          SetSpells,    \* spellings offered to assignments
          Ops,          \* names of the actions offered ("get","set","del","first","last","before","after","sort","insert","append")
          Emit

NewS == 101             \* value blob of a single-line value written by an edit
NewM == 102             \* ... of a multi-line value
NewVals == {NewS, NewM}
NoIdx == -1

VARIABLES doc, res
dvars == <<doc, res>>

\* ------------------------------------------------------------------ pure operators
Idx(s)          == 1..Len(s)
RSeqOf(s, P)    == \* subsequence of s at the positions in P (ascending)
                   LET RECURSIVE go(_)
                       go(j) == IF j > Len(s) THEN <<>>
                                ELSE (IF j \in P THEN <<s[j]>> ELSE <<>>) \o go(j + 1)
                   IN go(1)
ROcc(fs, n)     == RSeqOf([j \in Idx(fs) |-> j], {j \in Idx(fs) : fs[j].n = n})   \* positions of n, in order
RHas(fs, n)     == \E j \in Idx(fs) : fs[j].n = n
RCount(fs, n)   == Cardinality({j \in Idx(fs) : fs[j].n = n})

\* positions addressed by a key; <<>> when the name is absent or the index is out of range
RResolve(fs, key) == LET occ == ROcc(fs, key.n)
                     IN IF key.i = NoIdx THEN occ
                        ELSE IF key.i + 1 <= Len(occ) THEN <<occ[key.i + 1]>> ELSE <<>>
RSet(q)         == {q[j] : j \in Idx(q)}

\* why a key cannot be used:  "" = usable
\*   in a paragraph parsed without duplicates an index other than 0 is a KeyError
RKeyErr(p, key) == IF ~p.dup /\ key.i > 0 THEN "KeyError"
                   ELSE IF ~RHas(p.fs, key.n) THEN "KeyError"
                   ELSE IF RResolve(p.fs, key) = <<>> THEN "IndexError"    \* present, index out of range
                   ELSE ""

RMoved(fs, P)   == RSeqOf(fs, P)
RRest(fs, P)    == RSeqOf(fs, Idx(fs) \ P)
\* number of kept elements strictly before original position j
RKeptBefore(fs, P, j) == Cardinality({x \in Idx(fs) \ P : x < j})

RFirst(fs, P)   == RMoved(fs, P) \o RRest(fs, P)
RLast(fs, P)    == RRest(fs, P) \o RMoved(fs, P)
RBefore(fs, P, r) == LET rest == RRest(fs, P) k == RKeptBefore(fs, P, r)
                     IN SubSeq(rest, 1, k) \o RMoved(fs, P) \o SubSeq(rest, k + 1, Len(rest))
RAfter(fs, P, r)  == LET rest == RRest(fs, P) k == RKeptBefore(fs, P, r) + 1
                     IN SubSeq(rest, 1, k) \o RMoved(fs, P) \o SubSeq(rest, k + 1, Len(rest))

\* stable sort by name
RSort(fs) == LET RECURSIVE go(_)
                 go(ns) == IF ns = {} THEN <<>>
                           ELSE LET m == CHOOSE x \in ns : \A y \in ns : x <= y
                                IN RSeqOf(fs, {j \in Idx(fs) : fs[j].n = m}) \o go(ns \ {m})
             IN go({fs[j].n : j \in Idx(fs)})

\* assignment.  plain name: the first occurrence is replaced (keeping its spelling and its
\* comment) and all other occurrences disappear; (name, i): that occurrence is replaced.
\* an absent name is appended with the given spelling and no comment.
RAssign(fs, key, s, v) ==
   IF ~RHas(fs, key.n) THEN Append(fs, [n |-> key.n, s |-> s, v |-> v, c |-> 0])
   ELSE LET occ == ROcc(fs, key.n)
            tgt == IF key.i = NoIdx THEN occ[1] ELSE occ[key.i + 1]
            drop == IF key.i = NoIdx THEN RSet(occ) \ {tgt} ELSE {}
            fs1 == [fs EXCEPT ![tgt].v = v]
        IN RSeqOf(fs1, Idx(fs) \ drop)

\* ------------------------------------------------------------------ document level
ParaPos    == RSeqOf([j \in Idx(doc) |-> j], {j \in Idx(doc) : doc[j].t = "p"})   \* positions of paragraphs
NParas     == Len(ParaPos)
Para(p)    == doc[ParaPos[p]]
SetPara(p, fs) == [doc EXCEPT ![ParaPos[p]].fs = fs]
MkPara(dup, fs) == [t |-> "p", dup |-> dup, fs |-> fs, id |-> 0]
MkSep(id)       == [t |-> "s", dup |-> FALSE, fs |-> <<>>, id |-> id]
NewSep     == 100       \* the single newline token inserted by insert/append
\* the paragraph created by the harness for insert/append:  one new field
NewPara(n) == MkPara(FALSE, <<[n |-> n, s |-> "U", v |-> NewS, c |-> 0]>>)

Edge(op, args) == Emit => PrintT(<<"EDGE", ToJson([from |-> doc, op |-> op, args |-> args, res |-> res', to |-> doc'])>>)
Fail(e)  == doc' = doc /\ res' = e
Ok(d)    == doc' = d /\ res' = "ok"

KeyArg(key) == <<key.n, key.i>>

\* ---- C05: dict interface
Get(p, key) ==
   /\ LET e == RKeyErr(Para(p), key)
      IN IF e # "" THEN Fail(e)
         ELSE doc' = doc /\ res' = ToString(Para(p).fs[RResolve(Para(p).fs, key)[1]].v)
   /\ Edge("get", <<p, KeyArg(key)>>)

Assign(p, key, s, v) ==
   /\ LET P == Para(p) IN
      IF ~P.dup /\ key.i > 0 THEN Fail("KeyError")
      ELSE IF ~RHas(P.fs, key.n) /\ key.i > 0 THEN Fail("KeyError")
      ELSE IF RHas(P.fs, key.n) /\ key.i # NoIdx /\ RResolve(P.fs, key) = <<>> THEN Fail("IndexError")
      ELSE Ok(SetPara(p, RAssign(P.fs, key, s, v)))
   /\ Edge("set", <<p, KeyArg(key), s, v>>)

\* deletion; never offered when it would leave the paragraph empty
DelOK(p, key) == LET P == Para(p) q == RResolve(P.fs, key)
                 IN RKeyErr(P, key) # "" \/ Len(q) < Len(P.fs)
Del(p, key) ==
   /\ DelOK(p, key)
   /\ LET P == Para(p) e == RKeyErr(P, key)
      IN IF e # "" THEN Fail(e)
         ELSE Ok(SetPara(p, RRest(P.fs, RSet(RResolve(P.fs, key)))))
   /\ Edge("del", <<p, KeyArg(key)>>)

\* ---- C10: structural edits
Move(p, key, f(_, _), op) ==
   /\ LET P == Para(p) e == RKeyErr(P, key)
      IN IF e # "" THEN Fail(IF e = "IndexError" THEN "KeyError" ELSE e)
         ELSE Ok(SetPara(p, f(P.fs, RSet(RResolve(P.fs, key)))))
   /\ Edge(op, <<p, KeyArg(key)>>)
OrderFirst(p, key) == Move(p, key, RFirst, "first")
OrderLast(p, key)  == Move(p, key, RLast, "last")

\* relative moves: "before" targets the first, "after" the last occurrence the reference key
\* denotes; moving something relative to (one of) itself is a ValueError
Rel(p, key, ref, before) ==
   /\ LET P  == Para(p)
          e  == RKeyErr(P, key)
          er == RKeyErr(P, ref)
      IN IF (e # "" \/ er # "") /\ key.n = ref.n /\ ~RHas(P.fs, key.n) THEN Fail("KeyOrValueError")  \* unspecified
         ELSE IF e # "" THEN Fail("KeyError")
         ELSE IF er # "" THEN Fail("KeyError")
         ELSE LET Pm == RSet(RResolve(P.fs, key))
                  rq == RResolve(P.fs, ref)
                  r  == IF before THEN rq[1] ELSE rq[Len(rq)]
              IN IF r \in Pm THEN Fail("ValueError")
                 ELSE Ok(SetPara(p, IF before THEN RBefore(P.fs, Pm, r) ELSE RAfter(P.fs, Pm, r)))
   /\ Edge(IF before THEN "before" ELSE "after", <<p, KeyArg(key), KeyArg(ref)>>)

SortFields(p) == Ok(SetPara(p, RSort(Para(p).fs))) /\ Edge("sort", <<p>>)

\* Deb822FileElement.insert(idx, para): the new paragraph becomes paragraph number idx (0-based);
\* idx = 0 puts it in front of everything, an index past the end appends; a newline token
\* separates it from what follows.  append: a newline token is added unless the document ends
\* in a separator (or is empty).
InsertPara(idx, n) ==
   /\ NParas < MaxParas
   /\ LET np == NewPara(n) IN
      IF doc = <<>> THEN Ok(<<np>>)
      ELSE IF idx = 0 THEN Ok(<<np, MkSep(NewSep)>> \o doc)
      ELSE IF idx + 1 <= NParas
           THEN LET k == ParaPos[idx + 1]
                IN Ok(SubSeq(doc, 1, k - 1) \o <<np, MkSep(NewSep)>> \o SubSeq(doc, k, Len(doc)))
      ELSE Ok(doc \o (IF doc[Len(doc)].t = "s" THEN <<np>> ELSE <<MkSep(NewSep), np>>))
   /\ Edge("insert", <<idx, n>>)
AppendPara(n) ==
   /\ NParas < MaxParas
   /\ LET np == NewPara(n) IN
      IF doc = <<>> THEN Ok(<<np>>)
      ELSE Ok(doc \o (IF doc[Len(doc)].t = "s" THEN <<np>> ELSE <<MkSep(NewSep), np>>))
   /\ Edge("append", <<n>>)

\* ------------------------------------------------------------------ behaviours
\* keys worth exploring: every plain name; every valid (name, i) of a duplicated name; and for the
\* smallest name also (name, 0) when it is unique or absent and one index past the range
MinName == CHOOSE x \in Names : \A y \in Names : x <= y
GoodKeys(p) == LET fs == Para(p).fs IN
   {[n |-> n, i |-> NoIdx] : n \in Names}
   \cup {k \in [n : Names, i : 0..2] : RCount(fs, k.n) >= 2 /\ k.i < RCount(fs, k.n)}
   \cup {[n |-> MinName, i |-> i] : i \in 0..RCount(fs, MinName)}

Init == doc \in Start /\ res = "ok"

Next == \/ \E p \in 1..NParas :
             /\ EditFields
             /\ Para(p).id = 0         \* paragraphs with id 1 are context: present in the document, never edited
             /\ \/ \E k \in GoodKeys(p) :
                   \/ ("get" \in Ops /\ Get(p, k))
                   \/ ("del" \in Ops /\ Del(p, k))
                   \/ ("first" \in Ops /\ OrderFirst(p, k))
                   \/ ("last" \in Ops /\ OrderLast(p, k))
                   \/ ("set" \in Ops /\ \E s \in SetSpells, v \in SetVals : Assign(p, k, s, v))
                   \/ \E r \in GoodKeys(p) : \/ ("before" \in Ops /\ Rel(p, k, r, TRUE))
                                              \/ ("after" \in Ops /\ Rel(p, k, r, FALSE))
                \/ ("sort" \in Ops /\ SortFields(p))
        \/ \E n \in Names : \/ ("append" \in Ops /\ AppendPara(n))
                             \/ ("insert" \in Ops /\ \E idx \in 0..NParas : InsertPara(idx, n))

Spec == Init /\ [][Next]_dvars
DocView == doc

\* ------------------------------------------------------------------ properties of the reference
Fields(d) == UNION {{<<j, i>> : i \in Idx(d[j].fs)} : j \in Idx(d)}
Inst(d, x) == d[x[1]].fs[x[2]]
\* bag of (name, spelling, comment) triples and of value blobs, as functions to Nat
CountIn(d, pred(_)) == Cardinality({x \in Fields(d) : pred(Inst(d, x))})

NoEmptyPara == \A j \in Idx(doc) : doc[j].t = "p" => doc[j].fs # <<>>
\* two paragraphs are never adjacent (inserted paragraphs cannot merge with neighbours)
ParasSeparated == \A j \in 1..(Len(doc) - 1) : ~(doc[j].t = "p" /\ doc[j + 1].t = "p")
\* a paragraph parsed without duplicates never acquires any
NoDupStaysUnique == \A j \in Idx(doc) : (doc[j].t = "p" /\ ~doc[j].dup) =>
                        \A a, b \in Idx(doc[j].fs) : doc[j].fs[a].n = doc[j].fs[b].n => a = b
\* a failing call changes nothing
ErrAtomic == [][res' \notin {"ok"} /\ res' \notin {ToString(x) : x \in 1..200} => doc' = doc]_dvars
\* moves and sorting only permute: no original blob is ever duplicated
NoBlobDuplication ==
   \A b \in 1..99 : CountIn(doc, LAMBDA e : e.v = b) <= 1
\* original comments are never duplicated either and stay with a field of the same name
CommentsStay ==
   [][\A x \in Fields(doc') : Inst(doc', x).c # 0 =>
          \E y \in Fields(doc) : Inst(doc, y).c = Inst(doc', x).c /\ Inst(doc, y).n = Inst(doc', x).n]_dvars
\* separators (free comments, blank lines) are never lost or reordered by paragraph-level edits
Seps(d) == RSeqOf(d, {j \in Idx(d) : d[j].t = "s" /\ d[j].id # NewSep})
SepsKept == [][Seps(doc') = Seps(doc)]_dvars
=============================================================================
