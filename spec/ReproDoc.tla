------------------------------ MODULE ReproDoc ------------------------------
(***************************************************************************)
(* C05 / C10 -- reference model of a document held by the format-          *)
(* preserving deb822 parser (debian._deb822_repro) and of the edits made   *)
(* through Deb822ParagraphElement / Deb822FileElement.                     *)
(*                                                                         *)
(* A document is a sequence of parts: paragraphs and separators (blank     *)
(* lines, possibly with a free-floating comment).  A paragraph is a        *)
(* sequence of field instances                                             *)
(*     [n |-> name, s |-> spelling, v |-> value blob, c |-> comment blob]  *)
(* A name is the case-folded identity of the field (its rank in sort       *)
(* order); the spelling is that of the field-name token; v identifies the  *)
(* exact text of the value (an original blob 1..K, or NewS / NewM for a    *)
(* value written by an edit); c identifies the comment lines attached to   *)
(* the field (0 = none).  The text of a field is a function of these four, *)
(* so "only whole fields are moved/removed/inserted, byte for byte" is     *)
(* exactly: dump = concatenation of the instance texts in model order.     *)
(* A paragraph also remembers whether it was parsed with duplicated        *)
(* fields (dup): the code uses a different class for those, and an index   *)
(* other than 0 is only meaningful there.                                  *)
(*                                                                         *)
(* Keys: [n |-> name, i |-> -1] is the plain name, [n, i >= 0] is (name,i) *)
(* = the i-th occurrence in document order.                                *)
(***************************************************************************)
EXTENDS Integers, Sequences, FiniteSets, TLC, Json

CONSTANTS Names,        \* ranks 1..k
          Start,        \* set of start documents
          MaxParas,     \* insert/append are offered while the document has fewer paragraphs
          EditFields,   \* TRUE: field-level actions are offered (FALSE: only insert/append)
          SetVals,      \* value blobs offered to assignments (subset of NewVals)
          SetSpells,    \* spellings offered to assignments
          Ops,          \* names of the actions offered ("get","set","del","first","last","before","after","sort","insert","append")
          Emit

NewS == 101             \* value blob of a single-line value written by an edit
NewM == 102             \* ... of a multi-line value
NewVals == {NewS, NewM}
BadV == 103             \* a value the setters REJECT (not deb822 syntax): ValueError, nothing changes
RejectedVals == {BadV}
NoIdx == -1

VARIABLES doc, res
dvars == <<doc, res>>

\* ------------------------------------------------------------------ pure operators
Idx(s)          == 1..Len(s)
RSeqOf(s, P)    == \* subsequence of s at the positions in P (ascending)
                   LET RECURSIVE go(_)
                       go(j) == IF j > Len(s) THEN <<>>
                                ELSE (IF j \in P THEN <<s[j]>> ELSE <<>>) \o go(j + 1)
                   IN go(1)
ROcc(fs, n)     == RSeqOf([j \in Idx(fs) |-> j], {j \in Idx(fs) : fs[j].n = n})   \* positions of n, in order
RHas(fs, n)     == \E j \in Idx(fs) : fs[j].n = n
RCount(fs, n)   == Cardinality({j \in Idx(fs) : fs[j].n = n})

\* positions addressed by a key; <<>> when the name is absent or the index is out of range
RResolve(fs, key) == LET occ == ROcc(fs, key.n)
                     IN IF key.i = NoIdx THEN occ
                        ELSE IF key.i + 1 <= Len(occ) THEN <<occ[key.i + 1]>> ELSE <<>>
RSet(q)         == {q[j] : j \in Idx(q)}

\* why a key cannot be used:  "" = usable
\*   in a paragraph parsed without duplicates an index other than 0 is a KeyError
RKeyErr(p, key) == IF ~p.dup /\ key.i > 0 THEN "KeyError"
                   ELSE IF ~RHas(p.fs, key.n) THEN "KeyError"
                   ELSE IF RResolve(p.fs, key) = <<>> THEN "IndexError"    \* present, index out of range
                   ELSE ""

RMoved(fs, P)   == RSeqOf(fs, P)
RRest(fs, P)    == RSeqOf(fs, Idx(fs) \ P)
\* number of kept elements strictly before original position j
RKeptBefore(fs, P, j) == Cardinality({x \in Idx(fs) \ P : x < j})

RFirst(fs, P)   == RMoved(fs, P) \o RRest(fs, P)
RLast(fs, P)    == RRest(fs, P) \o RMoved(fs, P)
RBefore(fs, P, r) == LET rest == RRest(fs, P) k == RKeptBefore(fs, P, r)
                     IN SubSeq(rest, 1, k) \o RMoved(fs, P) \o SubSeq(rest, k + 1, Len(rest))
RAfter(fs, P, r)  == LET rest == RRest(fs, P) k == RKeptBefore(fs, P, r) + 1
                     IN SubSeq(rest, 1, k) \o RMoved(fs, P) \o SubSeq(rest, k + 1, Len(rest))

\* stable sort by name
RSort(fs) == LET RECURSIVE go(_)
                 go(ns) == IF ns = {} THEN <<>>
                           ELSE LET m == CHOOSE x \in ns : \A y \in ns : x <= y
                                IN RSeqOf(fs, {j \in Idx(fs) : fs[j].n = m}) \o go(ns \ {m})
             IN go({fs[j].n : j \in Idx(fs)})

\* sort_fields(key=f): "same semantics as for sorted", i.e. the STABLE sort of the CURRENT field
\* order by f(name).  A key function is represented by its table kt (kt[n] = key of name n, a
\* sequence indexed by name rank; a name outside the table has key 0): fields whose names have
\* equal keys - in particular all occurrences of one name - keep the relative order they have in
\* the paragraph at the moment of the call, whatever happened before (moves, earlier sorts, edits).
RKeyOf(kt, n)      == IF n \in DOMAIN kt THEN kt[n] ELSE 0
\* positions of fs in sorted order
RSortPosBy(fs, kt) == LET RECURSIVE go(_)
                          go(ks) == IF ks = {} THEN <<>>
                                    ELSE LET m == CHOOSE x \in ks : \A y \in ks : x <= y
                                         IN RSeqOf([j \in Idx(fs) |-> j], {j \in Idx(fs) : RKeyOf(kt, fs[j].n) = m})
                                            \o go(ks \ {m})
                      IN go({RKeyOf(kt, fs[j].n) : j \in Idx(fs)})
RSortBy(fs, kt)    == LET pos == RSortPosBy(fs, kt) IN [i \in Idx(fs) |-> fs[pos[i]]]
\* what "stable sort" means, independently of how RSortPosBy computes it: pos is a permutation of
\* the positions (nothing lost, nothing duplicated), keys ascend, ties keep their current order
SortLawsFor(sorter(_, _), fs, kt) ==
   LET pos == sorter(fs, kt) IN
   /\ Len(pos) = Len(fs)
   /\ {pos[i] : i \in Idx(pos)} = Idx(fs)
   /\ \A a, b \in Idx(pos) : a < b =>
          \/ RKeyOf(kt, fs[pos[a]].n) < RKeyOf(kt, fs[pos[b]].n)
          \/ (RKeyOf(kt, fs[pos[a]].n) = RKeyOf(kt, fs[pos[b]].n) /\ pos[a] < pos[b])

\* OPTIONAL fifth attribute of a field instance (C05): nl = "the field's text ends in a newline".
\* Documents whose instances carry it model the one place where an edit may touch bytes outside
\* the edited field: the last field of a document without a final newline has nl = FALSE, and
\* placing a field after it supplies the newline (REnsureNl); nothing ever takes a newline away.
\* Instances without the attribute (C10 configurations) behave exactly as before.
RTracksNl(fs)   == fs # <<>> /\ "nl" \in DOMAIN fs[1]
RTerm(f)        == IF "nl" \in DOMAIN f THEN [f EXCEPT !.nl = TRUE] ELSE f
REnsureNl(fs)   == IF fs = <<>> THEN fs ELSE [fs EXCEPT ![Len(fs)] = RTerm(fs[Len(fs)])]
RNewField(fs, n, s, v) == IF RTracksNl(fs) THEN [n |-> n, s |-> s, v |-> v, c |-> 0, nl |-> TRUE]
                          ELSE [n |-> n, s |-> s, v |-> v, c |-> 0]

\* assignment.  plain name: the first occurrence is replaced (keeping its spelling and its
\* comment) and all other occurrences disappear; (name, i): that occurrence is replaced.
\* an absent name is appended with the given spelling and no comment (the previously last field
\* of the paragraph gets its missing newline); a written value always ends in a newline.
RAssign(fs, key, s, v) ==
   IF ~RHas(fs, key.n) THEN Append(REnsureNl(fs), RNewField(fs, key.n, s, v))
   ELSE LET occ == ROcc(fs, key.n)
            tgt == IF key.i = NoIdx THEN occ[1] ELSE occ[key.i + 1]
            drop == IF key.i = NoIdx THEN RSet(occ) \ {tgt} ELSE {}
            fs1 == [fs EXCEPT ![tgt] = RTerm([fs[tgt] EXCEPT !.v = v])]
        IN RSeqOf(fs1, Idx(fs) \ drop)

\* the statement's clause "every byte before it (including the field's own comment lines when it is
\* replaced) and every byte after it is unchanged", as a law of assignment to a PRESENT field that
\* does not depend on how RAssign computes its result: the instance in the target's place keeps name,
\* spelling and comment blob and carries the new value; the instances in front of it are untouched;
\* behind it only the other occurrences of the name disappear (plain name), nothing else.  A comment
\* blob stands for ANY block of comment lines (text lines, lines made of "#" and blanks only, in any
\* position): the binding draws such blocks, the blob identity is what must survive the replacement.
RAssignLawsFor(assign(_, _, _, _), fs, key, s, v) ==
   LET occ  == ROcc(fs, key.n)
       tgt  == IF key.i = NoIdx THEN occ[1] ELSE occ[key.i + 1]
       out  == assign(fs, key, s, v)
       keep == {j \in Idx(fs) : j > tgt /\ (key.i # NoIdx \/ fs[j].n # key.n)}
   IN /\ Len(out) = tgt + Cardinality(keep)
      /\ \A j \in 1..(tgt - 1) : out[j] = fs[j]
      /\ out[tgt].n = fs[tgt].n /\ out[tgt].s = fs[tgt].s /\ out[tgt].c = fs[tgt].c /\ out[tgt].v = v
      /\ SubSeq(out, tgt + 1, Len(out)) = RSeqOf(fs, keep)
ReplaceLawsOf(assign(_, _, _, _), fs) ==
   \A n \in Names : RHas(fs, n) =>
      \A i \in {NoIdx} \cup (0..(Len(ROcc(fs, n)) - 1)) : \A s \in {"U", "L"} : \A v \in NewVals :
         RAssignLawsFor(assign, fs, [n |-> n, i |-> i], s, v)

\* ------------------------------------------------------------------ document level
ParaPos    == RSeqOf([j \in Idx(doc) |-> j], {j \in Idx(doc) : doc[j].t = "p"})   \* positions of paragraphs
NParas     == Len(ParaPos)
Para(p)    == doc[ParaPos[p]]
SetPara(p, fs) == [doc EXCEPT ![ParaPos[p]].fs = fs]
MkPara(dup, fs) == [t |-> "p", dup |-> dup, fs |-> fs, id |-> 0]
MkSep(id)       == [t |-> "s", dup |-> FALSE, fs |-> <<>>, id |-> id]
NewSep     == 100       \* the single newline token inserted by insert/append
\* the paragraph created by the harness for insert/append:  one new field
NewPara(n) == MkPara(FALSE, <<[n |-> n, s |-> "U", v |-> NewS, c |-> 0]>>)

Edge(op, args) == Emit => PrintT(<<"EDGE", ToJson([from |-> doc, op |-> op, args |-> args, res |-> res', to |-> doc'])>>)
Fail(e)  == doc' = doc /\ res' = e
Ok(d)    == doc' = d /\ res' = "ok"

KeyArg(key) == <<key.n, key.i>>
KtSeq(kt)   == [i \in 1..Cardinality(DOMAIN kt) |-> kt[i]]     \* key table as a sequence (Names = 1..k)

\* ---- C05: dict interface
Get(p, key) ==
   /\ LET e == RKeyErr(Para(p), key)
      IN IF e # "" THEN Fail(e)
         ELSE doc' = doc /\ res' = ToString(Para(p).fs[RResolve(Para(p).fs, key)[1]].v)
   /\ Edge("get", <<p, KeyArg(key)>>)

\* a REJECTED value (v \in RejectedVals) raises ValueError and leaves every byte where it was - also
\* the comment lines of the field it was meant for; with an unusable key as well, which of the two
\* errors is reported is unspecified (the paragraph classes check in different orders)
Assign(p, key, s, v) ==
   /\ LET P == Para(p)
          keyerr == \/ (~P.dup /\ key.i > 0)
                    \/ (~RHas(P.fs, key.n) /\ key.i > 0)
                    \/ (RHas(P.fs, key.n) /\ key.i # NoIdx /\ RResolve(P.fs, key) = <<>>)
      IN
      IF v \in RejectedVals THEN Fail(IF keyerr THEN "LookupOrValueError" ELSE "ValueError")
      ELSE IF ~P.dup /\ key.i > 0 THEN Fail("KeyError")
      ELSE IF ~RHas(P.fs, key.n) /\ key.i > 0 THEN Fail("KeyError")
      ELSE IF RHas(P.fs, key.n) /\ key.i # NoIdx /\ RResolve(P.fs, key) = <<>> THEN Fail("IndexError")
      ELSE Ok(SetPara(p, RAssign(P.fs, key, s, v)))
   /\ Edge("set", <<p, KeyArg(key), s, v>>)

\* deletion; never offered when it would leave the paragraph empty
DelOK(p, key) == LET P == Para(p) q == RResolve(P.fs, key)
                 IN RKeyErr(P, key) # "" \/ Len(q) < Len(P.fs)
Del(p, key) ==
   /\ DelOK(p, key)
   /\ LET P == Para(p) e == RKeyErr(P, key)
      IN IF e # "" THEN Fail(e)
         ELSE Ok(SetPara(p, RRest(P.fs, RSet(RResolve(P.fs, key)))))
   /\ Edge("del", <<p, KeyArg(key)>>)

\* ---- C10: structural edits
Move(p, key, f(_, _), op) ==
   /\ LET P == Para(p) e == RKeyErr(P, key)
      IN IF e # "" THEN Fail(IF e = "IndexError" THEN "KeyError" ELSE e)
         ELSE Ok(SetPara(p, f(P.fs, RSet(RResolve(P.fs, key)))))
   /\ Edge(op, <<p, KeyArg(key)>>)
OrderFirst(p, key) == Move(p, key, RFirst, "first")
OrderLast(p, key)  == Move(p, key, RLast, "last")

\* relative moves: "before" targets the first, "after" the last occurrence the reference key
\* denotes; moving something relative to (one of) itself is a ValueError
Rel(p, key, ref, before) ==
   /\ LET P  == Para(p)
          e  == RKeyErr(P, key)
          er == RKeyErr(P, ref)
      IN IF (e # "" \/ er # "") /\ key.n = ref.n /\ ~RHas(P.fs, key.n) THEN Fail("KeyOrValueError")  \* unspecified
         ELSE IF e # "" THEN Fail("KeyError")
         ELSE IF er # "" THEN Fail("KeyError")
         ELSE LET Pm == RSet(RResolve(P.fs, key))
                  rq == RResolve(P.fs, ref)
                  r  == IF before THEN rq[1] ELSE rq[Len(rq)]
              IN IF r \in Pm THEN Fail("ValueError")
                 ELSE Ok(SetPara(p, IF before THEN RBefore(P.fs, Pm, r) ELSE RAfter(P.fs, Pm, r)))
   /\ Edge(IF before THEN "before" ELSE "after", <<p, KeyArg(key), KeyArg(ref)>>)

SortFields(p) == Ok(SetPara(p, RSort(Para(p).fs))) /\ Edge("sort", <<p>>)
\* sort_fields(key) with an arbitrary key function (given by its table, see RSortBy)
SortBy(p, kt) == Ok(SetPara(p, RSortBy(Para(p).fs, kt))) /\ Edge("sortby", <<p, KtSeq(kt)>>)

\* Deb822FileElement.insert(idx, para): the new paragraph becomes paragraph number idx (0-based);
\* idx = 0 puts it in front of everything, an index past the end appends; a newline token
\* separates it from what follows.  append: a newline token is added unless the document ends
\* in a separator (or is empty).
InsertPara(idx, n) ==
   /\ NParas < MaxParas
   /\ LET np == NewPara(n) IN
      IF doc = <<>> THEN Ok(<<np>>)
      ELSE IF idx = 0 THEN Ok(<<np, MkSep(NewSep)>> \o doc)
      ELSE IF idx + 1 <= NParas
           THEN LET k == ParaPos[idx + 1]
                IN Ok(SubSeq(doc, 1, k - 1) \o <<np, MkSep(NewSep)>> \o SubSeq(doc, k, Len(doc)))
      ELSE Ok(doc \o (IF doc[Len(doc)].t = "s" THEN <<np>> ELSE <<MkSep(NewSep), np>>))
   /\ Edge("insert", <<idx, n>>)
AppendPara(n) ==
   /\ NParas < MaxParas
   /\ LET np == NewPara(n) IN
      IF doc = <<>> THEN Ok(<<np>>)
      ELSE Ok(doc \o (IF doc[Len(doc)].t = "s" THEN <<np>> ELSE <<MkSep(NewSep), np>>))
   /\ Edge("append", <<n>>)

\* ---- C10: REFUSED document-level calls as ordinary history steps.  A paragraph that already
\* belongs to a file - w = 0: a paragraph of ANOTHER file; w >= 1: paragraph number w of THIS
\* document, e.g. the one an earlier step inserted ("the same paragraph twice") - cannot be linked
\* in again: append, and insert where it degenerates into append (empty document, index past the
\* last paragraph), raise ValueError and change NOTHING - whatever part of the work (terminating
\* the last line, separating newline) a successful call would have done first.  insert in front of
\* an existing paragraph: WHETHER the call is refused is unspecified (the statement is silent and
\* the code has no ownership check on that path); if it is refused, nothing changed; if it is
\* accepted the document has left the model (one paragraph linked twice) and the binding ends the
\* history there.  RefusedLeaves is the identity; a negative control overrides it.
RefusedLeaves(d) == d
OwnedAnchored(idx) == doc # <<>> /\ idx < NParas
AppendOwned(w) ==
   /\ doc' = RefusedLeaves(doc) /\ res' = "ValueError"
   /\ Edge("appendo", <<w>>)
InsertOwned(idx, w) ==
   /\ doc' = RefusedLeaves(doc)
   /\ res' = (IF OwnedAnchored(idx) THEN "ValueErrorOrAccepted" ELSE "ValueError")
   /\ Edge("inserto", <<idx, w>>)
\* owners worth exploring: another file, the first and the last paragraph of this document
OwnedSrc == {0, 1, NParas} \cap (0..NParas)

\* ------------------------------------------------------------------ behaviours
\* keys worth exploring: every plain name; every valid (name, i) of a duplicated name; and for the
\* smallest name also (name, 0) when it is unique or absent and one index past the range
MinName == CHOOSE x \in Names : \A y \in Names : x <= y
GoodKeys(p) == LET fs == Para(p).fs IN
   {[n |-> n, i |-> NoIdx] : n \in Names}
   \cup {k \in [n : Names, i : 0..2] : RCount(fs, k.n) >= 2 /\ k.i < RCount(fs, k.n)}
   \cup {[n |-> MinName, i |-> i] : i \in 0..RCount(fs, MinName)}

\* key functions worth exploring: every two-valued key that has a smallest class ("these names
\* first, leave the rest alone", everything-ties, one-name-last ...) and the reversed name order
\* (no ties).  The default key of sort_fields() is the identity table (action SortFields).
MaxName == CHOOSE x \in Names : \A y \in Names : x >= y
SortKeyTabs == {kt \in [Names -> {0, 1}] : \E n \in Names : kt[n] = 0}
               \cup {[n \in Names |-> MaxName - n]}

Init == doc \in Start /\ res = "ok"

Next == \/ \E p \in 1..NParas :
             /\ EditFields
             /\ Para(p).id = 0         \* paragraphs with id 1 are context: present in the document, never edited
             /\ \/ \E k \in GoodKeys(p) :
                   \/ ("get" \in Ops /\ Get(p, k))
                   \/ ("del" \in Ops /\ Del(p, k))
                   \/ ("first" \in Ops /\ OrderFirst(p, k))
                   \/ ("last" \in Ops /\ OrderLast(p, k))
                   \/ ("set" \in Ops /\ \E s \in SetSpells, v \in SetVals :
                            /\ ((v \in RejectedVals) => (s = CHOOSE x \in SetSpells : TRUE)) = TRUE   \* the spelling is irrelevant for a rejected value
                            /\ Assign(p, k, s, v))
                   \/ \E r \in GoodKeys(p) : \/ ("before" \in Ops /\ Rel(p, k, r, TRUE))
                                              \/ ("after" \in Ops /\ Rel(p, k, r, FALSE))
                \/ ("sort" \in Ops /\ SortFields(p))
                \/ ("sortby" \in Ops /\ \E kt \in SortKeyTabs : SortBy(p, kt))
        \/ \E n \in Names : \/ ("append" \in Ops /\ AppendPara(n))
                             \/ ("insert" \in Ops /\ \E idx \in 0..NParas : InsertPara(idx, n))
        \/ ("appendo" \in Ops /\ \E w \in OwnedSrc : AppendOwned(w))
        \/ ("inserto" \in Ops /\ \E idx \in 0..NParas, w \in OwnedSrc : InsertOwned(idx, w))

Spec == Init /\ [][Next]_dvars
DocView == doc

\* ------------------------------------------------------------------ properties of the reference
Fields(d) == UNION {{<<j, i>> : i \in Idx(d[j].fs)} : j \in Idx(d)}
Inst(d, x) == d[x[1]].fs[x[2]]
\* bag of (name, spelling, comment) triples and of value blobs, as functions to Nat
CountIn(d, pred(_)) == Cardinality({x \in Fields(d) : pred(Inst(d, x))})

NoEmptyPara == \A j \in Idx(doc) : doc[j].t = "p" => doc[j].fs # <<>>
\* two paragraphs are never adjacent (inserted paragraphs cannot merge with neighbours)
ParasSeparated == \A j \in 1..(Len(doc) - 1) : ~(doc[j].t = "p" /\ doc[j + 1].t = "p")
\* a paragraph parsed without duplicates never acquires any
NoDupStaysUnique == \A j \in Idx(doc) : (doc[j].t = "p" /\ ~doc[j].dup) =>
                        \A a, b \in Idx(doc[j].fs) : doc[j].fs[a].n = doc[j].fs[b].n => a = b
\* a failing call changes nothing
ErrAtomic == [][res' \notin {"ok"} /\ res' \notin {ToString(x) : x \in 1..200} => doc' = doc]_dvars
\* moves and sorting only permute: no original blob is ever duplicated
NoBlobDuplication ==
   \A b \in 1..99 : CountIn(doc, LAMBDA e : e.v = b) <= 1
\* every assignment to a present field of every reachable paragraph obeys the replacement laws
\* (C05: the replaced field keeps its place, its spelling and its own comment lines)
ReplaceLaws == \A p \in 1..NParas : ReplaceLawsOf(RAssign, Para(p).fs)
\* original comments are never duplicated either and stay with a field of the same name
CommentsStay ==
   [][\A x \in Fields(doc') : Inst(doc', x).c # 0 =>
          \E y \in Fields(doc) : Inst(doc, y).c = Inst(doc', x).c /\ Inst(doc, y).n = Inst(doc', x).n]_dvars
\* the sort of the reference IS the stable sort of the current order, for every key table and
\* every reachable paragraph; and sort_fields() is the special case "key = name"
SortByLaws == \A p \in 1..NParas : \A kt \in SortKeyTabs \cup {[n \in Names |-> n]} :
                 SortLawsFor(RSortPosBy, Para(p).fs, kt)
DefaultSortIsByName == \A p \in 1..NParas : RSort(Para(p).fs) = RSortBy(Para(p).fs, [n \in Names |-> n])
\* separators (free comments, blank lines) are never lost or reordered by paragraph-level edits
Seps(d) == RSeqOf(d, {j \in Idx(d) : d[j].t = "s" /\ d[j].id # NewSep})
SepsKept == [][Seps(doc') = Seps(doc)]_dvars
\* C05, documents that track nl: every field that has a successor in dump order ends in a newline
\* (two fields are never glued onto one line), whatever history of adds / deletes / replacements /
\* rejected assignments led here
DocWellFormed == \A x \in Fields(doc) :
                    ("nl" \in DOMAIN Inst(doc, x) /\ ~Inst(doc, x).nl) => (x[1] = Len(doc) /\ x[2] = Len(doc[x[1]].fs))
\* ... and a newline, once there, is never taken away again (the supplied newline is the ONLY
\* permitted change outside the edited field): fields that survive a step keep nl = TRUE
NlOnlySupplied ==
   [][\A x \in Fields(doc), y \in Fields(doc') :
         ("nl" \in DOMAIN Inst(doc, x) /\ Inst(doc, x).nl /\ Inst(doc, x).v = Inst(doc', y).v /\ Inst(doc, x).v < 100)
            => Inst(doc', y).nl]_dvars
\* document equality modulo the newline at the very end of the document (the statement leaves it
\* open whether the final newline exists after an edit of the last field; trace validation)
NormEnd(d) == IF d # <<>> /\ d[Len(d)].t = "p" /\ d[Len(d)].fs # <<>>
              THEN [d EXCEPT ![Len(d)].fs = REnsureNl(d[Len(d)].fs)] ELSE d
DocSame(d1, d2) == NormEnd(d1) = NormEnd(d2)
=============================================================================
