CONSTANTS
  MaxLen = 0
  MaxLines = 5
  BigSel = {}
  Emit = TRUE
  DashFirstOK = FALSE
  CommentClosesField = FALSE
  DupAcrossBlank = FALSE
  CaseSensitiveDup = FALSE
SPECIFICATION LSpec
INVARIANT ITotality
INVARIANT IRunAgrees
INVARIANT IFirstErr
INVARIANT IErrFree
INVARIANT IParas
INVARIANT IDup
INVARIANT IValid
INVARIANT IFlags
INVARIANT IStutter
INVARIANT EmitCase
PROPERTY IPrefix
CHECK_DEADLOCK FALSE
