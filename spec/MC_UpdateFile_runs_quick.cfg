\* C19 two consecutive calls in one process (quick tier: seven of the ten fault kinds): the repository moves on between them (same URL, other
\* URL, other repository); <= 3 versions at the second call, at most one of the calls has a fault.
\* Checks the per-call invariants and prints one CASE line per two-call behaviour.
SPECIFICATION SpecD
CONSTANTS
  MaxN = 2
  Sizes = {1}
  FlavourSets = {{"SHA1"}}
  Mode = "code"
  Runs = 2
  FlavourPhase = 9
  FaultKinds = {"none", "patchCorrupt", "wrongResultHash", "indexMissing", "indexEmpty", "writeFails", "renameFails"}
  Entries = {"update_file", "download_file", "replace_file"}
  RememberIndex = FALSE
  Emit = TRUE
  EmitEvery = 5
  EmitPhase = 0
INVARIANTS TypeOK Converges NeverCorrupt NoTempLeft AlwaysOldOrNew FaultRaises IndexFaultConverges
           HashFaultWritesNothing GarbledNeverApplied ByPatchesWhenListed
