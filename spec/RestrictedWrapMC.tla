-------------------------- MODULE RestrictedWrapMC --------------------------
(***************************************************************************)
(* X07 -- closed model-checking scenarios for RestrictedWrap.tla.          *)
(* Conversion kinds (tables over value symbols; raws "A" "B" canonical,    *)
(* "X" a raw that no to_str produces):                                     *)
(*   id    from_str = to_str = None: the value IS the raw string           *)
(*   sl    to_str validates (f raises), from_str = None    (_single_line)  *)
(*   list  lossy (a2 is stored like a), empty value e -> None, f raises,   *)
(*         absent reads as e, raw X reads as x     (_LineBased, _Space-    *)
(*         Separated)                                                      *)
(*   obj   lossy, f raises, raw X cannot be parsed (from_str raises),      *)
(*         absent reads as None                               (License)    *)
(*   objn  obj whose to_str may return None (e)                            *)
(* Scenarios (3 names unless said otherwise; shapes of the real classes):  *)
(*   hdrA  Header:  1 = Upstream-Contact (list, None ok), 2 = Format (sl,  *)
(*         None refused), 3 unrestricted                                   *)
(*   hdrB  Header:  1 = License (obj, ok), 2 = Upstream-Name (sl, ok),     *)
(*         3 = Source (id, ok): every name restricted                      *)
(*   filA  FilesParagraph: 1 = Files (list, refused), 2 = License (obj,    *)
(*         refused), 3 unrestricted                                        *)
(*   filB  FilesParagraph: 1 = Copyright (id, refused), 2 = Comment (id,   *)
(*         ok), 3 unrestricted                                             *)
(*   licA  LicenseParagraph: 1 = License (obj, refused), 2 = Files (id,    *)
(*         ok, private attribute), 3 unrestricted                          *)
(*   two   two paragraphs, three wrappers: KA on 1, KB on 1, KA on 2;      *)
(*         KA: 1 (list, ok), 2 (id, refused); KB: 1 (list, refused)        *)
(*   sub   class S(P): P declares 1 (objn, ok), S adds 2 (id, refused),    *)
(*         3 unrestricted; a wrapper of each class on the same paragraph   *)
(***************************************************************************)
EXTENDS RestrictedWrap

CONSTANTS Which,      \* ids of the scenarios to explore
          MaxLen      \* bound on the number of fields of a paragraph

IdT  == [A |-> "A", B |-> "B", X |-> "X"]
Conv == [id   |-> [to |-> IdT, from |-> IdT @@ [none |-> NoneV],
                   offer |-> <<"A", "B", "X">>, canon |-> IdT],
         sl   |-> [to |-> IdT @@ [f |-> FailV], from |-> IdT @@ [none |-> NoneV],
                   offer |-> <<"A", "B", "X", "f">>, canon |-> IdT],
         list |-> [to |-> [a |-> "A", a2 |-> "A", b |-> "B", e |-> NoneV, f |-> FailV],
                   from |-> [A |-> "a", B |-> "b", X |-> "x", none |-> "e"],
                   offer |-> <<"a", "a2", "b", "e", "f">>, canon |-> [a |-> "a", a2 |-> "a", b |-> "b"]],
         obj  |-> [to |-> [a |-> "A", a2 |-> "A", b |-> "B", f |-> FailV],
                   from |-> [A |-> "a", B |-> "b", X |-> FailV, none |-> NoneV],
                   offer |-> <<"a", "a2", "b", "f">>, canon |-> [a |-> "a", a2 |-> "a", b |-> "b"]],
         objn |-> [to |-> [a |-> "A", a2 |-> "A", b |-> "B", e |-> NoneV, f |-> FailV],
                   from |-> [A |-> "a", B |-> "b", X |-> FailV, none |-> NoneV],
                   offer |-> <<"a", "a2", "b", "e", "f">>, canon |-> [a |-> "a", a2 |-> "a", b |-> "b"]]]

F(attr, n, kind, an) == [attr |-> attr, n |-> n, s |-> "C", kind |-> kind, an |-> an]
K(fields, own, all, parent) == [fields |-> fields, own |-> own, all |-> all, parent |-> parent]
Flat(fields)         == K(fields, [i \in 1..Len(fields) |-> fields[i].n], [i \in 1..Len(fields) |-> fields[i].n], "")
W(c, p)              == [c |-> c, p |-> p]

Scn(id, npara, names, spells, raws, direct, classes, wrappers) ==
    [id |-> id, npara |-> npara, names |-> names, spells |-> spells, raws |-> raws, direct |-> direct,
     conv |-> Conv, classes |-> classes, wrappers |-> wrappers, maxlen |-> MaxLen]

ABX == <<"A", "B", "X">>
CL  == <<"C", "L">>

AllConfigs == {
    Scn("hdrA", 1, <<1, 2, 3>>, CL, ABX, <<1, 2>>,
        [H |-> Flat(<<F("f1", 1, "list", TRUE), F("f2", 2, "sl", FALSE)>>)], <<W("H", 1)>>),
    Scn("hdrB", 1, <<1, 2, 3>>, CL, ABX, <<1, 2, 3>>,
        [H |-> Flat(<<F("f1", 1, "obj", TRUE), F("f2", 2, "sl", TRUE), F("f3", 3, "id", TRUE)>>)], <<W("H", 1)>>),
    Scn("filA", 1, <<1, 2, 3>>, CL, ABX, <<1, 2>>,
        [G |-> Flat(<<F("f1", 1, "list", FALSE), F("f2", 2, "obj", FALSE)>>)], <<W("G", 1)>>),
    Scn("filB", 1, <<1, 2, 3>>, CL, <<"A", "B">>, <<1, 2>>,
        [G |-> Flat(<<F("f1", 1, "id", FALSE), F("f2", 2, "id", TRUE)>>)], <<W("G", 1)>>),
    Scn("licA", 1, <<1, 2, 3>>, CL, ABX, <<1, 2>>,
        [L |-> Flat(<<F("f1", 1, "obj", FALSE), F("f2", 2, "id", TRUE)>>)], <<W("L", 1)>>),
    Scn("two", 2, <<1, 2>>, <<"C">>, <<"A", "B">>, <<1>>,
        [KA |-> Flat(<<F("f1", 1, "list", TRUE), F("f2", 2, "id", FALSE)>>),
         KB |-> Flat(<<F("g1", 1, "list", FALSE)>>)],
        <<W("KA", 1), W("KB", 1), W("KA", 2)>>),
    Scn("sub", 1, <<1, 2, 3>>, <<"C">>, ABX, <<1, 2>>,
        [P |-> Flat(<<F("f1", 1, "objn", TRUE)>>),
         S |-> K(<<F("f1", 1, "objn", TRUE), F("f2", 2, "id", FALSE)>>, <<2>>, <<1, 2>>, "P")],
        <<W("S", 1), W("P", 1)>>)
}

Configs == {c \in AllConfigs : c.id \in Which}

\* the harness reads the scenarios it has to realise from TLC
ASSUME Emit => \A c \in Configs : PrintT(<<"ENV", ToJson(c)>>)

RInit == /\ env \in Configs
         /\ paras = [p \in 1..env.npara |-> <<>>]
         /\ res = ROk
         /\ call = NoCall

RSpec == RInit /\ [][RNext]_rvars
=============================================================================
