\* C12 -- quick tier: PdiffIndex, every one of the 2^14 subsets (closed; layout invariants are left to the other modes); props/c12.py sets EmitOff from the seed
CONSTANTS
  Tables <- DocTables
  Modes <- ModesQuickP
  IterateAllFields = FALSE
  SplitEverySpace = FALSE
  CacheWidths = FALSE
  SharedEqualRecords = FALSE
  ClassLevelOption = FALSE
  StoreBeforeValidate = FALSE
  ReorderStoresPlainKeys = FALSE
  RefusedUnlinksFirst = FALSE
  Emit = TRUE
  EmitOff = 0
SPECIFICATION Spec
INVARIANT TypeOK
INVARIANT DumpTotal
INVARIANT KeysFold
INVARIANT KeysListed
INVARIANT WidthTable
INVARIANT DumpExplains
INVARIANT RecordsRoundTrip
INVARIANT SubFieldNames
INVARIANT WidthRule
INVARIANT RightAligned
INVARIANT SingleBlanks
PROPERTY LoadIsIdentity
PROPERTY EditIsLocal
PROPERTY OtherIsOther
PROPERTY RefusedIsAtomic
CHECK_DEADLOCK FALSE
