\* C06 reference LTS (quick): every archive of 0..2 members x 0..2 data bytes over {NL, x};
\* complete labelled transition system printed as EDGE lines (expected results for the replay)
CONSTANTS
  Bytes = {10, 120}
  Names = {1}
  MaxMembers = 2
  MaxData = 2
  RdSizes = {1, 2}
  RlSizes = {0, 1, 2}
  SeekMax = 3
  Ops = TRUE
  Hints = {}
  Faults = {"raise"}
  IterSingleLine = FALSE
  Emit = TRUE
SPECIFICATION RSpec
INVARIANT RTypeOK
PROPERTY RExact
PROPERTY RLinesNL
PROPERTY RIsolated
VIEW RView
CHECK_DEADLOCK FALSE
