----------------------------- MODULE StreamGlue -----------------------------
(***************************************************************************)
(* X06 (b), (c) -- the two generator helpers next to BufferingIterator in  *)
(* debian/_deb822_repro/_util.py.                                          *)
(*                                                                         *)
(* mode "len":  len_check_iterator(content, stream, content_len).  input   *)
(*   is a sequence of entries [k |-> "t" | "e", ls |-> <<text lengths>>]   *)
(*   (a token has one text, an element the tokens iter_tokens() yields),   *)
(*   clen the effective content_len.  Reference: the stream passes         *)
(*   through unchanged; when it ends the generator ends normally iff the   *)
(*   lengths add up to clen, else ValueError "short" / "long".             *)
(* mode "comb": combine_into_replacement(S, R)(stream).  input is a        *)
(*   sequence over "S" (instance of source_class), "T" (instance of a      *)
(*   subclass), "O" (anything else).  Reference CBExpected: maximal runs   *)
(*   of S/T items become one replacement built from the list of the run.   *)
(*                                                                         *)
(* Both are modelled as the generator the consumer drives with Get (one    *)
(* next() on it); i counts the reads of the input made so far (Len+1 once  *)
(* the end has been read), every output carries the value of i at the      *)
(* moment it is handed out (laziness: `at`), handed keeps the lists given  *)
(* to the constructor as handed over (orig) and as they are now (now).     *)
(* Bug = "sharelist" (the constructor gets the generator's own list, which *)
(* is cleared afterwards), "exacttype" (type(x) is S instead of            *)
(* isinstance), "lenok" (too many characters not reported) are negative    *)
(* controls.                                                               *)
(***************************************************************************)
EXTENDS Integers, Sequences, SequencesExt, TLC, Json

CONSTANTS MaxStream,   \* longest input
          MaxContent,  \* content_len 0..MaxContent
          Emit, Bug

VARIABLES mode, input, clen, i, pend, done, outp, handed, gres

gvars == <<mode, input, clen, i, pend, done, outp, handed, gres>>

G(t, v) == [t |-> t, v |-> v]

\* ---- (b) reference
SGSum(s)      == FoldLeft(LAMBDA acc, x : acc + x, 0, s)
SGCovered(st) == FoldLeft(LAMBDA acc, e : acc + SGSum(e.ls), 0, st)
SGOutcome(st, n) == LET c == SGCovered(st)
                    IN IF c = n THEN "end" ELSE IF c < n THEN "short"
                       ELSE IF Bug = "lenok" THEN "end" ELSE "long"
SGOutcomeRef(st, n) == LET c == SGCovered(st) IN IF c = n THEN "end" ELSE IF c < n THEN "short" ELSE "long"

\* ---- (c) reference: outputs [t |-> "pass", v |-> <<j>>, at |-> reads] / [t |-> "run", v |-> <<members>>, at |-> reads]
IsSrcRef(x) == x \in {"S", "T"}
IsSrc(x)    == x = "S" \/ (x = "T" /\ Bug # "exacttype")
RECURSIVE CBFrom(_, _, _)
\* j: next input index, run: indices of the pending run
CBFrom(s, j, run) ==
    IF j > Len(s) THEN (IF run = <<>> THEN <<>> ELSE <<[t |-> "run", v |-> run, at |-> Len(s) + 1]>>)
    ELSE IF IsSrcRef(s[j]) THEN CBFrom(s, j + 1, Append(run, j))
    ELSE (IF run = <<>> THEN <<>> ELSE <<[t |-> "run", v |-> run, at |-> j]>>)
         \o <<[t |-> "pass", v |-> <<j>>, at |-> j]>> \o CBFrom(s, j + 1, <<>>)
CBExpected(s) == CBFrom(s, 1, <<>>)

----------------------------------------------------------------------------
LenPalette == { [k |-> "t", ls |-> <<0>>], [k |-> "t", ls |-> <<1>>], [k |-> "t", ls |-> <<2>>],
                [k |-> "e", ls |-> <<>>], [k |-> "e", ls |-> <<1>>], [k |-> "e", ls |-> <<1, 2>>] }
Streams(P) == UNION { [1..n -> P] : n \in 0..MaxStream }

Case == Emit => PrintT(<<"CASE", ToJson([mode |-> mode, input |-> input, clen |-> clen,
                                         expect |-> IF mode = "len"
                                                    THEN <<[t |-> SGOutcomeRef(input, clen), v |-> <<Len(input)>>, at |-> Len(input) + 1]>>
                                                    ELSE CBExpected(input)])>>)

SGInitWith(m, inp, n) ==
    /\ mode = m /\ input = inp /\ clen = n
    /\ i = 0 /\ pend = 0 /\ done = FALSE /\ outp = <<>> /\ handed = <<>> /\ gres = G("init", <<>>)

Init == /\ \/ \E inp \in Streams(LenPalette), n \in 0..MaxContent : SGInitWith("len", inp, n)
           \/ \E inp \in Streams({"S", "T", "O"}) : SGInitWith("comb", inp, 0)
        /\ Case

Yield(o) == outp' = Append(outp, o) /\ gres' = G(o.t, o.v)

LGet ==
    /\ mode = "len"
    /\ IF done THEN gres' = G("stop", <<>>) /\ UNCHANGED <<i, done, outp>>
       ELSE IF i < Len(input)
       THEN i' = i + 1 /\ Yield([t |-> "pass", v |-> <<i + 1>>, at |-> i + 1]) /\ UNCHANGED done
       ELSE /\ i' = i + 1 /\ done' = TRUE /\ UNCHANGED outp      \* a normal end is plain StopIteration
            /\ gres' = G(IF SGOutcome(input, clen) = "end" THEN "stop" ELSE SGOutcome(input, clen), <<>>)
    /\ UNCHANGED <<mode, input, clen, pend, handed>>

\* first index > i whose item is not of the source class (0: none)
NextOther == SelectInSeq(SubSeq(input, i + 1, Len(input)), LAMBDA x : ~IsSrc(x))
IdxSeq(a, b) == [k \in 1..(b - a + 1) |-> a + k - 1]
Unshare   == IF Bug = "sharelist" /\ handed # <<>>
             THEN [handed EXCEPT ![Len(handed)].now = <<>>] ELSE handed

CGet ==
    /\ mode = "comb"
    /\ IF done THEN gres' = G("stop", <<>>) /\ UNCHANGED <<i, pend, done, outp, handed>>
       ELSE IF pend # 0
       THEN \* resumed after a run: tokens.clear(), then the item that ended the run
            /\ Yield([t |-> "pass", v |-> <<pend>>, at |-> i]) /\ pend' = 0 /\ handed' = Unshare
            /\ UNCHANGED <<i, done>>
       ELSE IF i > Len(input) THEN gres' = G("stop", <<>>) /\ done' = TRUE /\ UNCHANGED <<i, pend, outp, handed>>
       ELSE LET q == NextOther
                j == IF q = 0 THEN Len(input) + 1 ELSE i + q
                run == IdxSeq(i + 1, j - 1)
            IN /\ i' = j
               /\ IF run # <<>>
                  THEN /\ Yield([t |-> "run", v |-> run, at |-> j])
                       /\ handed' = Append(handed, [orig |-> run, now |-> run])
                       /\ pend' = (IF q = 0 THEN 0 ELSE j) /\ UNCHANGED done
                  ELSE IF q = 0 THEN gres' = G("stop", <<>>) /\ done' = TRUE /\ UNCHANGED <<pend, outp, handed>>
                  ELSE Yield([t |-> "pass", v |-> <<j>>, at |-> j]) /\ UNCHANGED <<pend, done, handed>>
    /\ UNCHANGED <<mode, input, clen>>

Next == LGet \/ CGet
Spec == Init /\ [][Next]_gvars
View == <<mode, input, clen, i, pend, done, outp, handed>>

----------------------------------------------------------------------------
LenRefines  == mode = "len" =>
                 /\ outp = [k \in 1..Len(outp) |-> [t |-> "pass", v |-> <<k>>, at |-> k]]
                 /\ (done => Len(outp) = Len(input) /\ i = Len(input) + 1)
OutcomeOK   == [][(mode = "len" /\ done' /\ ~done) =>
                     gres'.t = (IF SGOutcomeRef(input, clen) = "end" THEN "stop" ELSE SGOutcomeRef(input, clen))]_gvars
CombRefines == mode = "comb" =>
                 /\ IsPrefix(outp, CBExpected(input))
                 /\ (done => outp = CBExpected(input))
HandedStable == \A h \in 1..Len(handed) : handed[h].now = handed[h].orig
Finished    == [][done => (gres'.t = "stop" /\ outp' = outp /\ i' = i)]_gvars
=============================================================================
