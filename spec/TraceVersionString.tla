------------------------ MODULE TraceVersionString ------------------------
(***************************************************************************)
(* C14 -- trace validation: constructions and component assignments        *)
(* recorded from the real BaseVersion / NativeVersion / Version classes    *)
(* (harness/props/c14.py) are checked against the reference layer of       *)
(* VersionString on the CONCRETE code points (arbitrary Unicode text,      *)
(* lengths well beyond the model-checking bound).                          *)
(* A trace is [cls, events]; an event is [op, v, res, obs]:                *)
(*   op   "construct" (first event only) | "full" | "epoch" | "upstream"   *)
(*        | "revision" | "copy";  v the text given (<<-1>> for None);      *)
(*   res  "ok" | "ValueError" | "EXC:<type>";                              *)
(*   obs  [full, epoch, upstream, revision, key] read back from the object *)
(*        the history continues on (all <<-1>> while there is no object);  *)
(*   kobs the same projection of the OTHER object of the last copy.        *)
(* Where the specification says "unspec" (D2 zone, None as upstream, ""    *)
(* as revision) any outcome is accepted and the observed object is adopted *)
(* so that the rest of the trace is still checked.  Batched: one TLC run   *)
(* validates all traces of TRACE_FILE and prints <<"ACCEPTED", tid>> for   *)
(* every trace the specification explains completely.                      *)
(***************************************************************************)
EXTENDS VersionString, IOUtils, TLCExt

Traces == JsonDeserialize(IOEnv.TRACE_FILE)
Diag   == IOEnv.TRACE_DIAG = "1"

VARIABLES tid, l

Tr == Traces[tid]

TInit == /\ tid \in 1..Len(Traces)
         /\ l = 1
         /\ inp = <<>> /\ obj = NoObj /\ kept = NoObj /\ res = "none"

Outcome(e) == CASE e.op = "construct" -> FullOutcome(NoObj, e.v)
                [] e.op = "full"      -> FullOutcome(obj, e.v)
                [] e.op = "copy"      -> [res |-> "ok", obj |-> obj]
                [] OTHER              -> AssignOutcome(obj, e.op, e.v)

TStep == /\ l <= Len(Tr.events)
         /\ LET e == Tr.events[l] IN
              /\ e.op \in {"construct", "full", "copy"} \cup Comps
              /\ (e.op = "construct") <=> (l = 1)
              /\ (e.op # "construct") => obj # NoObj
              /\ LET o == Outcome(e) IN
                   IF o.res = "unspec"
                   THEN obj' = e.obs /\ res' = "unspec"            \* not decided by the statement
                   ELSE /\ o.res = e.res                           \* accepted / rejected as specified
                        /\ o.obj = e.obs                           \* components = decomposition / rolled back
                        /\ obj' = o.obj /\ res' = o.res
              \* the object store: a Copy retains one object of the pair (both have obj's state);
              \* whatever happens to the other one later, the retained one reads back unchanged
              /\ kept' = IF e.op = "copy" THEN obj ELSE kept
              /\ e.kobs = kept'
         /\ l' = l + 1 /\ UNCHANGED <<tid, inp>>
         /\ (Diag => PrintT(<<"AT", tid, l>>))
         /\ (l' = Len(Tr.events) + 1 => PrintT(<<"ACCEPTED", tid>>))

TSpec == TInit /\ [][TStep]_<<vars, tid, l>>
=============================================================================
