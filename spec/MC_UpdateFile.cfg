\* C19 closed configuration: every history of <= 4 versions x index depth x local position x fault
SPECIFICATION SpecD
CONSTANTS
  MaxN = 3
  Sizes = {0, 2}
  FlavourSets = {{"SHA1"}, {"SHA256"}, {"SHA1", "SHA256"}}
  Mode = "code"
  Runs = 1
  FlavourPhase = 9
  FaultKinds = {"none", "patchCorrupt", "patchTruncated", "badLastPatch", "wrongResultHash", "indexMissing", "indexGarbage", "indexEmpty", "writeFails", "renameFails"}
  Entries = {"update_file"}
  RememberIndex = FALSE
  Emit = FALSE
  EmitEvery = 1
  EmitPhase = 0
INVARIANTS TypeOK Converges NeverCorrupt NoTempLeft AlwaysOldOrNew FaultRaises IndexFaultConverges
           HashFaultWritesNothing GarbledNeverApplied ByPatchesWhenListed
