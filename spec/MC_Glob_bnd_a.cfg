CONSTANTS
  Sigma = {97, 98, 47, 46, 42, 63, 92, 10}
  NSigma = {97, 98, 47, 46, 42, 63, 92, 10}
  MaxParas = 1
  MaxPats = 1
  MaxPatLen = 3
  MaxSyms = 6
  MaxNameLen = 4
  Discipline = "full"
  DotAll = TRUE
  FindFirst = FALSE
  AffixFrom = 0
  Emit = "none"
  BlockLen = 0
SPECIFICATION Spec
INVARIANT MatchesIffGlob
INVARIANT BadEscapeRaises
INVARIANT RefSanity
CHECK_DEADLOCK FALSE
