CONSTANTS
  BadShip = ""
SPECIFICATION TSpec
CHECK_DEADLOCK FALSE
