CONSTANTS
  BMode = "trace"
  Anchors = {}
  Pieces = {}
  MaxTail = 0
  BEmit = FALSE
  BBug = "none"
SPECIFICATION TBSpec
INVARIANT BTypeOK
CHECK_DEADLOCK FALSE
