CONSTANTS
  Sigma = {97, 42, 63, 92}
  NSigma = {97, 42, 63, 92}
  MaxParas = 1
  MaxPats = 2
  MaxPatLen = 3
  MaxSyms = 6
  MaxNameLen = 3
  Discipline = "full"
  DotAll = TRUE
  FindFirst = FALSE
  AffixFrom = 0
  Emit = "none"
  BlockLen = 0
SPECIFICATION Spec
INVARIANT MatchesIffGlob
INVARIANT BadEscapeRaises
INVARIANT RefSanity
CHECK_DEADLOCK FALSE
