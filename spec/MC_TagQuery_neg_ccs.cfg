CONSTANTS
  Scope = "quick"
  Slots = {1, 2}
  Bases <- MCBases
  ArgSeqs <- MCArgSeqs
  Preds <- MCPreds
  FT <- MCFT
  AddNames = {"zz"}
  MaxMut = 1
  AllKeys = TRUE
  MaxDer = 2
  ChooseCopyShares = TRUE
  ReverseDropsUntagged = FALSE
  Emit = FALSE
SPECIFICATION Spec
INVARIANT TypeOK
INVARIANT Refines
INVARIANT ClassSound
INVARIANT AliasSane
INVARIANT LawsHold
CHECK_DEADLOCK FALSE
