CONSTANTS
  XMaxLen = 4
  ExpandOnce = FALSE
  XEmit = TRUE
SPECIFICATION XSpec
INVARIANT ImplIsExpand
INVARIANT NoneLeft
INVARIANT Idempotent
INVARIANT OthersKept
INVARIANT XEmitCase
CHECK_DEADLOCK FALSE
