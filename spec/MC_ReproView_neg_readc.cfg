CONSTANTS
  Names = {1, 2, 3}
  Start <- StartN
  MaxParas = 9
  EditFields = TRUE
  SetVals = {}
  SetSpells = {"U", "L"}
  Ops = {}
  Emit = FALSE
  WViews <- W16
  RViews <- AllViewNos
  XVals <- XAll
  RawVals <- RawAll
  SimpleVals <- SimpleAll
  CLists <- CLAll
  Modes <- ModesAll
  MaxW = 1
  XOps = {"get", "has", "kv", "set", "del", "raw", "simple", "cmt", "val"}
  Bugs <- NoBugs
  Neg = "ReadKeepsComments"
SPECIFICATION XSpec
INVARIANT StoredValid
INVARIANT ReadAgree
INVARIANT ReadShape
INVARIANT XNoEmptyPara
PROPERTY RoundTrip
PROPERTY Supplies
PROPERTY Rejects
PROPERTY CommentKept
PROPERTY ArResolves
PROPERTY ArRefuses
PROPERTY XErrAtomic
PROPERTY Frame
PROPERTY ViewsShare
VIEW XView
CHECK_DEADLOCK FALSE
