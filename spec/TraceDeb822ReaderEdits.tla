---------------------- MODULE TraceDeb822ReaderEdits ----------------------
(***************************************************************************)
(* C02 -- trace validation of edit/render histories of ONE live paragraph. *)
(* A trace: [init |-> <<[k, v]>>, events |-> <<event>>]; an event is       *)
(* [op, k, r, v, v2, obs, rend, same]: a public mutator (or "render") with *)
(* its arguments (k, r = ranks of names, v, v2 = values split at newlines),*)
(* obs = the fields of the object afterwards, rend = for every way of      *)
(* rendering it (dump(), str(), bytes(), dump(fd) text / binary, dump(fd,  *)
(* encoding), get_as_string) the paragraphs the REAL reader gets back from *)
(* that rendering, same = all renderings are the same text.                *)
(* The mutators are the E* operators of Deb822ReaderEdits; every rendering *)
(* must re-parse to exactly the model's current fields in current order.   *)
(***************************************************************************)
EXTENDS Deb822ReaderEdits, IOUtils, TLCExt

Traces == JsonDeserialize(IOEnv.TRACE_FILE)
Diag   == IOEnv.TRACE_DIAG = "1"

VARIABLES tid, l
Tr == Traces[tid]

TEInit == /\ tid \in 1..Len(Traces) /\ l = 1
          /\ rd = RInit(FALSE) /\ doc = <<>>
          /\ obj = Traces[tid].init
          /\ memo = [valid |-> FALSE, lines |-> <<>>]

Effect(o, e) ==
  CASE e.op \in {"set", "merge_from_other"} -> ESet(o, e.k, e.v)
    [] e.op \in {"del", "pop"}   -> ERm(o, e.k)
    [] e.op = "popitem"          -> Tail(o)
    [] e.op = "clear"            -> <<>>
    [] e.op = "setdefault"       -> IF EHas(o, e.k) THEN o ELSE ESet(o, e.k, e.v)
    [] e.op = "update"           -> ESet(ESet(o, e.k, e.v), e.r, e.v2)
    [] e.op = "order_first"      -> EFirst(o, e.k)
    [] e.op = "order_last"       -> ELast(o, e.k)
    [] e.op = "order_before"     -> EBefore(o, e.k, e.r)
    [] e.op = "order_after"      -> EAfter(o, e.k, e.r)
    [] e.op = "sort_fields"      -> ESort(o, TRUE)
    [] e.op = "sort_fields_key"  -> ESort(o, FALSE)
    [] e.op \in {"merge_only_here", "render"} -> o

Defined(o, e) == /\ e.op \in {"del", "pop", "order_first", "order_last", "merge_only_here"} => EHas(o, e.k)
                 /\ e.op \in {"order_before", "order_after"} => (e.k # e.r /\ EHas(o, e.k) /\ EHas(o, e.r))
                 /\ e.op = "popitem" => o # <<>>
                 /\ e.op = "merge_from_other" => ~EHas(o, e.k)

TEStep == /\ l <= Len(Tr.events)
          /\ LET e == Tr.events[l] IN
               /\ Defined(obj, e)
               /\ obj' = Effect(obj, e)
               /\ obj' = e.obs                                   \* the object is what the model says
               /\ \A i \in 1..Len(e.rend) : e.rend[i] = (IF obj' = <<>> THEN <<>> ELSE <<obj'>>)   \* every rendering re-parses to it
               /\ e.same
          /\ l' = l + 1 /\ UNCHANGED <<tid, vars, memo>>
          /\ (Diag => PrintT(<<"AT", tid, l>>))
          /\ (l' = Len(Tr.events) + 1 => PrintT(<<"ACCEPTED", tid>>))

TESpec == TEInit /\ [][TEStep]_<<vars, evars, tid, l>>
TENamesUnique == NamesUnique
=============================================================================
