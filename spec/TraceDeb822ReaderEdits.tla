---------------------- MODULE TraceDeb822ReaderEdits ----------------------
(***************************************************************************)
(* C02 -- trace validation of edit/render histories of ONE live paragraph. *)
(* A trace: [init |-> <<[k, v]>>, events |-> <<event>>]; an event is       *)
(* [op, k, r, v, v2, obs, rend, same]: a public mutator (or "render") with *)
(* its arguments (k, r = ranks of names, v, v2 = values split at newlines),*)
(* obs = the fields of the object afterwards, rend = for every way of      *)
(* rendering it (dump(), str(), bytes(), dump(fd) text / binary, dump(fd,  *)
(* encoding), get_as_string) the paragraphs the REAL reader gets back from *)
(* that rendering, same = all renderings are the same text.                *)
(* The mutators are the E* operators of Deb822ReaderEdits; every rendering *)
(* must re-parse to exactly the model's current fields in current order.   *)
(* Refused / failing calls (refused_set, absent, popitem_empty,             *)
(* sort_key_fault, sort_key_incomparable, dump_fault; e.how = the variant) *)
(* carry the observed outcome e.res ("ok", the exception class, "caller" = *)
(* the caller's own exception object came out): it must be the model's, the *)
(* paragraph afterwards and all its renderings must be what they were.     *)
(***************************************************************************)
EXTENDS Deb822ReaderEdits, IOUtils, TLCExt

Traces == JsonDeserialize(IOEnv.TRACE_FILE)
Diag   == IOEnv.TRACE_DIAG = "1"

VARIABLES tid, l
Chk(pred_) == pred_ = TRUE      \* pure checks inside an action: no branching
Tr == Traces[tid]

TEInit == /\ tid \in 1..Len(Traces) /\ l = 1
          /\ rd = RInit(FALSE) /\ doc = <<>>
          /\ obj = Traces[tid].init
          /\ memo = [valid |-> FALSE, lines |-> <<>>]

Effect(o, e) ==
  CASE e.op \in {"set", "merge_from_other"} -> ESet(o, e.k, e.v)
    [] e.op \in {"del", "pop"}   -> ERm(o, e.k)
    [] e.op = "popitem"          -> Tail(o)
    [] e.op = "clear"            -> <<>>
    [] e.op = "setdefault"       -> IF EHas(o, e.k) THEN o ELSE ESet(o, e.k, e.v)
    [] e.op = "update"           -> ESet(ESet(o, e.k, e.v), e.r, e.v2)
    [] e.op = "order_first"      -> EFirst(o, e.k)
    [] e.op = "order_last"       -> ELast(o, e.k)
    [] e.op = "order_before"     -> EBefore(o, e.k, e.r)
    [] e.op = "order_after"      -> EAfter(o, e.k, e.r)
    [] e.op = "sort_fields"      -> ESort(o, TRUE)
    [] e.op = "sort_fields_key"  -> ESort(o, FALSE)
    [] e.op \in {"merge_only_here", "render"} -> o
    [] e.op = "refused_set"      -> ERefused(o, e.k, e.how)
    [] e.op \in {"absent", "popitem_empty", "sort_key_fault", "sort_key_incomparable", "dump_fault"} -> o

\* the outcome of the call itself
Outcome(o, e) ==
  CASE e.op = "refused_set"           -> ERefusedRes(o, e.k, e.how)
    [] e.op = "absent"                -> EAbsentRes(e.how)
    [] e.op = "popitem_empty"         -> "KeyError"
    [] e.op \in {"sort_key_fault", "dump_fault"} -> ECallerRes(o)
    [] e.op = "sort_key_incomparable" -> EIncomparableRes(o)
    [] OTHER                          -> "ok"

Defined(o, e) == /\ e.op \in {"del", "pop", "order_first", "order_last", "merge_only_here"} => EHas(o, e.k)
                 /\ e.op \in {"order_before", "order_after"} => (e.k # e.r /\ EHas(o, e.k) /\ EHas(o, e.r))
                 /\ e.op = "popitem" => o # <<>>
                 /\ e.op = "merge_from_other" => ~EHas(o, e.k)
                 /\ e.op = "refused_set" => (e.how \in SetHows /\ (e.how = "merge" => ~EHas(o, e.k)))
                 /\ e.op = "absent" => (e.how \in AbsHows /\ ~EHas(o, e.k))
                 /\ e.op = "popitem_empty" => o = <<>>

TEStep == /\ l <= Len(Tr.events)
          /\ LET e == Tr.events[l] IN
               /\ Chk(Defined(obj, e))
               /\ e.res = Outcome(obj, e)                          \* the call ends the way the model says
               /\ obj' = Effect(obj, e)
               /\ obj' = e.obs                                   \* the object is what the model says
               /\ Chk(\A i \in 1..Len(e.rend) : e.rend[i] = (IF obj' = <<>> THEN <<>> ELSE <<obj'>>))   \* every rendering re-parses to it
               /\ e.same
          /\ l' = l + 1 /\ UNCHANGED <<tid, vars, memo>>
          /\ (Diag => PrintT(<<"AT", tid, l>>))
          /\ (l' = Len(Tr.events) + 1 => PrintT(<<"ACCEPTED", tid>>))

TESpec == TEInit /\ [][TEStep]_<<vars, evars, tid, l>>
TENamesUnique == NamesUnique
=============================================================================
