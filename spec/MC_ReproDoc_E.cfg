CONSTANTS
  Names = {1, 2}
  Start <- StartMixed
  MaxParas = 2
  EditFields = TRUE
  SetVals = {101}
  SetSpells = {"U"}
  Ops = {"get", "set", "del", "first", "last", "before", "after", "sort", "sortby", "insert", "append", "appendo", "inserto"}
  Emit = TRUE
SPECIFICATION Spec
INVARIANT NoEmptyPara
INVARIANT ParasSeparated
INVARIANT NoDupStaysUnique
INVARIANT NoBlobDuplication
INVARIANT SortByLaws
INVARIANT DefaultSortIsByName
PROPERTY ErrAtomic
PROPERTY CommentsStay
PROPERTY SepsKept
VIEW DocView
CHECK_DEADLOCK FALSE
