-------------------------- MODULE CopyrightStructMC --------------------------
(***************************************************************************)
(* X13 -- closed models of CopyrightStruct.tla.                            *)
(*   one   ONE document started from every input of <= 2 accepted         *)
(*         paragraphs (and Copyright()); the caller owns NF Files and NL   *)
(*         License paragraph objects, one Header and one object of no      *)
(*         paragraph class; lists of <= MaxLen objects (the same object    *)
(*         may be added twice)                                             *)
(*   two   TWO documents (Copyright() and a parsed License + Files         *)
(*         document) that can hold the caller's and each other's objects   *)
(* Every action instance prints an EDGE line (Emit) that the harness       *)
(* replays into real objects.                                              *)
(***************************************************************************)
EXTENDS CopyrightStruct

CONSTANTS Which, MaxLen, NF, NL, Emit

VARIABLES docs, res, call
svars == <<docs, res, call>>

Starts == IF Which = "one" THEN {<<>>, <<"F">>, <<"L">>, <<"F", "F">>, <<"F", "L">>, <<"L", "F">>, <<"L", "L">>}
          ELSE {<<>>, <<"L", "F">>}
NDocs  == IF Which = "one" THEN 1 ELSE 2
Pool   == {Obj("F", 0, i) : i \in 1..NF} \cup {Obj("L", 0, i) : i \in 1..NL} \cup {Obj("H", 0, 1), Obj("X", 0, 1)}
\* the objects the caller can get hold of: its own and (through the queries) those of the documents
Known  == Pool \cup UNION {{docs[d].hdr} \cup {docs[d].ps[i] : i \in 1..Len(docs[d].ps)} : d \in DOMAIN docs}

SInit == \E f \in [1..NDocs -> Starts] :
             /\ (Which = "two" => (f[1] = <<>> /\ f[2] = <<"L", "F">>)) = TRUE
             /\ docs = [d \in 1..NDocs |-> StartDoc(d, f[d])]
             /\ res = ROk /\ call = NoCall

Edge(c, o) == Emit => PrintT(<<"EDGE", ToJson([from |-> docs, call |-> c, res |-> o.r, to |-> o.ds])>>)
Do(c) == LET o == SCall(docs, c, SCfg) IN
         /\ (\A d \in DOMAIN o.ds : Len(o.ds[d].ps) <= MaxLen) = TRUE
         /\ docs' = o.ds /\ res' = o.r /\ call' = c
         /\ Edge(c, o)

SNext == \E d \in DOMAIN docs :
            \/ \E op \in Commands \cup {"touch"} : \E o \in Known : Do(SC(op, d, o))
            \/ \E op \in Queries \ {"touch"} : Do(SC(op, d, NoObj))
SSpec == SInit /\ [][SNext]_svars
SView == docs

----------------------------------------------------------------------------
\* the design.  (call' / res' are outputs: action properties)
ObjOK(o)  == o.k \in {"H", "F", "L"}
DocsOK    == \A d \in DOMAIN docs : /\ docs[d].hdr.k = "H"
                                    /\ \A i \in 1..Len(docs[d].ps) : docs[d].ps[i].k \in {"F", "L"}
D  == call'.d
\* add_files_paragraph: directly after the last Files paragraph there was, nothing else moves (declaratively)
AddFilesRule == [][(call'.op = "add_files" /\ res' = ROk) =>
                   LET old == docs[D].ps new == docs'[D].ps IN
                   \E k \in 0..Len(old) : /\ new = PutAfter(old, k, call'.o)
                                          /\ (k = 0 \/ old[k].k = "F")
                                          /\ \A j \in (k + 1)..Len(old) : old[j].k # "F"
                                          /\ (k = 0 => \A j \in 1..Len(old) : old[j].k # "F")]_svars
AddLicenseRule == [][(call'.op = "add_license" /\ res' = ROk) => docs'[D].ps = Append(docs[D].ps, call'.o)]_svars
SetHeaderRule  == [][(call'.op = "set_header" /\ res' = ROk) => docs'[D] = [docs[D] EXCEPT !.hdr = call'.o]]_svars
HeaderKept     == [][call'.op # "set_header" => docs'[D].hdr = docs[D].hdr]_svars
\* an argument of the wrong class: TypeError; the right class: accepted
TypeChecked == [][call'.op \in Commands =>
                  LET want == CASE call'.op = "add_files" -> "F" [] call'.op = "add_license" -> "L" [] OTHER -> "H" IN
                  IF call'.o.k = want THEN res' = ROk ELSE res' = RErr("TypeError")]_svars
ErrAtomic   == [][res'.t = "err" => docs' = docs]_svars
QueriesPure == [][call'.op \in Queries => docs' = docs]_svars
DocsIndependent == [][\A e \in DOMAIN docs : e # D => docs'[e] = docs[e]]_svars
\* the views agree: all = header + list; files and licenses partition the list, in list order
ViewsAgree == [][/\ (call'.op \in {"all", "iter", "dump"} => res'.os = <<docs[D].hdr>> \o docs[D].ps)
                 /\ (call'.op = "header" => res'.os = <<docs[D].hdr>>)
                 /\ (call'.op = "files" => /\ \A i \in 1..Len(res'.os) : res'.os[i].k = "F"
                                           /\ Len(res'.os) = Cardinality(IdxOf(docs[D].ps, "F")))
                 /\ (call'.op = "licenses" => /\ \A i \in 1..Len(res'.os) : res'.os[i].k = "L"
                                              /\ Len(res'.os) + Cardinality(IdxOf(docs[D].ps, "F")) = Len(docs[D].ps))]_svars
\* consequence for users: a document whose Files paragraphs all come before its License paragraphs
\* (Copyright(), the layout of the format specification) keeps that layout whatever is added
FilesFirst(ps)  == \A i, j \in 1..Len(ps) : (ps[i].k = "L" /\ ps[j].k = "F") => j < i
LayoutKept == [][FilesFirst(docs[D].ps) => FilesFirst(docs'[D].ps)]_svars
=============================================================================
