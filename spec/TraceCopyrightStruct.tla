----------------------- MODULE TraceCopyrightStruct -----------------------
(***************************************************************************)
(* X13 -- trace validation of recorded histories over real                 *)
(* debian.copyright.Copyright objects (harness/props/x13.py): several live *)
(* documents, created by Copyright() or by parsing a text of a known       *)
(* SHAPE (strict or not), changed through add_files_paragraph /            *)
(* add_license_paragraph / the header setter with objects of the caller or *)
(* of other documents, and read through every query.  Objects are the      *)
(* identity terms [k, d, i] of CopyrightStruct.tla; the harness maps real  *)
(* objects to terms by id().                                               *)
(* A trace is a sequence of events [op, d, o, inp, strict, res, pobs, obs]:*)
(*   new     Copyright(): document d = number of documents so far + 1      *)
(*   parse   Copyright(text of shape inp, strict): pobs = what happened    *)
(*           [err, kinds, keep, fmt, warned, known]; explained by Load of        *)
(*           CopyrightValid.tla; an accepted input becomes document d      *)
(*   other   a call of CopyrightStruct.tla with its result res             *)
(*   obs     all documents as observed after the call (<<>>: not observed) *)
(* When IOEnv.KNOWN_SILENT = "1" (open finding X13-nonstrict-silent) a     *)
(* parse event that only the as-built table explains is accepted with a    *)
(* <<"REJECT", tid, finding, l>> note for the harness.                     *)
(***************************************************************************)
EXTENDS CopyrightStruct, CopyrightValid, IOUtils, TLCExt

Traces      == JsonDeserialize(IOEnv.TRACE_FILE)
Diag        == IOEnv.TRACE_DIAG = "1"
KnownSilent == IOEnv.KNOWN_SILENT = "1"

VARIABLES tid, l, tdocs
tvars == <<tid, l, tdocs>>
Tr == Traces[tid]

TInit == /\ tid \in 1..Len(Traces) /\ l = 1 /\ tdocs = <<>>

Chk(b) == b = TRUE
ParseMatch(exp, o) ==
    IF o.err # "" THEN o.err \in exp.errs
    ELSE /\ exp.errs = {}
         /\ o.kinds = exp.kinds /\ o.keep = exp.keep
         /\ (exp.unspec \/ (o.fmt = exp.fmt /\ o.warned = exp.warned /\ o.known = exp.known))

TStep ==
    /\ l <= Len(Tr)
    /\ LET e == Tr[l] IN
       /\ CASE e.op = "new" ->
                 /\ Chk(e.d = Len(tdocs) + 1)
                 /\ tdocs' = Append(tdocs, StartDoc(e.d, <<>>))
            [] e.op = "parse" ->
                 LET stmt == Load(e.inp, e.strict, VStmt) built == Load(e.inp, e.strict, VBuilt) IN
                 /\ \/ Chk(ParseMatch(stmt, e.pobs))
                    \/ /\ Chk(~ParseMatch(stmt, e.pobs) /\ KnownSilent /\ ParseMatch(built, e.pobs))
                       /\ PrintT(<<"REJECT", tid, "X13-nonstrict-silent", l>>)
                 /\ IF e.pobs.err # "" THEN tdocs' = tdocs
                    ELSE /\ Chk(e.d = Len(tdocs) + 1)
                         /\ tdocs' = Append(tdocs, StartDoc(e.d, e.pobs.kinds))
            [] OTHER ->
                 LET o == SCall(tdocs, SC(e.op, e.d, e.o), SStmt) IN
                 /\ Chk(e.d \in DOMAIN tdocs)
                 /\ Chk(o.r = e.res)
                 /\ tdocs' = o.ds
       /\ Chk(e.obs = <<>> \/ e.obs = tdocs')
    /\ l' = l + 1 /\ UNCHANGED tid
    /\ (Diag => PrintT(<<"AT", tid, l>>))
    /\ (l' = Len(Tr) + 1 => PrintT(<<"ACCEPTED", tid>>))

TSpec == TInit /\ [][TStep]_tvars
=============================================================================
