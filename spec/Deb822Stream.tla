---------------------------- MODULE Deb822Stream ----------------------------
(***************************************************************************)
(* C02 -- the TRANSPORT below the line-level reader of Deb822Reader.       *)
(*                                                                         *)
(* The statement says that the result does not depend on the input form,   *)
(* "text or binary file object" included.  A file object hands the         *)
(* document over as a stream of bytes that somebody (io.BufferedReader,    *)
(* GzipFile, TextIOWrapper, a block-wise line reader inside the library    *)
(* ...) cuts into CHUNKS of some block size -- or shorter ones when the     *)
(* raw stream returns short reads -- and re-assembles into lines.  The     *)
(* line-level model of Deb822Reader is only right for such an input form   *)
(* if the lines that come out are the lines that went in, WHEREVER the     *)
(* cuts fall: in particular when a newline is the last / first / second    *)
(* byte of a block, when a line is longer than a block, when a multi-byte  *)
(* character straddles a cut and when the last line has no newline.        *)
(*                                                                         *)
(* Bytes are small integers: NLb = 0 is the newline, a byte i > 0 belongs  *)
(* to line i of the document (so lines are told apart, and a FRAGMENT of   *)
(* a line -- e.g. half of a multi-byte character -- is not that line).     *)
(* Blank lines have no bytes, every other line 1 or 2 (WidthModes).        *)
(*                                                                         *)
(*   StreamOf(ls, m, fnl)   the bytes of the lines ls, with / without the  *)
(*                          final newline                                  *)
(*   ChunksFrom(bs, C, 1)   bs cut after every position in C               *)
(*   FeedChunk / AtEof      the reference chunk-to-line reader: carry the  *)
(*                          unfinished line over to the next chunk         *)
(*   ReadLines(chunks)      the lines it delivers                          *)
(*   CutSets(n)             block cuts for every block size in BlockSizes  *)
(*                          and every phase (= every alignment of every    *)
(*                          line end with a block boundary), one chunk,    *)
(*                          byte-by-byte delivery, and (ShortReads) every  *)
(*                          one of them with one more cut anywhere (a      *)
(*                          short read)                                    *)
(*                                                                         *)
(* Checked for every bounded document P of Deb822Reader (BSpec) and its    *)
(* dump D, also with a comment before every line, two leading / trailing   *)
(* blank lines and (single paragraphs) inside clearsign armor:             *)
(*   StreamLines  the delivered lines are the lines of the document        *)
(*   StreamParse  hence Parse(delivered lines) = P                         *)
(*   (StreamInvariant = both, evaluated together)                          *)
(* Negative controls tried (each makes TLC report the named invariant):    *)
(*   KeepEmptyTail = TRUE    a chunk that stops right at a newline is      *)
(*                           "complete": the empty remainder of the split  *)
(*                           is delivered as a line -> StreamParse (the    *)
(*                           paragraph is cut in two) and StreamLines      *)
(*   DropPartialLast = TRUE  the unfinished line at end of input is lost   *)
(*                           (no final newline) -> StreamParse             *)
(*   PerChunkLines = TRUE    every chunk is split on its own, nothing is   *)
(*                           carried over -> StreamLines / StreamParse     *)
(* The POSITION of a file object (hardening round 7).  A file object is a  *)
(* stream AND a position: the caller may have taken k whole lines through  *)
(* it (a header line, the first paragraph with Deb822(f)) before he hands  *)
(* it to the reader, and may read on through it afterwards.  The layered   *)
(* reader has FETCHED whole chunks by then: it holds complete lines it has *)
(* not handed out yet and an unfinished one (FeedUntil).  What the next    *)
(* reader of the same object gets is what follows the lines handed out     *)
(* (RestLines), not what follows the chunks fetched.                       *)
(*   OneEnd(ls)         the lines Deb822(x) takes from a line source: up   *)
(*                      to and including the first separator after the     *)
(*                      first payload line (unarmored documents)           *)
(*   ReadOnInvariant    line level: the first OneEnd(X) lines give P[1],   *)
(*                      the lines after them Tail(P) -- X = the dump, a    *)
(*                      comment anywhere / everywhere, leading / trailing  *)
(*                      lines, every separator shape                       *)
(*   PositionInvariant  transport: after k lines were handed out (a junk / *)
(*                      comment / blank-terminated header in front of the  *)
(*                      document: k = its length, rest parses to P; the    *)
(*                      document itself: k = OneEnd, rest parses to        *)
(*                      Tail(P)) the lines delivered from then on are the  *)
(*                      remaining lines of the document, under every       *)
(*                      cutting                                            *)
(*   BufferShortcut = TRUE (negative control) the next reader goes to the  *)
(*                      layer BELOW ("avoid the double buffering"): what    *)
(*                      the upper layer fetched but did not hand out is    *)
(*                      skipped -> PositionInvariant                       *)
(* The harness (harness/props/c02.py) binds this layer by feeding the      *)
(* documents of the CASE replay and the recorded documents through every   *)
(* kind of file object, padded so that a line end falls exactly at, one    *)
(* before and one after a multiple of 2^k (k = 9..17) or so that a         *)
(* multi-byte character straddles it; the expected result is the parse of  *)
(* the same abstract case (form-independent by StreamParse).               *)
(***************************************************************************)
EXTENDS Deb822Reader

CONSTANTS BlockSizes,        \* block sizes tried (e.g. {2, 3, 4})
          WidthModes,        \* 1: every non-empty line has 1 byte, 2: 2 bytes (one two-byte character), 3: alternating
          ShortReads,        \* TRUE: also every cutting + one more cut anywhere
          KeepEmptyTail,     \* design: FALSE
          DropPartialLast,   \* design: FALSE
          PerChunkLines,     \* design: FALSE
          BufferShortcut     \* design: FALSE

NLb == 0
WidthOf(ls, i, m) == IF ls[i].c = "Blank" THEN 0 ELSE IF m = 3 THEN 1 + (i % 2) ELSE m
LineBytes(ls, i, m) == [j \in 1..WidthOf(ls, i, m) |-> i]
StreamOf(ls, m, fnl) ==
    LET all == Flat([i \in 1..Len(ls) |-> Append(LineBytes(ls, i, m), NLb)])
    IN IF fnl \/ ls = <<>> \/ ls[Len(ls)].c = "Blank" THEN all ELSE SubSeq(all, 1, Len(all) - 1)

\* the pieces between the newlines (always at least one: what follows the last newline)
RECURSIVE SplitNL(_)
SplitNL(bs) == IF \A i \in 1..Len(bs) : bs[i] # NLb THEN <<bs>>
               ELSE LET p == CHOOSE i \in 1..Len(bs) : bs[i] = NLb /\ \A j \in 1..(i - 1) : bs[j] # NLb
                    IN <<SubSeq(bs, 1, p - 1)>> \o SplitNL(SubSeq(bs, p + 1, Len(bs)))

\* the reference chunk-to-line reader
FeedChunk(st, ch) ==
    LET ps == SplitNL((IF PerChunkLines THEN <<>> ELSE st.pend) \o ch)
        n  == Len(ps)
    IN IF KeepEmptyTail /\ ch[Len(ch)] = NLb
       THEN [pend |-> <<>>, out |-> st.out \o ps]                  \* (negative control)
       ELSE [pend |-> ps[n], out |-> st.out \o SubSeq(ps, 1, n - 1)]
AtEof(st) == IF st.pend # <<>> /\ ~DropPartialLast THEN Append(st.out, st.pend) ELSE st.out
RECURSIVE FeedAll(_, _, _)
FeedAll(st, chunks, i) == IF i > Len(chunks) THEN st ELSE FeedAll(FeedChunk(st, chunks[i]), chunks, i + 1)
ReadLines(chunks) == AtEof(FeedAll([pend |-> <<>>, out |-> <<>>], chunks, 1))

\* bs cut after every position of C (C a subset of 1..Len(bs)-1)
RECURSIVE ChunksFrom(_, _, _)
ChunksFrom(bs, C, lo) ==
    IF lo > Len(bs) THEN <<>>
    ELSE LET later == {c \in C : c >= lo}
             nxt   == IF later = {} THEN Len(bs) ELSE CHOOSE c \in later : \A d \in later : c <= d
         IN <<SubSeq(bs, lo, nxt)>> \o ChunksFrom(bs, C, nxt + 1)

BlockCuts(n, B, ph) == {c \in 1..(n - 1) : (c + ph) % B = 0}
CutSets(n) == LET blocks == UNION {{BlockCuts(n, B, ph) : ph \in 0..(B - 1)} : B \in BlockSizes} \cup {{}, 1..(n - 1)}
              IN IF ShortReads THEN blocks \cup {C \cup {c} : C \in blocks, c \in 1..(n - 1)} ELSE blocks

\* a delivered piece is a line of the document, an (unexpected) empty line, or a fragment
DecodeLine(ls, m, piece) ==
    IF piece = <<>> THEN BlankLn
    ELSE IF \E i \in 1..Len(ls) : piece = LineBytes(ls, i, m)
         THEN ls[CHOOSE i \in 1..Len(ls) : piece = LineBytes(ls, i, m)]
         ELSE JunkLn
Delivered(ls, m, fnl, C) ==
    LET bs == StreamOf(ls, m, fnl)
        ps == ReadLines(ChunksFrom(bs, C, 1))
    IN [i \in 1..Len(ps) |-> DecodeLine(ls, m, ps[i])]

\* the input families fed through file objects
StreamDocs == {D, AllComments(D), <<BlankLn, CommentLn>> \o D \o <<BlankLn, BlankLn>>}
              \cup (IF Len(P) = 1 /\ Len(P[1]) <= ArmorMaxFields THEN {Armor(D, a) : a \in ArmorShapes} ELSE {})
Transported(ls) == UNION {{Delivered(ls, m, fnl, C) : C \in CutSets(Len(StreamOf(ls, m, fnl)))} :
                             m \in WidthModes, fnl \in BOOLEAN}

StreamLines == \A ls \in StreamDocs : \A got \in Transported(ls) : got = ls
StreamParse == \A ls \in StreamDocs : \A got \in Transported(ls) : Parse(got) = P
\* both at once (the design configurations: the deliveries are computed once)
StreamInvariant == \A ls \in StreamDocs : \A got \in Transported(ls) : got = ls /\ Parse(got) = P

----------------------------------------------------------------------------
(* the position of a file object *)
SepClass(c) == c = "Blank" \/ (WsSeparates /\ c = "WsOnly")
PayClass(c) == c \notin {"Blank", "WsOnly", "Comment"}
\* the number of lines Deb822(x) takes from a line source (documents without armor)
OneEnd(ls) ==
    LET pay == {i \in 1..Len(ls) : PayClass(ls[i].c)}
    IN IF pay = {} THEN Len(ls)
       ELSE LET f    == CHOOSE i \in pay : \A j \in pay : i <= j
                seps == {j \in (f + 1)..Len(ls) : SepClass(ls[j].c)}
            IN IF seps = {} THEN Len(ls) ELSE CHOOSE j \in seps : \A q \in seps : j <= q
From(ls, k) == SubSeq(ls, k + 1, Len(ls))

PlainLeads == {pre \in Leads : \A i \in 1..Len(pre) : pre[i].c # "WsOnly"}
ReadOnDocs == {D, AllComments(D)} \cup {InsertAt(D, i, CommentLn) : i \in 0..Len(D)}
              \cup {pre \o D \o post : pre \in PlainLeads, post \in PlainLeads}
              \cup {DumpSep(P, sep) : sep \in {q \in Seps : \A i \in 1..Len(q) : q[i].c # "WsOnly"}}
ReadOnInvariant == P # <<>> => \A X \in ReadOnDocs :
    LET k == OneEnd(X) IN ParseOne(SubSeq(X, 1, k)) = P[1] /\ Parse(From(X, k)) = Tail(P)

\* feed chunks until k lines are complete (k < number of lines: the k-th line ends in a newline)
RECURSIVE FeedUntil(_, _, _, _)
FeedUntil(st, chunks, i, k) ==
    IF Len(st.out) >= k \/ i > Len(chunks) THEN [st |-> st, i |-> i]
    ELSE FeedUntil(FeedChunk(st, chunks[i]), chunks, i + 1, k)
RestLines(chunks, k) ==
    LET h    == FeedUntil([pend |-> <<>>, out |-> <<>>], chunks, 1, k)
        held == [pend |-> h.st.pend, out |-> From(h.st.out, k)]          \* k lines went to the caller
        from == IF BufferShortcut THEN [pend |-> <<>>, out |-> <<>>] ELSE held
    IN AtEof(FeedAll(from, chunks, h.i))
DeliveredFrom(ls, m, fnl, C, k) ==
    LET ps == RestLines(ChunksFrom(StreamOf(ls, m, fnl), C, 1), k)
    IN [i \in 1..Len(ps) |-> DecodeLine(ls, m, ps[i])]

Heads == {<<JunkLn>>, <<CommentLn>>, <<JunkLn, BlankLn>>}
PosCases == {[ls |-> h \o D, k |-> Len(h), want |-> P] : h \in (IF D = <<>> THEN {} ELSE Heads)}
            \cup (IF Len(P) >= 2
                  THEN {[ls |-> X, k |-> OneEnd(X), want |-> Tail(P)] :
                           X \in {D, AllComments(D), <<BlankLn, CommentLn>> \o D \o <<BlankLn, BlankLn>>}}
                  ELSE {})
PositionInvariant ==
    \A pc \in PosCases : \A m \in WidthModes, fnl \in BOOLEAN :
        \A C \in CutSets(Len(StreamOf(pc.ls, m, fnl))) :
            LET got == DeliveredFrom(pc.ls, m, fnl, C, pc.k)
            IN got = From(pc.ls, pc.k) /\ Parse(got) = pc.want
=============================================================================
