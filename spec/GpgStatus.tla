---------------------------- MODULE GpgStatus ----------------------------
(***************************************************************************)
(* X05 (b) -- debian.deb822.GpgInfo: reading the --status-fd output of     *)
(* gpg / gpgv (from_output, from_sequence) and valid().                    *)
(*                                                                         *)
(* STATEMENT.  A STATUS LINE is a line that begins with "[GNUPG:] "; what  *)
(* follows is a keyword and its arguments, separated by single spaces.     *)
(* For every interleaving of status lines and other lines, from_output     *)
(* yields exactly the mapping keyword -> argument list of the status       *)
(* lines whose keyword is not one of NEWSIG, KEY_CONSIDERED, PROGRESS      *)
(* (never stored); a keyword that occurs several times maps to the         *)
(* arguments of its LAST occurrence; for GOODSIG, EXPSIG, EXPKEYSIG,       *)
(* REVKEYSIG, BADSIG the list is [keyid, uid] with the uid (everything     *)
(* after the key id, spaces included) unsplit; a keyword without           *)
(* arguments maps to [].  The result does not depend on the form of the    *)
(* input (one str, a list of lines with or without trailing newlines;      *)
(* from_sequence: bytes / list of bytes lines through the gpgv process),   *)
(* and valid() is TRUE exactly when GOODSIG or VALIDSIG is a key.          *)
(*                                                                         *)
(* A line is a sequence of TOKENS [c |-> class, i |-> id]:                 *)
(*   H   the word "[GNUPG:]" as FIRST token of the line (id 11)            *)
(*   SP  one U+0020 (id 0)      NL  the trailing newline of a list item    *)
(*   W   a maximal run of characters other than U+0020 and newline; the id *)
(*       names its text: 1 GOODSIG 2 VALIDSIG 3 EXPSIG 4 EXPKEYSIG         *)
(*       5 REVKEYSIG 6 BADSIG 7 NEWSIG 8 KEY_CONSIDERED 9 PROGRESS         *)
(*       10 NEWSI 11 [GNUPG:]  >= 20 anything else.                        *)
(* A value is a sequence of items, an item a sequence of ids (the text is  *)
(* the concatenation; <<>> is ''); the key -k is the text of k without its *)
(* last character, the key EmptyKey is ''.  Every W stands for a run of    *)
(* any length (no operator looks inside): length-independent by            *)
(* construction.                                                           *)
(*                                                                         *)
(* Layers:                                                                 *)
(*  statement       GStmt (one line: skip / store / unspec), RefMap (last  *)
(*                  occurrence wins, declaratively), RefValid              *)
(*  implementation  GImpl: the loop body of from_output, one operator per  *)
(*                  branch (GSkipNonStatus, GSkipIgnored, GStoreUid,       *)
(*                  GStorePlain, GStoreArgless), folded by ImplMap.        *)
(*  "unspec" lines (executed, any outcome accepted): empty keyword,        *)
(*  doubled / trailing spaces (empty arguments), a uid key without key id. *)
(*                                                                         *)
(* Bounded configurations: Spec enumerates every sequence of <= GMaxLines  *)
(* lines over a palette (status lines of all branches, duplicates with     *)
(* different arguments, near-headers, other lines); LSpec every single     *)
(* line of <= GMaxLen tokens that begins with "[GNUPG:] " and every other  *)
(* line of <= GShort tokens.  Invariants: ImplRefines, LastWins,           *)
(* ValidIffSig, NonStatusIgnored, StmtFoldIsRefMap, LineRefines.           *)
(*                                                                         *)
(* Spec-level negative controls (each tried; x05.py re-runs them):         *)
(*   ArglessQuirk = TRUE  (no argument: find(' ') = -1 cuts the last       *)
(*                         character off the key and stores [keyword] --   *)
(*                         what the code in /repo does: finding            *)
(*                         X05-argless-keyword)  -> LineRefines violated   *)
(*   FirstWins = TRUE     (first occurrence kept) -> ImplRefines violated  *)
(*   ValidAny = TRUE      (valid() = any *SIG key, e.g. BADSIG)            *)
(*                                               -> ValidIffSig violated   *)
(***************************************************************************)
EXTENDS Integers, Sequences, FiniteSets, TLC, Json

CONSTANTS GMaxLines,     \* longest input (lines)
          GPalette,      \* palette indices offered
          GMaxLen,       \* longest single line (tokens)
          GShort,        \* longest single line that does not begin with "[GNUPG:] "
          ArglessQuirk,  \* negative control = the behaviour of the code (known finding)
          FirstWins,     \* negative control
          ValidAny,      \* negative control
          GEmit          \* TRUE: print GCASE / GLINE lines for the harness

VARIABLES glines,        \* the input chosen so far: palette indices
          gmap,          \* the implementation's mapping after reading glines
          gline          \* LSpec: the single line, a sequence of classes
gvars == <<glines, gmap, gline>>

----------------------------------------------------------------------------
GTk(c, i) == [c |-> c, i |-> i]
GIds(ts)  == [p \in 1..Len(ts) |-> ts[p].i]
GoodSig   == 1
ValidSig  == 2
UidKeys   == {1, 3, 4, 5, 6}
Ignored   == {7, 8, 9}
IgnoredImpl == {7, 8, 9, 10}        \* the code also lists 'NEWSI'
EmptyKey  == -1000
HId       == 11

GSkip  == [k |-> "skip"]
GUn    == [k |-> "unspec"]
GStore(key, val) == [k |-> "store", key |-> key, val |-> val]

StripNl(ts) == IF Len(ts) > 0 /\ ts[Len(ts)].c = "NL" THEN SubSeq(ts, 1, Len(ts) - 1) ELSE ts
IsStatus(line) == Len(line) >= 2 /\ line[1].c = "H" /\ line[2].c = "SP"
Rest(line) == StripNl(SubSeq(line, 3, Len(line)))

\* s.split(' '): the items between single spaces
RECURSIVE GSplit(_, _, _, _)
GSplit(ts, p, cur, out) ==
   IF p > Len(ts) THEN Append(out, cur)
   ELSE IF ts[p].c = "SP" THEN GSplit(ts, p + 1, <<>>, Append(out, cur))
   ELSE GSplit(ts, p + 1, Append(cur, ts[p].i), out)
SplitAll(ts) == GSplit(ts, 1, <<>>, <<>>)
\* s.split(' ', 1)
FirstSp(ts) == IF \E p \in 1..Len(ts) : ts[p].c = "SP"
               THEN CHOOSE p \in 1..Len(ts) : ts[p].c = "SP" /\ \A q \in 1..(p - 1) : ts[q].c # "SP"
               ELSE 0
SplitOnce(ts) == LET p == FirstSp(ts)
                 IN IF p = 0 THEN <<GIds(ts)>>
                    ELSE <<GIds(SubSeq(ts, 1, p - 1)), GIds(SubSeq(ts, p + 1, Len(ts)))>>

\* W (SP W)*
ArgsShape(ts) == /\ Len(ts) % 2 = 1
                 /\ \A p \in 1..Len(ts) : ts[p].c = (IF p % 2 = 1 THEN "W" ELSE "SP")

----------------------------------------------------------------------------
\* statement: what one line contributes
GStmt(line) ==
   IF ~IsStatus(line) THEN GSkip
   ELSE LET r == Rest(line) IN
        IF r = <<>> THEN GUn
        ELSE IF r[1].c # "W" THEN GUn
        ELSE LET kw == r[1].i
                 args == SubSeq(r, 3, Len(r))
             IN IF kw \in Ignored THEN GSkip
                ELSE IF Len(r) = 1 THEN GStore(kw, <<>>)
                ELSE IF args = <<>> THEN GUn                      \* "KEYWORD "
                ELSE IF kw \in UidKeys
                     THEN (IF args[1].c # "W" THEN GUn              \* no key id
                           ELSE IF Len(args) = 2 THEN GUn           \* "KEYID " -- empty uid
                           ELSE GStore(kw, SplitOnce(args)))
                ELSE IF ArgsShape(args) THEN GStore(kw, SplitAll(args))
                ELSE GUn

\* implementation: the loop body of from_output, one operator per branch
GSkipNonStatus(line) == ~IsStatus(line)
GKeyOf(r)  == IF r = <<>> \/ r[1].c # "W" THEN EmptyKey ELSE r[1].i
GHasSp(r)  == \E p \in 1..Len(r) : r[p].c = "SP"
GArgs(r)   == SubSeq(r, FirstSp(r) + 1, Len(r))
GStoreArgless(r, quirk) ==           \* line.find(' ') = -1
   IF ~quirk THEN (IF GKeyOf(r) \in Ignored THEN GSkip ELSE GStore(GKeyOf(r), <<>>))
   ELSE IF r = <<>> THEN GStore(EmptyKey, << <<>> >>)
   ELSE IF r[1].i = 7 THEN GSkip                                  \* 'NEWSI' is on the skip list
   ELSE GStore(0 - r[1].i, <<GIds(r)>>)
GStoreUid(r)   == GStore(GKeyOf(r), SplitOnce(GArgs(r)))
GStorePlain(r) == GStore(GKeyOf(r), SplitAll(GArgs(r)))
GImpl(line, quirk) ==
   IF GSkipNonStatus(line) THEN GSkip
   ELSE LET r == Rest(line) IN
        IF ~GHasSp(r) THEN GStoreArgless(r, quirk)
        ELSE LET key == IF r[1].c = "SP" THEN EmptyKey ELSE r[1].i
             IN IF key \in IgnoredImpl THEN GSkip
                ELSE IF key \in UidKeys THEN GStoreUid(r)
                ELSE GStorePlain(r)

\* mappings as functions on a finite set of keys
EmptyMap == [x \in {} |-> <<>>]
Put(m, key, val) == [x \in DOMAIN m \cup {key} |-> IF x = key THEN val ELSE m[x]]
\* one step of a reader: o is what the line contributes
MapStep(m, o) ==
   IF o.k # "store" THEN m
   ELSE IF FirstWins /\ o.key \in DOMAIN m THEN m
   ELSE Put(m, o.key, o.val)
ImplStep(m, line, quirk) == MapStep(m, GImpl(line, quirk))
RECURSIVE ImplMapFrom(_, _, _, _)
ImplMapFrom(m, ls, k, quirk) == IF k > Len(ls) THEN m ELSE ImplMapFrom(ImplStep(m, ls[k], quirk), ls, k + 1, quirk)
ImplMap(ls, quirk) == ImplMapFrom(EmptyMap, ls, 1, quirk)
\* the statement read operationally (later occurrences overwrite earlier ones); StmtFoldIsRefMap
\* ties it to the declarative RefMap below -- the trace module uses it for inputs of 1000+ lines
RECURSIVE StmtFoldFrom(_, _, _)
StmtFoldFrom(m, ls, k) ==
   IF k > Len(ls) THEN m
   ELSE LET o == GStmt(ls[k])
        IN StmtFoldFrom(IF o.k = "store" THEN Put(m, o.key, o.val) ELSE m, ls, k + 1)
StmtFold(ls) == StmtFoldFrom(EmptyMap, ls, 1)

\* statement for a whole input (declarative): the last storing occurrence of every keyword
\* (st: what every line contributes, computed once)
StmtSeq(ls)   == [k \in 1..Len(ls) |-> GStmt(ls[k])]
StoreIdxOf(st) == {k \in 1..Len(st) : st[k].k = "store"}
GDecided(ls)  == \A k \in 1..Len(ls) : GStmt(ls[k]).k # "unspec"
GKeysOf(st)   == {st[k].key : k \in StoreIdxOf(st)}
GKeys(ls)     == GKeysOf(StmtSeq(ls))
LastOfSt(st, key) == CHOOSE k \in StoreIdxOf(st) : /\ st[k].key = key
                                                   /\ \A j \in StoreIdxOf(st) : st[j].key = key => j <= k
RefMap(ls)    == LET st == StmtSeq(ls) IN [key \in GKeysOf(st) |-> st[LastOfSt(st, key)].val]
RefValid(ls)  == GoodSig \in GKeys(ls) \/ ValidSig \in GKeys(ls)
ImplValid(m)  == IF ValidAny THEN DOMAIN m \cap (UidKeys \cup {ValidSig}) # {}
                 ELSE GoodSig \in DOMAIN m \/ ValidSig \in DOMAIN m
Argless(line) == IsStatus(line) /\ ~GHasSp(Rest(line))
MapEntries(m) == {[key |-> x, val |-> m[x]] : x \in DOMAIN m}

----------------------------------------------------------------------------
\* palette of lines for the multi-line configuration
tH  == GTk("H", HId)
tS  == GTk("SP", 0)
tNL == GTk("NL", 12)
tW(i) == GTk("W", i)
GPal == <<
   <<tH, tS, tW(1), tS, tW(20), tS, tW(21), tS, tS, tW(22)>>,      \*  1 GOODSIG keyid uid with  two spaces
   <<tH, tS, tW(1), tS, tW(23), tS, tW(24), tNL>>,               \*  2 GOODSIG again, other arguments
   <<tH, tS, tW(2), tS, tW(25), tS, tW(26), tS, tW(27)>>,         \*  3 VALIDSIG a b c
   <<tH, tS, tW(6), tS, tW(20), tS, tW(21)>>,                   \*  4 BADSIG keyid uid
   <<tH, tS, tW(30), tS, tW(31), tS, tW(32), tS, tW(33)>>,        \*  5 SIG_ID a b c
   <<tH, tS, tW(30), tS, tW(34), tNL>>,                        \*  6 SIG_ID d          (duplicate keyword)
   <<tH, tS, tW(7), tS, tW(20), tNL>>,                         \*  7 NEWSIG keyid      (never stored)
   <<tH, tS, tW(7)>>,                                       \*  8 NEWSIG
   <<tH, tS, tW(8), tS, tW(20), tS, tW(35)>>,                   \*  9 KEY_CONSIDERED fpr 0
   <<tW(36), tS, tW(1), tS, tW(20), tS, tW(21)>>,               \* 10 "gpgv: GOODSIG ..."  not a status line
   <<tS, tH, tS, tW(2), tS, tW(25)>>,                          \* 11 " [GNUPG:] VALIDSIG x": header not first
   <<>>,                                                 \* 12 empty line
   <<tH, tS, tW(37)>>,                                      \* 13 argless keyword (e.g. BADARMOR)
   <<tH, tS, tW(6), tS, tW(20)>> >>                           \* 14 BADSIG keyid     (no uid)
\* (in line 11 the tokenizer calls "[GNUPG:]" a W: it is not the first token)
PalLine(n) == IF n = 11 THEN <<tS, tW(HId), tS, tW(2), tS, tW(25)>> ELSE GPal[n]
Lines(ix)  == [k \in 1..Len(ix) |-> PalLine(ix[k])]

Init == glines = <<>> /\ gmap = EmptyMap /\ gline = <<>>
Next == /\ Len(glines) < GMaxLines
        /\ \E n \in GPalette :
              /\ glines' = Append(glines, n)
              /\ gmap' = ImplStep(gmap, PalLine(n), ArglessQuirk)
        /\ UNCHANGED gline
Spec == Init /\ [][Next]_gvars

\* single lines: classes H SP NL and the words g GOODSIG v VALIDSIG u BADSIG i NEWSIG k KEY_CONSIDERED p other
LClasses == {"H", "SP", "NL", "Wg", "Wv", "Wu", "Wi", "Wk", "Wp"}
IsWordC(c) == c \notin {"SP", "NL"}
LWellTok(cs) == /\ \A p \in 1..(Len(cs) - 1) : ~(IsWordC(cs[p]) /\ IsWordC(cs[p + 1])) /\ cs[p] # "NL"
TokOf(c, p) == CASE c = "H"  -> (IF p = 1 THEN tH ELSE tW(HId))
                 [] c = "SP" -> tS
                 [] c = "NL" -> tNL
                 [] c = "Wg" -> tW(1)
                 [] c = "Wv" -> tW(2)
                 [] c = "Wu" -> tW(6)
                 [] c = "Wi" -> tW(7)
                 [] c = "Wk" -> tW(8)
                 [] c = "Wp" -> tW(100 + p)
LToks(cs) == [p \in 1..Len(cs) |-> TokOf(cs[p], p)]
LInit == glines = <<>> /\ gmap = EmptyMap /\ gline = <<>>
\* lines that cannot become status lines any more are only enumerated up to GShort tokens
LOpen(cs) == IF Len(cs) < GShort THEN TRUE
             ELSE cs[1] = "H" /\ cs[2] = "SP"
LNext == /\ Len(gline) < GMaxLen /\ LOpen(gline)
         /\ \E c \in LClasses : LWellTok(Append(gline, c)) /\ gline' = Append(gline, c)
         /\ UNCHANGED <<glines, gmap>>
LSpec == LInit /\ [][LNext]_gvars

----------------------------------------------------------------------------
\* what is checked in every state
In  == Lines(glines)
One == LToks(gline)

GTypeOK == LWellTok(gline) /\ \A k \in 1..Len(glines) : glines[k] \in GPalette

\* the automaton computes the declared mapping (inputs the statement decides)
ImplRefines == GDecided(In) => gmap = RefMap(In)
StmtFoldIsRefMap == StmtFold(In) = RefMap(In)
\* ... which maps every stored keyword to the arguments of its last occurrence, and nothing else
LastWins == LET st == StmtSeq(In)
                rm == RefMap(In)
            IN \A key \in DOMAIN rm :
                  /\ \E k \in 1..Len(st) : st[k] = GStore(key, rm[key])
                                           /\ \A j \in (k + 1)..Len(st) : st[j].k = "store" => st[j].key # key
                  /\ key \notin Ignored
ValidIffSig == GDecided(In) => (ImplValid(gmap) <=> RefValid(In))
\* lines that are not status lines change nothing
NonStatusIgnored == \A k \in 1..Len(In) : ~IsStatus(In[k]) => GImpl(In[k], TRUE) = GSkip
\* single line: the branch taken by the implementation agrees with the statement
LineRefines == /\ GStmt(One).k # "unspec" => GImpl(One, ArglessQuirk) = GStmt(One)
               /\ ~IsStatus(One) => GImpl(One, TRUE) = GSkip

----------------------------------------------------------------------------
\* emission (spec -> code); imap / impl: the code as it is (with the argless quirk)
EmitPal  == (GEmit /\ glines = <<>>) => PrintT(<<"GPAL", ToJson([n \in 1..Len(GPal) |-> PalLine(n)])>>)
EmitCase == GEmit => PrintT(<<"GCASE", ToJson([ix |-> glines, decided |-> GDecided(In),
                                              map |-> MapEntries(RefMap(In)), valid |-> RefValid(In),
                                              imap |-> MapEntries(ImplMap(In, TRUE)),
                                              ivalid |-> ImplValid(ImplMap(In, TRUE))])>>)
EmitLine == GEmit => PrintT(<<"GLINE", ToJson([cs |-> gline, toks |-> One, stmt |-> GStmt(One), impl |-> GImpl(One, TRUE)])>>)
=============================================================================
