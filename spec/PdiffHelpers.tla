----------------------------- MODULE PdiffHelpers -----------------------------
(***************************************************************************)
(* X18 -- the value-level helpers of debian.debian_support around pdiff    *)
(* handling: read_lines_sha1 / read_lines_sha256 (part H), patch_lines     *)
(* (part P), merge_as_sets (part M) and the decoding done by               *)
(* download_gunzip_lines (part G).  Pure operators (re-used by             *)
(* TracePdiffHelpers) plus one bounded enumeration per part: PhWhich       *)
(* selects the part, every case is printed with its expected result        *)
(* (CASE lines) and the laws of the part are checked on every case.        *)
(*                                                                         *)
(* H  The digest is the SHA-1 / SHA-256 of the CONCATENATION of the items: *)
(*    str items as UTF-8, bytes items as they are -- so it depends on the  *)
(*    byte string only, never on how it is cut into items, on the mix of   *)
(*    str and bytes items, on empty items or on the kind of iterable.      *)
(*    Model: a text is a sequence of characters given by their UTF-8       *)
(*    length; a case is the text, a cutting of its bytes into chunks and a *)
(*    kind per chunk (str only where both cuts are character boundaries);  *)
(*    the expected digest preimage HPre is the byte sequence.              *)
(*    Negative control HMode = "latin1" (one byte per character of a str   *)
(*    item) -> HChunkingInvisible.                                         *)
(* P  patch_lines(lines, patches) applies the hunks (first, last, args)    *)
(*    one after the other IN THE ORDER GIVEN, each to the list as the      *)
(*    previous ones left it: lines[first:last] is replaced by args, in     *)
(*    place.  A hunk with 0 <= first <= last <= len is in the domain; one  *)
(*    that reaches beyond the end may be refused (exception) or is cut at  *)
(*    the end like a slice; reversed ranges are unspecified.               *)
(*    Negative control PMode = "sorted" (hunks applied bottom-up whatever  *)
(*    the order given) -> PSequentialAsGiven.                              *)
(* M  merge_as_sets(seqs...) is the strictly increasing list of the distinct*)
(*    elements of all arguments.  Negative control MMode = "keepdups".     *)
(* G  The lines of a gzip file are the lines of the concatenation of its   *)
(*    members, cut after every newline and nowhere else (a line may span   *)
(*    members; the last line need not end in a newline); zero padding      *)
(*    after the last member is ignored; a file that is not gzip, is        *)
(*    truncated or fails its CRC raises.  Unspecified: a zero-byte file,   *)
(*    garbage after the last member, bytes that are not UTF-8.  Symbols:   *)
(*    "x" a run of ordinary characters, "n" newline, "r" carriage return   *)
(*    (GUniversal = the universal-newlines reading, the known divergence). *)
(*    Negative control GMode = "perMember" -> GMemberBoundaryInvisible.    *)
(***************************************************************************)
EXTENDS Integers, Sequences, FiniteSets, TLC, Json

CONSTANTS PhWhich,      \* "H" | "P" | "M" | "G"
          PhEmit,
          HMode, HMaxChars, HMaxCls, HMaxChunks,
          PMode, PMaxLen, PMaxIdx, PMaxHunks,
          MMode, MRanks, MMaxLen, MMaxArgs,
          GMode, GMaxLen, GMaxMembers

VARIABLES pk, pdone
phvars == <<pk, pdone>>

PhMin(x, y) == IF x < y THEN x ELSE y
PhMax(x, y) == IF x > y THEN x ELSE y
SeqsUpTo(S, n) == UNION {[1..k -> S] : k \in 0..n}
RECURSIVE PhConcat(_)
PhConcat(ss) == IF ss = <<>> THEN <<>> ELSE Head(ss) \o PhConcat(Tail(ss))
PhRange(s) == {s[i] : i \in 1..Len(s)}
\* nondecreasing sequences of k cut points in 0..n
PhCuts(k, n) == {c \in [1..k -> 0..n] : \A i \in 1..(k - 1) : c[i] <= c[i + 1]}

----------------------------------------------------------------------------
\* H -- digests

RECURSIVE HSum(_, _)
HSum(t, n) == IF n = 0 THEN 0 ELSE t[n] + HSum(t, n - 1)
HTotal(t) == HSum(t, Len(t))
HBoundaries(t) == {HSum(t, i) : i \in 0..Len(t)}
\* the UTF-8 bytes of character i of the text: <<i, 1>> .. <<i, t[i]>>
HCharBytes(t, i) == IF HMode = "latin1" THEN << <<i, 1>> >> ELSE [b \in 1..t[i] |-> <<i, b>>]
HCharBytesStd(t, i) == [b \in 1..t[i] |-> <<i, b>>]
HBytes(t) == PhConcat([i \in 1..Len(t) |-> HCharBytesStd(t, i)])
\* number of characters that end at or before byte offset o
HCharsUpTo(t, o) == Cardinality({i \in 1..Len(t) : HSum(t, i) <= o})
\* what a chunk feeds into the hash
HChunkBytes(t, ch) ==
  IF ch.kind = "str"
  THEN LET ci == HCharsUpTo(t, ch.lo)  cj == HCharsUpTo(t, ch.hi) IN
       PhConcat([i \in 1..(cj - ci) |-> HCharBytes(t, ci + i)])
  ELSE SubSeq(HBytes(t), ch.lo + 1, ch.hi)
HPre(t, chunks) == PhConcat([j \in 1..Len(chunks) |-> HChunkBytes(t, chunks[j])])

HTexts == SeqsUpTo(1..HMaxCls, HMaxChars)
HChunkings(t) ==
  LET n == HTotal(t) IN
  UNION { { [j \in 1..k |-> [kind |-> kinds[j], lo |-> IF j = 1 THEN 0 ELSE c[j - 1], hi |-> IF j = k THEN n ELSE c[j]]] :
              kinds \in [1..k -> {"str", "bytes"}], c \in PhCuts(k - 1, n) } : k \in 1..HMaxChunks }
  \cup (IF n = 0 THEN {<<>>} ELSE {})
HValid(t, chunks) == \A j \in 1..Len(chunks) :
                        chunks[j].kind = "str" => chunks[j].lo \in HBoundaries(t) /\ chunks[j].hi \in HBoundaries(t)
HCases == UNION {{[text |-> t, chunks |-> ch] : ch \in {x \in HChunkings(t) : HValid(t, x)}} : t \in HTexts}

\* the digest sees the bytes of the text, however it is cut
HChunkingInvisible(c) == HPre(c.text, c.chunks) = HBytes(c.text)
HOut(c) == [text |-> c.text, chunks |-> c.chunks, pre |-> HBytes(c.text)]

----------------------------------------------------------------------------
\* P -- patch_lines

PBufs == {[i \in 1..n |-> i] : n \in 0..PMaxLen}
PArgs == {<<>>, <<7>>, <<7, 8>>}
PHunks == [f : 0..PMaxIdx, l : 0..PMaxIdx, a : PArgs]
PLists == SeqsUpTo(PHunks, PMaxHunks)

PZone(buf, h) == IF h.f < 0 \/ h.f > h.l THEN "odd" ELSE IF h.l <= Len(buf) THEN "in" ELSE "beyond"
\* replacement of buf[f:l] by the arguments, cut at the end of the buffer like a slice
PSlice(buf, h) == LET n == Len(buf)  f == PhMin(h.f, n)  l == PhMax(f, PhMin(h.l, n)) IN
                  SubSeq(buf, 1, f) \o h.a \o SubSeq(buf, l + 1, n)
PWorse(z1, z2) == IF "odd" \in {z1, z2} THEN "odd" ELSE IF "beyond" \in {z1, z2} THEN "beyond" ELSE "in"
RECURSIVE PRun(_, _, _)
PRun(buf, zone, hs) == IF hs = <<>> THEN [buf |-> buf, zone |-> zone]
                       ELSE PRun(PSlice(buf, Head(hs)), PWorse(zone, PZone(buf, Head(hs))), Tail(hs))
PApplyAll(buf, hs) == PRun(buf, "in", hs)

\* declaratively: r is buf with the lines f+1..l replaced by the arguments
PIsReplacement(buf, h, r) ==
  LET d == Len(h.a) - (h.l - h.f) IN
  /\ Len(r) = Len(buf) + d
  /\ \A i \in 1..h.f : r[i] = buf[i]
  /\ \A j \in 1..Len(h.a) : r[h.f + j] = h.a[j]
  /\ \A i \in (h.l + 1)..Len(buf) : r[i + d] = buf[i]
PCharacterised(c) == \A h \in PhRange(c.hunks) : PZone(c.buf, h) = "in" => PIsReplacement(c.buf, h, PSlice(c.buf, h))

\* negative control: the hunks are put into bottom-up order first
RECURSIVE PInsertDesc(_, _)
PInsertDesc(h, s) == IF s = <<>> THEN <<h>> ELSE IF h.f >= Head(s).f THEN <<h>> \o s ELSE <<Head(s)>> \o PInsertDesc(h, Tail(s))
RECURSIVE PSortDesc(_)
PSortDesc(hs) == IF hs = <<>> THEN <<>> ELSE PInsertDesc(Head(hs), PSortDesc(Tail(hs)))
PImpl(buf, hs) == PApplyAll(buf, IF PMode = "sorted" THEN PSortDesc(hs) ELSE hs)
PSequentialAsGiven(c) == PImpl(c.buf, c.hunks) = PApplyAll(c.buf, c.hunks)

PCases == {[buf |-> b, hunks |-> hs] : b \in PBufs, hs \in PLists}
POut(c) == LET r == PApplyAll(c.buf, c.hunks) IN [buf |-> c.buf, hunks |-> c.hunks, res |-> r.buf, zone |-> r.zone]

----------------------------------------------------------------------------
\* M -- merge_as_sets

MSeqs == SeqsUpTo(1..MRanks, MMaxLen)
MArgSets == SeqsUpTo(MSeqs, MMaxArgs)
MUnion(args) == UNION {PhRange(args[i]) : i \in 1..Len(args)}
MSorted(S) == [i \in 1..Cardinality(S) |-> CHOOSE x \in S : Cardinality({y \in S : y < x}) = i - 1]
\* negative control: duplicates survive
RECURSIVE MInsert(_, _)
MInsert(x, s) == IF s = <<>> THEN <<x>> ELSE IF x <= Head(s) THEN <<x>> \o s ELSE <<Head(s)>> \o MInsert(x, Tail(s))
RECURSIVE MSortAll(_)
MSortAll(s) == IF s = <<>> THEN <<>> ELSE MInsert(Head(s), MSortAll(Tail(s)))
MImpl(args) == IF MMode = "keepdups" THEN MSortAll(PhConcat(args)) ELSE MSorted(MUnion(args))
MStrictlyIncreasing(c) == LET r == MImpl(c.args) IN \A i \in 1..(Len(r) - 1) : r[i] < r[i + 1]
MIsUnion(c) == PhRange(MImpl(c.args)) = MUnion(c.args)
MCases == {[args |-> a] : a \in MArgSets}
MOut(c) == [args |-> c.args, res |-> MSorted(MUnion(c.args))]

----------------------------------------------------------------------------
\* G -- lines of a gzip file

GSyms == {"x", "n", "r"}
GContents == SeqsUpTo(GSyms, GMaxLen)
GDamages == {"none", "zeropad", "trunc", "crc", "notgz", "garbage", "emptyfile", "undecodable"}
\* tokens: [i |-> index into the content, s |-> symbol delivered]
GTokens(c) == [i \in 1..Len(c) |-> [i |-> i, s |-> c[i]]]
\* universal newlines: CR LF -> LF, lone CR -> LF
GUniversal(c) ==
  LET keep == {i \in 1..Len(c) : ~(c[i] = "r" /\ i < Len(c) /\ c[i + 1] = "n")}
      nth(j) == CHOOSE i \in keep : Cardinality({m \in keep : m < i}) = j - 1
  IN [j \in 1..Cardinality(keep) |-> [i |-> nth(j), s |-> IF c[nth(j)] = "r" THEN "n" ELSE c[nth(j)]]]
\* cut a token sequence after every newline
GSplit(toks) ==
  LET n == Len(toks)
      ends == {i \in 1..n : toks[i].s = "n"} \cup (IF n > 0 /\ toks[n].s # "n" THEN {n} ELSE {})
      nthEnd(j) == CHOOSE e \in ends : Cardinality({m \in ends : m < e}) = j - 1
  IN [j \in 1..Cardinality(ends) |-> SubSeq(toks, (IF j = 1 THEN 1 ELSE nthEnd(j - 1) + 1), nthEnd(j))]
GLines(c) == GSplit(GTokens(c))
GCrLines(c) == GSplit(GUniversal(c))

\* members: cut points into the content
GMembers(c, cuts) == LET k == Len(cuts) + 1 IN
  [j \in 1..k |-> SubSeq(GTokens(c), (IF j = 1 THEN 1 ELSE cuts[j - 1] + 1), (IF j = k THEN Len(c) ELSE cuts[j]))]
GImpl(c, cuts) == IF GMode = "perMember"
                  THEN PhConcat([j \in 1..(Len(cuts) + 1) |-> GSplit(GMembers(c, cuts)[j])])
                  ELSE GSplit(PhConcat(GMembers(c, cuts)))
GMemberBoundaryInvisible(k) == GImpl(k.content, k.cuts) = GLines(k.content)
\* the lines are a partition of the content; each is non-empty, has no newline inside, and all but the last end in one
GLinesCharacterised(k) ==
  LET ls == GLines(k.content) IN
  /\ PhConcat(ls) = GTokens(k.content)
  /\ \A j \in 1..Len(ls) : /\ ls[j] # <<>>
                           /\ \A m \in 1..(Len(ls[j]) - 1) : ls[j][m].s # "n"
                           /\ (j < Len(ls) => ls[j][Len(ls[j])].s = "n")
GExpect(d) == IF d \in {"none", "zeropad"} THEN "lines" ELSE IF d \in {"trunc", "crc", "notgz"} THEN "raise" ELSE "any"
GCases == {[content |-> c, cuts |-> cu, damage |-> d] :
              c \in GContents, cu \in UNION {PhCuts(k, GMaxLen) : k \in 0..(GMaxMembers - 1)}, d \in GDamages}
GOk(k) == /\ \A i \in 1..Len(k.cuts) : k.cuts[i] <= Len(k.content)
          /\ (k.damage # "none" => Len(k.cuts) <= 1)
          /\ (k.damage = "emptyfile" => k.content = <<>> /\ k.cuts = <<>>)
GOut(k) == [content |-> k.content, cuts |-> k.cuts, damage |-> k.damage, expect |-> GExpect(k.damage),
            lines |-> GLines(k.content), crlines |-> GCrLines(k.content),
            hascr |-> \E i \in 1..Len(k.content) : k.content[i] = "r"]

----------------------------------------------------------------------------
PhCases == IF PhWhich = "H" THEN HCases
           ELSE IF PhWhich = "P" THEN PCases
           ELSE IF PhWhich = "M" THEN MCases
           ELSE {k \in GCases : GOk(k)}
PhOut(c) == IF PhWhich = "H" THEN ToJson(HOut(c)) ELSE IF PhWhich = "P" THEN ToJson(POut(c))
            ELSE IF PhWhich = "M" THEN ToJson(MOut(c)) ELSE ToJson(GOut(c))

PhInit == pk \in PhCases /\ pdone = FALSE
PhNext == /\ ~pdone /\ pdone' = TRUE /\ UNCHANGED pk
          /\ (PhEmit => PrintT(<<"CASE", PhOut(pk)>>))
PhSpec == PhInit /\ [][PhNext]_phvars

PhLaws == ~pdone =>
            IF PhWhich = "H" THEN HChunkingInvisible(pk)
            ELSE IF PhWhich = "P" THEN PCharacterised(pk) /\ PSequentialAsGiven(pk)
            ELSE IF PhWhich = "M" THEN MStrictlyIncreasing(pk) /\ MIsUnion(pk)
            ELSE GMemberBoundaryInvisible(pk) /\ GLinesCharacterised(pk)
\* named single laws (negative controls report the law they break)
HChunkingInvisibleInv == PhWhich = "H" /\ ~pdone => HChunkingInvisible(pk)
PSequentialAsGivenInv == PhWhich = "P" /\ ~pdone => PSequentialAsGiven(pk)
PCharacterisedInv == PhWhich = "P" /\ ~pdone => PCharacterised(pk)
MStrictlyIncreasingInv == PhWhich = "M" /\ ~pdone => MStrictlyIncreasing(pk)
MIsUnionInv == PhWhich = "M" /\ ~pdone => MIsUnion(pk)
GMemberBoundaryInvisibleInv == PhWhich = "G" /\ ~pdone => GMemberBoundaryInvisible(pk)
GLinesCharacterisedInv == PhWhich = "G" /\ ~pdone => GLinesCharacterised(pk)
=============================================================================
