\* C13 closed configuration (thorough): every atom shape (3612) as the focus atom at every position
\* of every list shape (1..3 conjuncts x 1..2 alternatives), context atoms bare / with every part
CONSTANTS
  MaxConj = 3
  MaxAlt = 2
  MaxAtoms = 6
  MaxArch = 2
  MaxGroups = 2
  MaxTerms = 2
  OpIds = {1, 2, 3, 4, 5}
  CtxKinds = {"bare", "full"}
  Emit = TRUE
  RestrictionsFirst = FALSE
  IgnoreNegation = FALSE
  PipeFirst = FALSE
  FormatInKeyOrder = FALSE
  SplitLimit = 0
  LimitedSplits = {}
  KeyOrders <- OneKeyOrder
SPECIFICATION Spec
INVARIANT AllProps
CHECK_DEADLOCK FALSE
