---------------------------- MODULE LookAheadBuf ----------------------------
(***************************************************************************)
(* X06 -- implementation layer of BufferingIterator, transcribed from      *)
(* lib/debian/_deb822_repro/_util.py: the deque _buffer, the wrapped       *)
(* iterator _stream and the flag _expired.                                 *)
(*                                                                         *)
(* The wrapped iterator is a SCRIPT: a sequence of what successive         *)
(* __next__ calls on it do -- x > 0: return item x; 0: raise StopIteration;*)
(* -1: raise an exception; after the script: StopIteration for ever.       *)
(* <<a, b>> is a list / generator, <<a, 0, c>> a source that resumes after *)
(* its end (a growing file), <<a, 0, -1>> one that raises when asked again *)
(* after its end, <<a, -1, b>> a transient failure, <<a, -1>> a source     *)
(* that fails at its end (len_check_iterator over a wrong tokenisation).   *)
(* polls counts the __next__ calls on the source (observable with a        *)
(* counting source), stops those that signalled the end.                   *)
(*                                                                         *)
(* Every composite action is  implementation step /\ reference action of  *)
(* LookAhead (or RInterrupt when the source raised); SameResult, Refines,  *)
(* ReadAhead, NoRepoll are checked by TLC for every history over the       *)
(* script family of the configuration.  The loops of _fill_buffer,         *)
(* peek_find and list(takewhile) exist twice: step by step as in the code  *)
(* (FillStep, PFStep, TLStep: used when UseClosed = FALSE) and in closed   *)
(* form (FillX, PFClosed, TLClosed: no recursion, used by the trace module *)
(* on sources of 10^4 items); ClosedOK checks in every reachable state     *)
(* that both agree.                                                        *)
(*                                                                         *)
(* Switches: Latch = TRUE is the statement (once the source has signalled  *)
(* its end it is never asked again); Latch = FALSE is the code as it is    *)
(* (__next__ forgets to set _expired) and makes TLC report NoRepoll /      *)
(* SameResult -- negative control and the KNOWN finding of the check.      *)
(* Bug = "discard" (takewhile drops the first non-matching item, as        *)
(* itertools.takewhile does), "overconsume" (consume_many empties a buffer *)
(* that holds more than count items), "peekpops" (peek_at pops) are        *)
(* further negative controls.                                              *)
(***************************************************************************)
EXTENDS LookAhead

CONSTANTS Scripts,    \* set of scripts explored (model checking only)
          ArgK,       \* arguments of peek_at / peek_many / consume_many
          Lims,       \* limits of peek_find (-1 = None)
          Preds,      \* predicates = sets of classes
          MaxGens,    \* takewhile results alive in one history
          Latch, UseClosed, Bug, Emit

VARIABLES script,     \* the whole script (never changes)
          rest,       \* script not yet polled
          buf,        \* _buffer
          expired,    \* _expired
          polls,      \* __next__ calls on the source so far
          stops,      \* of which signalled the end
          igens,      \* generator objects of takewhile: <<[p, done]>>
          ires        \* result of the implementation layer

ivars == <<script, rest, buf, expired, polls, stops, igens, ires>>
vars  == <<rvars, ivars>>

FR(b, r, e, dp, err) == [buf |-> b, rest |-> r, exp |-> e, dp |-> dp, err |-> err]

\* ---- _fill_buffer(n), step by step
RECURSIVE FillStep(_, _, _, _, _)
FillStep(b, r, e, dp, n) ==
    IF e \/ Len(b) >= n THEN FR(b, r, e, dp, FALSE)
    ELSE IF r = <<>> THEN FR(b, r, TRUE, dp + 1, FALSE)
    ELSE IF Head(r) = 0 THEN FR(b, Tail(r), TRUE, dp + 1, FALSE)
    ELSE IF Head(r) = -1 THEN FR(b, Tail(r), e, dp + 1, TRUE)
    ELSE FillStep(Append(b, Head(r)), Tail(r), e, dp + 1, n)

\* ---- _fill_buffer(n), closed form
FillClosed(b, r, e, n) ==
    IF e \/ Len(b) >= n THEN FR(b, r, e, 0, FALSE)
    ELSE LET need == n - Len(b)
             q    == SelectInSeq(SubSeq(r, 1, LAMin(need, Len(r))), LAMBDA x : x <= 0)
         IN IF q = 0
            THEN IF Len(r) >= need
                 THEN FR(b \o SubSeq(r, 1, need), SubSeq(r, need + 1, Len(r)), FALSE, need, FALSE)
                 ELSE FR(b \o r, <<>>, TRUE, Len(r) + 1, FALSE)
            ELSE FR(b \o SubSeq(r, 1, q - 1), SubSeq(r, q + 1, Len(r)), r[q] = 0, q, r[q] = -1)

FillX(b, r, e, n) == IF UseClosed THEN FillClosed(b, r, e, n) ELSE FillStep(b, r, e, 0, n)

\* ---- one iteration of the takewhile generator: `while buffer or self._fill_buffer(5)`
SR(f, dp, rr) == [buf |-> f.buf, rest |-> f.rest, exp |-> f.exp, dp |-> dp, res |-> rr]
TwStepFn(b, r, e, p) ==
    LET f == IF b # <<>> THEN FR(b, r, e, 0, FALSE) ELSE FillX(b, r, e, Chunk)
    IN IF f.err THEN SR(f, f.dp, LAErr)
       ELSE IF f.buf = <<>> THEN SR(f, f.dp, LAStop)
       ELSE IF LASat(p, Head(f.buf)) THEN SR([f EXCEPT !.buf = Tail(f.buf)], f.dp, LAItem(Head(f.buf)))
       ELSE IF Bug = "discard" THEN SR([f EXCEPT !.buf = Tail(f.buf)], f.dp, LAStop)
       ELSE SR(f, f.dp, LAStop)

\* ---- list(takewhile(p)), step by step; took = number of items consumed
TR(s, dp, rr, took) == [buf |-> s.buf, rest |-> s.rest, exp |-> s.exp, dp |-> dp, res |-> rr, took |-> took]
RECURSIVE TLStep(_, _, _, _, _, _)
TLStep(b, r, e, dp, p, acc) ==
    LET s == TwStepFn(b, r, e, p)
    IN IF s.res.t = "item" THEN TLStep(s.buf, s.rest, s.exp, dp + s.dp, p, Append(acc, s.res.v[1]))
       ELSE IF s.res.t = "err" THEN TR(s, dp + s.dp, LAErr, Len(acc))
       ELSE TR(s, dp + s.dp, LAList(acc), Len(acc))

\* what the buffer can still get: the entries of rest before the first that is not an item
Boundary(r, e) == IF e THEN 0 ELSE SelectInSeq(r, LAMBDA x : x <= 0)
Avail(r, e)    == LET q == Boundary(r, e) IN IF e THEN <<>> ELSE IF q = 0 THEN r ELSE SubSeq(r, 1, q - 1)
After(r, q)    == IF q = 0 THEN <<>> ELSE SubSeq(r, q + 1, Len(r))

\* ---- list(takewhile(p)), closed form
TLClosed(b, r, e, p) ==
    LET q   == Boundary(r, e)
        all == b \o Avail(r, e)
        T   == Len(all)
        bl  == Len(b)
        k   == LATakeLen(all, p)
        m   == IF e \/ k < bl THEN 0 ELSE ((k - bl) \div Chunk) + 1      \* number of _fill_buffer(5) calls
        tgt == bl + Chunk * m
    IN IF m = 0
       THEN [buf |-> SubSeq(b, k + 1, bl), rest |-> r, exp |-> e, dp |-> 0, res |-> LAList(SubSeq(all, 1, k)), took |-> k]
       ELSE IF tgt <= T
       THEN [buf |-> SubSeq(all, k + 1, tgt), rest |-> SubSeq(r, tgt - bl + 1, Len(r)), exp |-> FALSE,
             dp |-> tgt - bl, res |-> LAList(SubSeq(all, 1, k)), took |-> k]
       ELSE IF q > 0 /\ r[q] = -1
       THEN LET c == bl + Chunk * ((T - bl) \div Chunk)                  \* consumed when the source raised
            IN [buf |-> SubSeq(all, c + 1, T), rest |-> After(r, q), exp |-> FALSE, dp |-> T - bl + 1,
                res |-> LAErr, took |-> c]
       ELSE [buf |-> SubSeq(all, k + 1, T), rest |-> After(r, q), exp |-> TRUE, dp |-> T - bl + 1,
             res |-> LAList(SubSeq(all, 1, k)), took |-> k]

TLX(b, r, e, p) == IF UseClosed THEN TLClosed(b, r, e, p) ELSE TLStep(b, r, e, 0, p, <<>>)

\* ---- peek_find(p, lim), step by step (i is the 0-based index of the code)
RECURSIVE PFStep(_, _, _, _, _, _, _)
PFStep(b, r, e, dp, p, lim, i) ==
    IF lim >= 0 /\ i >= lim THEN SR(FR(b, r, e, 0, FALSE), dp, LANone)
    ELSE LET f == IF i >= Len(b) THEN FillX(b, r, e, i + Chunk) ELSE FR(b, r, e, 0, FALSE)
         IN IF f.err THEN SR(f, dp + f.dp, LAErr)
            ELSE IF i >= Len(f.buf) THEN SR(f, dp + f.dp, LANone)
            ELSE IF LASat(p, f.buf[i + 1]) THEN SR(f, dp + f.dp, LAIdx(i + 1))
            ELSE PFStep(f.buf, f.rest, f.exp, dp + f.dp, p, lim, i + 1)

\* ---- peek_find(p, lim), closed form: D = number of buffer indices the loop looks at
PFClosed(b, r, e, p, lim) ==
    LET q   == Boundary(r, e)
        all == b \o Avail(r, e)
        T   == Len(all)
        bl  == Len(b)
        j   == LAFirst(all, p, lim)
        D   == IF j > 0 THEN j ELSE IF lim >= 0 /\ lim <= T THEN lim ELSE T + 1
        m   == IF e \/ D - 1 < bl THEN 0 ELSE ((D - 1 - bl) \div Chunk) + 1
        tgt == bl + Chunk * m
        byj == IF j > 0 THEN LAIdx(j) ELSE LANone
    IN IF m = 0 THEN SR(FR(b, r, e, 0, FALSE), 0, byj)
       ELSE IF tgt <= T
       THEN SR(FR(SubSeq(all, 1, tgt), SubSeq(r, tgt - bl + 1, Len(r)), FALSE, 0, FALSE), tgt - bl, byj)
       ELSE SR(FR(all, After(r, q), q = 0 \/ r[q] = 0, 0, FALSE), T - bl + 1,
               IF q > 0 /\ r[q] = -1 THEN LAErr ELSE byj)

PFX(b, r, e, p, lim) == IF UseClosed THEN PFClosed(b, r, e, p, lim) ELSE PFStep(b, r, e, 0, p, lim, 0)

----------------------------------------------------------------------------
\* implementation steps (they do not touch the reference variables)
Cur == Len(script) - Len(rest)
\* state of the implementation layer as printed in EDGE lines: <<cursor, buffer, expired, polls, stops, generators>>
St  == <<Cur, buf, expired, polls, stops, igens>>
St2 == <<Len(script) - Len(rest'), buf', expired', polls', stops', igens'>>
Edge(op, args) == Emit => PrintT(<<"EDGE", ToJson([sc |-> script, f |-> St, op |-> op, a |-> args, r |-> ires', t |-> St2])>>)

Upd(f) == /\ buf' = f.buf /\ rest' = f.rest /\ expired' = f.exp /\ polls' = polls + f.dp
          /\ stops' = stops + (IF f.exp /\ ~expired THEN 1 ELSE 0)
Same   == UNCHANGED <<buf, rest, expired, polls, stops>>

IInit(s) == /\ script = s /\ rest = s /\ buf = <<>> /\ expired = FALSE /\ polls = 0 /\ stops = 0
            /\ igens = <<>> /\ ires = LAOk

INext ==
    /\ IF buf # <<>> THEN ires' = LAItem(Head(buf)) /\ buf' = Tail(buf) /\ UNCHANGED <<rest, expired, polls, stops>>
       ELSE IF expired THEN ires' = LAStop /\ Same
       ELSE /\ polls' = polls + 1 /\ buf' = buf
            /\ IF rest = <<>> \/ Head(rest) = 0
               THEN /\ ires' = LAStop /\ stops' = stops + 1 /\ expired' = Latch
                    /\ rest' = (IF rest = <<>> THEN rest ELSE Tail(rest))
               ELSE IF Head(rest) = -1
               THEN ires' = LAErr /\ rest' = Tail(rest) /\ UNCHANGED <<expired, stops>>
               ELSE ires' = LAItem(Head(rest)) /\ rest' = Tail(rest) /\ UNCHANGED <<expired, stops>>
    /\ UNCHANGED <<script, igens>> /\ Edge("next", <<>>)

IPeekAt(k) ==
    LET f == FillX(buf, rest, expired, k)
    IN /\ ires' = (IF f.err THEN LAErr ELSE IF Len(f.buf) >= k THEN LAItem(f.buf[k]) ELSE LANone)
       /\ Upd(IF Bug = "peekpops" /\ ~f.err /\ Len(f.buf) >= k THEN [f EXCEPT !.buf = Tail(f.buf)] ELSE f)
       /\ UNCHANGED <<script, igens>> /\ Edge("peek_at", <<k>>)

IPeekMany(n) ==
    LET f == FillX(buf, rest, expired, n)
    IN /\ ires' = (IF f.err THEN LAErr ELSE LAList(SubSeq(f.buf, 1, LAMin(n, Len(f.buf)))))
       /\ Upd(f) /\ UNCHANGED <<script, igens>> /\ Edge("peek_many", <<n>>)

IConsumeMany(n) ==
    LET f    == FillX(buf, rest, expired, n)
        take == IF Bug = "overconsume" /\ Len(f.buf) > n THEN Len(f.buf) ELSE LAMin(n, Len(f.buf))
    IN /\ IF f.err THEN ires' = LAErr /\ Upd(f)
          ELSE ires' = LAList(SubSeq(f.buf, 1, take)) /\ Upd([f EXCEPT !.buf = SubSeq(f.buf, take + 1, Len(f.buf))])
       /\ UNCHANGED <<script, igens>> /\ Edge("consume_many", <<n>>)

IPeekBuffer == ires' = LAList(buf) /\ Same /\ UNCHANGED <<script, igens>> /\ Edge("peek_buffer", <<>>)

IPeekFind(p, lim) ==
    LET s == PFX(buf, rest, expired, p, lim)
    IN ires' = s.res /\ Upd(s) /\ UNCHANGED <<script, igens>> /\ Edge("peek_find", <<p, lim>>)

ITwNew(p) == /\ igens' = Append(igens, [p |-> p, done |-> FALSE]) /\ ires' = LAGen(Len(igens) + 1)
             /\ Same /\ UNCHANGED script /\ Edge("tw_new", <<p>>)

ITwStep(g) ==
    /\ IF igens[g].done THEN ires' = LAStop /\ Same /\ UNCHANGED igens
       ELSE LET s == TwStepFn(buf, rest, expired, igens[g].p)
            IN /\ ires' = s.res /\ Upd(s)
               /\ igens' = (IF s.res.t = "item" THEN igens ELSE [igens EXCEPT ![g].done = TRUE])
    /\ UNCHANGED script /\ Edge("tw_step", <<g>>)

ITwClose(g) == /\ igens' = [igens EXCEPT ![g].done = TRUE] /\ ires' = LAOk /\ Same /\ UNCHANGED script
               /\ Edge("tw_close", <<g>>)

ITwList(p) ==
    LET s == TLX(buf, rest, expired, p)
    IN ires' = s.res /\ Upd(s) /\ UNCHANGED <<script, igens>> /\ Edge("tw_list", <<p>>)

----------------------------------------------------------------------------
\* composite actions: implementation step /\ reference action
Pulled2  == pos + Len(buf')          \* items read from the source after the step (pos not yet advanced)
Next_           == INext /\ (IF ires'.t = "err" THEN RInterrupt(Pulled2, 0) ELSE RNext)
PeekAt(k)       == IPeekAt(k) /\ (IF ires'.t = "err" THEN RInterrupt(Pulled2, 0) ELSE RPeekAt(k))
PeekMany(n)     == IPeekMany(n) /\ (IF ires'.t = "err" THEN RInterrupt(Pulled2, 0) ELSE RPeekMany(n))
ConsumeMany(n)  == IConsumeMany(n) /\ (IF ires'.t = "err" THEN RInterrupt(Pulled2, 0) ELSE RConsumeMany(n))
PeekBuffer      == IPeekBuffer /\ RPeekBuffer(pos + Len(buf))
PeekFind(p, l)  == IPeekFind(p, l) /\ (IF ires'.t = "err" THEN RInterrupt(Pulled2, 0) ELSE RPeekFind(p, l))
TwNew(p)        == ITwNew(p) /\ RTwNew(p)
TwStep(g)       == ITwStep(g) /\ (IF ires'.t = "err" THEN RInterrupt(Pulled2, g) ELSE RTwStep(g))
TwClose(g)      == ITwClose(g) /\ RTwClose(g)
\* list(takewhile) over a source that raises loses what the generator had handed to list():
\* outside the statement, not offered
TwList(p)       == ITwList(p) /\ ires'.t # "err" /\ RTwList(p)

Init == \E s \in Scripts : IInit(s) /\ RInit(LALogical(s))

CNext == \/ Next_ \/ PeekBuffer
         \/ \E k \in ArgK : (k > 0 /\ PeekAt(k)) \/ PeekMany(k) \/ ConsumeMany(k)
         \/ \E p \in Preds : \/ \E l \in Lims : PeekFind(p, l)
                             \/ (Len(igens) < MaxGens /\ TwNew(p))
                             \/ TwList(p)
         \/ \E g \in 1..Len(igens) : TwStep(g) \/ TwClose(g)
Spec == Init /\ [][CNext]_vars

\* implementation layer alone (LTS emission; Latch = FALSE gives the code as it is)
INextRel == /\ \/ INext \/ IPeekBuffer
               \/ \E k \in ArgK : (k > 0 /\ IPeekAt(k)) \/ IPeekMany(k) \/ IConsumeMany(k)
               \/ \E p \in Preds : \/ \E l \in Lims : IPeekFind(p, l)
                                   \/ (Len(igens) < MaxGens /\ ITwNew(p))
               \/ \E g \in 1..Len(igens) : ITwStep(g) \/ ITwClose(g)
            /\ UNCHANGED rvars
ISpec == Init /\ [][INextRel]_vars
PollCap == polls <= Len(script) + 2

View  == <<src, pos, hi, gens, rest, buf, expired, polls, stops, igens>>
IView == <<script, rest, buf, expired, polls, stops, igens>>

----------------------------------------------------------------------------
\* refinement and the clauses of the statement
SeenStop    == SelectInSeq(SubSeq(script, 1, Cur), LAMBDA x : x = 0) > 0
RestLogical == IF SeenStop THEN <<>> ELSE LALogical(rest)
\* nothing lost, nothing duplicated, order kept: buffer + unread source = unconsumed remainder
Refines     == buf \o RestLogical = Rem
GensAgree   == igens = gens
SameResult  == [][ires' = res']_vars
\* the source is read exactly as far as demanded, at most Chunk-1 items further
ReadAhead   == (pos + Len(buf)) \in PeekBufferLo..PeekBufferHi
\* once the source has signalled its end it is never asked again
NoRepoll    == stops <= 1
ExpiredOK   == (expired => stops >= 1) /\ (Latch /\ stops >= 1 => expired)
\* an interrupted call consumes nothing
ErrAtomic   == [][ires'.t = "err" => pos' = pos]_vars
ITypeOK     == /\ expired \in BOOLEAN /\ polls \in Nat /\ \A i \in 1..Len(buf) : buf[i] > 0

\* the closed forms agree with the transcribed loops (evaluate with UseClosed = FALSE)
ClosedOK ==
    /\ \A n \in 0..(Len(script) + Chunk + 1) : FillClosed(buf, rest, expired, n) = FillStep(buf, rest, expired, 0, n)
    /\ \A p \in Preds : TLClosed(buf, rest, expired, p) = TLStep(buf, rest, expired, 0, p, <<>>)
    /\ \A p \in Preds, l \in Lims \cup (0..(Len(script) + 1)) :
          PFClosed(buf, rest, expired, p, l) = PFStep(buf, rest, expired, 0, p, l, 0)
=============================================================================
