CONSTANTS
  Sigma = {97, 42, 63, 92, 10}
  NSigma = {97, 42, 63, 92, 10}
  MaxParas = 1
  MaxPats = 2
  MaxPatLen = 2
  MaxSyms = 6
  MaxNameLen = 2
  Discipline = "full"
  DotAll = TRUE
  FindFirst = FALSE
  AffixFrom = 0
  Emit = "none"
  BlockLen = 3
SPECIFICATION Spec
INVARIANT MatchesIffGlob
INVARIANT BadEscapeRaises
INVARIANT RefSanity
INVARIANT BlockInvariance
CHECK_DEADLOCK FALSE
