\* C08 bounded configuration (thorough): every value of length <= 6 over
\* x : # space tab CR LF, assigned to the first / middle / last field of A: x / B: x / C: x
CONSTANTS
  Alphabet = {120, 58, 35, 32, 9, 13, 10}
  MaxLen = 6
  LemmaLen = 6
  GpgLen = 4
  StrictDroppedInGpgClasses = FALSE
  PosStrictMissedByPrepass = FALSE
  ZoneWhatIf = FALSE
  Emit = TRUE
  NoIndentRule = FALSE
  AllowEndLF = FALSE
  ValidateLFOnly = FALSE
  ReaderNoWsRule = FALSE
SPECIFICATION BndSpec
INVARIANT Sound
INVARIANT RejectComplete
INVARIANT RejectExact
INVARIANT ZonesNested
INVARIANT RejectAtomic
INVARIANT AcceptStores
INVARIANT ReaderTotal
INVARIANT StretchInvariant
INVARIANT RepeatInvariant
CHECK_DEADLOCK FALSE
