CONSTANTS
  Names = {1, 2, 3}
  Start <- StartA2
  MaxParas = 1
  EditFields = TRUE
  SetVals = {101, 102}
  SetSpells = {"U", "L"}
  Ops = {"get", "set", "del", "first", "last", "before", "after", "sort", "sortby", "insert", "append"}
  Emit = FALSE
SPECIFICATION Spec
INVARIANT NoEmptyPara
INVARIANT ParasSeparated
INVARIANT NoDupStaysUnique
INVARIANT NoBlobDuplication
INVARIANT NegSortByLaws
INVARIANT DefaultSortIsByName
PROPERTY ErrAtomic
PROPERTY CommentsStay
PROPERTY SepsKept
VIEW DocView
CHECK_DEADLOCK FALSE
