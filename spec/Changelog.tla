----------------------------- MODULE Changelog -----------------------------
(***************************************************************************)
(* C04 / C15 -- debian/changelog: the five-state line parser of            *)
(* debian.changelog.Changelog.parse_changelog, the formatter               *)
(* (ChangeBlock._format / Changelog._format) and the editing calls         *)
(* (new_block, add_change, attribute assignment).                          *)
(*                                                                         *)
(* TEXT.  A text is a sequence of lines; a line is a record                *)
(*    [c |-> class, id |-> n, h |-> content]                               *)
(* c is one of 24 line classes (AllClasses).  Header (Top..) and detailed  *)
(* trailer lines (EndOK, EndOneSpace) ARE their content: id = 0 and h is   *)
(* <<package, version, distributions, urgency, rest>> resp. <<author,      *)
(* date>>, each component a token: p > 0 "as written in line p of the      *)
(* text", 100 + k "value given by an editing call", None, Dflt (the        *)
(* constructor default: urgency "unknown", no comment, no extra pairs).    *)
(* Every other line is opaque: id = its position (or 200 + k when added by *)
(* add_change, 300 for the '' that new_block adds) and h = <<>>.           *)
(*                                                                         *)
(* PARSER.  Pure: PStep(p, ln, aea) consumes one line, PEof(p) applies the *)
(* end-of-input rule (and the "empty file" rule), ParseText folds.  One    *)
(* named branch per branch of the loop in the code (Branches); each branch *)
(* has a guard over (state, old state, class, allow_empty_author) and an   *)
(* incremental output BOut = [w, dest, close, st]: warn or not, where the  *)
(* line goes (hdr / ini / tr / chg / none), whether a block is closed and  *)
(* the next state.  Apply performs the output on the parser record.        *)
(*                                                                         *)
(* FORMAT is the inverse operator over lines; Formattable says when str()  *)
(* does not raise ChangelogCreateError.                                    *)
(*                                                                         *)
(* Configurations (Mode):                                                  *)
(*  "lts"   closed, history-free (documents abstracted away, counters      *)
(*          saturated): Total, Deterministic, CascadeAgrees (the if/elif   *)
(*          cascade of the code = the order-free guard table),             *)
(*          StrictIffWarn, SlurpOnlyFromHeading, TrailingHasTarget; every  *)
(*          class in every reachable control state; EDGE lines.            *)
(*  "text"  bounded: the generator automaton of deb-changelog(5)           *)
(*          (GenLead* GenHeader (GenChange | GenBlankInBlock)* GenTrailer  *)
(*          GenBlankBetween* ...) runs in lock-step with the parser; with  *)
(*          Budget > 0 up to Budget mutations (insert a line of any class, *)
(*          delete or duplicate the generated line) are interleaved.       *)
(*          Budget = 0 is C04: NoWarning, RoundTrip, BlocksAsWritten on    *)
(*          every accepted text.  Budget > 0 is C15: NormalForm in every   *)
(*          state (every prefix of every mutated text is a text).          *)
(*  "edit"  as "text" followed by Eof and <= MaxEdits editing calls on the *)
(*          parsed document (or on the empty changelog): NormalFormEdited. *)
(*  "hist"  formatting as part of the history: after Eof on a complete     *)
(*          well-formed text, <= MaxEdits calls out of: Fmt (observe       *)
(*          str(changelog) or str(block i)), attribute assignment on ANY   *)
(*          block through the block object, the in-place container edits   *)
(*          (other_pairs[k] = v, changes().append / insert / del,          *)
(*          add_trailing_line), new_block, add_change.  FormatIsCurrent:   *)
(*          every observed output is the reference Format of the CURRENT   *)
(*          document (render layer rs; see the section "formatting as part *)
(*          of the history"); NormalFormHist.                              *)
(*  "proc"  call histories of one PROCESS: a (mutated, bounded) text is    *)
(*          parsed <= MaxEdits times in one process, every call strict or  *)
(*          lenient (with either allow_empty_author setting where a bare   *)
(*          ' --' line makes it matter), in every order.  A parse depends  *)
(*          on nothing but its own input: ProcHistoryFree (every call has  *)
(*          the outcome of the reference parse), StrictIffWarnProc (the    *)
(*          statement across calls: ANY strict parse of a text raises      *)
(*          exactly when ANY lenient parse of it warns).  The mutation     *)
(*          InsertTwiceStep puts the same line (identical text) twice.     *)
(*                                                                         *)
(* None as an edit value (Unset.. calls): None is the library's own "not   *)
(* set" value (default of every new_block argument; the formatter answers  *)
(* ChangelogCreateError for it), so assigning None is in the domain of the *)
(* editing calls -- with the weak law only: whatever the call makes of it  *)
(* (attribute unset, or kept as some value: Changelog.version = None gives *)
(* the version "None" today), the changelog is unformattable or formats to *)
(* a normal form (NormalFormEdited over both outcomes).                    *)
(*                                                                         *)
(* Domain decision made explicit here: assigning author/date to a block    *)
(* that has no trailer because the input ended inside it (nt = TRUE) is    *)
(* UNSPECIFIED -- the formatter does not emit a trailer for such a block,  *)
(* so the assigned value cannot survive str(); see Specified.              *)
(*                                                                         *)
(* Spec-level negative controls (constant Bug; each was tried and makes    *)
(* TLC report the named property; c04.py / c15.py re-run them, except the  *)
(* last one):                                                              *)
(*   "noBranch:CNoDetailsReject"  the branch is missing    -> Total        *)
(*   "twoBranches"    HOld also fires in FirstHeading      -> Deterministic*)
(*   "strictSkips:CEnd"  strict does not raise on the one-space trailer    *)
(*                                                         -> StrictIffWarn*)
(*   "trailingFirst"  formatter emits the trailing lines before the        *)
(*                    trailer                   -> RoundTrip / NormalForm  *)
(*   "dropInitial"    leading blank lines are not stored   -> RoundTrip    *)
(*   "blankEndsBlock" a blank line inside a block is not a change line     *)
(*                                          -> NoWarning / BlocksAsWritten *)
(*   "authorOnTruncated"  drops the Specified guard  -> NormalFormEdited   *)
(*   "BlockRenderCache"  _format memoises per block, dropped by attribute  *)
(*                    assignment only                  -> FormatIsCurrent  *)
(*   "OlderBlocksMemo"  the text of all blocks but the first is memoised,  *)
(*                    keyed by the number of blocks    -> FormatIsCurrent  *)
(*   "InternedVersions"  one shared mutable Version object per version     *)
(*                    string                           -> ExposedAsWritten *)
(*   "acceptsNewlineVersion"  set_version accepts a valid version followed *)
(*                    by a newline                     -> NormalFormEdited *)
(*   "StickyParseFlag"  a per-object flag set by one parse and read after  *)
(*                    the next (Mode "reuse")       -> ParseIsHistoryFree  *)
(*   "DecoderTail"  a per-PROCESS incremental decoder keeps the undecoded  *)
(*                    tail of an input that a FAULT of the caller-supplied *)
(*                    object cut inside a line (short read / early EOF     *)
(*                    inside a multi-byte character, an exception of the   *)
(*                    iterator) and prepends it to the byte line decoded   *)
(*                    next (Mode "reuse")           -> ParseIsHistoryFree  *)
(*   "HeadingMemo"  the split heading line is memoised per PROCESS, keyed  *)
(*                    by the text of the line, after a lenient parse; its  *)
(*                    diagnostics are produced on a miss only (Mode "proc")*)
(*                                 -> StrictIffWarnProc / ProcHistoryFree  *)
(*   "DiagOnce"       every diagnostic is reported once per process and    *)
(*                    line text (Mode "proc")                              *)
(*                                 -> StrictIffWarnProc / ProcHistoryFree  *)
(*   "unsetFormatsEmpty"  version = None is stored as an empty version,    *)
(*                    the heading 'pkg () dist' is no heading              *)
(*                                                     -> NormalFormEdited *)
(*   "diagFormats:CJunk"  the report of the branch uses the quoted input   *)
(*                    line as a format string (closed configuration)       *)
(*                                                         -> PayloadFree  *)
(*   "keepNoDetails"  the rejected ' --' line is kept as a change line:    *)
(*                    NOT a violation (still a normal form) -- documents   *)
(*                    that the law is insensitive to it.                   *)
(***************************************************************************)
EXTENDS Integers, Sequences, FiniteSets, TLC, Json

CONSTANTS Mode,        \* "lts" | "text" | "edit" | "hist" | "reuse" | "proc"
          Classes,     \* classes a mutation may insert (lts: the classes explored)
          AEAs,        \* allow_empty_author settings explored (subset of BOOLEAN)
          MaxLines,    \* longest text
          MaxBlocks, MaxBody, MaxLead, MaxSep,    \* generator bounds
          Budget,      \* number of mutations
          MaxEdits,    \* editing calls after Eof (Mode = "edit"); parse calls of one process (Mode = "proc")
          Bug,         \* "none" or a negative control
          Emit         \* print EDGE / CASE lines

VARIABLES P,           \* parser record (see PInit)
          aea,         \* allow_empty_author
          sraised,     \* the strict run has raised ChangelogParseError
          text,        \* history: the lines consumed so far
          gen,         \* generator automaton [gs, nblk, nbody, nlead, nsep, wr]
          budget,      \* mutations left
          phase,       \* "text" | "edit"
          D,           \* the document being edited (phase "edit")
          ops,         \* history: editing calls (Mode "proc": the parse calls [s, a, w, r] made so far)
          rs           \* render layer (Mode "hist"): caches of the formatter and the last observed output
                       \* (Mode "proc": rs.memo = what the process keeps between parses -- nothing, unless a Bug says so)
vars == <<P, aea, sraised, text, gen, budget, phase, D, ops, rs>>

----------------------------------------------------------------------------
\* line classes

TopClasses     == {"TopOK", "TopBadKV", "TopDupKey", "TopBadUrg"}
BlankClasses   == {"Blank", "BlankWide"}     \* BlankWide: >= 2 white-space characters (matches the change-line regex too)
EndDetailed    == {"EndOK", "EndOneSpace"}
ModeClasses    == {"Emacs", "Vim"}
CommentClasses == {"Cvs", "HashComment", "CComment"}
OldClasses     == {"Old1", "Old2", "Old3", "Old4", "Old5", "Old6", "Old7", "Old8"}
AllClasses     == TopClasses \cup BlankClasses \cup EndDetailed \cup ModeClasses \cup CommentClasses
                    \cup OldClasses \cup {"Change", "EndNoDetails", "Junk"}

None == 0
Dflt == -1
NoHdr == <<None, None, None, Dflt, Dflt>>

TextLine(c, p) == [c  |-> c,
                   id |-> IF c \in TopClasses \cup EndDetailed THEN 0 ELSE p,
                   h  |-> IF c \in TopClasses THEN <<p, p, p, p, p>>
                          ELSE IF c \in EndDetailed THEN <<p, p>> ELSE <<>>]
IsBlankLine(ln) == ln.c \in BlankClasses        \* what blankline.match / str.strip() see

----------------------------------------------------------------------------
\* the parser: branches, guards, incremental outputs

Branches == {"HTop", "HBlank", "HMode", "HComment", "HOld", "HJunk",
             "CChange", "CEnd", "CNoDetailsReject", "CNoDetailsAccept", "CBlank", "CComment", "CJunk",
             "STrailing", "SChanges"}
Heading == {"FH", "NH"}
InBlock == {"SC", "MC"}

Guard(b, s, o, c, a) ==
  CASE b = "HTop"     -> s \in Heading /\ c \in TopClasses
    [] b = "HBlank"   -> s \in Heading /\ c \in BlankClasses
    [] b = "HMode"    -> s = "NH" /\ c \in ModeClasses
    [] b = "HComment" -> s \in Heading /\ c \in CommentClasses
    [] b = "HOld"     -> (s = "NH" \/ (Bug = "twoBranches" /\ s = "FH")) /\ c \in OldClasses
    [] b = "HJunk"    -> \/ s \in Heading /\ c \in {"Junk", "Change", "EndNoDetails"} \cup EndDetailed
                         \/ s = "FH" /\ c \in ModeClasses \cup OldClasses
    [] b = "CChange"  -> s \in InBlock /\ c \in {"Change", "BlankWide"}
    [] b = "CEnd"     -> s \in InBlock /\ c \in EndDetailed
    [] b = "CNoDetailsReject" -> s \in InBlock /\ c = "EndNoDetails" /\ ~a
    [] b = "CNoDetailsAccept" -> s \in InBlock /\ c = "EndNoDetails" /\ a
    [] b = "CBlank"   -> s \in InBlock /\ c = "Blank" /\ Bug # "blankEndsBlock"
    [] b = "CComment" -> s \in InBlock /\ c \in CommentClasses
    [] b = "CJunk"    -> s \in InBlock /\ (c \in TopClasses \cup ModeClasses \cup OldClasses \cup {"Junk"}
                                           \/ (Bug = "blankEndsBlock" /\ c = "Blank"))
    [] b = "STrailing" -> s = "SL" /\ o = "NH"
    [] b = "SChanges"  -> s = "SL" /\ o # "NH"

Enabled(s, o, c, a) == {b \in Branches : Guard(b, s, o, c, a) /\ Bug # ("noBranch:" \o b)}
\* the same table written as the if / elif cascade of the code (order matters there: e.g. a
\* white-space-only line of >= 2 characters matches the change-line regex first).  CascadeAgrees
\* states that the cascade and the order-free guard table select the same branch everywhere.
BranchOf(s, o, c, a) ==
  IF s \in Heading THEN
       IF c \in TopClasses THEN "HTop"
       ELSE IF c \in BlankClasses THEN "HBlank"
       ELSE IF c \in ModeClasses /\ s # "FH" THEN "HMode"
       ELSE IF c \in CommentClasses THEN "HComment"
       ELSE IF c \in OldClasses /\ s # "FH" THEN "HOld"
       ELSE "HJunk"
  ELSE IF s \in InBlock THEN
       IF c \in {"Change", "BlankWide"} THEN "CChange"
       ELSE IF c \in EndDetailed THEN "CEnd"
       ELSE IF c = "EndNoDetails" THEN (IF a THEN "CNoDetailsAccept" ELSE "CNoDetailsReject")
       ELSE IF c = "Blank" THEN "CBlank"
       ELSE IF c \in CommentClasses THEN "CComment"
       ELSE "CJunk"
  ELSE IF o = "NH" THEN "STrailing" ELSE "SChanges"
CascadeAgrees == \A s \in {"FH", "NH", "SC", "MC", "SL"}, o \in {"none", "NH"}, c \in AllClasses, a \in BOOLEAN :
                    Enabled(s, o, c, a) = {BranchOf(s, o, c, a)}
GuardBugs == {"twoBranches", "blankEndsBlock"}
TheBranch(s, o, c, a) == IF Bug \in GuardBugs \/ Mode = "lts" THEN CHOOSE b \in Enabled(s, o, c, a) : TRUE
                         ELSE BranchOf(s, o, c, a)

\* incremental output of a branch
BOut(b, s, c) ==
  CASE b = "HTop"     -> [w |-> IF c = "TopOK" THEN 0 ELSE 1, dest |-> "hdr", close |-> "no", st |-> "SC"]
    [] b = "HBlank"   -> [w |-> 0, dest |-> IF s = "FH" THEN (IF Bug = "dropInitial" THEN "none" ELSE "ini") ELSE "tr",
                          close |-> "no", st |-> s]
    [] b = "HMode"    -> [w |-> 0, dest |-> "tr", close |-> "no", st |-> "SL"]
    [] b = "HComment" -> [w |-> 0, dest |-> IF s = "FH" THEN "ini" ELSE "tr", close |-> "no", st |-> s]
    [] b = "HOld"     -> [w |-> 0, dest |-> "tr", close |-> "no", st |-> "SL"]
    [] b = "HJunk"    -> [w |-> 1, dest |-> IF s = "FH" THEN "ini" ELSE "tr", close |-> "no", st |-> s]
    [] b = "CChange"  -> [w |-> 0, dest |-> "chg", close |-> "no", st |-> "MC"]
    [] b = "CEnd"     -> [w |-> IF c = "EndOneSpace" THEN 1 ELSE 0, dest |-> "none", close |-> "end", st |-> "NH"]
    [] b = "CNoDetailsReject" -> [w |-> 1, dest |-> IF Bug = "keepNoDetails" THEN "chg" ELSE "none", close |-> "no", st |-> s]
    [] b = "CNoDetailsAccept" -> [w |-> 0, dest |-> "none", close |-> "nodetails", st |-> "NH"]
    [] b = "CBlank"   -> [w |-> 0, dest |-> "chg", close |-> "no", st |-> s]
    [] b = "CComment" -> [w |-> 0, dest |-> "chg", close |-> "no", st |-> s]
    [] b = "CJunk"    -> [w |-> 1, dest |-> "chg", close |-> "no", st |-> s]
    [] b = "STrailing" -> [w |-> 0, dest |-> "tr", close |-> "no", st |-> s]
    [] b = "SChanges"  -> [w |-> 0, dest |-> "chg", close |-> "no", st |-> s]

\* does the strict run raise on this branch?  (the same _parse_error call: warn <=> raise)
Raises(b, s, c) == BOut(b, s, c).w = 1 /\ Bug # ("strictSkips:" \o b)

\* --- diagnostics QUOTE the input (round 6).  The report of a warning branch (warn, resp. raise the parse error)
\* is a fixed text plus a piece of the offending line -- the whole line, one key=value item of the heading, the
\* urgency value, the (folded) key -- and that piece is DATA: the report happens whatever characters it is made
\* of.  PayloadKinds abstracts the characters of a line: "plain", or "fmt" = the quoted piece (and every other
\* free-text piece of the line) contains characters that mean something to a formatting mini-language
\* ('%', '%s', '%d', '%(x)s', '{}', '{0}', a backslash ...).  The class of a line is independent of its kind
\* (the concretizer keeps it), and so is everything the parser does with it: PayloadFree.
\*   Bug = "diagFormats:<branch>"  the report of that branch uses the quoted piece as a FORMAT: with a "fmt"
\*                                 payload the call raises something else instead of reporting -> PayloadFree
PayloadKinds == {"plain", "fmt"}
Quoted(b, s, c) ==          \* which piece of the line the report of the branch quotes ("none": no report / fixed text)
  CASE b \in {"HJunk", "CJunk", "CNoDetailsReject"} -> "line"
    [] b = "CEnd" /\ c = "EndOneSpace"              -> "line"
    [] b = "HTop" /\ c = "TopBadKV"                 -> "item"
    [] b = "HTop" /\ c = "TopBadUrg"                -> "value"
    [] b = "HTop" /\ c = "TopDupKey"                -> "key"
    [] OTHER                                        -> "none"
\* outcome of the branch's report for a line of payload kind k: "none" | "report" | "crash"
Report(b, s, c, k) ==
  IF BOut(b, s, c).w = 0 THEN "none"
  ELSE IF Bug = ("diagFormats:" \o b) /\ k = "fmt" /\ Quoted(b, s, c) \notin {"none", "key"} THEN "crash"
  ELSE "report"

----------------------------------------------------------------------------
\* documents

EmptyDoc == [ini |-> <<>>, bl |-> <<>>]
FreshCur == [h |-> NoHdr, k |-> "TopOK"]

\* header attributes extracted from a header line (invalid pairs are skipped, a bad urgency
\* value leaves the default; k: may the re-formatted header still carry a repeated key)
\* (h may be longer than 5: every further element is one extra key=value pair put into other_pairs in place)
ParseHdr(ln) == [h |-> <<ln.h[1], ln.h[2], ln.h[3], IF ln.c = "TopBadUrg" THEN Dflt ELSE ln.h[4], ln.h[5]>> \o SubSeq(ln.h, 6, Len(ln.h)),
                 k |-> IF ln.c = "TopDupKey" THEN "TopDupKey" ELSE "TopOK"]

MkBlock(cur, chg, au, da, sep, nt) ==
   [h |-> cur.h, k |-> cur.k, ch |-> chg, au |-> au, da |-> da, sep |-> sep, nt |-> nt, tr |-> <<>>]

AddTrailing(doc, ln) == IF doc.bl = <<>> THEN doc      \* only in the abstracted (lts) mode; see TrailingHasTarget
                        ELSE [doc EXCEPT !.bl[Len(doc.bl)].tr = Append(@, ln)]

PInit == [st |-> "FH", old |-> "none", nw |-> 0, nb |-> 0, nonblank |-> FALSE,
          cur |-> FreshCur, chg |-> <<>>, doc |-> EmptyDoc]

Apply(p, ln, o) ==
  LET p1 == [p EXCEPT !.nw = @ + o.w,
                      !.st = o.st,
                      !.old = IF o.st = "SL" /\ p.st # "SL" THEN p.st ELSE @,
                      !.nonblank = @ \/ ~IsBlankLine(ln)]
      p2 == CASE o.dest = "hdr" -> [p1 EXCEPT !.cur = ParseHdr(ln)]
              [] o.dest = "ini" -> [p1 EXCEPT !.doc.ini = Append(@, ln)]
              [] o.dest = "tr"  -> [p1 EXCEPT !.doc = AddTrailing(@, ln)]
              [] o.dest = "chg" -> [p1 EXCEPT !.chg = Append(@, ln)]
              [] OTHER          -> p1
  IN CASE o.close = "end" ->
            [p2 EXCEPT !.doc.bl = Append(@, MkBlock(p2.cur, p2.chg, ln.h[1], ln.h[2],
                                                    IF ln.c = "EndOneSpace" THEN 1 ELSE 2, FALSE)),
                       !.cur = FreshCur, !.chg = <<>>, !.nb = @ + 1]
       [] o.close = "nodetails" ->
            [p2 EXCEPT !.doc.bl = Append(@, MkBlock(p2.cur, p2.chg, None, None, 2, FALSE)),
                       !.cur = FreshCur, !.chg = <<>>, !.nb = @ + 1]
       [] OTHER -> p2

PStep(p, ln, a) == LET b == TheBranch(p.st, p.old, ln.c, a) IN Apply(p, ln, BOut(b, p.st, ln.c))

\* end of input.  A text without any non-blank line is the "empty changelog file": one warning,
\* nothing stored.  Otherwise: outside NextHeadingOrEof (and slurp entered from it) one warning and
\* the open block is stored without trailer.
EofBad(p)  == p.st \notin {"NH", "SL"} \/ (p.st = "SL" /\ p.old # "NH")
EofWarn(p) == IF ~p.nonblank \/ EofBad(p) THEN 1 ELSE 0
\* The "empty file" rule exists for the string forms of the input only (str, bytes).  When the text arrives
\* as a file object or any other iterable of lines ("lines" form) a blank-only text is parsed like any other:
\* its lines become initial lines and the end-of-input rule stores an empty block (one warning as well).
PEofF(p, f) ==
           IF ~p.nonblank /\ f = "text" THEN [p EXCEPT !.nw = 1, !.doc = EmptyDoc, !.nb = 0, !.st = "END"]
           ELSE IF EofBad(p)
           THEN [p EXCEPT !.nw = @ + 1, !.nb = @ + 1, !.st = "END",
                          !.doc.bl = Append(@, MkBlock(p.cur, p.chg, None, None, 2, TRUE))]
           ELSE [p EXCEPT !.st = "END"]
PEof(p) == IF ~p.nonblank THEN [p EXCEPT !.nw = 1, !.doc = EmptyDoc, !.nb = 0, !.st = "END"]
           ELSE IF EofBad(p)
           THEN [p EXCEPT !.nw = @ + 1, !.nb = @ + 1, !.st = "END",
                          !.doc.bl = Append(@, MkBlock(p.cur, p.chg, None, None, 2, TRUE))]
           ELSE [p EXCEPT !.st = "END"]

RECURSIVE PFold(_, _, _, _)
PFold(p, t, i, a) == IF i > Len(t) THEN p ELSE PFold(PStep(p, t[i], a), t, i + 1, a)
ParseText(t, a) == PEof(PFold(PInit, t, 1, a))

----------------------------------------------------------------------------
\* the formatter

HdrLine(b) == [c |-> b.k, id |-> 0, h |-> b.h]
\* Bug = "acceptsNewlineVersion": set_version stores a value with a trailing newline; the header then
\* formats to two lines, neither of which is a heading
BadVer == -3
HdrLines(b) == IF b.h[2] = BadVer THEN <<[c |-> "Junk", id |-> 0, h |-> <<b.h[1]>>], [c |-> "Junk", id |-> 0, h |-> <<b.h[3]>>]>>
               ELSE <<HdrLine(b)>>
EndLine(b) == [c |-> IF b.sep = 2 THEN "EndOK" ELSE "EndOneSpace", id |-> 0, h |-> <<b.au, b.da>>]
FormatBlock(b) == IF Bug = "trailingFirst"
                  THEN HdrLines(b) \o b.ch \o b.tr \o (IF b.nt THEN <<>> ELSE <<EndLine(b)>>)
                  ELSE HdrLines(b) \o b.ch \o (IF b.nt THEN <<>> ELSE <<EndLine(b)>>) \o b.tr
RECURSIVE FormatBlocks(_, _)
FormatBlocks(bl, i) == IF i > Len(bl) THEN <<>> ELSE FormatBlock(bl[i]) \o FormatBlocks(bl, i + 1)
Format(d) == d.ini \o FormatBlocks(d.bl, 1)

\* str() raises ChangelogCreateError when package / version / distributions / urgency are None, or author /
\* date are None in a block that has a trailer
\* (urgency is None only after an Unset.. call: the parser and new_block() leave the default "unknown")
BlockFormattable(b) == b.h[1] # None /\ b.h[2] # None /\ b.h[3] # None /\ b.h[4] # None /\ (b.nt \/ (b.au # None /\ b.da # None))
Formattable(d) == \A i \in 1..Len(d.bl) : BlockFormattable(d.bl[i])

\* author / date assigned on a block without trailer: unspecified (module comment)
\* (likewise a trailing line added to such a block: it is formatted right after the change lines and reads
\*  back as one of them)
Specified(d) == Bug = "authorOnTruncated" \/ \A i \in 1..Len(d.bl) : d.bl[i].nt => (d.bl[i].au = None /\ d.bl[i].da = None /\ d.bl[i].tr = <<>>)

\* (package, version, distributions, urgency, changes, author, date) per block
BlockView(b) == <<b.h[1], b.h[2], b.h[3], b.h[4], b.ch, b.au, b.da>>
Blocks(d) == [i \in 1..Len(d.bl) |-> BlockView(d.bl[i])]

NormalFormOf(d) == (Formattable(d) /\ Specified(d)) =>
                      LET t == Format(d) IN
                      \* allow_empty_author only matters when a bare ' --' line is present
                      \A a \in (IF \E i \in 1..Len(t) : t[i].c = "EndNoDetails" THEN BOOLEAN ELSE {FALSE}) :
                         LET r == ParseText(t, a).doc
                         IN Blocks(r) = Blocks(d) /\ Format(r) = t

----------------------------------------------------------------------------
\* editing calls (pure)

\* add_change: "insert before the trailing blank lines"
LastNonBlank(ch) == LET S == {j \in 1..Len(ch) : ~IsBlankLine(ch[j])} IN IF S = {} THEN 0 ELSE CHOOSE j \in S : \A k \in S : k <= j
\* WHERE add_change puts the line among the block's change lines is not part of C04 / C15: the action is
\* nondeterministic over the position (InsertChoices); RulePos is what the code does today ("before the
\* trailing blank lines") and only serves diagnostics (a different position is specification drift).
RulePos(ch) == LET j == LastNonBlank(ch) IN IF j = 0 THEN Len(ch) + 1 ELSE j + 1
InsertChoices(ch) == 1..(Len(ch) + 1)
InsAt(s, p, x) == SubSeq(s, 1, p - 1) \o <<x>> \o SubSeq(s, p, Len(s))
MAddChange(ch, ln) == InsAt(ch, RulePos(ch), ln)
\* v = <<line id>> (today's position) or <<line id, position>>
MAddChangeAt(ch, ln, v) == IF Len(v) >= 2 /\ v[2] > 0 THEN InsAt(ch, v[2], ln) ELSE MAddChange(ch, ln)

\* SetVersionWS: Changelog.version / set_version with a valid version string plus leading / trailing white
\* space or a newline.  Outside DESIGN D3, but "unspecified-but-consistent": the call either raises
\* ValueError (document unchanged) or it is accepted, and then the changelog must still format to a normal
\* form -- v = <<0>>: rejected, v = <<token>>: the version the block shows afterwards.
BaseEditOps == {"NewBlockFull", "NewBlockEmpty", "AddBlank", "AddChange", "SetPackage", "SetVersion",
                "SetDistributions", "SetUrgency", "SetAuthor", "SetDate", "SetVersionWS"}
\* Unset..: the attribute is assigned None (cl.attr = None, cl.set_attr(None), block.attr = None).  None is the
\* "not set" value of the library; v = <<what the block shows afterwards>>: None (unset), or a value token
\* (the call kept it as some value -- Changelog.version = None stores the version "None" today).  Either way
\* NormalFormEdited must hold; which of the two happens is not part of the statement.
UnsetOps == {"UnsetPackage", "UnsetVersion", "UnsetDistributions", "UnsetUrgency", "UnsetAuthor", "UnsetDate"}
EditOps == BaseEditOps \cup UnsetOps
\* the calls a bounded "edit" configuration explores (a cfg may override:  EditOpsUsed <- UnsetFocusOps)
EditOpsUsed == BaseEditOps
UnsetFocusOps == UnsetOps \cup {"NewBlockFull", "NewBlockEmpty", "AddChange", "SetVersion", "SetAuthor"}
UnsetAttr(op) == CASE op = "UnsetPackage" -> 1 [] op = "UnsetVersion" -> 2 [] op = "UnsetDistributions" -> 3
                   [] op = "UnsetUrgency" -> 4 [] op = "UnsetAuthor" -> 5 [] op = "UnsetDate" -> 6
\* outcomes explored by the bounded configuration: unset; the validating version setter may also keep a value
UnsetOutcomes(op, k) == IF Bug = "unsetFormatsEmpty" /\ op = "UnsetVersion" THEN {BadVer}
                        ELSE {None} \cup (IF op = "UnsetVersion" THEN {120 + k} ELSE {})
EditEnabled(d, op) == op \in {"NewBlockFull", "NewBlockEmpty"} \/ Len(d.bl) > 0
\* v: the argument tokens.  NewBlockFull <<package, version, distributions, urgency, rest, author, date, b>>,
\* NewBlockEmpty <<b>> (b: the '' line that new_block adds as trailing line), AddBlank / AddChange <<line id>>,
\* Set.. <<value>>.  All edits address the first (most recent) block.
NewTrailing(b) == <<[c |-> "Blank", id |-> b, h |-> <<>>]>>
EditApply(d, op, v) ==
  CASE op = "NewBlockFull"  -> [d EXCEPT !.bl = <<[h |-> <<v[1], v[2], v[3], v[4], v[5]>>, k |-> "TopOK", ch |-> <<>>,
                                                    au |-> v[6], da |-> v[7], sep |-> 2, nt |-> FALSE, tr |-> NewTrailing(v[8])]>> \o @]
    [] op = "NewBlockEmpty" -> [d EXCEPT !.bl = <<[h |-> NoHdr, k |-> "TopOK", ch |-> <<>>, au |-> None, da |-> None,
                                                    sep |-> 2, nt |-> FALSE, tr |-> NewTrailing(v[1])]>> \o @]
    [] op = "AddBlank"      -> [d EXCEPT !.bl[1].ch = MAddChangeAt(@, [c |-> "Blank", id |-> v[1], h |-> <<>>], v)]
    [] op = "AddChange"     -> [d EXCEPT !.bl[1].ch = MAddChangeAt(@, [c |-> "Change", id |-> v[1], h |-> <<>>], v)]
    [] op = "SetPackage"    -> [d EXCEPT !.bl[1].h[1] = v[1]]
    [] op = "SetVersion"    -> [d EXCEPT !.bl[1].h[2] = v[1]]
    [] op = "SetVersionWS"  -> IF v[1] = 0 THEN d ELSE [d EXCEPT !.bl[1].h[2] = v[1]]
    [] op = "SetDistributions" -> [d EXCEPT !.bl[1].h[3] = v[1]]
    [] op = "SetUrgency"    -> [d EXCEPT !.bl[1].h[4] = v[1]]
    [] op = "SetAuthor"     -> [d EXCEPT !.bl[1].au = v[1]]
    [] op = "SetDate"       -> [d EXCEPT !.bl[1].da = v[1]]
    [] op \in UnsetOps       -> IF UnsetAttr(op) <= 4 THEN [d EXCEPT !.bl[1].h[UnsetAttr(op)] = v[1]]
                               ELSE IF UnsetAttr(op) = 5 THEN [d EXCEPT !.bl[1].au = v[1]] ELSE [d EXCEPT !.bl[1].da = v[1]]
\* the tokens used by the bounded configuration (k: number of calls made before)
ModelArgs(op, k) ==
  CASE op = "NewBlockFull"  -> <<101, 102, 103, 104, 105, 106, 107, 300>>
    [] op = "NewBlockEmpty" -> <<300>>
    [] op \in {"AddBlank", "AddChange"} -> <<200 + k>>
    [] op = "SetVersionWS" -> <<IF Bug = "acceptsNewlineVersion" THEN BadVer ELSE 0>>
    [] op = "SetPackage" -> <<111>> [] op = "SetVersion" -> <<112>> [] op = "SetDistributions" -> <<113>>
    [] op = "SetUrgency" -> <<114>> [] op = "SetAuthor" -> <<116>> [] op = "SetDate" -> <<117>>
    [] op \in UnsetOps -> <<None>>

----------------------------------------------------------------------------
\* formatting as part of the history (Mode "hist").  Edits address ANY block through the block object;
\* next to attribute assignment there are the in-place container edits that never pass through an
\* attribute: other_pairs[k] = v, changes().append / insert / del, add_trailing_line.  Fmt observes
\* str(changelog) (i = 0) or str(block i).  The reference formatter is a function of the CURRENT document;
\* the render layer below models formatters that keep text between calls:
\*   Bug = "BlockRenderCache"  _format memoises per block, dropped by attribute assignment on the block
\*                             only (in-place container edits do not invalidate)      -> FormatIsCurrent
\*   Bug = "OlderBlocksMemo"   Changelog._format memoises the text of all blocks but the first, keyed by
\*                             the number of blocks, dropped by new_block only        -> FormatIsCurrent
\* With Bug = "none" nothing is kept and FormatIsCurrent states that every observed output is the
\* reference Format of the document as it is now.
BlockRenderCache == Bug = "BlockRenderCache"
OlderBlocksMemo  == Bug = "OlderBlocksMemo"

HistAttrs == {2, 5}         \* attributes assigned in the bounded configuration: version, author (traces: all six)
\* op = <<name, i, x>>: name, block index (0: the changelog), extra (attribute number / position)
HistOps(d) ==
   LET n == Len(d.bl) IN
   {<<"Fmt", i, 0>> : i \in 0..n}
   \cup {<<"BSet", i, a>> : i \in 1..n, a \in HistAttrs}
   \cup {<<nm, i, 0>> : nm \in {"BPair", "ChAppend", "AddTrailing"}, i \in 1..n}
   \cup {<<"ChInsert", i, 1>> : i \in 1..n}
   \cup {<<"ChDelete", i, Len(d.bl[i].ch)>> : i \in {j \in 1..n : Len(d.bl[j].ch) > 0}}
   \cup {<<"NewBlockFull", 0, 0>>} \cup (IF n > 0 THEN {<<"AddChange", 0, p>> : p \in InsertChoices(d.bl[1].ch)} ELSE {})
   \cup {<<"MutVer", i, 0>> : i \in 1..n}
\* MutVer: take the Version object the API hands out for block i (block.version, cl.version, cl.versions[i])
\* and change one of its components in place.  The handed-out object is a value of its own: the document
\* does not change, and no other block, parse or object is affected.
HValid(d, op) ==
   LET n == Len(d.bl) IN
   CASE op[1] = "Fmt" -> op[2] \in 0..n
     [] op[1] \in {"NewBlockFull"} -> TRUE
     [] op[1] = "AddChange" -> n > 0 /\ op[3] \in {0} \cup InsertChoices(d.bl[1].ch)
     [] op[1] = "ChInsert" -> op[2] \in 1..n /\ op[3] \in 1..(Len(d.bl[op[2]].ch) + 1)
     [] op[1] = "ChDelete" -> op[2] \in 1..n /\ op[3] \in 1..Len(d.bl[op[2]].ch)
     [] OTHER -> op[2] \in 1..n
InsertAt(s, p, x) == SubSeq(s, 1, p - 1) \o <<x>> \o SubSeq(s, p, Len(s))
DeleteAt(s, p) == SubSeq(s, 1, p - 1) \o SubSeq(s, p + 1, Len(s))
\* v: argument tokens (BSet <<value>>, BPair <<pair>>, ChAppend / ChInsert <<line id, 1 if the line is
\* blank else 0>>, AddChange <<line id>>, AddTrailing <<line id>>, NewBlockFull as EditApply)
LineClass(v) == IF Len(v) >= 2 /\ v[2] = 1 THEN "Blank" ELSE "Change"
HApply(d, op, v) ==
   LET i == op[2] IN
   CASE op[1] \in {"Fmt", "MutVer"} -> d
     [] op[1] = "BSet"        -> IF op[3] <= 4 THEN [d EXCEPT !.bl[i].h[op[3]] = v[1]]
                                 ELSE IF op[3] = 5 THEN [d EXCEPT !.bl[i].au = v[1]] ELSE [d EXCEPT !.bl[i].da = v[1]]
     [] op[1] = "BPair"       -> [d EXCEPT !.bl[i].h = Append(@, v[1])]
     [] op[1] = "ChAppend"    -> [d EXCEPT !.bl[i].ch = Append(@, [c |-> LineClass(v), id |-> v[1], h |-> <<>>])]
     [] op[1] = "ChInsert"    -> [d EXCEPT !.bl[i].ch = InsertAt(@, op[3], [c |-> LineClass(v), id |-> v[1], h |-> <<>>])]
     [] op[1] = "ChDelete"    -> [d EXCEPT !.bl[i].ch = DeleteAt(@, op[3])]
     [] op[1] = "AddTrailing" -> [d EXCEPT !.bl[i].tr = Append(@, [c |-> "Blank", id |-> v[1], h |-> <<>>])]
     [] op[1] = "NewBlockFull" -> EditApply(d, "NewBlockFull", v)
     [] op[1] = "AddChange"   -> EditApply(d, "AddChange", <<v[1], op[3]>>)
HModelArgs(op, k) ==
   CASE op[1] = "NewBlockFull" -> <<400 + 10 * k, 401 + 10 * k, 402 + 10 * k, 403 + 10 * k, Dflt, 405 + 10 * k, 406 + 10 * k, 300>>
     [] op[1] \in {"ChAppend", "ChInsert"} -> <<200 + k, 0>>
     [] op[1] = "AddChange" -> <<200 + k>>
     [] op[1] = "AddTrailing" -> <<300>>
     [] OTHER -> <<400 + 10 * k>>

\* --- render layer
NoText == <<>>                       \* "nothing kept"; a kept text is <<text>>
\* vt: Bug = "InternedVersions" -- one shared Version object per version string: the set of <<token written,
\*     token shown>> after in-place edits of handed-out objects;  mut: blocks (of this object) whose
\*     handed-out Version was edited: what THEY show as version afterwards is not judged
\* std: every add_change of the history so far used today's position (RulePos)
\* pf, f2 (Mode "reuse"): the parse under test runs on an object that was used before; pf: a per-object
\*     flag some earlier parse left behind ("the earlier text ended in a newline"), f2: the form of THIS input
\*     ("text": str / bytes, "lines": a file object / iterable of str lines, "blines": of BYTE lines, which
\*     the parser decodes one by one)
\* carry (Mode "reuse"): how the parse made in this PROCESS right before the one under test ended -- on the same
\*     or on another object -- when the object the CALLER supplied failed (notes/SIZE_STRESS.md part 5):
\*     "exc" its iterator / read raised at some line, "eofLine" / "eofInLine" / "eofInChar" the input ended
\*     early at a line end / inside a line / inside a multi-byte character (short read, truncated file; byte
\*     inputs only).  The faulted call itself is not judged (whatever exception comes out, or warnings); the
\*     reference parser keeps NOTHING of it: KeptTail
\* memo (Mode "proc"): what the PROCESS keeps between parses (line texts already taken apart / reported)
RInit == [rc |-> <<>>, om |-> <<>>, out |-> <<>>, fresh |-> FALSE, what |-> 0, vt |-> {}, mut |-> {}, std |-> TRUE,
          pf |-> TRUE, f2 |-> "text", memo |-> {}, carry |-> "none"]
InputForms == {"text", "lines", "blines"}
FaultKinds == {"exc", "eofLine", "eofInLine", "eofInChar"}
\* what the process keeps of the input of a faulted parse.  Bug = "DecoderTail": a per-process incremental
\* decoder keeps the bytes of the incomplete character the input ended in
KeptTail(k) == IF Bug = "DecoderTail" /\ k = "eofInChar" THEN <<"tail">> ELSE <<>>
\* the parse under test gets its own input, the whole input and nothing but its input (byte lines are what goes
\* through the line decoder; a kept tail is prepended to the first line decoded next)
InputIntact(r, t) == ~(r.f2 = "blines" /\ KeptTail(r.carry) # <<>> /\ Len(t) > 0)
Shown(r, tok) == IF \E x \in r.vt : x[1] = tok THEN (CHOOSE x \in r.vt : x[1] = tok)[2] ELSE tok
RBlock(d, r, i) == IF BlockRenderCache /\ i <= Len(r.rc) /\ r.rc[i] # NoText THEN r.rc[i][1] ELSE FormatBlock(d.bl[i])
RECURSIVE ROlder(_, _, _)
ROlder(d, r, i) == IF i > Len(d.bl) THEN <<>> ELSE RBlock(d, r, i) \o ROlder(d, r, i + 1)
RFormat(d, r, i) ==                  \* -> the render layer after observing; .out = <<text>>
   IF i > 0
   THEN LET t == RBlock(d, r, i) IN
        [r EXCEPT !.out = <<t>>, !.fresh = TRUE, !.what = i,
                  !.rc = IF BlockRenderCache THEN [j \in 1..Len(d.bl) |-> IF j = i THEN <<t>> ELSE (IF j <= Len(r.rc) THEN r.rc[j] ELSE NoText)] ELSE @]
   ELSE LET n     == Len(d.bl)
            hit   == OlderBlocksMemo /\ r.om # <<>> /\ r.om[1] = n
            top   == IF n > 0 THEN RBlock(d, r, 1) ELSE <<>>
            older == IF hit THEN r.om[2] ELSE ROlder(d, r, 2)
        IN [r EXCEPT !.out = <<d.ini \o top \o older>>, !.fresh = TRUE, !.what = 0,
                     !.om = IF OlderBlocksMemo THEN <<n, older>> ELSE @,
                     !.rc = IF BlockRenderCache
                            THEN [j \in 1..n |-> IF j = 1 \/ ~hit THEN <<RBlock(d, r, j)>> ELSE (IF j <= Len(r.rc) THEN r.rc[j] ELSE NoText)]
                            ELSE @]
\* what an edit drops: attribute assignment (also the assignment of _changes inside add_change) drops the
\* block's cache; new_block drops the memo of the older blocks; in-place container edits drop nothing
RInvalidate(r, op) ==
   LET r1 == [r EXCEPT !.fresh = FALSE] IN
   CASE op[1] = "BSet" -> [r1 EXCEPT !.rc = [j \in 1..Len(@) |-> IF j = op[2] THEN NoText ELSE @[j]]]
     [] op[1] = "AddChange" -> [r1 EXCEPT !.rc = [j \in 1..Len(@) |-> IF j = 1 THEN NoText ELSE @[j]]]
     [] op[1] = "NewBlockFull" -> [r1 EXCEPT !.rc = <<NoText>> \o @, !.om = <<>>, !.mut = {j + 1 : j \in @}]
     [] OTHER -> r1
RMutVer(r, d, i, newtok) ==
   [r EXCEPT !.mut = @ \cup {i},
             !.vt = IF Bug = "InternedVersions" THEN {x \in @ : x[1] # d.bl[i].h[2]} \cup {<<d.bl[i].h[2], newtok>>} ELSE @]
RefOut(d, i) == IF i = 0 THEN Format(d) ELSE FormatBlock(d.bl[i])

----------------------------------------------------------------------------
\* the generator automaton of deb-changelog(5)

GenInit == [gs |-> "lead", nblk |-> 0, nbody |-> 0, nlead |-> 0, nsep |-> 0,
            wr |-> [lead |-> <<>>, bl |-> <<>>]]
GenMoves(g) ==
   (IF g.gs = "lead" /\ g.nlead < MaxLead THEN {"GenLeadBlank"} ELSE {}) \cup
   (IF g.gs \in {"lead", "between"} /\ g.nblk < MaxBlocks THEN {"GenHeader"} ELSE {}) \cup
   (IF g.gs = "body" /\ g.nbody < MaxBody THEN {"GenChange", "GenBlankInBlock"} ELSE {}) \cup
   (IF g.gs = "body" THEN {"GenTrailer"} ELSE {}) \cup
   (IF g.gs = "between" /\ g.nsep < MaxSep THEN {"GenBlankBetween"} ELSE {})
GenClass(m) == CASE m = "GenHeader" -> "TopOK" [] m = "GenChange" -> "Change" [] m = "GenTrailer" -> "EndOK" [] OTHER -> "Blank"
\* ln: the line written (its position is where the GENERATOR is in its own text, = Len(text) + 1 without mutations)
GenApply(g, m, ln) ==
   LET n == Len(g.wr.bl) IN
   CASE m = "GenLeadBlank"    -> [g EXCEPT !.nlead = @ + 1, !.wr.lead = Append(@, ln)]
     [] m = "GenHeader"       -> [g EXCEPT !.gs = "body", !.nblk = @ + 1, !.nbody = 0,
                                           !.wr.bl = Append(@, [hdr |-> ln, body |-> <<>>, end |-> None, sep |-> <<>>])]
     [] m = "GenChange"       -> [g EXCEPT !.nbody = @ + 1, !.wr.bl[n].body = Append(@, ln)]
     [] m = "GenBlankInBlock" -> [g EXCEPT !.nbody = @ + 1, !.wr.bl[n].body = Append(@, ln)]
     [] m = "GenTrailer"      -> [g EXCEPT !.gs = "between", !.nsep = 0, !.wr.bl[n].end = ln]
     [] m = "GenBlankBetween" -> [g EXCEPT !.nsep = @ + 1, !.wr.bl[n].sep = Append(@, ln)]
GenAccepting(g) == g.gs = "between"

----------------------------------------------------------------------------
\* abstraction used by the closed configuration: documents forgotten, counters saturated
Sat(n, k) == IF n > k THEN k ELSE n
Abs(p) == [p EXCEPT !.nw = Sat(@, 1), !.nb = Sat(@, 2), !.cur = FreshCur, !.chg = <<>>, !.doc = EmptyDoc]
Ctl(p) == [st |-> p.st, old |-> p.old, w |-> p.nw, nb |-> p.nb, nonblank |-> p.nonblank]

----------------------------------------------------------------------------
\* behaviours

Init == /\ P = PInit /\ aea \in AEAs /\ sraised = FALSE /\ text = <<>> /\ gen = GenInit
        /\ budget = Budget /\ phase = "text" /\ D = EmptyDoc /\ ops = <<>>
        /\ rs \in (IF Mode = "reuse" THEN {[RInit EXCEPT !.pf = a, !.f2 = b, !.carry = k] :
                                               a \in BOOLEAN, b \in InputForms, k \in FaultKinds \cup {"none"}} ELSE {RInit})

Keep == UNCHANGED <<aea, phase, D, ops, rs>>

\* --- closed configuration: any class in any state
LConsume(c) ==
   /\ Mode = "lts" /\ phase = "text"
   /\ Enabled(P.st, P.old, c, aea) # {}
   /\ LET ln == TextLine(c, 0)
          b  == TheBranch(P.st, P.old, c, aea)
          o  == BOut(b, P.st, c)
      IN /\ P' = Abs(Apply(P, ln, o))
         /\ sraised' = (sraised \/ Raises(b, P.st, c))
         /\ (Emit => PrintT(<<"EDGE", ToJson([from |-> Ctl(P), aea |-> aea, c |-> c, b |-> b, out |-> o, to |-> Ctl(P'),
                                              q |-> Quoted(b, P.st, c),
                                              rep |-> [k \in PayloadKinds |-> Report(b, P.st, c, k)]])>>))
   /\ UNCHANGED <<text, gen, budget>> /\ Keep
LEof ==
   /\ Mode = "lts" /\ phase = "text"
   /\ P' = Abs(PEof(P)) /\ phase' = "end"
   /\ sraised' = (sraised \/ (EofWarn(P) = 1 /\ Bug # "strictSkips:Eof"))
   /\ (Emit => PrintT(<<"EDGE", ToJson([from |-> Ctl(P), aea |-> aea, c |-> "EOF", b |-> "Eof",
                                        out |-> [w |-> EofWarn(P), dest |-> "none",
                                                 close |-> IF P.nonblank /\ EofBad(P) THEN "eof" ELSE "no", st |-> "END"],
                                        to |-> Ctl(P')])>>))
   /\ UNCHANGED <<aea, text, gen, budget, D, ops, rs>>

\* --- bounded configurations: generator in lock-step, mutations
Room == Len(text) < MaxLines
Eat(p, ln) == PStep(p, ln, aea)
StrictAfter(p, ln) == LET b == TheBranch(p.st, p.old, ln.c, aea) IN Raises(b, p.st, ln.c)

GenStep(m) ==      \* the generated line is consumed
   /\ m \in GenMoves(gen) /\ Room
   /\ LET ln == TextLine(GenClass(m), Len(text) + 1) IN
        /\ gen' = GenApply(gen, m, ln)
        /\ P' = Eat(P, ln) /\ text' = Append(text, ln)
        /\ sraised' = (sraised \/ StrictAfter(P, ln))
   /\ UNCHANGED budget /\ Keep
InsertStep(c) ==   \* a line of any class that the generator did not write
   /\ budget > 0 /\ Room /\ c \in Classes
   /\ LET ln == TextLine(c, Len(text) + 1) IN
        /\ P' = Eat(P, ln) /\ text' = Append(text, ln)
        /\ sraised' = (sraised \/ StrictAfter(P, ln))
   /\ budget' = budget - 1 /\ UNCHANGED gen /\ Keep
DeleteStep(m) ==   \* the generated line is lost
   /\ budget > 0 /\ m \in GenMoves(gen)
   /\ gen' = GenApply(gen, m, TextLine(GenClass(m), 0))
   /\ budget' = budget - 1 /\ UNCHANGED <<P, text, sraised>> /\ Keep
DupStep(m) ==      \* the generated line appears twice
   /\ budget > 0 /\ m \in GenMoves(gen) /\ Len(text) + 1 < MaxLines
   /\ LET l1 == TextLine(GenClass(m), Len(text) + 1)
          l2 == TextLine(GenClass(m), Len(text) + 2)
          p1 == Eat(P, l1)
      IN /\ gen' = GenApply(gen, m, l1)
         /\ P' = Eat(p1, l2) /\ text' = text \o <<l1, l2>>
         /\ sraised' = (sraised \/ StrictAfter(P, l1) \/ StrictAfter(p1, l2))
   /\ budget' = budget - 1 /\ Keep
InsertTwiceStep(c) ==   \* (Mode "proc") the same inserted line twice: identical text, two mutations
   /\ Mode = "proc" /\ budget > 1 /\ Len(text) + 1 < MaxLines /\ c \in Classes
   /\ LET ln == TextLine(c, Len(text) + 1)
          p1 == Eat(P, ln)
      IN /\ P' = Eat(p1, ln) /\ text' = text \o <<ln, ln>>
         /\ sraised' = (sraised \/ StrictAfter(P, ln) \/ StrictAfter(p1, ln))
   /\ budget' = budget - 2 /\ UNCHANGED gen /\ Keep
TextNext == /\ Mode \in {"text", "edit", "hist", "reuse", "proc"} /\ phase = "text"
            /\ \/ \E m \in {"GenLeadBlank", "GenHeader", "GenChange", "GenBlankInBlock", "GenTrailer", "GenBlankBetween"} :
                      GenStep(m) \/ DeleteStep(m) \/ DupStep(m)
               \/ \E c \in Classes : InsertStep(c) \/ InsertTwiceStep(c)

\* --- call histories of one process (Mode "proc"): the text consumed so far is parsed again and again, strict
\* or lenient, in any order.  The reference parser keeps nothing between calls (rs.memo stays empty).
\*   Bug = "HeadingMemo"  the split heading is memoised per process, keyed by the text of the line, when a
\*                        LENIENT parse got through it; the diagnostics of the key=value list are produced
\*                        on a miss only: a later parse (either mode) of the same line is silent, a second
\*                        identical heading in the same text as well
\*   Bug = "DiagOnce"     the same for every diagnostic of every branch ("reported once per process")
MemoBranch(b) == (Bug = "HeadingMemo" /\ b = "HTop") \/ Bug = "DiagOnce"
RECURSIVE MFold(_, _, _, _, _, _, _)
MFold(p, mm, sr, t, i, a, lenient) ==       \* -> [p: parser record, m: memo, sr: a strict run has raised]
   IF i > Len(t) THEN [p |-> p, m |-> mm, sr |-> sr]
   ELSE LET ln    == t[i]
            b     == TheBranch(p.st, p.old, ln.c, a)
            o     == BOut(b, p.st, ln.c)
            quiet == MemoBranch(b) /\ ln \in mm
            o2    == IF quiet THEN [o EXCEPT !.w = 0] ELSE o
            m2    == IF lenient /\ MemoBranch(b) /\ o.w = 1 THEN mm \cup {ln} ELSE mm
        IN MFold(Apply(p, ln, o2), m2, sr \/ (Raises(b, p.st, ln.c) /\ ~quiet), t, i + 1, a, lenient)
\* one call: -> [w: warnings emitted (lenient), r: raised ChangelogParseError (strict), memo]
ProcParse(t, a, strict, mm) ==
   LET r == MFold(PInit, mm, FALSE, t, 1, a, ~strict)
   IN IF strict THEN [w |-> 0, r |-> r.sr \/ EofWarn(r.p) = 1, memo |-> mm]
      ELSE [w |-> PEof(r.p).nw, r |-> FALSE, memo |-> r.m]
HasBareTrailer(t) == \E i \in 1..Len(t) : t[i].c = "EndNoDetails"
\* (complete texts of the generator, mutated or not; their prefixes are texts of the "text" configurations)
ProcStart == /\ Mode = "proc" /\ phase = "text" /\ GenAccepting(gen) /\ phase' = "proc"
             /\ UNCHANGED <<P, aea, sraised, text, gen, budget, D, ops, rs>>
ProcCall(strict, a) ==
   /\ Mode = "proc" /\ phase = "proc" /\ Len(ops) < MaxEdits
   /\ LET r == ProcParse(text, a, strict, rs.memo) IN
        /\ ops' = Append(ops, [s |-> strict, a |-> a, w |-> r.w, r |-> r.r])
        /\ rs' = [rs EXCEPT !.memo = r.memo]
   /\ UNCHANGED <<P, aea, sraised, text, gen, budget, phase, D>>
\* (allow_empty_author only matters when a bare ' --' line is present; the bounded configuration switches it
\*  in the last call of a history only)
ProcNext == ProcStart \/ \E strict \in BOOLEAN :
                            \E a \in (IF HasBareTrailer(text) /\ Len(ops) + 1 = MaxEdits THEN BOOLEAN ELSE {aea}) : ProcCall(strict, a)

\* --- editing
EofStep == /\ \/ Mode = "edit"
              \/ Mode = "hist" /\ budget = Budget /\ GenAccepting(gen) /\ gen.nblk = MaxBlocks   \* complete well-formed texts
           /\ phase = "text"
           /\ phase' = "edit" /\ D' = PEof(P).doc
           /\ UNCHANGED <<P, aea, sraised, text, gen, budget, ops, rs>>
EditStep(op) == /\ Mode = "edit" /\ phase = "edit" /\ Len(ops) < MaxEdits
                /\ EditEnabled(D, op)
                /\ IF op \in {"AddBlank", "AddChange"}
                   THEN \E p \in InsertChoices(D.bl[1].ch) : D' = EditApply(D, op, <<200 + Len(ops), p>>)      \* any position
                   ELSE IF op \in UnsetOps
                   THEN \E tok \in UnsetOutcomes(op, Len(ops)) : D' = EditApply(D, op, <<tok>>)                \* either outcome
                   ELSE D' = EditApply(D, op, ModelArgs(op, Len(ops)))
                /\ ops' = Append(ops, op)
                /\ UNCHANGED <<P, aea, sraised, text, gen, budget, phase, rs>>

\* (histories of more than two calls start with a formatting call: "format, then edit, then format";
\*  all histories of one or two calls are explored)
HistStep == /\ Mode = "hist" /\ phase = "edit" /\ Len(ops) < MaxEdits
            /\ Len(ops) >= 2 => ops[1][1] = "Fmt"
            /\ \E op \in HistOps(D) :
                 /\ D' = HApply(D, op, HModelArgs(op, Len(ops)))
                 /\ ops' = Append(ops, op)
                 /\ rs' = IF op[1] = "Fmt" THEN RFormat(D, rs, op[2])
                          ELSE IF op[1] = "MutVer" THEN RMutVer(rs, D, op[2], 400 + 10 * Len(ops))
                          ELSE IF op[1] = "AddChange" THEN [RInvalidate(rs, op) EXCEPT !.std = @ /\ op[3] = RulePos(D.bl[1].ch)]
                          ELSE RInvalidate(rs, op)
            /\ UNCHANGED <<P, aea, sraised, text, gen, budget, phase>>

Next == \/ \E c \in Classes : LConsume(c)
        \/ HistStep
        \/ LEof
        \/ TextNext
        \/ EofStep
        \/ \E op \in EditOpsUsed : EditStep(op)
        \/ ProcNext
Spec == Init /\ [][Next]_vars

----------------------------------------------------------------------------
\* properties -- closed configuration (C15)

\* the parser loop has exactly one branch for every class in every reachable state
Total         == (Mode = "lts" /\ phase = "text") => \A c \in AllClasses : Enabled(P.st, P.old, c, aea) # {}
Deterministic == (Mode = "lts" /\ phase = "text") => \A c \in AllClasses : Cardinality(Enabled(P.st, P.old, c, aea)) <= 1
\* strict raises exactly when lenient has warned (also after the end-of-input rule)
StrictIffWarn == sraised <=> (P.nw > 0)
\* slurp-to-end is only entered from NextHeadingOrEof (the SChanges branch is dead, as in the code)
SlurpOnlyFromHeading == P.st = "SL" => P.old = "NH"
\* a trailing line always has a block to go to
TrailingHasTarget == P.st \in {"NH", "SL"} => P.nb >= 1
\* what the parser does with a line does not depend on the characters of the piece its report quotes: for every
\* class in every reachable state the report of the branch is the same for every payload kind (never a crash)
PayloadFree == (Mode = "lts" /\ phase = "text") =>
                  \A c \in AllClasses, k \in PayloadKinds : \A b \in Enabled(P.st, P.old, c, aea) :
                      Report(b, P.st, c, k) = Report(b, P.st, c, "plain") /\ Report(b, P.st, c, k) # "crash"
LtsTypeOK == /\ P.st \in {"FH", "NH", "SC", "MC", "SL", "END"} /\ P.old \in {"none", "NH"}
             /\ P.nonblank \in BOOLEAN /\ (~P.nonblank => P.st \in {"FH", "END"} /\ P.nw \in {0, 1})

----------------------------------------------------------------------------
\* properties -- bounded configurations

Res == PEof(P)                       \* the parse of the text consumed so far
WellFormedText == budget = Budget /\ GenAccepting(gen)

BookkeepingOK == Mode # "lts" => P.nb = Len(P.doc.bl)

\* C04
NoWarning == (phase = "text" /\ WellFormedText) => Res.nw = 0 /\ ~sraised
RoundTrip == (phase = "text" /\ WellFormedText) => Format(Res.doc) = text
BlocksAsWritten ==
   (phase = "text" /\ WellFormedText) =>
      LET d == Res.doc  w == gen.wr IN
      /\ d.ini = w.lead
      /\ Len(d.bl) = Len(w.bl)
      /\ \A i \in 1..Len(d.bl) :
            /\ d.bl[i].h = w.bl[i].hdr.h /\ d.bl[i].k = "TopOK"
            /\ d.bl[i].ch = w.bl[i].body
            /\ <<d.bl[i].au, d.bl[i].da>> = w.bl[i].end.h /\ d.bl[i].sep = 2 /\ ~d.bl[i].nt
            /\ d.bl[i].tr = w.bl[i].sep

\* C15
NormalForm       == (Mode # "lts" /\ phase = "text") => (NormalFormOf(Res.doc) /\ (~P.nonblank => NormalFormOf(PEofF(P, "lines").doc)))
\* the two input forms differ on blank-only texts only
FormsAgree       == (Mode # "lts" /\ phase = "text" /\ P.nonblank) => PEofF(P, "lines") = PEofF(P, "text")
NormalFormEdited == phase = "edit" => NormalFormOf(D)
\* formatting what was parsed gives the input back whenever nothing was warned about (lenient = strict)
CleanRoundTrip   == (Mode # "lts" /\ phase = "text" /\ Res.nw = 0 /\ Formattable(Res.doc)) => Format(Res.doc) = text

\* C04 / C15, call histories on ONE object (Mode "reuse"): a parse depends on nothing but its own input.  The
\* object is whatever 1-3 earlier parses of arbitrary texts / forms / flags left; parse_changelog starts from
\* its own input only.  Bug = "StickyParseFlag": a per-object flag is assigned by the str / bytes branch of a
\* parse only and read by the formatter ("the text had no final newline"), so it survives a later parse from
\* a file object / iterable of lines                                           -> ParseIsHistoryFree
\* The same across the PROCESS (rs.carry): the parse made before -- by this or by another object -- ended in a
\* fault of the caller-supplied input; nothing of that input reaches the parse under test: InputIntact.
ObjFinalNewline(r) == IF Bug = "StickyParseFlag" /\ r.f2 # "text" THEN r.pf ELSE TRUE
ObjText(r, d) == IF ObjFinalNewline(r) THEN Format(d) ELSE Format(d) \o <<[c |-> "NoFinalNewline", id |-> -9, h |-> <<>>]>>
ParseIsHistoryFree == (Mode = "reuse" /\ phase = "text") =>
                         /\ ObjText(rs, PEofF(P, rs.f2).doc) = Format(PEofF(P, rs.f2).doc)       \* = what a fresh object gives
                         /\ WellFormedText => ObjText(rs, Res.doc) = text
                         /\ InputIntact(rs, text)

\* C15, call histories of one PROCESS (Mode "proc"): a parse depends on nothing but its own input -- every
\* call has the outcome of the reference parse of the text, whatever was parsed before, in whatever mode
ProcHistoryFree ==
   (Mode = "proc" /\ phase = "proc") =>
      \A k \in 1..Len(ops) : LET ref == ParseText(text, ops[k].a)
                             IN IF ops[k].s THEN ops[k].r = (ref.nw > 0) ELSE ops[k].w = ref.nw
\* the statement across calls: ANY strict parse of the text raises exactly when ANY lenient parse of it warns
StrictIffWarnProc ==
   (Mode = "proc" /\ phase = "proc") =>
      \A i, j \in 1..Len(ops) : (ops[i].a = ops[j].a /\ ~ops[i].s /\ ops[j].s) => (ops[j].r <=> ops[i].w > 0)

\* C04 / C15, histories: every observed output is the reference Format of the CURRENT document
FormatIsCurrent == rs.fresh => rs.out = <<RefOut(D, rs.what)>>
\* C04, histories: what the blocks expose is what was written -- on a fresh parse of the same text whatever
\* was done to objects handed out before, and on the edited object itself (except the version of a block
\* whose own handed-out Version was edited)
ExposedAsWritten ==
   (Mode = "hist" /\ phase = "edit") =>
      /\ LET f == ParseText(text, aea).doc IN \A j \in 1..Len(f.bl) : Shown(rs, f.bl[j].h[2]) = f.bl[j].h[2]
      /\ \A j \in 1..Len(D.bl) : j \notin rs.mut => Shown(rs, D.bl[j].h[2]) = D.bl[j].h[2]
NormalFormHist  == (Mode = "hist" /\ phase = "edit") => NormalFormOf(D)
HistFormattable == (Mode = "hist" /\ phase = "edit") => (Formattable(D) /\ Specified(D))

----------------------------------------------------------------------------
\* emission for the harness

Ids(s) == [i \in 1..Len(s) |-> s[i].id]
Struct(d) == [ini |-> Ids(d.ini),
              bl  |-> [i \in 1..Len(d.bl) |->
                         [h |-> d.bl[i].h, ch |-> Ids(d.bl[i].ch), au |-> d.bl[i].au, da |-> d.bl[i].da,
                          sep |-> d.bl[i].sep, nt |-> d.bl[i].nt, tr |-> Ids(d.bl[i].tr)]]]
TextClasses == [i \in 1..Len(text) |-> text[i].c]

Shape(d) == <<Len(d.ini), [i \in 1..Len(d.bl) |-> <<Len(d.bl[i].ch), Len(d.bl[i].tr)>>]>>
EmitText == (Emit /\ Mode = "text" /\ (Budget > 0 \/ WellFormedText)) =>
               PrintT(<<"CASE", ToJson([t |-> TextClasses, aea |-> aea, wf |-> WellFormedText,
                                        nw |-> Res.nw, sr |-> sraised \/ EofWarn(P) = 1,
                                        fmt |-> Formattable(Res.doc),
                                        doc |-> IF WellFormedText THEN Struct(Res.doc) ELSE Shape(Res.doc)])>>)
EmitEdit == (Emit /\ Mode = "edit" /\ phase = "edit") =>
               PrintT(<<"CASE", ToJson([t |-> TextClasses, aea |-> aea, ops |-> ops,
                                        fmt |-> Formattable(D), spec |-> Specified(D), doc |-> Struct(D)])>>)
\* (Mode "reuse") a complete well-formed text parsed by an object / in a process with the history rs.pf, rs.carry,
\* handed over in the form rs.f2: what the parse must show
EmitReuse == (Emit /\ Mode = "reuse" /\ phase = "text" /\ WellFormedText) =>
               PrintT(<<"CASE", ToJson([t |-> TextClasses, aea |-> aea, wf |-> TRUE, pf |-> rs.pf, f2 |-> rs.f2,
                                        carry |-> rs.carry, nw |-> PEofF(P, rs.f2).nw, sr |-> sraised \/ EofWarn(P) = 1,
                                        intact |-> InputIntact(rs, text),
                                        doc |-> Struct(PEofF(P, rs.f2).doc)])>>)
\* which earlier line (smallest index) has the identical text
SameAs ==[i \in 1..Len(text) |-> CHOOSE j \in 1..i : text[j] = text[i] /\ \A k \in 1..(j - 1) : text[k] # text[i]]
EmitProc == (Emit /\ Mode = "proc" /\ phase = "proc" /\ Len(ops) = MaxEdits) =>
               PrintT(<<"CASE", ToJson([t |-> TextClasses, same |-> SameAs, aea |-> aea, calls |-> ops])>>)
LineToks(t) == [i \in 1..Len(t) |-> [c |-> t[i].c, id |-> t[i].id, h |-> t[i].h]]
RECURSIVE SetToSeq0(_)
SetToSeq0(S) == IF S = {} THEN <<>> ELSE LET x == CHOOSE y \in S : \A z \in S : y <= z IN <<x>> \o SetToSeq0(S \ {x})
EmitHist == (Emit /\ Mode = "hist" /\ phase = "edit" /\ rs.fresh) =>
               PrintT(<<"CASE", ToJson([t |-> TextClasses, aea |-> aea, ops |-> ops, what |-> rs.what,
                                        out |-> LineToks(RefOut(D, rs.what)), doc |-> Struct(D),
                                        base |-> Struct(ParseText(text, aea).doc), mut |-> SetToSeq0(rs.mut), std |-> rs.std])>>)
=============================================================================
