---------------------------- MODULE Deb822Value ----------------------------
(***************************************************************************)
(* C08 -- an accepted field value can never inject fields or split the     *)
(* paragraph.  Text is a sequence of CODE POINTS.                          *)
(*                                                                         *)
(* Statement layer (what the property says, written declaratively over     *)
(* positions of the value; the oracle for "must be rejected / accepted"):  *)
(*   EndsLF(v)  HasEmptyLine(v)  HasUnindentedCont(v)  BlankCont(v)        *)
(*   under the UNIVERSAL reading of "line" (boundaries LF, CR, CRLF -- the *)
(*   one str.splitlines uses inside the property's domain), and            *)
(*   MustReject(v): the same three defects under the NARROW reading (only  *)
(*   LF ends a line).  Classify(v):                                        *)
(*     "reject"  MustReject(v)            the code must raise ValueError   *)
(*     "zone"    DefectU(v) /\ ~MustReject(v)   a lone CR is followed by   *)
(*               something that is not indentation: whether that is "a     *)
(*               line" is the statement's ambiguity -> acceptance is       *)
(*               UNSPECIFIED (today: rejected); if accepted, the read-back *)
(*               obligation still applies                                  *)
(*     "blank"   no defect, some continuation line is whitespace-only:     *)
(*               acceptance unspecified (today: accepted; the statement    *)
(*               itself makes the default-setting read-back conditional)   *)
(*     "accept"  no defect, no blank continuation line: must be accepted   *)
(*   AssignOutcome(p, pos, v): accepted -> the field holds v, otherwise    *)
(*   ValueError and the paragraph is exactly what it was (RejectAtomic).   *)
(* Transcription layer (model of the code, checked against the statement): *)
(*   Validate(v)        Deb822.validate_input (value.endswith LF; then for *)
(*                      every line after the first of value.splitlines():  *)
(*                      empty -> error, not line[0].isspace() -> error)    *)
(*   DumpField / Dump   Deb822._dump_format                                *)
(*   ReadBack(text, form, ws)  what list(Deb822.iter_paragraphs(text,      *)
(*                      strict={'whitespace-separates-paragraphs': ws}))   *)
(*                      does with str input (form "str": str.splitlines)   *)
(*                      and with io.StringIO / io.BytesIO input (form      *)
(*                      "file": lines end at LF only and keep it):         *)
(*                      _skip_useless_lines (raw line starts with '#';     *)
(*                      leading CR/LF-only lines), split_gpg_and_payload   *)
(*                      (strip CR/LF at BOTH ends, skip leading \s-only    *)
(*                      lines, paragraph ends at a line matching ^$ or,    *)
(*                      when ws, ^\s*$; a PGP armor line leaves the model: *)
(*                      st = "pgp"), _internal_parser (_single, _multi,    *)
(*                      _multidata in that order, anything else ignored;   *)
(*                      every completed field goes through __setitem__,    *)
(*                      i.e. is re-validated and de-duplicated case-       *)
(*                      insensitively), iter_paragraphs (stops at the      *)
(*                      first paragraph without fields).                   *)
(*                                                                         *)
(* MC_Deb822Value*.cfg: BndSpec builds every value up to MaxLen over       *)
(* Alphabet (one state per value) and assigns it to the first / middle /   *)
(* last field of P0 = A: x / B: x / C: x.  Invariants:                     *)
(*   Sound           Accept(v) => for each position and both input forms:  *)
(*                   read-back with ws = FALSE is one paragraph with the   *)
(*                   keys of P0, and also with ws = TRUE when no           *)
(*                   continuation line is blank                            *)
(*   RejectComplete  EndsLF \/ HasEmptyLine \/ HasUnindentedCont => ~Accept*)
(*   RejectExact     Accept(v) <=> ~DefectU(v)  (scanner = declarative)    *)
(*   ZonesNested     MustReject => DefectU                                 *)
(*   RejectAtomic, AcceptStores                                            *)
(*   ReaderTotal     the reader never meets an armor line / a line with LF *)
(* and one CASE line per value: v, the classification, the model's         *)
(* Validate, and -- where the default setting is not covered by the        *)
(* statement -- the key lists the reader model predicts (diagnostic).      *)
(* MC_Deb822Value_quick.cfg: length <= 5 (19 608 values);                  *)
(* MC_Deb822Value.cfg: length <= 6 (137 257 values);                       *)
(* MC_Deb822Value_zone.cfg (informational): ZoneWhatIf = TRUE computes for *)
(* the "zone" values the read-backs they would have if accepted (zs).      *)
(*                                                                         *)
(* Spec-level negative controls (MC_Deb822Value_neg.cfg with one constant  *)
(* switched to TRUE; each was run and makes TLC report Sound violated;     *)
(* c08.py re-runs them in every check):                                    *)
(*   NoIndentRule = TRUE   (drop "each line must start with whitespace")   *)
(*                         -> <<10, 120, 58>> "\nx:" injects field x       *)
(*   AllowEndLF   = TRUE   (drop the endswith('\n') test)                  *)
(*                         -> <<10>> splits the paragraph                  *)
(*   ValidateLFOnly = TRUE (split('\n') instead of splitlines())           *)
(*                         -> <<10, 13>> "\n\r" ends the paragraph for str *)
(*                            input (and "\rx:" would inject a field x)    *)
(*   ReaderNoWsRule = TRUE (the READER treats whitespace-only lines as     *)
(*                         separators although ws = FALSE was asked)       *)
(*                         -> <<10, 9>>: a blank continuation line splits; *)
(*                            the condition in the statement is needed.    *)
(*   StrictDroppedInGpgClasses = TRUE (seeded change E: the gpg-aware      *)
(*                         classes use strict for their pre-pass but do    *)
(*                         not forward it to the field parser)             *)
(*                         -> <<10, 9>> in a non-last field truncates      *)
(*   PosStrictMissedByPrepass = TRUE (the pre-pass looks for strict among  *)
(*                         the keyword arguments only; found by this check *)
(*                         in the code, repaired in /repo 2236619)         *)
(*                         -> <<10, 9>> with strict passed positionally    *)
(* The read-back has a class / constructor dimension (Ways): Deb822 /      *)
(* Release / PdiffIndex parse the lines directly; Dsc, Changes, BuildInfo  *)
(* first cut ONE paragraph out of list / file input with a pre-pass        *)
(* (split_gpg_and_payload without comment skipping) and parse its payload; *)
(* Cls(x, strict) reads one paragraph, Cls.iter_paragraphs(x, strict)      *)
(* builds objects from the shared line iterator until one is empty.  Sound *)
(* covers all of them for values up to GpgLen.                             *)
(* Not modelled: the PGP armor state machine (an armor line gives st =     *)
(* "pgp"; ReaderTotal shows it is unreachable from accepted values), the   *)
(* fields= filter, apt_pkg, encodings other than UTF-8, Unicode case       *)
(* folding of field names beyond ASCII.                                    *)
(***************************************************************************)
EXTENDS Naturals, Integers, Sequences, FiniteSets, TLC, Json

CONSTANTS Alphabet,        \* code points the values are built from
          MaxLen,          \* longest value
          Emit,            \* TRUE: print CASE lines
          LemmaLen,        \* the size lemmas are checked for values up to this length
          GpgLen,          \* the class / constructor dimension of the read-back is computed up to this length
          StrictDroppedInGpgClasses, PosStrictMissedByPrepass,   \* see Ways
          ZoneWhatIf,      \* TRUE: also compute the read-backs of "zone" values as if they were accepted
          NoIndentRule, AllowEndLF, ValidateLFOnly, ReaderNoWsRule   \* negative controls (FALSE)

VARIABLES inp,             \* the value under construction
          para,            \* P0 after assigning inp to its middle field
          res,             \* "ok" | "ValueError"
          out              \* what the reader model gives for each position / form / ws

vars == <<inp, para, res, out>>

----------------------------------------------------------------------------
\* code points and classes
LF == 10   CR == 13   SP == 32   TAB == 9   Colon == 58   Hash == 35   Hyphen == 45

\* str.isspace() of one character, and \s of a str regex (the property's domain only has
\* space, tab, CR, LF of these; the rest is listed so that the transcription is exact)
IsPySpace(c) == IF c < 128 THEN c \in {9, 10, 11, 12, 13, 28, 29, 30, 31, 32}
                ELSE \/ c \in {133, 160, 5760}
                     \/ c \in 8192..8202
                     \/ c \in {8232, 8233, 8239, 8287, 12288}
\* \s of a bytes regex
IsBytesWs(c) == c \in {9, 10, 11, 12, 13, 32}
\* line boundaries of str.splitlines() (CR LF counts once)
IsUBoundary(c) == c \in {10, 11, 12, 13, 28, 29, 30, 133, 8232, 8233}
\* [^: \t\n\r\f\v]
IsKeyChar(c) == c \notin {58, 32, 9, 10, 13, 12, 11}

AllOf(s, P(_)) == \A i \in 1..Len(s) : P(s[i])

----------------------------------------------------------------------------
\* splitting text into lines
\* univ: split like str.splitlines (all boundaries, CR LF once), else at LF only;
\* keep: the terminator stays on the line (iteration over a file object)
\* a final piece is a line only when it is not empty -- both for splitlines and for files
\* (the scan recurses per line, never per character of the whole text)
\* first boundary character at or after i, Len(s) + 1 if none
NextBoundary(s, univ, i) ==
    LET B == {j \in i..Len(s) : (univ /\ IsUBoundary(s[j])) \/ (~univ /\ s[j] = LF)} IN
    IF B = {} THEN Len(s) + 1 ELSE CHOOSE j \in B : \A k \in B : j <= k
RECURSIVE SplitScan(_, _, _, _, _)
SplitScan(s, univ, keep, st, acc) ==
    IF st > Len(s) THEN acc
    ELSE LET b == NextBoundary(s, univ, st) IN
         IF b > Len(s) THEN Append(acc, SubSeq(s, st, Len(s)))
         ELSE LET e == IF univ /\ s[b] = CR /\ b < Len(s) /\ s[b + 1] = LF THEN b + 1 ELSE b IN
              SplitScan(s, univ, keep, e + 1, Append(acc, SubSeq(s, st, IF keep THEN e ELSE b - 1)))

SplitLines(s) == SplitScan(s, TRUE, FALSE, 1, <<>>)      \* s.splitlines()
FileLines(s)  == SplitScan(s, FALSE, TRUE, 1, <<>>)      \* list(io.StringIO(s)) / io.BytesIO
LFLines(s)    == SplitScan(s, FALSE, FALSE, 1, <<>>)     \* negative control only

----------------------------------------------------------------------------
\* transcription: Deb822.validate_input
Validate(v) ==
    IF ~AllowEndLF /\ Len(v) > 0 /\ v[Len(v)] = LF THEN "ValueError"       \* value.endswith('\n')
    ELSE LET ls == IF ValidateLFOnly THEN LFLines(v) ELSE SplitLines(v) IN
         IF \E i \in 2..Len(ls) : \/ ls[i] = <<>>                          \* blank line
                                  \/ (~NoIndentRule /\ ~IsPySpace(ls[i][1]))  \* not line[0].isspace()
         THEN "ValueError" ELSE "ok"
Accept(v) == Validate(v) = "ok"

----------------------------------------------------------------------------
\* statement layer, declarative
EndsLF(v) == Len(v) > 0 /\ v[Len(v)] = LF

\* occurrences of a line boundary as index ranges <<from, to>> (universal reading)
Bnd(v) == {<<i, i>> : i \in {j \in 1..Len(v) : /\ IsUBoundary(v[j])
                                               /\ ~(v[j] = CR /\ j < Len(v) /\ v[j + 1] = LF)
                                               /\ ~(v[j] = LF /\ j > 1 /\ v[j - 1] = CR)}}
          \cup {<<i, i + 1>> : i \in {j \in 1..(Len(v) - 1) : v[j] = CR /\ v[j + 1] = LF}}
\* a line after the first one that is empty: two boundaries directly after one another
HasEmptyLine(v)      == \E a \in Bnd(v), b \in Bnd(v) : b[1] = a[2] + 1
\* a line after the first one whose first character is not whitespace
HasUnindentedCont(v) == \E a \in Bnd(v) : a[2] < Len(v) /\ ~IsPySpace(v[a[2] + 1])
DefectU(v)           == EndsLF(v) \/ HasEmptyLine(v) \/ HasUnindentedCont(v)
\* narrow reading: only LF ends a line; a continuation line must start with space or tab
\* (one that starts with CR is either "empty" -- CR LF -- or not indented)
MustReject(v)        == EndsLF(v) \/ \E i \in 1..(Len(v) - 1) : v[i] = LF /\ v[i + 1] \notin {SP, TAB}
\* some line after the first is non-empty and whitespace-only
BlankCont(v) == \E a \in Bnd(v) : /\ a[2] < Len(v)
                                  /\ \E e \in (a[2] + 1)..Len(v) :
                                        /\ \A j \in (a[2] + 1)..e : IsPySpace(v[j]) /\ ~IsUBoundary(v[j])
                                        /\ (e = Len(v) \/ IsUBoundary(v[e + 1]))
NoBlankCont(v) == ~BlankCont(v)

Classify(v) == IF MustReject(v) THEN "reject"
               ELSE IF DefectU(v) THEN "zone"
               ELSE IF BlankCont(v) THEN "blank"
               ELSE "accept"

----------------------------------------------------------------------------
\* size lemmas: the classification does not depend on HOW LONG a run of payload characters is
\* nor on HOW OFTEN a continuation line is repeated.  They justify the size-stressed
\* concretizations of the harness (payload runs of 4 096 / 65 536 characters, 100 / 1 000
\* continuation lines): the expectation computed for the small value is length-independent.
\* TLC checks them for one duplication of every payload character / every repeatable line of
\* every value of the bounded configuration (StretchInvariant, RepeatInvariant); longer runs
\* follow by repeating the step.
IsPayload(c)  == c \notin {Colon, Hash} /\ ~IsPySpace(c) /\ ~IsUBoundary(c)
DupAt(v, i)   == SubSeq(v, 1, i) \o SubSeq(v, i, Len(v))                     \* v[i] twice
\* a continuation line together with the boundary in front of it: <<first index, last index>>;
\* repeatable when the line is not empty
Segs(v) == {s \in {<<a[1], e>> : a \in Bnd(v), e \in 1..Len(v)} :
              /\ \E a \in Bnd(v) : /\ a[1] = s[1] /\ a[2] < s[2]
                                   /\ \A j \in (a[2] + 1)..s[2] : ~IsUBoundary(v[j])
              /\ (s[2] = Len(v) \/ IsUBoundary(v[s[2] + 1]))}
DupSeg(v, s)  == SubSeq(v, 1, s[2]) \o SubSeq(v, s[1], Len(v))               \* the segment twice
SameClass(v, w) == Classify(v) = Classify(w) /\ Accept(v) = Accept(w) /\ BlankCont(v) = BlankCont(w)

----------------------------------------------------------------------------
\* paragraphs: sequences of [k |-> name, v |-> value]; assignment
KeysOf(p) == [i \in 1..Len(p) |-> p[i].k]
AssignOutcome(p, pos, v) == IF Accept(v) THEN [res |-> "ok", para |-> [p EXCEPT ![pos].v = v]]
                            ELSE [res |-> "ValueError", para |-> p]
Stored(p, pos, v) == [p EXCEPT ![pos].v = v]

\* transcription: _dump_format
DumpField(k, v) == k \o <<Colon>> \o (IF v = <<>> \/ v[1] = LF THEN <<>> ELSE <<SP>>) \o v \o <<LF>>
RECURSIVE DumpFrom(_, _)
DumpFrom(p, i) == IF i > Len(p) THEN <<>> ELSE DumpField(p[i].k, p[i].v) \o DumpFrom(p, i + 1)
Dump(p) == DumpFrom(p, 1)

----------------------------------------------------------------------------
\* transcription: the reader.  Lines reaching the regexes contain no LF (ReaderTotal).
StartsWithHash(l) == Len(l) > 0 /\ l[1] = Hash
OnlyCRLF(l)       == AllOf(l, LAMBDA c : c \in {CR, LF})               \* not line.rstrip('\r\n')
RECURSIVE SkipCRLF(_, _), SkipCRLFBack(_, _)
SkipCRLF(l, i)     == IF i <= Len(l) /\ l[i] \in {CR, LF} THEN SkipCRLF(l, i + 1) ELSE i
SkipCRLFBack(l, i) == IF i >= 1 /\ l[i] \in {CR, LF} THEN SkipCRLFBack(l, i - 1) ELSE i
StripCRLF(l) == LET a == SkipCRLF(l, 1)                                \* line.strip(b'\r\n')
                    b == SkipCRLFBack(l, Len(l))
                IN IF a > b THEN <<>> ELSE SubSeq(l, a, b)
AllBytesWs(l)  == AllOf(l, IsBytesWs)                                  \* ^\s*$  (bytes)
IsBlank(l, ws) == IF ws \/ ReaderNoWsRule THEN AllBytesWs(l) ELSE l = <<>>

\* ^-----(BEGIN|END) PGP ([^-]+)-----[\r\t ]*$
PgpB == <<45, 45, 45, 45, 45, 66, 69, 71, 73, 78, 32, 80, 71, 80, 32>>
PgpE == <<45, 45, 45, 45, 45, 69, 78, 68, 32, 80, 71, 80, 32>>
IsPgpLine(l) == /\ Len(l) >= 19 /\ l[1] = Hyphen                   \* (cheap guard, implied by the rest)
                /\ \E pre \in {PgpB, PgpE} :
                   /\ Len(l) > Len(pre) /\ SubSeq(l, 1, Len(pre)) = pre
                   /\ \E a \in (Len(pre) + 1)..(Len(l) - 5) :
                         /\ \A i \in (Len(pre) + 1)..a : l[i] # Hyphen
                         /\ \A i \in (a + 1)..(a + 5) : l[i] = Hyphen
                         /\ \A i \in (a + 6)..Len(l) : l[i] \in {CR, TAB, SP}

\* the three line regexes, as index scans
\*   _key_part  = ^(?P<key>[^: \t\n\r\f\v]+)\s*:\s*
\*   _single    = _key_part (?P<data>\S.*?)\s*$      _multi = _key_part $
\*   _multidata = ^\s(?P<data>.+?)\s*$
RECURSIVE KeyEnd(_, _), SkipWs(_, _), SkipWsBack(_, _)
KeyEnd(l, i)     == IF i <= Len(l) /\ IsKeyChar(l[i]) THEN KeyEnd(l, i + 1) ELSE i - 1    \* greedy [^: \s]+
SkipWs(l, i)     == IF i <= Len(l) /\ IsPySpace(l[i]) THEN SkipWs(l, i + 1) ELSE i        \* greedy \s*
SkipWsBack(l, i) == IF i >= 1 /\ IsPySpace(l[i]) THEN SkipWsBack(l, i - 1) ELSE i         \* \s*$ from the end
KeyLen(l)   == KeyEnd(l, 1)
\* index of the colon that ends _key_part, 0 when the line does not start like a field
ColonPos(l) == LET k == KeyLen(l)
                   c == SkipWs(l, k + 1)
               IN IF k > 0 /\ c <= Len(l) /\ l[c] = Colon THEN c ELSE 0
\* [kind, key, data]: which regex matches first -- "single", "multi", "multidata", "junk"
Match(l) == LET c == ColonPos(l) IN
            IF c > 0
            THEN LET a == SkipWs(l, c + 1) IN
                 IF a <= Len(l)
                 THEN [kind |-> "single", key |-> SubSeq(l, 1, KeyLen(l)), data |-> SubSeq(l, a, SkipWsBack(l, Len(l)))]
                 ELSE [kind |-> "multi", key |-> SubSeq(l, 1, KeyLen(l)), data |-> <<>>]
            ELSE IF Len(l) >= 2 /\ IsPySpace(l[1])
                 THEN [kind |-> "multidata", key |-> <<>>, data |-> <<>>]
                 ELSE [kind |-> "junk", key |-> <<>>, data |-> <<>>]

\* Deb822Dict.__setitem__ through _strI: first spelling and position kept (ASCII case folding)
Lower(c) == IF c \in 65..90 THEN c + 32 ELSE c
SameName(a, b) == Len(a) = Len(b) /\ \A i \in 1..Len(a) : Lower(a[i]) = Lower(b[i])
SetField(fs, k, v) == IF \E i \in 1..Len(fs) : SameName(fs[i].k, k)
                      THEN [i \in 1..Len(fs) |-> IF SameName(fs[i].k, k) THEN [k |-> fs[i].k, v |-> v] ELSE fs[i]]
                      ELSE Append(fs, [k |-> k, v |-> v])
\* self[curkey] = content : Deb822.__setitem__ validates
Commit(a, key, content) == IF key = <<>> THEN a
                           ELSE IF Validate(content) # "ok" THEN [st |-> "EXC:ValueError", fields |-> a.fields]
                           ELSE [st |-> "ok", fields |-> SetField(a.fields, key, content)]

\* _internal_parser over the payload lines
RECURSIVE Assemble(_, _, _, _, _)
Assemble(ls, i, key, content, a) ==
    IF a.st # "ok" THEN a
    ELSE IF i > Len(ls) THEN Commit(a, key, content)
    ELSE LET l == ls[i]
             m == Match(l)
         IN IF m.kind = "single" THEN Assemble(ls, i + 1, m.key, m.data, Commit(a, key, content))
            ELSE IF m.kind = "multi" THEN Assemble(ls, i + 1, m.key, <<>>, Commit(a, key, content))
            ELSE IF m.kind = "multidata" THEN Assemble(ls, i + 1, key, content \o <<LF>> \o l, a)
            ELSE Assemble(ls, i + 1, key, content, a)

\* split_gpg_and_payload for one paragraph, from raw line j; su = the lines come through
\* _skip_useless_lines first (the field parser), su = FALSE: the raw pre-pass of the gpg-aware
\* classes (no comment skipping)
RECURSIVE ReadPara(_, _, _, _, _, _, _)
ReadPara(ls, ws, j, atBeg, first, pay, su) ==
    IF j > Len(ls) THEN [next |-> j, pay |-> pay, pgp |-> FALSE]
    ELSE LET raw == ls[j] IN
         IF su /\ StartsWithHash(raw) THEN ReadPara(ls, ws, j + 1, atBeg, first, pay, su)
         ELSE IF su /\ atBeg /\ OnlyCRLF(raw) THEN ReadPara(ls, ws, j + 1, TRUE, first, pay, su)
         ELSE LET l == StripCRLF(raw) IN
              IF first /\ AllBytesWs(l) THEN ReadPara(ls, ws, j + 1, FALSE, TRUE, pay, su)
              ELSE IF IsPgpLine(l) THEN [next |-> j + 1, pay |-> pay, pgp |-> TRUE]
              ELSE IF ~IsBlank(l, ws) THEN ReadPara(ls, ws, j + 1, FALSE, FALSE, Append(pay, l), su)
              ELSE [next |-> j + 1, pay |-> pay, pgp |-> FALSE]

NoFields == [st |-> "ok", fields |-> <<>>]
\* Deb822.__init__(lines, strict): _internal_parser reads ONE paragraph from raw line j
PlainPara(ls, ws, j) ==
    LET r == ReadPara(ls, ws, j, TRUE, TRUE, <<>>, TRUE) IN
    IF r.pgp THEN [st |-> "pgp", fields |-> <<>>, next |-> r.next]
    ELSE IF r.pay = <<>> THEN [st |-> "ok", fields |-> <<>>, next |-> r.next]        \* EOFError, swallowed
    ELSE LET a == Assemble(r.pay, 1, <<>>, <<>>, NoFields) IN [st |-> a.st, fields |-> a.fields, next |-> r.next]
\* _gpg_multivalued.__init__(lines, strict) (Dsc, Changes, BuildInfo): a PRE-PASS with
\* split_gpg_and_payload cuts one paragraph out of the raw lines (setting wsPre = the strict
\* found among the KEYWORD arguments), its payload is then parsed like above (setting wsParse)
GpgPara(ls, wsPre, wsParse, j) ==
    LET pre == ReadPara(ls, wsPre, j, FALSE, TRUE, <<>>, FALSE) IN
    IF pre.pgp THEN [st |-> "pgp", fields |-> <<>>, next |-> pre.next]
    ELSE LET r == PlainPara(pre.pay, wsParse, 1) IN [st |-> r.st, fields |-> r.fields, next |-> pre.next]

\* Cls.iter_paragraphs: objects are built from the shared line iterator until one is empty
RECURSIVE IterParas(_, _, _, _, _, _)
IterParas(ls, gpg, wsPre, wsParse, j, acc) ==
    LET r == IF gpg THEN GpgPara(ls, wsPre, wsParse, j) ELSE PlainPara(ls, wsParse, j) IN
    IF r.st # "ok" THEN [st |-> r.st, paras |-> acc]
    ELSE IF r.fields = <<>> THEN [st |-> "ok", paras |-> acc]
    ELSE IterParas(ls, gpg, wsPre, wsParse, r.next, Append(acc, r.fields))
ReadParas(ls, ws, j, acc) == IterParas(ls, FALSE, ws, ws, j, acc)      \* Deb822.iter_paragraphs
\* Cls(x, strict): the object built from the first paragraph
CtorObj(r) == [st |-> r.st, paras |-> << r.fields >>]

RawLines(text, form) == IF form = "str" THEN SplitLines(text) ELSE FileLines(text)
ReadBack(text, form, ws) == ReadParas(RawLines(text, form), ws, 1, <<>>)
\* the observable: status + key list of every paragraph
Obs(r) == [st |-> r.st, paras |-> [i \in 1..Len(r.paras) |-> KeysOf(r.paras[i])]]
OneParagraph(p) == [st |-> "ok", paras |-> <<KeysOf(p)>>]

Forms == {"str", "file"}
\* no line that reaches the regexes has an LF in it, no armor line
LinesCleanL(rl) == \A i \in 1..Len(rl) : LET l == StripCRLF(rl[i]) IN
                                          ~IsPgpLine(l) /\ \A j \in 1..Len(l) : l[j] # LF
AllNoBlank(q) == \A i \in 1..Len(q) : NoBlankCont(q[i].v)
\* how the strict argument reaches the two stages of a gpg-aware class
\*   StrictDroppedInGpgClasses (negative control, seeded change E): strict is used by the pre-pass
\*     but no longer forwarded to Deb822.__init__: the field parser runs with the default
\*   PosStrictMissedByPrepass (negative control; the defect this check found in the code and
\*     that was repaired in /repo commit 2236619): the pre-pass looks strict up among the keyword
\*     arguments only, so a strict passed POSITIONALLY reaches the field parser but not the pre-pass
WsParseG(w)    == IF StrictDroppedInGpgClasses THEN TRUE ELSE w
WsPreG(w, pass) == IF pass = "pos" /\ PosStrictMissedByPrepass THEN TRUE ELSE w
Passes == IF PosStrictMissedByPrepass THEN {"kw", "pos"} ELSE {"kw"}
\* every way the library offers to read a dump back, for the two kinds of class:
\*   it[f][w]      Cls.iter_paragraphs(x, strict) for Deb822 / Release / PdiffIndex (= obs)
\*   pc[f][w]      Cls(x, strict)                 for the same classes
\*   gi[f][w]      Cls.iter_paragraphs(x, strict) for Dsc / Changes / BuildInfo
\*   gcs[w]        Cls(str or bytes, strict)      for those (no pre-pass)
\*   gcl[f][w][pass]  Cls(list or file, strict)   for those (pre-pass); a list made with
\*                 text.splitlines(True) has the lines of the "str" form, a file those of "file"
Ways(ls) ==
    [pc  |-> [f \in Forms |-> [w \in BOOLEAN |-> Obs(CtorObj(PlainPara(ls[f], w, 1)))]],
     gi  |-> [f \in Forms |-> [w \in BOOLEAN |-> Obs(IterParas(ls[f], TRUE, w, WsParseG(w), 1, <<>>))]],
     gcs |-> [w \in BOOLEAN |-> Obs(CtorObj(PlainPara(ls["str"], WsParseG(w), 1)))],
     gcl |-> [f \in Forms |-> [w \in BOOLEAN |-> [p \in Passes |->
                Obs(CtorObj(GpgPara(ls[f], WsPreG(w, p), WsParseG(w), 1)))]]]]
WaysSound(q, y) == \A w \in BOOLEAN : (w => AllNoBlank(q)) =>
                      /\ \A f \in Forms : y.pc[f][w] = OneParagraph(q) /\ y.gi[f][w] = OneParagraph(q)
                      /\ y.gcs[w] = OneParagraph(q)
                      /\ \A f \in Forms, p \in Passes : y.gcl[f][w][p] = OneParagraph(q)
\* all read-backs of paragraph q (and whether its lines are clean), sharing the dump and the split;
\* the class / constructor dimension only when `full`
ObsAndCleanF(q, full) ==
                  LET t  == Dump(q)
                      ls == [f \in Forms |-> RawLines(t, f)]
                  IN [obs   |-> [f \in Forms |-> [w \in BOOLEAN |-> Obs(ReadParas(ls[f], w, 1, <<>>))]],
                      ways  |-> IF full THEN Ways(ls) ELSE <<>>,
                      clean |-> \A f \in Forms : LinesCleanL(ls[f])]
ObsAndClean(q) == ObsAndCleanF(q, FALSE)
ObsAll(q) == ObsAndClean(q).obs
\* the statement's obligation for a paragraph q that now holds an accepted value
SoundObs(q, o) == \A f \in Forms : /\ o[f][FALSE] = OneParagraph(q)
                                   /\ AllNoBlank(q) => o[f][TRUE] = OneParagraph(q)
----------------------------------------------------------------------------
\* bounded enumeration: one state per value
X == 120
P0 == << [k |-> <<65>>, v |-> <<X>>], [k |-> <<66>>, v |-> <<X>>], [k |-> <<67>>, v |-> <<X>>] >>
Positions == 1..Len(P0)

\* read-backs are computed for every value that is accepted, and -- "what if it were
\* accepted" -- for the unspecified zone
Observe(v) == IF Accept(v) \/ (ZoneWhatIf /\ Classify(v) = "zone")
              THEN [pos \in Positions |-> ObsAndCleanF(Stored(P0, pos, v), Len(v) <= GpgLen)]
              ELSE <<>>
SoundIfStored(v, o) == \A pos \in Positions :
                          (SoundObs(Stored(P0, pos, v), o[pos].obs))
                          /\ ((Len(v) <= GpgLen) => WaysSound(Stored(P0, pos, v), o[pos].ways))

\* diagnostic part of a CASE line: default-setting read-backs the statement does not decide
DiagWs(v, o) == IF Accept(v) /\ BlankCont(v)
                THEN [pos \in Positions |-> [str |-> o[pos].obs["str"][TRUE], file |-> o[pos].obs["file"][TRUE]]]
                ELSE <<>>
CaseLine(v, o) == Emit => PrintT(<<"CASE", ToJson([v     |-> v,
                                                    cls   |-> Classify(v),
                                                    acc   |-> Accept(v),
                                                    blank |-> BlankCont(v),
                                                    zs    |-> IF ZoneWhatIf /\ ~Accept(v) /\ Classify(v) = "zone" THEN SoundIfStored(v, o) ELSE TRUE,
                                                    segs  |-> Segs(v),
                                                    keys  |-> KeysOf(P0),
                                                    wt    |-> DiagWs(v, o)])>>)

Built(v) == LET a == AssignOutcome(P0, 2, v)
                o == Observe(v)
            IN para' = a.para /\ res' = a.res /\ out' = o /\ CaseLine(v, o)

BndInit == /\ inp = <<>>
           /\ para = AssignOutcome(P0, 2, <<>>).para /\ res = AssignOutcome(P0, 2, <<>>).res
           /\ out = Observe(<<>>)
           /\ CaseLine(<<>>, Observe(<<>>))
BndNext == /\ Len(inp) < MaxLen
           /\ \E c \in Alphabet : inp' = Append(inp, c)
           /\ Built(inp')
BndSpec == BndInit /\ [][BndNext]_vars

Sound          == Accept(inp) => SoundIfStored(inp, out)
RejectComplete == (EndsLF(inp) \/ HasEmptyLine(inp) \/ HasUnindentedCont(inp)) => ~Accept(inp)
RejectExact    == Accept(inp) <=> ~DefectU(inp)
ZonesNested    == MustReject(inp) => DefectU(inp)
RejectAtomic   == res = "ValueError" => para = P0 /\ \A pos \in Positions : AssignOutcome(P0, pos, inp).para = P0
AcceptStores   == res = "ok" => para = Stored(P0, 2, inp)
StretchInvariant == Len(inp) <= LemmaLen => \A i \in 1..Len(inp) : IsPayload(inp[i]) => SameClass(inp, DupAt(inp, i))
RepeatInvariant  == Len(inp) <= LemmaLen => \A s \in Segs(inp) : SameClass(inp, DupSeg(inp, s))
ReaderTotal    == Accept(inp) => \A pos \in Positions : out[pos].clean
=============================================================================
