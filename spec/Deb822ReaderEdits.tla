------------------------- MODULE Deb822ReaderEdits -------------------------
(***************************************************************************)
(* C02 -- renderings of ONE live paragraph between edits.                  *)
(* "Dumping and re-parsing gives the same fields in the same order" must   *)
(* hold for the paragraph as it is NOW, whatever public mutator ran since   *)
(* the last dump, and every way of rendering it must agree.                *)
(*                                                                         *)
(* obj  = the fields of the paragraph, <<[k, v]>> (k = rank of the name in *)
(*        the case-insensitive sort order, v = value as in Deb822Reader);  *)
(* memo = what a render memo holds ([valid, lines]); the DESIGN has no     *)
(*        memo (UseMemo = FALSE): a rendering is Dump(<<obj>>).            *)
(* Mutators (one action each; the E* operators are pure and re-used by     *)
(* TraceDeb822ReaderEdits): item assignment, deletion, update, setdefault, *)
(* pop, popitem, clear, order_first / last / before / after, sort_fields() *)
(* and sort_fields(key=...) (here: descending), merge_fields(key, other)   *)
(* in place (key absent here / absent there).  Render(kind) = dump(),      *)
(* str(), bytes() (through the memo when there is one); dump(fd) never     *)
(* uses it.                                                                *)
(* Invariant RendersCurrent: every rendering re-parses (Parse of           *)
(* Deb822Reader) to exactly the current fields in the current order, and   *)
(* all renderings are the same lines.                                      *)
(* Negative control: UseMemo = TRUE, MemoClearedBy = {"set", "del"} (a     *)
(* render memo invalidated only by item assignment / deletion) -> TLC      *)
(* reports RendersCurrent after  render ; order_first ; (any state).       *)
(* REFUSED calls and calls that fail in an object the CALLER supplies are   *)
(* ordinary steps of a history (hardening round 6, notes/SIZE_STRESS.md     *)
(* part 5): RefusedSet (item assignment / setdefault / update / merge_fields *)
(* with a value Deb822 must refuse: ends in a newline, has an empty line,   *)
(* has a continuation line without leading white space), Absent (del / pop  *)
(* of a name the paragraph does not have, popitem of an empty paragraph),   *)
(* SortKeyFault (sort_fields(key=f): f raises for the first / a middle /    *)
(* the last name, or returns incomparable keys), DumpFault (dump(fd): the   *)
(* k-th write of fd raises).  The edge carries the outcome (res: "ok", the  *)
(* documented exception, or "caller" = the caller's own exception) and the  *)
(* paragraph is UNCHANGED (error atomicity): a field the paragraph lists     *)
(* has a value (Complete), so every rendering after the failed call is      *)
(* still the rendering of the fields it had.                                *)
(* Negative control: RefusedLeaksKey = TRUE (the name is registered before  *)
(* the value is validated: a refused assignment to a name the paragraph     *)
(* does not have leaves a name without value behind) -> RendersCurrent.     *)
(* The closed LTS (EDGE lines) is replayed into the real classes; the      *)
(* harness renders through every dump variant after every step.            *)
(***************************************************************************)
EXTENDS Deb822Reader

CONSTANTS EKeys,           \* names (ranks)
          UseMemo,         \* design: FALSE
          MemoClearedBy,   \* set of mutator families that invalidate the memo (negative control)
          RefusedLeaksKey  \* design: FALSE (negative control: a refused assignment registers the name)

VARIABLES obj, memo
evars == <<obj, memo>>

\* two values per name: a single line, and an empty first line with two continuation lines
Val(k, a) == IF a = 1 THEN <<100 + k>> ELSE <<NoText, 200 + k, 300 + k>>
Alts == {1, 2}

EHas(o, k)  == \E i \in 1..Len(o) : o[i].k = k
EIdx(o, k)  == CHOOSE i \in 1..Len(o) : o[i].k = k
ERm(o, k)   == SelectSeq(o, LAMBDA f : f.k # k)
ESet(o, k, v)   == IF EHas(o, k) THEN [i \in 1..Len(o) |-> IF o[i].k = k THEN [k |-> k, v |-> v] ELSE o[i]]
                   ELSE Append(o, [k |-> k, v |-> v])
EFirst(o, k)    == <<o[EIdx(o, k)]>> \o ERm(o, k)
ELast(o, k)     == ERm(o, k) \o <<o[EIdx(o, k)]>>
EBefore(o, k, r) == LET rest == ERm(o, k) i == EIdx(rest, r)
                    IN SubSeq(rest, 1, i - 1) \o <<o[EIdx(o, k)]>> \o SubSeq(rest, i, Len(rest))
EAfter(o, k, r)  == LET rest == ERm(o, k) i == EIdx(rest, r)
                    IN SubSeq(rest, 1, i) \o <<o[EIdx(o, k)]>> \o SubSeq(rest, i + 1, Len(rest))
RECURSIVE EInsertSorted(_, _, _)
EInsertSorted(s, f, asc) == IF s = <<>> THEN <<f>>
                            ELSE IF (asc /\ f.k < s[1].k) \/ (~asc /\ f.k > s[1].k) THEN <<f>> \o s
                            ELSE <<s[1]>> \o EInsertSorted(Tail(s), f, asc)
RECURSIVE ESortFrom(_, _, _)
ESortFrom(o, i, asc) == IF i > Len(o) THEN <<>> ELSE EInsertSorted(ESortFrom(o, i + 1, asc), o[i], asc)
ESort(o, asc) == ESortFrom(o, 1, asc)

\* a field the paragraph lists has a value (v = <<>>: a name without value -- only the negative control makes one)
Complete(o) == \A i \in 1..Len(o) : o[i].v # <<>>
\* refused / failing calls: outcome and (unchanged) paragraph
BadKinds  == {"nl_end", "blank_line", "no_indent"}
SetHows   == {"set", "setdefault", "update", "merge"}
AbsHows   == {"del", "pop", "pop_default"}
FaultPos  == {"first", "middle", "last"}
\* does d.<how>(name k, refused value) get as far as storing?  setdefault of a name that is there returns its value
EReaches(o, k, how)    == how # "setdefault" \/ ~EHas(o, k)
ERefusedRes(o, k, how) == IF EReaches(o, k, how) THEN "ValueError" ELSE "ok"
ERefused(o, k, how)    == IF RefusedLeaksKey /\ EReaches(o, k, how) /\ ~EHas(o, k) THEN Append(o, [k |-> k, v |-> <<>>]) ELSE o
EAbsentRes(how)        == IF how = "pop_default" THEN "ok" ELSE "KeyError"
\* the caller's key function is called once per name, the caller's write() at least once for a non-empty paragraph
ECallerRes(o)          == IF o = <<>> THEN "ok" ELSE "caller"
EIncomparableRes(o)    == IF Len(o) < 2 THEN "ok" ELSE "TypeError"

Rendered  == IF obj = <<>> THEN <<>> ELSE Dump(<<obj>>)
Current   == IF obj = <<>> THEN <<>> ELSE <<obj>>
\* what each way of rendering returns
Rendering(kind) == IF UseMemo /\ kind \in {"dump", "str", "bytes"} /\ memo.valid THEN memo.lines ELSE Rendered
Kinds == {"dump", "str", "bytes", "fd_text", "fd_binary"}

EEdgeR(op, args, res) == Emit => PrintT(<<"EDGE", ToJson([from |-> obj, op |-> op, args |-> args, res |-> res, to |-> obj'])>>)
EEdge(op, args) == EEdgeR(op, args, "ok")
Clear(fam) == memo' = IF fam \in MemoClearedBy THEN [valid |-> FALSE, lines |-> <<>>] ELSE memo

EInit == rd = RInit(FALSE) /\ doc = <<>>
         /\ obj = <<[k |-> 1, v |-> Val(1, 1)], [k |-> 2, v |-> Val(2, 2)], [k |-> 3, v |-> Val(3, 1)]>>
         /\ memo = [valid |-> FALSE, lines |-> <<>>]

SetItem(k, a)    == obj' = ESet(obj, k, Val(k, a)) /\ Clear("set") /\ EEdge("set", <<k, a>>)
DelItem(k)       == EHas(obj, k) /\ obj' = ERm(obj, k) /\ Clear("del") /\ EEdge("del", <<k>>)
Pop(k)           == EHas(obj, k) /\ obj' = ERm(obj, k) /\ Clear("del") /\ EEdge("pop", <<k>>)
PopItem          == obj # <<>> /\ obj' = Tail(obj) /\ Clear("del") /\ EEdge("popitem", <<>>)
ClearAll         == obj # <<>> /\ obj' = <<>> /\ Clear("del") /\ EEdge("clear", <<>>)
SetDefault(k, a) == obj' = (IF EHas(obj, k) THEN obj ELSE ESet(obj, k, Val(k, a))) /\ Clear("set") /\ EEdge("setdefault", <<k, a>>)
Update(k, a, b)  == LET k2 == IF k + 1 \in EKeys THEN k + 1 ELSE 1 IN
                    obj' = ESet(ESet(obj, k, Val(k, a)), k2, Val(k2, b)) /\ Clear("set") /\ EEdge("update", <<k, a, k2, b>>)
OrderFirst(k)    == EHas(obj, k) /\ obj' = EFirst(obj, k) /\ Clear("order") /\ EEdge("order_first", <<k>>)
OrderLast(k)     == EHas(obj, k) /\ obj' = ELast(obj, k) /\ Clear("order") /\ EEdge("order_last", <<k>>)
OrderBefore(k, r) == k # r /\ EHas(obj, k) /\ EHas(obj, r) /\ obj' = EBefore(obj, k, r) /\ Clear("order") /\ EEdge("order_before", <<k, r>>)
OrderAfter(k, r)  == k # r /\ EHas(obj, k) /\ EHas(obj, r) /\ obj' = EAfter(obj, k, r) /\ Clear("order") /\ EEdge("order_after", <<k, r>>)
SortFields       == obj' = ESort(obj, TRUE) /\ Clear("sort") /\ EEdge("sort_fields", <<>>)
SortFieldsKey    == obj' = ESort(obj, FALSE) /\ Clear("sort") /\ EEdge("sort_fields_key", <<>>)
\* d.merge_fields(key, other): key only in other -> taken over (appended); key only here -> re-assigned (no change)
MergeAbsent(k, a)  == ~EHas(obj, k) /\ obj' = ESet(obj, k, Val(k, a)) /\ Clear("set") /\ EEdge("merge_from_other", <<k, a>>)
MergePresent(k)    == EHas(obj, k) /\ obj' = obj /\ Clear("set") /\ EEdge("merge_only_here", <<k>>)
Render(kind)     == /\ kind \in {"dump", "str", "bytes"}
                    /\ obj' = obj
                    /\ memo' = IF UseMemo /\ ~memo.valid THEN [valid |-> TRUE, lines |-> Rendered] ELSE memo
                    /\ EEdge("render", <<kind>>)

\* refused and failing calls (memo untouched: nothing was edited)
RefusedSet(k, b, how) == /\ how = "merge" => ~EHas(obj, k)
                         /\ obj' = ERefused(obj, k, how) /\ memo' = memo
                         /\ EEdgeR("refused_set", <<k, b, how>>, ERefusedRes(obj, k, how))
Absent(k, how)        == ~EHas(obj, k) /\ obj' = obj /\ memo' = memo /\ EEdgeR("absent", <<k, how>>, EAbsentRes(how))
PopItemEmpty          == obj = <<>> /\ obj' = obj /\ memo' = memo /\ EEdgeR("popitem_empty", <<>>, "KeyError")
SortKeyFault(pos)     == obj' = obj /\ memo' = memo /\ EEdgeR("sort_key_fault", <<pos>>, ECallerRes(obj))
SortKeyIncomparable   == obj' = obj /\ memo' = memo /\ EEdgeR("sort_key_incomparable", <<>>, EIncomparableRes(obj))
DumpFault(pos, mode)  == obj' = obj /\ memo' = memo /\ EEdgeR("dump_fault", <<pos, mode>>, ECallerRes(obj))

ENext == /\ UNCHANGED vars
         /\ \/ \E k \in EKeys : \/ \E a \in Alts : SetItem(k, a) \/ SetDefault(k, a) \/ MergeAbsent(k, a)
                                \/ \E a, b \in Alts : Update(k, a, b)
                                \/ DelItem(k) \/ Pop(k) \/ OrderFirst(k) \/ OrderLast(k) \/ MergePresent(k)
                                \/ \E r \in EKeys : OrderBefore(k, r) \/ OrderAfter(k, r)
            \/ PopItem \/ ClearAll \/ SortFields \/ SortFieldsKey
            \/ \E kind \in {"dump", "str", "bytes"} : Render(kind)
            \/ \E k \in EKeys : \/ \E b \in BadKinds, how \in SetHows : RefusedSet(k, b, how)
                                \/ \E how \in AbsHows : Absent(k, how)
            \/ PopItemEmpty \/ SortKeyIncomparable
            \/ \E pos \in FaultPos : SortKeyFault(pos) \/ \E mode \in {"binary", "text"} : DumpFault(pos, mode)
ESpec == EInit /\ [][ENext]_<<vars, evars>>

RendersCurrent == /\ Complete(obj)
                  /\ \A kind \in Kinds : Parse(Rendering(kind)) = Current
                  /\ \A k1, k2 \in Kinds : Rendering(k1) = Rendering(k2)
NamesUnique    == \A i, j \in 1..Len(obj) : obj[i].k = obj[j].k => i = j
=============================================================================
