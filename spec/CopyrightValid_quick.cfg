CONSTANTS
  FSilent = FALSE
  FStrictDrops = FALSE
  MaxBody = 2
  EmitBody = 1
  Emit = TRUE
SPECIFICATION VSpec
INVARIANT StrictImpliesTolerant
INVARIANT TolerantNeverFormatError
INVARIANT NotReadableWhateverStrict
INVARIANT StrictOnlyValid
INVARIANT TolerantWarns
INVARIANT ValidQuiet
INVARIANT KindsInOrder
INVARIANT KnownIffCurrent
INVARIANT EmitCase
CHECK_DEADLOCK FALSE
