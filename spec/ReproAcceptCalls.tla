------------------------- MODULE ReproAcceptCalls -------------------------
(***************************************************************************)
(* X09 -- call histories of parse_deb822_file (clause (I) of the statement *)
(* in ReproAccept.tla): several calls in a row with different flags, on    *)
(* the same or on different files, all earlier results kept alive, some of *)
(* them modified by the caller.                                            *)
(*                                                                         *)
(* State: hist = the events so far.  Call(f, e, d) parses file Docs[f]     *)
(* with accept_files_with_error_tokens = e and                             *)
(* accept_files_with_duplicated_fields = d: the tokenizer automaton of     *)
(* ReproAccept runs over the lines starting from the state a call starts   *)
(* in -- SInit by design; with the negative-control constants the `open`   *)
(* flag (current_field_name) resp. the paragraph in progress of the        *)
(* PREVIOUS call is carried over (`carry`), which is what a module-level   *)
(* or default-argument variable in the tokenizer / combiner would do.      *)
(* Ruin(j): the caller deletes fields from the live result of event j (a   *)
(* result is a value of its own: nothing else may change).                 *)
(*   CallLocal   every result equals what ReproAccept!Expected says for    *)
(*               that file and those flags alone                           *)
(*   Untouched   (action property) no event changes an earlier result      *)
(* Negative controls (TLC reports CallLocal): LeakOpen = TRUE (file 2,     *)
(* starting with a continuation line, is accepted after file 1),           *)
(* LeakPara = TRUE (file 3 gets a duplicate from file 1's last paragraph). *)
(* Every reachable history is printed as a CASE line and replayed into the *)
(* real code by harness/props/x09.py.                                      *)
(***************************************************************************)
EXTENDS ReproAccept

CONSTANTS MaxEv,      \* events per history
          LeakOpen,   \* design: FALSE
          LeakPara    \* design: FALSE

VARIABLES hist, carry

cvars == <<vars, hist, carry>>

Docs == << <<Ln("F", 1, 0), Ln("K", 0, 0)>>,                                \* ends inside an open field
           <<Ln("K", 0, 0), Ln("F", 1, 0)>>,                                \* starts with a continuation line
           <<Ln("F", 1, 1)>>,
           <<Ln("F", 1, 0), Ln("C", 0, 0), Ln("F", 1, 1)>>,                 \* duplicate
           <<Ln("J", 0, 0), Ln("B", 0, 0), Ln("F", 2, 0), Ln("F", 1, 0), Ln("F", 2, 0)>>,   \* junk, later a duplicate
           <<Ln("C", 0, 0)>> >>                                             \* no paragraph at all

\* what one call shows: the kind of outcome and, when a file element is returned, its observables
Shown(r, e, d) ==
  LET k == IF ~e /\ r.ferr # 0 THEN "syntax" ELSE IF ~d /\ r.dupp # 0 THEN "dup" ELSE "ok"
  IN IF k = "ok" THEN [out |-> k, ferr |-> r.ferr, frun |-> r.frun, nerr |-> r.nerr, paras |-> r.paras, dups |-> r.dups,
                       valid |-> r.valid, dupp |-> 0, dupi |-> 0]
     ELSE [out |-> k, ferr |-> IF k = "syntax" THEN r.ferr ELSE 0, frun |-> 0, nerr |-> 0, paras |-> <<>>, dups |-> <<>>,
           valid |-> FALSE, dupp |-> IF k = "dup" THEN r.dupp ELSE 0, dupi |-> IF k = "dup" THEN r.dupi ELSE 0]

Start == [SInit EXCEPT !.open = IF LeakOpen THEN carry.open ELSE FALSE,
                       !.cur  = IF LeakPara THEN carry.cur ELSE <<>>]
\* (a leaked paragraph keeps its keys; its line numbers are set to 0: they belong to another file)
Stale(cur) == [j \in 1..Len(cur) |-> [i |-> 0, k |-> cur[j].k]]

CInit == /\ hist = <<>> /\ carry = [open |-> FALSE, cur |-> <<>>]
         /\ yln = <<>> /\ yst = SInit /\ ydoc = <<>>

Call(f, e, d) ==
  LET fin == RunRange(Start, Docs[f], 1, Len(Docs[f]), "code")
  IN /\ hist' = Append(hist, [op |-> "call", f |-> f, e |-> e, d |-> d, j |-> 0, res |-> Shown(Result(fin), e, d)])
     /\ carry' = [open |-> fin.open, cur |-> Stale(fin.cur)]

Ruin(j) == /\ hist[j].op = "call" /\ hist[j].res.out = "ok" /\ hist[j].res.paras # <<>>
           /\ ~\E q \in 1..Len(hist) : hist[q].op = "ruin" /\ hist[q].j = j
           /\ hist' = Append(hist, [op |-> "ruin", f |-> hist[j].f, e |-> hist[j].e, d |-> hist[j].d, j |-> j, res |-> hist[j].res])
           /\ UNCHANGED carry

CNext == /\ Len(hist) < MaxEv
         /\ \/ \E f \in 1..Len(Docs), e, d \in BOOLEAN : Call(f, e, d)
            \/ \E j \in 1..Len(hist) : Ruin(j)
         /\ UNCHANGED vars
CSpec == CInit /\ [][CNext]_cvars

CallLocal == \A q \in 1..Len(hist) :
                hist[q].op = "call" => hist[q].res = Shown(Parse(Docs[hist[q].f], "code"), hist[q].e, hist[q].d)
Untouched == [][\A q \in 1..Len(hist) : hist'[q] = hist[q]]_cvars
EmitHist  == (Emit /\ hist # <<>>) => PrintT(<<"CASE", ToJson(hist)>>)
DocsLine  == Emit => PrintT(<<"DOCS", ToJson(Docs)>>)
ASSUME DocsLine
=============================================================================
