CONSTANTS
  Alphabet = {}
  MaxLen = 0
  Defects = {}
  Emit = FALSE
SPECIFICATION TSpec
CHECK_DEADLOCK FALSE
