\* C06 index configuration: archives of 0..3 members, names {1,2} (duplicates), sizes 0/1/2
\* (even, odd, empty); only the index walk; IndexExact checked and the INDEX cases emitted
CONSTANTS
  Bytes = {120}
  Names = {1, 2}
  MaxMembers = 3
  MaxData = 2
  RdSizes = {}
  RlSizes = {}
  SeekMax = 3
  Ops = FALSE
  Hints = {}
  IterSingleLine = FALSE
  Emit = TRUE
  Modes = {"shared", "byname"}
  ClampReadline = TRUE
  PadOdd = TRUE
  SeekFirst = TRUE
  IterYieldsAll = TRUE
SPECIFICATION Spec
INVARIANT TypeOK
INVARIANT IndexExact
INVARIANT Refines
VIEW ImplView
CHECK_DEADLOCK FALSE
