\* C06 index configuration: archives of 0..3 members, names {1,2} (duplicates), sizes 0/1/2
\* (even, odd, empty); only the index walk; IndexExact checked and the INDEX cases emitted,
\* once per opening form (IOPEN lines): by name, or through a shared file object with every relation
\* between the stream and the descriptor underneath it (FdKinds); TrustFd = TRUE is the negative control
CONSTANTS
  Bytes = {120}
  Names = {1, 2}
  MaxMembers = 3
  MaxData = 2
  RdSizes = {}
  RlSizes = {}
  SeekMax = 3
  Ops = FALSE
  Hints = {}
  Faults = {}
  IterSingleLine = FALSE
  Emit = TRUE
  Modes = {"shared", "byname"}
  ClampReadline = TRUE
  PadOdd = TRUE
  SeekFirst = TRUE
  IterYieldsAll = TRUE
  FdKinds = {"none", "same", "less", "more"}
  TrustFd = FALSE
  CommitAfterRead = TRUE
  Bases = {0, 1, 2}
  TellOffsets = TRUE
  FreshLists = TRUE
SPECIFICATION Spec
INVARIANT TypeOK
INVARIANT IndexExact
INVARIANT Refines
PROPERTY NamesExact
VIEW ImplView
CHECK_DEADLOCK FALSE
