\* C13 in-place edits (thorough): histories of up to three mutator calls on the parse of the one-atom relation and of
\* the bare name, of up to two on the three-atom relation; the plain formatter; every state prints a CASE line
CONSTANTS
  MaxConj = 0
  MaxAlt = 0
  MaxAtoms = 0
  MaxArch = 0
  MaxGroups = 0
  MaxTerms = 0
  OpIds = {}
  CtxKinds = {}
  RestrictionsFirst = FALSE
  IgnoreNegation = FALSE
  PipeFirst = FALSE
  FormatInKeyOrder = FALSE
  SplitLimit = 0
  LimitedSplits = {}
  KeyOrders <- OneKeyOrder
  Emit = TRUE
  Remember = "no"
  Forgets = {}
  Starts = {"one", "two", "bare"}
  DeepStarts = {"one", "bare"}
  MaxEdits = 3
SPECIFICATION ESpec
INVARIANT EditProps
CHECK_DEADLOCK FALSE
