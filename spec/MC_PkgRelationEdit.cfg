\* C13 in-place edits (thorough): histories of up to two mutator calls on the parse of the one-atom and of the three-atom
\* relation, of up to three on the parse of a bare name (the nested lists come in by key assignment / by inserted
\* atoms and are edited afterwards); the plain formatter; every state prints a CASE line
CONSTANTS
  MaxConj = 0
  MaxAlt = 0
  MaxAtoms = 0
  MaxArch = 0
  MaxGroups = 0
  MaxTerms = 0
  OpIds = {}
  CtxKinds = {}
  RestrictionsFirst = FALSE
  IgnoreNegation = FALSE
  PipeFirst = FALSE
  FormatInKeyOrder = FALSE
  SplitLimit = 0
  LimitedSplits = {}
  KeyOrders <- OneKeyOrder
  Emit = TRUE
  Remember = "no"
  Forgets = {}
  Starts = {"one", "two", "bare"}
  DeepStarts = {"bare"}
  MaxEdits = 3
SPECIFICATION ESpec
INVARIANT EditProps
CHECK_DEADLOCK FALSE
