----------------------------- MODULE EdScript -----------------------------
(***************************************************************************)
(* C18 -- ed-style patch scripts (the a / c / d commands of `diff -e`,    *)
(* as used by APT pdiffs) are applied exactly.                             *)
(*                                                                         *)
(* A buffer is a sequence of line ids.  A command is a record              *)
(*    [k |-> "a"|"c"|"d", n, m, r, t]                                      *)
(* n..m the addressed lines (m = n for `a` and for the one-address form),  *)
(* r = TRUE when the command is written with two addresses ("n,m"), t the  *)
(* text block (line ids; <<>> for d).                                      *)
(*                                                                         *)
(* Three layers:                                                           *)
(*  reference       EdApply / EdRun: what ed does (a: append after line n, *)
(*                  n may be 0; c, d: 1-based inclusive ranges), commands  *)
(*                  applied in script order; Target: the declarative       *)
(*                  meaning of a diff (every hunk applied to the ORIGINAL  *)
(*                  buffer simultaneously).                                *)
(*  text            ScriptLines: the script as a sequence of line tokens   *)
(*                  (command line / text line / "." terminator);           *)
(*                  Corruptions: all scripts with one syntactic corruption.*)
(*  implementation  PStep / PEnd / Parse: the line automaton of            *)
(*                  debian_support.patches_from_ed_script (one branch per  *)
(*                  branch of its loop) yielding (first, last, lines);     *)
(*                  SliceAssign / ImplRun: patch_lines.                    *)
(*                                                                         *)
(* The bounded configuration enumerates every buffer of <= MaxBuf lines    *)
(* over Ids and every generator script of <= MaxCmds commands (addresses   *)
(* valid for the original buffer, strictly decreasing, regions disjoint -- *)
(* what `diff -e` emits; Adjacent = TRUE also admits hunks that touch) and *)
(* checks ImplEqualsEd, TargetReached, StructureConsistent, CorruptRaises   *)
(* in every state.                                                         *)
(*                                                                         *)
(* Spec-level negative controls (each tried, each makes TLC report the     *)
(* named invariant; c18.py re-runs them in every check):                   *)
(*   OffByOne = TRUE            (c converts to first = n, not n - 1)       *)
(*                                          -> ImplEqualsEd violated       *)
(*   AcceptUnterminated = TRUE  (end of input inside a text block yields   *)
(*                               the patch; the code before 11ace49)       *)
(*                                          -> CorruptRaises violated      *)
(*   Ascending = TRUE           (generator emits hunks top-down)           *)
(*                                          -> TargetReached violated      *)
(***************************************************************************)
EXTENDS Integers, Sequences, FiniteSets, TLC, Json

CONSTANTS Ids,                 \* line ids (naturals)
          MaxBuf,              \* longest original buffer
          MaxCmds,             \* longest script
          MinBlock, MaxBlock,  \* lines in a text block (diff -e never emits an empty block)
          Adjacent,            \* TRUE: hunks may touch; FALSE: >= 1 unchanged line between hunks
          Ascending,           \* negative control
          OffByOne,            \* negative control
          AcceptUnterminated,  \* negative control
          Emit                 \* TRUE: print CASE / CORRUPT lines for the harness

VARIABLES old,                 \* the original buffer
          script               \* the commands chosen so far (every prefix is a script)
vars == <<old, script>>

NoNum == -1                    \* "no number here" in a command-line token

----------------------------------------------------------------------------
\* reference semantics (pure; re-used by TraceEdScript)

EdValid(buf, c) == IF c.k = "a" THEN 0 <= c.n /\ c.n <= Len(buf)
                   ELSE 1 <= c.n /\ c.n <= c.m /\ c.m <= Len(buf)

EdApply(buf, c) ==
   CASE c.k = "a" -> SubSeq(buf, 1, c.n) \o c.t \o SubSeq(buf, c.n + 1, Len(buf))
     [] c.k = "c" -> SubSeq(buf, 1, c.n - 1) \o c.t \o SubSeq(buf, c.m + 1, Len(buf))
     [] c.k = "d" -> SubSeq(buf, 1, c.n - 1) \o SubSeq(buf, c.m + 1, Len(buf))

RECURSIVE EdRunFrom(_, _, _)
EdRunFrom(buf, s, i) == IF i > Len(s) THEN buf ELSE EdRunFrom(EdApply(buf, s[i]), s, i + 1)
EdRun(buf, s) == EdRunFrom(buf, s, 1)

RECURSIVE EdRunValidFrom(_, _, _)
EdRunValidFrom(buf, s, i) == i > Len(s) \/ (EdValid(buf, s[i]) /\ EdRunValidFrom(EdApply(buf, s[i]), s, i + 1))
EdRunValid(buf, s) == EdRunValidFrom(buf, s, 1)

\* declarative meaning of a set of hunks over the original buffer
EdCovers(c, i) == c.k \in {"c", "d"} /\ c.n <= i /\ i <= c.m
EdPieceLine(buf, s, i) ==
   IF \E j \in 1..Len(s) : EdCovers(s[j], i)
   THEN LET j == CHOOSE j \in 1..Len(s) : EdCovers(s[j], i)
        IN IF s[j].k = "c" /\ s[j].n = i THEN s[j].t ELSE <<>>
   ELSE <<buf[i]>>
EdPieceAfter(s, i) ==
   IF \E j \in 1..Len(s) : s[j].k = "a" /\ s[j].n = i
   THEN s[CHOOSE j \in 1..Len(s) : s[j].k = "a" /\ s[j].n = i].t
   ELSE <<>>
RECURSIVE EdTargetFrom(_, _, _)
EdTargetFrom(buf, s, i) ==
   IF i > Len(buf) THEN <<>>
   ELSE EdPieceLine(buf, s, i) \o EdPieceAfter(s, i) \o EdTargetFrom(buf, s, i + 1)
Target(buf, s) == EdPieceAfter(s, 0) \o EdTargetFrom(buf, s, 1)

\* Structure of the result: the same script run on a buffer of TAGS instead of line ids -- tag p
\* for the p-th original line, 100 * j + i for the i-th text line of the j-th command.  EdApply
\* never looks at what a line is, so the structure is independent of the content AND of the length
\* of the things the tags stand for: replacing every tag by a run of r >= 1 concrete lines (and
\* every address by the corresponding prefix sum) commutes with EdRun.  The harness uses this for
\* size-stressed concretizations (files of up to 10^5 lines, hunks of 10^3 lines) whose expected
\* result is the expansion of the structure TLC computed here; StructureConsistent ties it to ids.
RECURSIVE TagSeq(_, _, _)
TagSeq(base, n, i) == IF i > n THEN <<>> ELSE <<base + i>> \o TagSeq(base, n, i + 1)
RECURSIVE TagScriptFrom(_, _)
TagScriptFrom(s, j) == IF j > Len(s) THEN <<>>
                       ELSE <<[s[j] EXCEPT !.t = TagSeq(100 * j, Len(s[j].t), 1)]>> \o TagScriptFrom(s, j + 1)
Structure(buf, s) == EdRun(TagSeq(0, Len(buf), 1), TagScriptFrom(s, 1))

----------------------------------------------------------------------------
\* text layer: a script as line tokens

Tok(ty, k, n, m, g, id) == [ty |-> ty, k |-> k, n |-> n, m |-> m, g |-> g, id |-> id]
CmdTok(c)  == Tok("cmd", c.k, c.n, IF c.r THEN c.m ELSE NoNum, FALSE, 0)
TextTok(x) == Tok("text", "-", NoNum, NoNum, FALSE, x)
DotTok     == Tok("dot", "-", NoNum, NoNum, FALSE, 0)

RECURSIVE TextToks(_, _)
TextToks(t, i) == IF i > Len(t) THEN <<>> ELSE <<TextTok(t[i])>> \o TextToks(t, i + 1)
CmdLines(c) == IF c.k = "d" THEN <<CmdTok(c)>> ELSE <<CmdTok(c)>> \o TextToks(c.t, 1) \o <<DotTok>>
RECURSIVE ScriptLinesFrom(_, _)
ScriptLinesFrom(s, i) == IF i > Len(s) THEN <<>> ELSE CmdLines(s[i]) \o ScriptLinesFrom(s, i + 1)
ScriptLines(s) == ScriptLinesFrom(s, 1)

LInsert(s, p, x) == SubSeq(s, 1, p - 1) \o <<x>> \o SubSeq(s, p, Len(s))
LDrop(s, p)      == SubSeq(s, 1, p - 1) \o SubSeq(s, p + 1, Len(s))

\* Scripts that differ from `lines` (a well-formed script) by ONE syntactic corruption, named
\* by <<kind, position>>:
\*   letter        unknown command letter            nonum    first number missing
\*   garbage       something after the letter        arange   `a` written with a range
\*   text          a text line where a command is expected (before a command / at the end)
\*   nocmd         a command line replaced by a text line
\*   dot           a stray terminator where a command is expected
\*   unterminated  the last terminator is missing: the input ends inside a text block
Kinds == {"letter", "nonum", "garbage", "arange", "text", "nocmd", "dot", "unterminated"}
IsCmdAt(lines, p) == IF p <= Len(lines) THEN lines[p].ty = "cmd" ELSE FALSE
Applies(lines, kind, p) ==
   CASE kind \in {"letter", "nonum", "garbage", "nocmd"} -> IsCmdAt(lines, p)
     [] kind = "arange"       -> IF IsCmdAt(lines, p) THEN lines[p].k = "a" ELSE FALSE
     [] kind \in {"text", "dot"} -> p = Len(lines) + 1 \/ IsCmdAt(lines, p)
     [] kind = "unterminated" -> IF p <= Len(lines)
                                 THEN lines[p].ty = "dot" /\ \A z \in (p + 1)..Len(lines) : lines[z].ty # "dot"
                                 ELSE FALSE
Corruptions(lines) == {kp \in Kinds \X (1..(Len(lines) + 1)) : Applies(lines, kp[1], kp[2])}
CorruptAt(lines, kind, p) ==
   LET x == CHOOSE x \in Ids : TRUE IN
   CASE kind = "letter"       -> [lines EXCEPT ![p].k = "x"]
     [] kind = "nonum"        -> [lines EXCEPT ![p].n = NoNum]
     [] kind = "garbage"      -> [lines EXCEPT ![p].g = TRUE]
     [] kind = "arange"       -> [lines EXCEPT ![p].m = lines[p].n + 1]
     [] kind = "text"         -> LInsert(lines, p, TextTok(x))
     [] kind = "nocmd"        -> [lines EXCEPT ![p] = TextTok(x)]
     [] kind = "dot"          -> LInsert(lines, p, DotTok)
     [] kind = "unterminated" -> LDrop(lines, p)

----------------------------------------------------------------------------
\* implementation layer: patches_from_ed_script as a line automaton + patch_lines

PInit == [mode |-> "cmd", out |-> <<>>, first |-> 0, last |-> 0, blk |-> <<>>]
\* _patch_re: ^(\d+)(?:,(\d+))?([acd])$
PMatches(tk) == tk.ty = "cmd" /\ tk.k \in {"a", "c", "d"} /\ tk.n # NoNum /\ ~tk.g
PYield(st)   == [st EXCEPT !.mode = "cmd",
                           !.out = Append(@, [first |-> st.first, last |-> st.last, lines |-> st.blk])]
PErr(st)     == [st EXCEPT !.mode = "err"]

PStep(st, tk) ==
   CASE st.mode = "err" -> st
     [] st.mode = "cmd" ->
          IF ~PMatches(tk) THEN PErr(st)                              \* "invalid patch command"
          ELSE IF tk.k = "d"
               THEN PYield([st EXCEPT !.first = tk.n - 1,
                                      !.last = IF tk.m = NoNum THEN tk.n ELSE tk.m,
                                      !.blk = <<>>])
          ELSE IF tk.k = "a"
               THEN IF tk.m # NoNum THEN PErr(st)                     \* "invalid patch argument"
                    ELSE [st EXCEPT !.mode = "blk", !.first = tk.n, !.last = tk.n, !.blk = <<>>]
          ELSE LET f == IF OffByOne THEN tk.n ELSE tk.n - 1           \* c
               IN [st EXCEPT !.mode = "blk", !.first = f,
                             !.last = IF tk.m = NoNum THEN f + 1 ELSE tk.m, !.blk = <<>>]
     [] st.mode = "blk" ->
          IF tk.ty = "dot" THEN PYield(st)
          ELSE [st EXCEPT !.blk = Append(@, tk)]                      \* whatever the line looks like, it is text

\* the source is exhausted
PEnd(st) == IF st.mode = "blk" THEN (IF AcceptUnterminated THEN PYield(st) ELSE PErr(st)) ELSE st

RECURSIVE PRun(_, _, _)
PRun(st, lines, i) == IF i > Len(lines) THEN PEnd(st) ELSE PRun(PStep(st, lines[i]), lines, i + 1)
Parse(lines) == LET st == PRun(PInit, lines, 1) IN [ok |-> st.mode # "err", patches |-> st.out]

\* lines[first:last] = args   (indices are never negative for the scripts of the domain)
Clamp(i, len) == IF i > len THEN len ELSE i
SliceAssign(buf, first, last, ls) ==
   LET f  == Clamp(first, Len(buf))
       l0 == Clamp(last, Len(buf))
       l  == IF l0 < f THEN f ELSE l0
   IN SubSeq(buf, 1, f) \o ls \o SubSeq(buf, l + 1, Len(buf))

RECURSIVE TokIds(_, _)
TokIds(ts, i) == IF i > Len(ts) THEN <<>> ELSE <<ts[i].id>> \o TokIds(ts, i + 1)
RECURSIVE ImplRunFrom(_, _, _)
ImplRunFrom(buf, ps, i) ==
   IF i > Len(ps) THEN buf
   ELSE ImplRunFrom(SliceAssign(buf, ps[i].first, ps[i].last, TokIds(ps[i].lines, 1)), ps, i + 1)
ImplRun(buf, ps) == ImplRunFrom(buf, ps, 1)

----------------------------------------------------------------------------
\* generator: all buffers x all scripts `diff -e` could emit (and a bit more)

RECURSIVE SeqsOfLen(_, _)
SeqsOfLen(S, k) == IF k = 0 THEN {<<>>} ELSE {Append(s, x) : s \in SeqsOfLen(S, k - 1), x \in S}
SeqsBetween(S, lo, hi) == UNION {SeqsOfLen(S, k) : k \in lo..hi}

Blocks    == SeqsBetween(Ids, MinBlock, MaxBlock)
Spans(L)  == {nm \in (1..L) \X (1..L) : nm[1] <= nm[2]}
Forms(nm) == IF nm[1] < nm[2] THEN {TRUE} ELSE {TRUE, FALSE}       \* "3d" and "3,3d"
CmdsFor(L) ==
        {[k |-> "a", n |-> n, m |-> n, r |-> FALSE, t |-> t] : n \in 0..L, t \in Blocks}
   \cup UNION {{[k |-> "c", n |-> nm[1], m |-> nm[2], r |-> r, t |-> t] : r \in Forms(nm), t \in Blocks} : nm \in Spans(L)}
   \cup UNION {{[k |-> "d", n |-> nm[1], m |-> nm[2], r |-> r, t |-> <<>>] : r \in Forms(nm)} : nm \in Spans(L)}

\* original lines 1..GenLo(c) are neither touched nor shifted by c; GenHi(c) is the last line c refers to
GenLo(c) == IF c.k = "a" THEN c.n ELSE c.n - 1
GenHi(c) == c.m
Below(c, p) == /\ IF Adjacent THEN GenHi(c) <= GenLo(p) ELSE GenHi(c) < GenLo(p)
               /\ ~(c.k = "a" /\ p.k = "a" /\ c.n = p.n)
Follows(c, p) == IF Ascending THEN Below(p, c) ELSE Below(c, p)

Init == old \in SeqsBetween(Ids, 0, MaxBuf) /\ script = <<>>
Next == /\ Len(script) < MaxCmds
        /\ \E c \in CmdsFor(Len(old)) :
              /\ IF script = <<>> THEN TRUE ELSE Follows(c, script[Len(script)])
              /\ script' = Append(script, c)
        /\ UNCHANGED old
Spec == Init /\ [][Next]_vars

----------------------------------------------------------------------------
\* what is checked in every state (= for every buffer and every script of the bound)

TypeOK == /\ \A i \in 1..Len(old) : old[i] \in Ids
          /\ \A j \in 1..Len(script) : script[j].k \in {"a", "c", "d"} /\ EdValid(old, script[j])

\* decreasing addresses: every command is still valid when its turn comes
SequentiallyValid == Ascending \/ EdRunValid(old, script)

\* the conversion to (first, last, lines) + slice assignment is ed
ImplEqualsEd == LET p == Parse(ScriptLines(script))
                IN p.ok /\ Len(p.patches) = Len(script) /\ ImplRun(old, p.patches) = EdRun(old, script)

\* applying a bottom-up script command by command yields the target of the diff
TargetReached == EdRun(old, script) = Target(old, script)

\* the tag structure denotes the result: tag p is old[p], tag 100 * j + i is script[j].t[i]
StructureConsistent ==
   LET st == Structure(old, script)
       nw == EdRun(old, script)
   IN /\ Len(st) = Len(nw)
      /\ \A q \in 1..Len(st) :
            nw[q] = IF st[q] < 100 THEN old[st[q]] ELSE script[st[q] \div 100].t[st[q] % 100]

\* every single corruption is rejected by the parser automaton.  The automaton reads neither the
\* buffer nor the ids of text lines (PStep never looks at tk.id), and a script for a shorter buffer
\* is a script for the longest one: one representative per script shape decides all of them.
FirstId  == CHOOSE x \in Ids : \A y \in Ids : x <= y
Canonical == /\ Len(old) = MaxBuf /\ \A i \in 1..Len(old) : old[i] = FirstId
             /\ \A j \in 1..Len(script) : \A i \in 1..Len(script[j].t) : script[j].t[i] = FirstId

CorruptRaises == Canonical =>
                 LET lines == ScriptLines(script)
                 IN \A kp \in Corruptions(lines) : ~Parse(CorruptAt(lines, kp[1], kp[2])).ok

----------------------------------------------------------------------------
\* emission for the harness (spec -> code)

EncTok(tk) == CASE tk.ty = "cmd"  -> <<tk.k, tk.n, tk.m, tk.g>>
                [] tk.ty = "text" -> <<tk.id>>
                [] tk.ty = "dot"  -> <<>>
RECURSIVE EncToks(_, _)
EncToks(ts, i) == IF i > Len(ts) THEN <<>> ELSE <<EncTok(ts[i])>> \o EncToks(ts, i + 1)

\* one line per state: the buffer, the script as line tokens, and the expected result
EmitCase == Emit => PrintT(<<"CASE", ToJson([old |-> old, lines |-> EncToks(ScriptLines(script), 1),
                                             new |-> EdRun(old, script), tnew |-> Structure(old, script)])>>)
EmitCorrupt == (Emit /\ Canonical) =>
   LET lines == ScriptLines(script) IN
   \A kp \in Corruptions(lines) :
      LET bad == CorruptAt(lines, kp[1], kp[2]) IN
      PrintT(<<"CORRUPT", ToJson([kind |-> kp[1], pos |-> kp[2], lines |-> EncToks(bad, 1),
                                  res |-> IF Parse(bad).ok THEN "ok" ELSE "ValueError"])>>)
=============================================================================
