CONSTANTS
  Classes = {"E", "W", "H", "C", "F1ba", "X"}
  MaxLines = 6
  NarrowClasses = {}
  NarrowMaxLines = 0
  Emit = "none"
  MergeUnterminatedWs = FALSE
  DropFloatingComment = FALSE
SPECIFICATION Spec
INVARIANT TypeOK
INVARIANT OneBranch
INVARIANT CtlConsistent
INVARIANT InDomain
INVARIANT Lossless
INVARIANT TokenShape
INVARIANT TokenLocal
INVARIANT PartsLossless
INVARIANT ParaShape
INVARIANT EmitCase
CHECK_DEADLOCK FALSE
