--------------------------- MODULE WatchFileExpand ---------------------------
(***************************************************************************)
(* X02 (extra) -- debian.watch.expand(text, package): the substitutions of *)
(* uscan(1).                                                               *)
(*                                                                         *)
(* STATEMENT.  expand replaces every occurrence of @PACKAGE@ by the        *)
(* package name and of @ANY_VERSION@, @ARCHIVE_EXT@, @SIGNATURE_EXT@,      *)
(* @DEB_EXT@ by the regular expression documented in uscan(1), and leaves  *)
(* every other character -- lone '@', the bare names, look-alikes in other *)
(* case, unknown @NAMES@ -- where it is.  Domain: placeholders do not      *)
(* overlap (no two share an '@'), the package name contains no '@'.        *)
(*                                                                         *)
(* A text is a sequence of symbols: XW an opaque word (no '@'), XAT a lone *)
(* '@', XLK the bare name of a placeholder ('PACKAGE'), XLC a look-alike   *)
(* ('@package@', '@VERSION@'), XPH + k the k-th placeholder, XVAL + k its  *)
(* replacement.  XExpand is the statement (a symbol-wise map, hence        *)
(* independent of lengths and counts: the harness expands every symbol to  *)
(* runs for the size stress); XImpl is the code: one replace-all pass per  *)
(* key in the order of its table (@PACKAGE@ last).                         *)
(* Negative control (tried, re-run in every check): ExpandOnce = TRUE (a   *)
(* pass replaces the first occurrence only) -> ImplIsExpand violated.      *)
(***************************************************************************)
EXTENDS Integers, Sequences, TLC, Json

CONSTANTS XMaxLen, ExpandOnce, XEmit
VARIABLES xt
XW == 1   XAT == 300   XLK == 301   XLC == 302   XPH == 310   XVAL == 320
XKeys == 1..5              \* ANY_VERSION, ARCHIVE_EXT, SIGNATURE_EXT, DEB_EXT, PACKAGE: the order of the code's passes
IsPh(x) == x \in {XPH + k : k \in XKeys}

XExpand(t) == [i \in 1..Len(t) |-> IF IsPh(t[i]) THEN t[i] + 10 ELSE t[i]]

RECURSIVE XPass(_, _, _)   \* text.replace(key k, value k): every occurrence, or the first one only
XPass(t, k, done) == IF t = <<>> THEN <<>>
                     ELSE IF t[1] = XPH + k /\ ~done THEN <<XVAL + k>> \o XPass(Tail(t), k, ExpandOnce)
                     ELSE <<t[1]>> \o XPass(Tail(t), k, done)
RECURSIVE XPasses(_, _)
XPasses(t, k) == IF k > 5 THEN t ELSE XPasses(XPass(t, k, FALSE), k + 1)
XImpl(t) == XPasses(t, 1)

\* the bare name of a placeholder between something that ends in '@' and something that starts with '@' would be
\* a placeholder itself / make two of them share an '@'
HasAt(x) == x = XAT \/ IsPh(x) \/ x = XLC
XDomain(t) == \A i \in 2..(Len(t) - 1) : t[i] = XLK => ~(HasAt(t[i - 1]) /\ HasAt(t[i + 1]))

XAlphabet == {XW, XAT, XLK, XLC} \cup {XPH + k : k \in XKeys}
XInit == xt = <<>>
XNext == /\ Len(xt) < XMaxLen
         /\ \E x \in XAlphabet : xt' = Append(xt, x)
XSpec == XInit /\ [][XNext]_xt

ImplIsExpand == XDomain(xt) => XImpl(xt) = XExpand(xt)
NoneLeft     == \A i \in 1..Len(xt) : ~IsPh(XExpand(xt)[i])
Idempotent   == XExpand(XExpand(xt)) = XExpand(xt)
OthersKept   == \A i \in 1..Len(xt) : ~IsPh(xt[i]) => XExpand(xt)[i] = xt[i]
XEmitCase    == (XEmit /\ XDomain(xt)) => PrintT(<<"XCASE", ToJson([t |-> xt, out |-> XExpand(xt)])>>)
=============================================================================
