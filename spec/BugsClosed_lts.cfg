CONSTANTS
  BMode = "lts"
  Anchors = {}
  Pieces = {}
  MaxTail = 0
  BEmit = TRUE
  BBug = "none"
SPECIFICATION BSpec
INVARIANT BTypeOK
VIEW BView
