\* C08 spec-level negative controls: c08.py switches ONE of the four constants to TRUE
\* and requires TLC to report Sound violated (values of length <= 5)
CONSTANTS
  Alphabet = {120, 58, 35, 32, 9, 13, 10}
  MaxLen = 5
  LemmaLen = 0
  GpgLen = 3
  StrictDroppedInGpgClasses = FALSE
  PosStrictMissedByPrepass = FALSE
  ZoneWhatIf = FALSE
  Emit = FALSE
  NoIndentRule = FALSE
  AllowEndLF = FALSE
  ValidateLFOnly = FALSE
  ReaderNoWsRule = FALSE
SPECIFICATION BndSpec
INVARIANT Sound
CHECK_DEADLOCK FALSE
