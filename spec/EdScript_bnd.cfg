CONSTANTS
  Ids = {1, 2}
  MaxBuf = 4
  MaxCmds = 3
  MinBlock = 1
  MaxBlock = 2
  Adjacent = TRUE
  Ascending = FALSE
  OffByOne = FALSE
  AcceptUnterminated = FALSE
  Emit = FALSE
SPECIFICATION Spec
INVARIANT TypeOK
INVARIANT SequentiallyValid
INVARIANT ImplEqualsEd
INVARIANT TargetReached
INVARIANT CorruptRaises
CHECK_DEADLOCK FALSE
