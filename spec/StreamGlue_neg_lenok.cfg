CONSTANTS
  MaxStream = 2
  MaxContent = 2
  Emit = FALSE
  Bug = "lenok"
SPECIFICATION Spec
INVARIANT LenRefines
INVARIANT CombRefines
INVARIANT HandedStable
PROPERTY OutcomeOK
PROPERTY Finished
VIEW View
