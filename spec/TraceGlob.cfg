CONSTANTS
  Sigma = {}
  NSigma = {}
  MaxParas = 0
  MaxPats = 0
  MaxPatLen = 0
  MaxSyms = 0
  MaxNameLen = 0
  Discipline = "full"
  DotAll = TRUE
  FindFirst = FALSE
  AffixFrom = 0
  Emit = "none"
  BlockLen = 0
SPECIFICATION TSpec
INVARIANT TImplAgrees
CHECK_DEADLOCK FALSE
