-------------------------- MODULE PkgRelationMemo --------------------------
(***************************************************************************)
(* C13 -- the round trip as a HISTORY: process-wide state must not         *)
(* influence Parse.                                                        *)
(*                                                                         *)
(* The property quantifies over every structure whatever was parsed, or    *)
(* edited by the caller, before.  This module puts a memo layer between    *)
(* the caller and the reference parser of PkgRelation (parse_rel is the    *)
(* unit: parse_relations maps it over the pieces the comma / pipe          *)
(* splitters deliver, so two fields that share an alternative share the    *)
(* memo entry) and gives Python's object identity a minimal model:         *)
(*                                                                         *)
(*   heap   cell id -> value of a nested list (the `arch` list, the        *)
(*          `restrictions` list of lists) -- lists are mutable objects     *)
(*   an OBJECT (a parsed dict) is [name, q, v, a, r] with name/q/v by      *)
(*          value (strings and tuples are immutable) and a, r cell ids     *)
(*          (0 = None)                                                     *)
(*   memo   text index -> [some, obj]: what the layer remembers            *)
(*   held   the objects the caller got back and may edit                   *)
(*   ret    [text, val]: the latest call and a SNAPSHOT (by value) of what *)
(*          it returned, taken when it returned                            *)
(*                                                                         *)
(* Actions: ParseCall(t) (miss: reference parse into fresh cells, store;   *)
(* hit: hand out a copy of the stored dict), CallerMutates(i, f) (in-place *)
(* edit of a nested list of a held result: append a bogus entry / reverse  *)
(* and extend the formula), CallerReplaces(i) (the caller assigns a        *)
(* top-level key of its dict).  SharedNested = FALSE: the layer copies     *)
(* deeply (stored and returned dicts own their lists) -- equivalent to no  *)
(* memo at all; SharedNested = TRUE: dict(d) copies, the nested lists are  *)
(* shared between the memo and every result (the seeded change             *)
(* C13-seedB).  DeepStore = TRUE (with SharedNested): the entry is stored  *)
(* as a deep copy, so the FIRST result is independent, but every hit       *)
(* shares with the memo -- the edit that poisons it is made to a later     *)
(* result (a history of three parses).                                     *)
(*                                                                         *)
(* Invariants:                                                             *)
(*   MemoTransparent  every Parse result equals the reference Parse of its *)
(*                    text (ParseAtom of PkgRelation), whatever happened   *)
(*                    before                                               *)
(*   MemoSound        what is remembered is the reference parse            *)
(* Negative control (tried; c13.py re-runs it in every check):             *)
(*   SharedNested = TRUE -> MemoTransparent violated (parse, caller        *)
(*   appends to the returned arch list, parse the same text again);        *)
(*   SharedNested = DeepStore = TRUE -> MemoTransparent violated (parse,   *)
(*   parse, caller edits the second result, parse).                        *)
(* Binding: c13.py replays exactly this history shape on the real class    *)
(* after every round trip (edit the returned structure in place, parse the *)
(* same string again, parse another string that shares an alternative) and *)
(* TracePkgRelation validates the later results against the memo-free      *)
(* Parse.                                                                  *)
(***************************************************************************)
EXTENDS PkgRelation

CONSTANTS SharedNested,          \* TRUE: results share nested lists with the memo
          DeepStore,             \* TRUE: ... but only the results of hits do
          MaxCalls, MaxEdits     \* history bounds

VARIABLES heap, memo, held, ret, ncalls, nedits
mvars == <<vars, heap, memo, held, ret, ncalls, nedits>>

\* the alternatives callers parse: one with every optional part, one bare name
MemoAtoms == <<CtxAtom("full"), CtxAtom("bare")>>
Texts     == [i \in 1..Len(MemoAtoms) |-> FmtAtom(MemoAtoms[i])]
Reference(t) == ParseAtom(Texts[t]).atom                 \* memo-free

NoObj == [name |-> 0, q |-> 0, v |-> NoVer, a |-> 0, r |-> 0]
Deref(h, o) == Atom(o.name, o.q, o.v,
                    IF o.a = 0 THEN NoneList ELSE SomeList(h[o.a]),
                    IF o.r = 0 THEN NoneList ELSE SomeList(h[o.r]))

\* allocate the nested lists of value `at` in fresh cells (ids Len(h) + 1, ...)
Alloc(h, at) ==
   LET na  == IF at.a.some THEN Len(h) + 1 ELSE 0
       h1  == IF at.a.some THEN Append(h, at.a.l) ELSE h
       nr  == IF at.r.some THEN Len(h1) + 1 ELSE 0
       h2  == IF at.r.some THEN Append(h1, at.r.l) ELSE h1
   IN [heap |-> h2, obj |-> [name |-> at.name, q |-> at.q, v |-> at.v, a |-> na, r |-> nr]]
\* dict(d): same cells;  deep copy: fresh cells with the current content
Copy(h, o) == IF SharedNested THEN [heap |-> h, obj |-> o] ELSE Alloc(h, Deref(h, o))

MInit == /\ rel = <<>> /\ ctx = "memo" /\ kord = CanonOrder
         /\ heap = <<>>
         /\ memo = [t \in 1..Len(Texts) |-> [some |-> FALSE, obj |-> NoObj]]
         /\ held = <<>>
         /\ ret = [text |-> 0, val |-> RawAtom]
         /\ ncalls = 0 /\ nedits = 0

ParseCall(t) ==
   /\ ncalls < MaxCalls
   /\ IF memo[t].some
      THEN LET c == Copy(heap, memo[t].obj) IN                  \* hit
           /\ heap' = c.heap
           /\ held' = Append(held, c.obj)
           /\ ret'  = [text |-> t, val |-> Deref(c.heap, c.obj)]
           /\ UNCHANGED memo
      ELSE LET d == Alloc(heap, Reference(t))                   \* miss: d is what the caller gets
               s == IF DeepStore THEN Alloc(d.heap, Deref(d.heap, d.obj))    \* what is stored
                    ELSE Copy(d.heap, d.obj)
           IN /\ heap' = s.heap
              /\ memo' = [memo EXCEPT ![t] = [some |-> TRUE, obj |-> s.obj]]
              /\ held' = Append(held, d.obj)
              /\ ret'  = [text |-> t, val |-> Deref(s.heap, d.obj)]
   /\ ncalls' = ncalls + 1
   /\ UNCHANGED <<vars, nedits>>

Bogus == [e |-> TRUE, id |-> Bad]
CallerMutates(i, f) ==
   /\ nedits < MaxEdits
   /\ IF f = "a"
      THEN /\ held[i].a # 0
           /\ heap' = [heap EXCEPT ![held[i].a] = Append(@, Bogus)]           \* arch.append(..)
      ELSE /\ held[i].r # 0
           /\ heap' = [heap EXCEPT ![held[i].r] =                             \* group.reverse(); formula.append([..])
                         Append([g \in 1..Len(@) |-> [k \in 1..Len(@[g]) |-> @[g][Len(@[g]) + 1 - k]]], <<Bogus>>)]
   /\ nedits' = nedits + 1
   /\ UNCHANGED <<vars, memo, held, ret, ncalls>>

CallerReplaces(i) ==                                             \* d['archqual'] = ..; d['arch'] = None
   /\ nedits < MaxEdits
   /\ held' = [held EXCEPT ![i] = [@ EXCEPT !.q = Bad, !.a = 0]]
   /\ nedits' = nedits + 1
   /\ UNCHANGED <<vars, heap, memo, ret, ncalls>>

MNext == \/ \E t \in 1..Len(Texts) : ParseCall(t)
         \/ \E i \in 1..Len(held) : \E f \in {"a", "r"} : CallerMutates(i, f)
         \/ \E i \in 1..Len(held) : CallerReplaces(i)
MSpec == MInit /\ [][MNext]_mvars

MemoTransparent == ret.text # 0 => ret.val = Reference(ret.text)
MemoSound == \A t \in 1..Len(Texts) : memo[t].some => Deref(heap, memo[t].obj) = Reference(t)
\* the reference parser gives the alternatives back (Inverse of PkgRelation, restated for these texts)
ASSUME ReferenceIsInverse == \A t \in 1..Len(Texts) : Reference(t) = MemoAtoms[t]
=============================================================================
