CONSTANTS
  MaxLine = 5
  AsBuilt = FALSE
  Emit = TRUE
SPECIFICATION CnSpec
