CONSTANTS
  PK = {"p1", "p2", "p3"}
  TG = {"u::a", "u::b", "v::a"}
  FTC <- MCFTC
  Extra = "zz"
  Mults = {1, 5, 7, 257}
  Family = "table"
  LinePks <- MCLinePks
  LineTgs <- MCLineTgs
  MaxLines = 0
  Drops <- MCDrops
  WithDer = TRUE
SPECIFICATION Spec
INVARIANT LawsOnCases
CHECK_DEADLOCK FALSE
