---------------------------- MODULE MC_ReproView ----------------------------
(* X10: start documents and offered texts for the closed configurations of ReproView *)
EXTENDS ReproView
Q(k, i) == <<k, i>>
FI(n, s, c, v) == [n |-> n, s |-> s, c |-> c, v |-> v]
Cm(i) == <<Q("C", i)>>
\* stored values
V1 == <<L1, Q("F", 1), N>>                                                      \* ' one'
V2 == <<Q("L", 2), Q("F", 2), Q("T", 2), N, Q("V", 1), N, Q("C", 7), N, Q("V", 2), N>>  \* odd blanks, inner comment
V3 == <<Q("F", 3), N>>                                                           \* no blank after the colon
V4 == <<L1, Q("F", 4), N, Q("V", 3), N>>
V5 == <<N, Q("V", 4), N>>                                                        \* value starts on the next line
V6 == <<L1, Q("F", 6), N, Q("V", 5)>>                                            \* last field of a file without final newline
V7 == <<L1, Q("F", 7)>>
Frozen(fs) == [t |-> "p", dup |-> FALSE, fs |-> fs, id |-> 1]
Ctx1 == Frozen(<<FI(1, "U", <<>>, <<L1, Q("F", 8), N>>), FI(3, "L", Cm(8), <<Q("L", 3), Q("F", 9), N, Q("C", 9), N, Q("V", 6), N>>)>>)
Ctx2 == Frozen(<<FI(2, "U", Cm(6), <<L1, Q("F", 5), N>>)>>)
\* unique fields, between context paragraphs and free comments
DocN == <<MkSep(1), Ctx1, MkSep(2),
          MkPara(FALSE, <<FI(1, "U", Cm(1), V1), FI(2, "L", <<>>, V2), FI(3, "U", Cm(3), V3)>>), MkSep(3), Ctx2>>
\* duplicated fields (both occurrences of 1 carry a comment)
DocD == <<Ctx2, MkSep(1),
          MkPara(TRUE, <<FI(1, "L", Cm(1), V4), FI(2, "U", <<>>, V5), FI(1, "U", Cm(3), V2)>>)>>
\* the edited paragraph ends the file, without final newline
DocE == <<Ctx2, MkSep(1), MkPara(FALSE, <<FI(1, "U", <<>>, V1), FI(2, "U", Cm(2), V6)>>)>>
DocE1 == <<MkPara(TRUE, <<FI(1, "U", Cm(1), V1), FI(1, "L", <<>>, V7)>>)>>
\* small ones for the histories
DocS == <<Ctx2, MkSep(1), MkPara(FALSE, <<FI(1, "U", Cm(1), V1), FI(2, "L", <<>>, V4)>>)>>
DocT == <<MkPara(TRUE, <<FI(1, "U", Cm(1), V1), FI(2, "U", <<>>, V3), FI(1, "L", Cm(3), V4)>>), MkSep(1), Ctx2>>
StartN == {DocN}
StartD == {DocD}
StartE == {DocE, DocE1}
StartS == {DocS}
StartT == {DocT}
StartAll == {DocN, DocD, DocE, DocE1}

\* texts handed to view[key] = x
X1  == <<Q("F", 11)>>                                               \* 'new'
X2  == <<Q("L", 2), Q("F", 11), Q("T", 3)>>                         \* '\tnew  '
X3  == <<Q("F", 12), N>>                                            \* 'new\n'
X4  == <<Q("L", 3), Q("F", 12), Q("T", 2), N>>
X5  == <<Q("F", 13), N, Q("V", 11)>>                                \* two lines, no final newline
X6  == <<Q("L", 2), Q("F", 13), N, Q("C", 11), N, Q("V", 12), N>>   \* inner comment
X7  == <<Q("F", 14), N, Q("V", 11), N, Q("C", 11), N>>              \* ends in a comment line
X8  == <<Q("F", 14), N, Q("V", 11), N, Q("C", 11)>>
X9  == <<Q("F", 15), N, Q("B", 1)>>                                 \* trailing blank-only line
X10 == <<L1, Q("F", 15), N, Q("V", 12), N, Q("B", 2), N>>
X11 == <<Q("F", 15), N, Q("B", 1), N, Q("V", 11), N>>               \* blank-only line in the middle
X12 == <<N, Q("V", 12), N>>                                         \* empty first line
X13 == <<>>
X14 == <<Q("L", 2)>>                                                \* blanks only
X15 == <<N>>
XAll   == {X1, X2, X3, X4, X5, X6, X7, X8, X9, X10, X11, X12, X13, X14, X15}
XSmall == {X2, X5, X6, X9}
XTiny  == {X1, X6}
\* raw texts
R1 == <<L1, Q("F", 11), N>>
R2 == <<Q("F", 12), Q("T", 2), N, Q("C", 11), N, Q("V", 11), N>>
R3 == <<L1, Q("F", 13)>>                                            \* no newline
R4 == <<L1, Q("F", 14), N, Q("C", 11), N>>                          \* ends in a comment
R5 == <<L1, Q("F", 15), N, Q("B", 1), N>>                           \* trailing blank-only line
R6 == <<Q("L", 2), N, Q("V", 12), N>>
RawAll == {R1, R2, R3, R4, R5, R6}
RawSmall == {R2, R5}
S1 == <<Q("F", 11)>>
S2 == <<Q("L", 3), Q("F", 12), Q("T", 2)>>
S3 == <<Q("F", 12), N>>
SimpleAll == {S1, S2, S3}
CL0 == <<>>
CL1 == <<Q("x", 21), Q("h", 22), Q("s", 23), Q("p", 24), Q("e", 0)>>
CL2 == <<Q("p", 24)>>
CL3 == <<Q("x", 21), Q("bad", 25)>>
CLAll == {CL0, CL1, CL2, CL3}
ModesAll == {"default", "keep", "drop", "list", "conflict"}
ModesSmall == {"default", "drop", "list"}
CLSmall == {CL0, CL2}
W16 == {0, 1, 2 + 16, 3 + 16, 4 + 16, 5 + 16, 6, 7, 8 + 16, 9, 10, 11 + 16, 12, 13 + 16, 14 + 16, 15, 31}   \* every ws/ar/pc/nl combination, dc mixed
W4  == {0, 31, 6 + 16, 9}
XQa == {X2, X4, X5, X6, X8, X9, X11, X12}
XQb == {X1, X3, X5, X6, X7, X10, X13, X14, X15}
RawD == {R2, R5, R3}
RawE == {R1, R5}
RawH == {R2}
SimpleA == {S1}
SimpleB == {S2}
ModesD == {"default", "keep", "list"}
ModesE == {"default", "drop"}
ModesH == {"default", "list"}
BugBlank == [blank |-> TRUE, cont |-> FALSE]
BugCont == [blank |-> FALSE, cont |-> TRUE]
=============================================================================
