CONSTANTS
  HashOnString = FALSE
  TildeOrderZero = FALSE
SPECIFICATION TSpec
INVARIANT TDesign
CHECK_DEADLOCK FALSE
