CONSTANTS
  WsSeparates = TRUE
  NoText = 0
  TrimFirst = TRUE
  CommentEndsValue = FALSE
  LeadingBlankSkipped = TRUE
  ArmorHeadersSkipped = TRUE
  GpgMvLeadOK = TRUE
  Keys = {}
  MaxPara = 0
  MaxFields = 0
  MaxCont = 0
  MaxTotal = 0
  ShapeMode = 0
  ArmorHdrs = {}
  SigBools = {TRUE, FALSE}
  BigSel = {}
  ArmorMaxFields = 3
  Emit = TRUE
  EKeys = {1, 2, 3}
  UseMemo = FALSE
  MemoClearedBy = {}
  RefusedLeaksKey = FALSE
SPECIFICATION ESpec
INVARIANT RendersCurrent
INVARIANT NamesUnique
CHECK_DEADLOCK FALSE
