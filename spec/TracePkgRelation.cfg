CONSTANTS
  MaxConj = 0
  MaxAlt = 0
  MaxAtoms = 6
  MaxArch = 0
  MaxGroups = 0
  MaxTerms = 0
  OpIds = {}
  CtxKinds = {}
  Emit = FALSE
  RestrictionsFirst = FALSE
  IgnoreNegation = FALSE
  PipeFirst = FALSE
  FormatInKeyOrder = FALSE
  SplitLimit = 0
  LimitedSplits = {}
  KeyOrders <- OneKeyOrder
SPECIFICATION TSpec
CHECK_DEADLOCK FALSE
