CONSTANTS
  Vers = {3, 4}
  MaxItems = 2
  ItemMode = "tiny"
  LayoutMode = 0
  GapMode = 1
  VFormMode = 0
  StripIndentV3 = FALSE
  LeakBlank = FALSE
  NeverQuote = FALSE
  PPKnown = TRUE
  CommentEndsCont = FALSE
  Emit = TRUE
SPECIFICATION Spec
INVARIANT TypeOK
INVARIANT ParseOK
INVARIANT RoundTrip
INVARIANT NoVersion
INVARIANT InnerSkipped
INVARIANT BadOK
INVARIANT EmitCase
INVARIANT EmitBad
CHECK_DEADLOCK FALSE
