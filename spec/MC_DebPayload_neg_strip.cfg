\* C07 payload layer, negative control: Md5StripsLine = TRUE
SPECIFICATION Spec
CONSTANTS
  Alphabet = {"x", "b", "v", "s", "u", "n", "r"}
  CoreAlphabet = {"x", "b", "s", "u", "n"}
  ShortLen = 4
  MaxLen = 4
  CtlSplitsLikeStr = FALSE
  Md5StripsLine = TRUE
  Md5TextSplitsLikeStr = FALSE
  EmitShapes = FALSE
INVARIANTS Md5Exact
CHECK_DEADLOCK FALSE
