---------------------------- MODULE ChangelogDate ----------------------------
(***************************************************************************)
(* X08 (b) -- debian.changelog.format_date(timestamp=None, localtime=True) *)
(* "format a datestamp in the required format for the changelog ...        *)
(* (i.e. RFC822)".                                                         *)
(*                                                                         *)
(* STATEMENT.  For every timestamp t (seconds since the epoch; integer or  *)
(* float, its fraction is dropped towards minus infinity) of the years     *)
(* 1000..9999 and every fixed offset o of the process time zone (whole     *)
(* minutes, -14h..+14h) format_date(t, localtime) is                       *)
(*      Www, DD Mon YYYY HH:MM:SS SZZZZ                                    *)
(* (RFC 2822 date-time, English names, two-digit day) where, with          *)
(* localtime false, the fields are the proleptic Gregorian UTC date and     *)
(* time of t and the zone is -0000 (module docstring of debian.changelog), *)
(* and with localtime true (the default) they are those of t + o and the   *)
(* zone is the sign and hhmm of o (+0000 for o = 0).  timestamp None (the  *)
(* default) stands for the current time.  The result depends on nothing    *)
(* but (t, localtime, zone in force at the call).                          *)
(* Unspecified: years outside 1000..9999, zones with daylight-saving rules *)
(* (tzdata; compared with date(1) as a diagnostic only), offsets with      *)
(* seconds, non-finite timestamps.                                         *)
(*                                                                         *)
(* The calendar is specified twice.  Declaratively: FdNext is "tomorrow"   *)
(* (month lengths, leap years: every 4th year, except centuries not        *)
(* divisible by 400) and FdPrev "yesterday", starting from THE definition  *)
(* of the epoch, day 0 = Thursday 1 January 1970.  Arithmetically:         *)
(* FdCivil(z) (days -> date, era / year-of-era arithmetic) and FdWeekday.  *)
(* The state machine walks FdSpan months forward and backward from the     *)
(* epoch (a state is the first day of a month; MonthIsDays ties the month  *)
(* steps to tomorrow / yesterday) and checks CivilAgrees, DaysAgrees,      *)
(* WeekdayAgrees and FieldsAgree for every day of the month.  The          *)
(* Gregorian calendar has a period of 146097 days = 4800 months = 20871    *)
(* weeks: PeriodShift checks for every day that FdCivil / FdWeekday /      *)
(* FdLeap commute with the shifts FdShifts (-3..21 periods: the walk of    *)
(* one period in each direction then covers the years 770..10370).         *)
(* Spec-level negative control: FdJulian = TRUE (every 4th year is a leap  *)
(* year) makes TLC report CivilAgrees (at 1 March 1900 / 2100).            *)
(*                                                                         *)
(* FdFields(days, sod, off, lt) is what format_date must print for the     *)
(* timestamp days * 86400 + sod (TLC integers are 32 bit: timestamps are   *)
(* passed as a pair); EmitDates prints a CASE for every element of         *)
(* FdCaseDays x FdCaseSods x FdCaseOffs x {lt}.                            *)
(***************************************************************************)
EXTENDS Integers, Sequences, FiniteSets, TLC, Json

CONSTANTS FdSpan,      \* months walked from the epoch in each direction
          FdJulian,    \* negative control: leap year = every 4th year
          FdEmit,      \* print CASE lines (in the initial state)
          FdCaseDays,  \* day numbers + FdDayBias (a cfg file cannot hold negative numbers)
          FdCaseSods,  \* seconds of the day
          FdCaseOffs   \* zone offsets in minutes + FdOffBias

VARIABLES fz,          \* day number (days since 1970-01-01)
          fdate,       \* <<year, month, 1>> by walking
          fwd,         \* weekday by walking, 0 = Sunday
          fdir,        \* +1 / -1: direction of this walk
          fleft        \* months still to walk
fvars == <<fz, fdate, fwd, fdir, fleft>>

----------------------------------------------------------------------------
\* the calendar, declaratively

FdLeap(y) == IF FdJulian THEN y % 4 = 0 ELSE (y % 4 = 0 /\ y % 100 # 0) \/ y % 400 = 0
FdMonthLen(y, m) == IF m = 2 THEN (IF FdLeap(y) THEN 29 ELSE 28)
                    ELSE IF m \in {4, 6, 9, 11} THEN 30 ELSE 31
FdNext(dt) == LET y == dt[1]  m == dt[2]  d == dt[3] IN
              IF d < FdMonthLen(y, m) THEN <<y, m, d + 1>>
              ELSE IF m < 12 THEN <<y, m + 1, 1>> ELSE <<y + 1, 1, 1>>
FdPrev(dt) == LET y == dt[1]  m == dt[2]  d == dt[3] IN
              IF d > 1 THEN <<y, m, d - 1>>
              ELSE IF m > 1 THEN <<y, m - 1, FdMonthLen(y, m - 1)>> ELSE <<y - 1, 12, 31>>

\* ... and arithmetically (\div and % are floor division and its non-negative remainder)
FdCivil(z) ==
   LET z2  == z + 719468                       \* days since 0000-03-01
       era == z2 \div 146097
       doe == z2 - era * 146097                                            \* [0, 146096]
       yoe == (doe - doe \div 1460 + doe \div 36524 - doe \div 146096) \div 365   \* [0, 399]
       doy == doe - (365 * yoe + yoe \div 4 - yoe \div 100)                \* [0, 365], from 1 March
       mp  == (5 * doy + 2) \div 153                                       \* [0, 11]
       d   == doy - (153 * mp + 2) \div 5 + 1
       m   == IF mp < 10 THEN mp + 3 ELSE mp - 9
       y   == yoe + era * 400 + (IF m <= 2 THEN 1 ELSE 0)
   IN <<y, m, d>>
FdDays(dt) ==      \* the inverse
   LET y   == IF dt[2] <= 2 THEN dt[1] - 1 ELSE dt[1]
       era == y \div 400
       yoe == y - era * 400
       mp  == IF dt[2] > 2 THEN dt[2] - 3 ELSE dt[2] + 9
       doy == (153 * mp + 2) \div 5 + dt[3] - 1
       doe == yoe * 365 + yoe \div 4 - yoe \div 100 + doy
   IN era * 146097 + doe - 719468
FdWeekday(z) == (z + 4) % 7                    \* day 0 is a Thursday

FdDayName == <<"Sun", "Mon", "Tue", "Wed", "Thu", "Fri", "Sat">>
FdMonName == <<"Jan", "Feb", "Mar", "Apr", "May", "Jun", "Jul", "Aug", "Sep", "Oct", "Nov", "Dec">>

\* what format_date prints for the instant (days, sod) under zone offset off (minutes)
FdFields(days, sod, off, lt) ==
   LET o    == IF lt THEN off ELSE 0
       tot  == sod + o * 60
       z    == days + tot \div 86400
       s    == tot % 86400
       dt   == FdCivil(z)
       ao   == IF o < 0 THEN -o ELSE o
   IN [wd |-> FdDayName[FdWeekday(z) + 1], d |-> dt[3], mon |-> FdMonName[dt[2]], y |-> dt[1],
       hh |-> s \div 3600, mm |-> (s % 3600) \div 60, ss |-> s % 60,
       sign |-> IF lt THEN (IF o < 0 THEN "-" ELSE "+") ELSE "-",
       zh |-> ao \div 60, zm |-> ao % 60]
\* the years of the statement
FdInDomain(days, sod, off, lt) ==
   LET y == FdFields(days, sod, off, lt).y IN y >= 1000 /\ y <= 9999

----------------------------------------------------------------------------
\* the walk: FdSpan months forward and FdSpan months backward from the epoch; a state is the FIRST day
\* of a month (tomorrow of the last day of a month is the first of the next: FdNext / FdPrev), the
\* invariants look at every day of that month

FdNextMonth(dt) == IF dt[2] < 12 THEN <<dt[1], dt[2] + 1, 1>> ELSE <<dt[1] + 1, 1, 1>>
FdPrevMonth(dt) == IF dt[2] > 1 THEN <<dt[1], dt[2] - 1, 1>> ELSE <<dt[1] - 1, 12, 1>>
FdLen == FdMonthLen(fdate[1], fdate[2])

FdInit == /\ fz = 0 /\ fdate = <<1970, 1, 1>> /\ fwd = 4          \* THE epoch: Thursday, 1 January 1970
          /\ fdir \in {1, -1}
          /\ fleft = FdSpan
FdStep == /\ fleft > 0
          /\ fleft' = fleft - 1
          /\ fdate' = IF fdir = 1 THEN FdNextMonth(fdate) ELSE FdPrevMonth(fdate)
          /\ LET n == IF fdir = 1 THEN FdLen ELSE FdMonthLen(fdate'[1], fdate'[2])      \* days stepped over
             IN fz' = fz + fdir * n /\ fwd' = (fwd + fdir * n) % 7
          /\ UNCHANGED fdir
FdSpec == FdInit /\ [][FdStep]_fvars

\* the d-th day of the month of this state
FdDayZ(d)  == fz + d - 1
FdDayDt(d) == <<fdate[1], fdate[2], d>>
FdDayWd(d) == (fwd + d - 1) % 7

FdTypeOK == fdate[2] \in 1..12 /\ fdate[3] = 1 /\ fwd \in 0..6 /\ FdLen \in 28..31
\* walking day by day through the month is FdNext (declarative "tomorrow") and ends at the next first
MonthIsDays ==
   /\ \A d \in 1..(FdLen - 1) : FdNext(FdDayDt(d)) = FdDayDt(d + 1) /\ FdPrev(FdDayDt(d + 1)) = FdDayDt(d)
   /\ FdNext(FdDayDt(FdLen)) = FdNextMonth(fdate)
   /\ FdPrev(fdate) = LET p == FdPrevMonth(fdate) IN <<p[1], p[2], FdMonthLen(p[1], p[2])>>
CivilAgrees   == \A d \in 1..FdLen : FdCivil(FdDayZ(d)) = FdDayDt(d)
DaysAgrees    == \A d \in 1..FdLen : FdDays(FdDayDt(d)) = FdDayZ(d)
WeekdayAgrees == \A d \in 1..FdLen : FdWeekday(FdDayZ(d)) = FdDayWd(d)
\* one period of 146097 days = 400 years = 20871 weeks
FdShifts == (-3..-1) \cup {1, 2, 5, 10, 19, 20, 21}
PeriodShift ==      \* (first and last day of the month: FdCivil treats all days of an era alike)
   \A k \in FdShifts : \A d \in {1, FdLen} :
      /\ FdCivil(FdDayZ(d) + k * 146097) = <<fdate[1] + 400 * k, fdate[2], d>>
      /\ FdWeekday(FdDayZ(d) + k * 146097) = FdDayWd(d)
      /\ FdLeap(fdate[1] + 400 * k) = FdLeap(fdate[1])
\* the fields: midnight and the last second of every day, without and with offsets that cross it
FieldsAgree ==
   \A d \in 1..FdLen :
   LET z == FdDayZ(d)  dt == FdDayDt(d)  wd == FdDayWd(d) IN
   /\ LET f == FdFields(z, 0, 0, FALSE)
      IN f.y = dt[1] /\ f.mon = FdMonName[dt[2]] /\ f.d = dt[3] /\ f.wd = FdDayName[wd + 1]
         /\ f.hh = 0 /\ f.mm = 0 /\ f.ss = 0 /\ f.sign = "-" /\ f.zh = 0 /\ f.zm = 0
   /\ LET f == FdFields(z, 86399, 330, FALSE)             \* localtime false ignores the zone
      IN f.d = dt[3] /\ f.hh = 23 /\ f.mm = 59 /\ f.ss = 59 /\ f.sign = "-" /\ f.zh = 0
   /\ LET f == FdFields(z, 84600, 330, TRUE)  n == FdNext(dt)   \* 23:30:00 at +05:30 is 05:00:00 tomorrow
      IN f.y = n[1] /\ f.mon = FdMonName[n[2]] /\ f.d = n[3] /\ f.wd = FdDayName[((wd + 1) % 7) + 1]
         /\ f.hh = 5 /\ f.mm = 0 /\ f.ss = 0 /\ f.sign = "+" /\ f.zh = 5 /\ f.zm = 30
   /\ LET f == FdFields(z, 930, -570, TRUE)  n == FdPrev(dt)    \* 00:15:30 at -09:30 is 14:45:30 yesterday
      IN f.y = n[1] /\ f.mon = FdMonName[n[2]] /\ f.d = n[3] /\ f.wd = FdDayName[((wd + 6) % 7) + 1]
         /\ f.hh = 14 /\ f.mm = 45 /\ f.ss = 30 /\ f.sign = "-" /\ f.zh = 9 /\ f.zm = 30

----------------------------------------------------------------------------
\* emission (spec -> code), once, in the initial state of the forward walk

FdDayBias == 400000
FdOffBias == 1000
EmitDates ==
   (FdEmit /\ fz = 0 /\ fdir = 1) =>
      \A days \in {b - FdDayBias : b \in FdCaseDays} : \A sod \in FdCaseSods :
      \A off \in {b - FdOffBias : b \in FdCaseOffs} : \A lt \in BOOLEAN :
         PrintT(<<"DATE", ToJson([days |-> days, sod |-> sod, off |-> off, lt |-> lt,
                                  dom |-> FdInDomain(days, sod, off, lt),
                                  want |-> FdFields(days, sod, off, lt)])>>)
=============================================================================
