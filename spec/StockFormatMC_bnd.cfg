CONSTANTS
  MaxInp = 4
  NameLens = {1, 2, 9}
  Emit = TRUE
  BadShip = ""
SPECIFICATION SfSpec
INVARIANT InvLayout
INVARIANT InvEmit
CHECK_DEADLOCK FALSE
