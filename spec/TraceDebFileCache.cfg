CONSTANTS
  CacheKeyedByNameOnly = FALSE
  ContentCacheByFile = FALSE
  ResultsAliased = FALSE
  EmitH = FALSE
SPECIFICATION TSpec
INVARIANT CacheCoherent
CHECK_DEADLOCK FALSE
