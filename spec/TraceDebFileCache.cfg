CONSTANTS
  CacheKeyedByNameOnly = FALSE
  ContentCacheByFile = FALSE
  ResultsAliased = FALSE
  GetMemberRewinds = FALSE
  LazyScanDiesOnFault = FALSE
  CloseForgetsPosition = FALSE
  EmitH = FALSE
SPECIFICATION TSpec
INVARIANT CacheCoherent
CHECK_DEADLOCK FALSE
