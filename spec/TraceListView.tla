--------------------------- MODULE TraceListView ---------------------------
(***************************************************************************)
(* C11 -- trace validation: executions recorded from the real list views   *)
(* (harness/props/c11.py) are checked against the reference ListView.     *)
(* A trace is [mode, keep, lay, events] (keep: the views were made with   *)
(* discard_comments_on_read=False, values carry their comment lines):      *)
(*  lay is the token layout of the field    *)
(* the harness generated (long random layouts, up to 8 values); an event   *)
(* is [op, v, w, i, res, obs, doc]: the call, its arguments (values are    *)
(* token sequences, see ListView), "ok"/"ValueError", the value list the   *)
(* code showed afterwards (list(lst) inside the with-block; a fresh parse  *)
(* of dump() for "open"/"close") and doc = the document-level observation  *)
(* (every other field byte-identical, no error element, one paragraph with *)
(* the same field names).  A trace may contain several with-blocks:        *)
(* `saved` is the list the document holds, `vals` the list of the list     *)
(* OBJECT: "open" makes a new object from the document, "reenter" enters   *)
(* the same object again (it keeps its list over close/abort/refusals).    *)
(* e.bad: the text handed in is not a single item -- refused, no effect.   *)
(* vfmtx/vfmtxf install a caller's formatter that raises: leaving may then *)
(* end with "Fault" (the caller's exception), nothing is written.          *)
(*                                                                         *)
(* Not promised by the statement, hence accepted either way (the list must *)
(* stay as it is): remove/replace of an absent value, append_newline after *)
(* a newline/comment; what is written for an EMPTY list (the code normally  *)
(* refuses).  Leaving the with-block may raise ValueError only    *)
(* when the list is empty or ends in a comment line, and then the document *)
(* must still hold the saved list.                                         *)
(***************************************************************************)
EXTENDS ListView, Json, IOUtils, TLCExt

Traces == JsonDeserialize(IOEnv.TRACE_FILE)
Diag   == IOEnv.TRACE_DIAG = "1"

VARIABLES tid, l, saved,
          fmt      \* the formatter installed on the list object: "stock" | "faulty" (a caller-supplied callback that raises)

Tr == Traces[tid]

TInit == /\ tid \in 1..Len(Traces)
         /\ l = 1
         /\ vals = IF Traces[tid].keep THEN SplitKeep(Traces[tid].mode, Traces[tid].lay)      \* discard_comments_on_read=False
                   ELSE Split(Traces[tid].mode, Traces[tid].lay)
         /\ saved = vals
         /\ tail = "none" /\ res = "ok" /\ fmt = "stock"

Either(e) == Same(e.res) /\ e.res \in {"ok", "ValueError"}

\* `vals` is the list of the list OBJECT (kept over close / abort / reenter: the same object may be entered again),
\* `saved` the list the document holds (what a fresh parse shows; "open" makes a new object from it).
TStep == /\ l <= Len(Tr.events)
         /\ LET e == Tr.events[l] IN
            /\ \/ e.op = "open"      /\ vals' = saved /\ tail' = "none" /\ res' = "ok" /\ UNCHANGED saved
               \/ e.op = "reenter"   /\ AReenter /\ UNCHANGED saved
               \* (e.bad: the handed-in text is not a single item of the interpretation -- refused, nothing changes)
               \* (e.hash: the NEW value begins with '#'.  Such values exist in fields -- only a '#' in column 0 of a
               \*  line starts a comment -- but handing one in is refused today: unspecified, the list stays consistent)
               \/ e.op = "append"    /\ (IF e.bad THEN ARefuse(e.res) ELSE (AAppend(e.v) \/ (e.hash /\ Either(e)))) /\ UNCHANGED saved
               \/ e.op = "remove"    /\ (IF LHas(vals, e.v) THEN ARemove(e.v) ELSE Either(e)) /\ UNCHANGED saved
               \/ e.op = "replace"   /\ (IF e.bad THEN ARefuse(e.res)
                                         ELSE IF LHas(vals, e.v) THEN (AReplace(e.v, e.w) \/ (e.hash /\ Either(e))) ELSE Either(e))
                                     /\ UNCHANGED saved
               \/ e.op = "refset"    /\ (IF e.bad THEN e.i \in 1..Len(vals) /\ ARefuse(e.res)
                                         ELSE (ARefSet(e.i, e.w) \/ (e.hash /\ e.i \in 1..Len(vals) /\ Either(e)))) /\ UNCHANGED saved
               \/ e.op = "refremove" /\ ARefRemove(e.i) /\ UNCHANGED saved
               \/ e.op \in {"sep", "sep0"} /\ Tr.mode = "cm" /\ AAppendSep /\ UNCHANGED saved
               \/ e.op = "nl"        /\ (IF tail = "none" THEN AAppendNl ELSE Either(e)) /\ UNCHANGED saved
               \/ e.op = "cmt"       /\ AAppendCmt /\ UNCHANGED saved
               \/ e.op \in {"reformat", "noreformat", "vfmt", "vfmtf", "vfmtx", "vfmtxf"} /\ AReformat /\ UNCHANGED saved
               \/ e.op = "abort"     /\ AAbort /\ UNCHANGED saved                        \* nothing written, the object keeps its edits
               \/ e.op = "close"     /\ CASE e.res = "ok"         -> saved' = vals /\ Same("ok")
                                          [] e.res = "ValueError" -> CloseMayRefuse /\ ARefuse(e.res) /\ UNCHANGED saved
                                          \* the caller's formatter raised: its exception comes out, nothing is written
                                          [] e.res = "Fault"      -> fmt = "faulty" /\ ARefuse(e.res) /\ UNCHANGED saved
                                          [] OTHER                -> FALSE
            /\ fmt' = CASE e.op \in {"open", "vfmt", "vfmtf"} -> "stock"
                        [] e.op \in {"vfmtx", "vfmtxf"}       -> "faulty"
                        [] OTHER                              -> fmt
            /\ res' = e.res              \* the call returned / raised what the reference says
            /\ \/ e.obs = (IF e.op \in {"close", "abort"} THEN saved' ELSE vals')      \* and the code shows the reference list
               \/ e.op = "close" /\ e.res = "ok" /\ vals = <<>>     \* (writing an EMPTY list is unspecified)
            /\ (e.op = "close" /\ vals # <<>>) => e.read = "ok"
            /\ e.doc = "ok"              \* and nothing else in the document moved
         /\ l' = l + 1 /\ UNCHANGED tid
         /\ (Diag => PrintT(<<"AT", tid, l>>))
         /\ (l' = Len(Tr.events) + 1 => PrintT(<<"ACCEPTED", tid>>))

TSpec == TInit /\ [][TStep]_<<avars, tid, l, saved, fmt>>
\* values stay whole words / runs that start and end in a word
\* machinery check: the harness' layout generator produced a layout of the automaton
TLayoutOK == Len(Tr.lay) > 300 \/ WellFormed(Tr.mode, Tr.lay)      \* (quadratic: the big stress layouts are built by rule)
TValuesWellFormed == \A i \in 1..Len(vals) : vals[i] # <<>> /\ IsWord(vals[i][1]) /\ IsWord(vals[i][Len(vals[i])])
=============================================================================
