CONSTANTS
  MtMode = "hist"
  MtDefects = {"writeback"}
  MtEmit = "none"
SPECIFICATION MtSpec
INVARIANT MtTypeOK
INVARIANT EnvUntouched
CHECK_DEADLOCK FALSE
