------------------------------ MODULE ListSort ------------------------------
(***************************************************************************)
(* X04 (extra) -- reference model of three further parts of the list views *)
(* of debian._deb822_repro, on top of the C11 token alphabet (ListView.tla *)
(* is EXTENDed read-only: SP NL CT CTS CM SEP, words >= 1, Split, Valid,   *)
(* CanFollow, the list semantics of append/remove/replace):                *)
(*                                                                         *)
(*  (a) LIST_UPLOADERS_INTERPRETATION (_parse_uploaders_list_value):       *)
(*      "comma only counts as a true separator if it follows '>'".         *)
(*      Words with an EVEN number end in '>' (EndsGt).  Statement: the     *)
(*      uploaders view of a syntactically valid field yields exactly the   *)
(*      pieces of the text cut at every comma whose nearest preceding word *)
(*      ends in '>' (or that has no word before it), comment lines removed,*)
(*      surrounding blanks stripped, empty pieces dropped (ValsOf("up",_)) *)
(*      -- and the same append/remove/replace semantics as the other list  *)
(*      views.  Reading never fails on a valid field.  Domain: when the    *)
(*      LAST piece ends in a comma that is not a separator ("a <x>, b,")   *)
(*      the expected text of that item is unclear (UpDomain): only "does   *)
(*      not fail" is required there.                                       *)
(*                                                                         *)
(*  (b) sort()/sort_elements(key, reverse): an ITEM is a value together    *)
(*      with the comment lines inside it (f) and the comment lines between *)
(*      the previous value and it (c) -- "the comments it is preceded by". *)
(*      Statement: after sort the list is a permutation of the items that  *)
(*      is ordered by the key (descending with reverse); every item keeps  *)
(*      its comment lines (in order); what is written on leaving the       *)
(*      with-block is a syntactically valid field that re-reads as exactly *)
(*      these items, and nothing else in the document moves.  Comment      *)
(*      lines behind the last value are dropped ("where possible").        *)
(*      Which of several items with EQUAL keys comes first is not part of  *)
(*      the statement (the model checked transcription is stable, like     *)
(*      list.sort).  Domain of the default key (text order): two values    *)
(*      that start with the same word are identical (KeyDomain); remove()  *)
(*      may drop or re-attach comment lines (C11 leaves that open), so     *)
(*      after a remove only the values are compared (cknown).              *)
(*                                                                         *)
(*  (c) reformat_when_finished() / one_value_per_line_trailing_separator / *)
(*      format_field: the field is written as Shape(mode, items): first    *)
(*      value after one blank (or, when comment lines precede it, a        *)
(*      newline, the comment lines and an indented line), every further    *)
(*      value on its own line indented by len(name)+2 blanks, its comment  *)
(*      lines directly above it, a trailing separator after EVERY value of *)
(*      a comma list; FmtVerdict is the documented run-time contract of    *)
(*      format_field for arbitrary formatter output.                       *)
(*                                                                         *)
(* Identified comment lines: CM0 - k (k >= 0) besides the anonymous CM of  *)
(* C11, so that "the same comment line" is expressible; Anon() maps a      *)
(* layout back to the C11 alphabet for Split/Valid/CanFollow.              *)
(* All operators are pure up to the dashed line (re-used by                *)
(* ListSortImpl.tla, ListSortFmt.tla and TraceListSort.tla).               *)
(***************************************************************************)
EXTENDS ListView

WS  == -7                       \* a blank that is NOT a separator of the whitespace list (Deb822WhitespaceToken)
CM0 == -10                      \* identified comment lines: CM0 - k
IsCm(t)   == t = CM \/ t <= CM0
IsBl(t)   == IsBlank(t) \/ t = WS
EndsGt(w) == IsWord(w) /\ w % 2 = 0
Anon(lay) == [i \in 1..Len(lay) |-> IF IsCm(lay[i]) THEN CM ELSE IF lay[i] = WS THEN SP ELSE lay[i]]
NoCm(p)   == SelectSeq(p, LAMBDA t : ~IsCm(t))
CmOf(p)   == SelectSeq(p, IsCm)
SMin(S)   == CHOOSE i \in S : \A j \in S : i <= j
SMax(S)   == CHOOSE i \in S : \A j \in S : i >= j
IntLt(a, b) == a < b

\* what a lexer of the written text sees: WS is a blank, CTS a continuation blank, adjacent blank runs are one run
Squeeze(lay) ==
   LET a    == [i \in 1..Len(lay) |-> IF lay[i] = WS THEN SP ELSE IF lay[i] = CTS THEN CT ELSE lay[i]]
       keep == SetToSortSeq({i \in 1..Len(a) : ~(a[i] = SP /\ i > 1 /\ a[i - 1] = SP)}, IntLt)
   IN [k \in 1..Len(keep) |-> a[keep[k]]]

\* ---- (a) which commas separate ----------------------------------------------
PrevWord(lay, i) == LET W == {j \in 1..(i - 1) : IsWord(lay[j])} IN IF W = {} THEN 0 ELSE lay[SMax(W)]
TrueSep(mode, lay, i) == lay[i] = SEP /\ (mode = "up" => (PrevWord(lay, i) = 0 \/ EndsGt(PrevWord(lay, i))))
Cuts(mode, lay) == IF mode = "sp" THEN {i \in 1..Len(lay) : IsBl(lay[i]) \/ IsCm(lay[i])}
                   ELSE {i \in 1..Len(lay) : TrueSep(mode, lay, i)}
\* the reference reader with positions: one span <<first word, last word>> per piece that has a word
Spans(mode, lay) ==
   LET cs    == SetToSortSeq(Cuts(mode, lay), IntLt)
       n     == Len(cs)
       A(k)  == (IF k = 1 THEN 0 ELSE cs[k - 1]) + 1
       B(k)  == (IF k > n THEN Len(lay) + 1 ELSE cs[k]) - 1
       WI(k) == {i \in A(k)..B(k) : IsWord(lay[i])}
       sp    == [k \in 1..(n + 1) |-> IF WI(k) = {} THEN <<>> ELSE <<SMin(WI(k)), SMax(WI(k))>>]
   IN SelectSeq(sp, LAMBDA x : x # <<>>)
\* a line break behind a comment line in the gap lay[a..b] in front of a value: a separator-only line between
\* comment lines ("a comma hidden between comments"); cannot occur in a valid whitespace list
HiddenSep(mode, lay, a, b) ==
   mode # "sp" /\ \E i \in a..b : IsCm(lay[i]) /\ \E j \in (i + 1)..b : lay[j] = NL
ItemsOf(mode, lay) ==
   LET sp == Spans(mode, lay) IN
   [k \in 1..Len(sp) |->
      LET a == (IF k = 1 THEN 0 ELSE sp[k - 1][2]) + 1
          b == sp[k][1] - 1
      IN [v |-> NoCm(SubSeq(lay, sp[k][1], sp[k][2])),      \* the value the list shows
          f |-> SubSeq(lay, sp[k][1], sp[k][2]),            \* ... with the comment lines inside it
          c |-> CmOf(SubSeq(lay, a, b)),                    \* the comment lines in front of it
          h |-> HiddenSep(mode, lay, a, b)]]
ValsOf(mode, lay) == LET it == ItemsOf(mode, lay) IN [k \in 1..Len(it) |-> it[k].v]
AnnOf(mode, lay)  == LET it == ItemsOf(mode, lay) IN [k \in 1..Len(it) |-> [f |-> it[k].f, c |-> it[k].c, h |-> it[k].h]]
\* comment lines (and the line breaks behind them) after the last value: they precede the next appended value
PendOf(mode, lay) ==
   LET sp == Spans(mode, lay)
       a  == (IF sp = <<>> THEN 0 ELSE sp[Len(sp)][2]) + 1
       g  == SelectSeq(SubSeq(lay, a, Len(lay) - 1), LAMBDA t : IsCm(t) \/ t = NL)      \* (the final newline is not kept)
       fc == {i \in 1..Len(g) : IsCm(g[i])}
   IN IF fc = {} THEN <<>> ELSE SubSeq(g, SMin(fc), Len(g))
\* the last piece ends in a comma that is not a separator: the text of that item is unclear
UpDomain(lay) == ~\E i \in 1..Len(lay) : /\ lay[i] = SEP /\ ~TrueSep("up", lay, i)
                                         /\ \A j \in (i + 1)..Len(lay) : ~IsWord(lay[j])

\* ---- (b) keys, order, permutations ---------------------------------------------
\* the key kinds of the harness, on the FIRST word of a value (numbers = text order, see KeyDomain)
KeyOf(kind, v) == LET w == v[1] IN
   CASE kind = "text"  -> w
     [] kind = "par"   -> (w % 2) * 100000 + w          \* even words behind the odd ones (injective)
     [] kind = "half"  -> (w + 1) \div 2                \* ties between DIFFERENT values
     [] kind = "neg"   -> 0 - w
     [] kind = "const" -> 0
Kinds == {"text", "par", "half", "neg", "const"}
Ordered(kind, rev, vs) == \A i \in 1..(Len(vs) - 1) :
   IF rev THEN KeyOf(kind, vs[i]) >= KeyOf(kind, vs[i + 1]) ELSE KeyOf(kind, vs[i]) <= KeyOf(kind, vs[i + 1])
KeyDomain(vs, an) == \A i, j \in 1..Len(vs) : vs[i][1] = vs[j][1] => (vs[i] = vs[j] /\ an[i].f = an[j].f)
Pairs(vs, an) == [i \in 1..Len(vs) |-> <<vs[i], an[i]>>]
SameBag(s, t) ==
   /\ Len(s) = Len(t)
   /\ LET S == {s[i] : i \in 1..Len(s)} IN
      IF Cardinality(S) = Len(s) THEN S = {t[i] : i \in 1..Len(t)}
      ELSE \A x \in S \cup {t[i] : i \in 1..Len(t)} :
              Cardinality({i \in 1..Len(s) : s[i] = x}) = Cardinality({i \in 1..Len(t) : t[i] = x})
\* (nv, na) is an acceptable outcome of sorting (ov, oa); withAnn = FALSE: only the values are known
IsSortedPerm(kind, rev, ov, oa, nv, na, withAnn) ==
   /\ Len(na) = Len(nv)
   /\ IF withAnn THEN SameBag(Pairs(ov, oa), Pairs(nv, na)) ELSE SameBag(ov, nv)
   /\ KeyDomain(ov, oa) => Ordered(kind, rev, nv)
\* the stable sort (list.sort): positions ordered by (key, position)
SortPerm(kind, rev, vs) ==
   SetToSortSeq(1..Len(vs), LAMBDA i, j : LET a == KeyOf(kind, vs[i])
                                              b == KeyOf(kind, vs[j])
                                          IN IF a = b THEN i < j ELSE IF rev THEN a > b ELSE a < b)
Permute(s, p) == [i \in 1..Len(p) |-> s[p[i]]]

\* ---- (c) the documented shape of a reformatted field -----------------------------
Concat(seqs) == FoldLeft(LAMBDA a, b : a \o b, <<>>, seqs)      \* (iterative: lists of 1000 values are validated)
Shape(mode, its) ==
   Concat([i \in 1..Len(its) |->
             (IF its[i].c # <<>> THEN (IF i = 1 THEN <<NL>> ELSE <<>>) \o its[i].c ELSE <<>>)
             \o (IF i = 1 /\ its[i].c = <<>> THEN <<SP>> ELSE <<CT, SP>>)
             \o its[i].f \o (IF mode = "sp" THEN <<>> ELSE <<SEP>>) \o <<NL>>])
\* a written field has the documented shape iff reformatting what it holds gives it back
HasShape(mode, lay) == Squeeze(lay) = Shape(mode, ItemsOf(mode, lay))

\* the run-time contract of format_field for the output of ANY formatter: a stream of
\*   "V" value token   "C" comment token   "S" separator token (",")        -- FormatterContentTokens
\*   "n" "\n"   "b" " "   "nb" "\n "   "x" a str that starts with a visible character and has no newline
\* "reject" = ValueError, "accept" = the concatenation behind "name:", "unspec" = a whitespace-only line
\* (forbidden for the formatter, detection not promised).
FmtSyms == {"V", "C", "S", "n", "b", "nb", "x"}
EndsInNl(y) == y \in {"C", "n"}
FmtVerdict(st) ==
   LET jan(i)  == i > 1 /\ EndsInNl(st[i - 1])                          \* just after a newline
       bad(i)  == \/ st[i] = "C" /\ ~jan(i)                             \* comments directly after a newline
                  \/ st[i] = "V" /\ jan(i)                              \* missing continuation line marker
                  \/ st[i] = "V" /\ i > 1 /\ st[i - 1] = "V"            \* omitted separator
                  \/ jan(i) /\ st[i] \in {"n", "nb"}                    \* completely empty line
                  \/ jan(i) /\ st[i] \in {"S", "x"}                     \* a line that starts in column 0
       lstart(i) == jan(i) \/ (i > 1 /\ st[i - 1] = "nb")               \* token i is the first of a line / behind its first blank
       wsonly  == \E i \in 1..Len(st) : \E j \in i..Len(st) :
                     /\ lstart(i) /\ st[j] \in {"n", "nb"} /\ \A k \in i..(j - 1) : st[k] = "b"
   IN IF \E i \in 1..Len(st) : bad(i) THEN "reject"
      ELSE IF st = <<>> \/ ~EndsInNl(st[Len(st)]) THEN "reject"           \* must end on a newline
      ELSE IF wsonly THEN "unspec"
      ELSE "accept"

-----------------------------------------------------------------------------
\* The abstract state: vals, tail, res of ListView plus
VARIABLES ann,       \* per value: [f |-> value with its inner comment lines, c |-> comment lines in front, h |-> hidden separator]
          pend,      \* comment lines appended behind the last value (they precede the next appended value)
          cknown,    \* FALSE once a remove may have dropped / re-attached comment lines
          reform,    \* reformat_when_finished() was called
          khid       \* a sort put an item with a hidden separator first (open finding: the write-back may fail)
xvars == <<avars, ann, pend, cknown, reform, khid>>

\* pend may hold NL marks (append_newline behind an appended comment line and separator): a line break behind a
\* comment line in front of the next appended value is a hidden separator as well
NewAnn(v)   == [f |-> v, c |-> CmOf(pend),
                h |-> \E i \in 1..Len(pend) : IsCm(pend[i]) /\ \E j \in (i + 1)..Len(pend) : pend[j] = NL]
KeepX       == UNCHANGED <<ann, pend, cknown, reform, khid>>
XAppend(v)      == AAppend(v) /\ ann' = Append(ann, NewAnn(v)) /\ pend' = <<>> /\ UNCHANGED <<cknown, reform, khid>>
\* removing a value may leave the tokens in front of it to the NEXT value (C11: "delete to the right"): its
\* comment lines are then unknown (cknown) and it inherits a hidden separator
AnnDel(an, i)   == LET d == LDel(an, i) IN IF i <= Len(d) THEN [d EXCEPT ![i].h = an[i].h \/ an[i + 1].h] ELSE d
XRemove(v)      == /\ ARemove(v)
                   /\ IF LHas(vals, v)
                      THEN /\ ann' = AnnDel(ann, LFirst(vals, v)) /\ cknown' = FALSE
                           /\ pend' = (IF Len(vals) = 1 THEN <<>> ELSE pend)
                      ELSE UNCHANGED <<ann, pend, cknown>>
                   /\ UNCHANGED <<reform, khid>>
XReplace(v, w)  == /\ AReplace(v, w)
                   /\ ann' = (IF LHas(vals, v) THEN [ann EXCEPT ![LFirst(vals, v)].f = w] ELSE ann)
                   /\ UNCHANGED <<pend, cknown, reform, khid>>
XRefSet(i, w)   == ARefSet(i, w) /\ ann' = [ann EXCEPT ![i].f = w] /\ UNCHANGED <<pend, cknown, reform, khid>>
XRefRemove(i)   == /\ ARefRemove(i) /\ ann' = AnnDel(ann, i) /\ cknown' = FALSE
                   /\ pend' = (IF Len(vals) = 1 THEN <<>> ELSE pend) /\ UNCHANGED <<reform, khid>>
XAppendSep      == AAppendSep /\ KeepX
XAppendNl       == /\ AAppendNl /\ pend' = (IF tail = "none" /\ pend # <<>> THEN Append(pend, NL) ELSE pend)
                   /\ UNCHANGED <<ann, cknown, reform, khid>>
XAppendCmt(id)  == /\ AAppendCmt          \* (append_comment ends the line first when the tail is not a line break)
                   /\ pend' = (IF tail = "none" /\ pend # <<>> THEN pend \o <<NL, id>> ELSE Append(pend, id))
                   /\ UNCHANGED <<ann, cknown, reform, khid>>
XReformat       == AReformat /\ reform' = TRUE /\ UNCHANGED <<ann, pend, cknown, khid>>
\* sort: (nv, na) is chosen by the caller (the stable result in ListSortImpl, the observed one in TraceListSort)
XSortTo(nv, na) == /\ vals' = nv /\ ann' = na /\ tail' = "none" /\ res' = "ok" /\ pend' = <<>>
                   /\ khid' = (khid \/ (na # <<>> /\ na[1].h))
                   /\ UNCHANGED <<cknown, reform>>
XSortStable(kind, rev) == LET p == SortPerm(kind, rev, vals) IN XSortTo(Permute(vals, p), Permute(ann, p))
\* leaving the with-block may refuse as in C11 (empty list / trailing comment line); the open finding
\* X04-sort-hidden-separator adds: after a sort that put an item with a hidden separator first, without reformat
XCloseMayRefuse(known) == CloseMayRefuse \/ (known /\ khid /\ ~reform)
=============================================================================
