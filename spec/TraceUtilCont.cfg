SPECIFICATION TSpec
INVARIANT TWellFormed
CHECK_DEADLOCK FALSE
