---------------------------- MODULE ListSortImpl ----------------------------
(***************************************************************************)
(* X04 (extra) -- token-list layer for ListSort.tla, transcribed from      *)
(* lib/debian/_deb822_repro/parsing.py: _parse_uploaders_list_value (with  *)
(* BufferingIterator.peek_find/peek_many/consume_many),                    *)
(* Deb822ParsedTokenList.sort_elements/sort, reformat_when_finished,       *)
(* _generate_reformatted_field_content, _update_field and the edit calls   *)
(* (append_value/append_separator/append_newline/append_comment/           *)
(* _remove_node/replace, as in C11's ListViewImpl.tla but with identified  *)
(* comment lines and the plain blank WS), and formatter.py                 *)
(* (one_value_per_line_trailing_separator).                                *)
(*                                                                         *)
(* A behaviour: the C11 layout automaton (ListView!CanFollow; the comma    *)
(* automaton for "up", words there come with and without a final '>')      *)
(* grows EVERY well-formed layout within the bounds; Open(pi) renames the  *)
(* words by a permutation (so that every order of the values occurs) and   *)
(* reads the field the way the code does; then up to MaxEdits calls, each  *)
(* the conjunction of the abstract action of ListSort.tla and the update   *)
(* of the token list; leaving the with-block is the state function         *)
(* COut/CRes (the action Close when cases are emitted).                    *)
(*                                                                         *)
(* Checked in every reachable state:                                       *)
(*   LayoutValid  ReaderAgrees (ValsOf = C11's Split for "sp"/"cm")        *)
(*   ReadTotal    reading does not fail          FailExactly (the finding) *)
(*   Refines      values AND comment attachment of the token list = the    *)
(*                abstract items (at Open: code reader = reference reader, *)
(*                for "up": the '>' rule)                                  *)
(*   RoundTrip    TailOK                                                   *)
(*   EditResult   what is written re-reads (reference reader) as the items *)
(*   StillValid   ... and is a valid field    WriteBack / RefuseOnlyWhen   *)
(*   ShapeOK      a reformatted field is Shape(mode, items)                *)
(*   SortedOK     (Assert in Sort1) the stable result is an ordered        *)
(*                permutation of the items (IsSortedPerm)                  *)
(*   KhidTight    the abstract flag of the open finding is exact           *)
(*                                                                         *)
(* Two defects of the code are transcribed and can be switched off:        *)
(*   DefectTrailComma  consume_many(negative count) when the last item of  *)
(*       an uploaders field ends in a non-separating comma: the reader     *)
(*       loses tokens and fails (finding X04-uploaders-trailing-comma)     *)
(*   DefectHiddenSep   sort: the comments of the value that becomes first  *)
(*       only lose their separator tokens; a separator-only line between   *)
(*       two comment lines becomes a blank line and the write-back fails   *)
(*       (finding X04-sort-hidden-separator)                               *)
(* Exempt = TRUE excuses exactly these two.                                *)
(*                                                                         *)
(* Configurations (MC_ListSortImpl*.cfg):                                  *)
(*   _quick         <= 3 words / 6 tokens / 1 comment line x 1 call        *)
(*   (none)         <= 3 words / 8 tokens / 2 comment lines x 1 call,      *)
(*                  every renaming of the words, 7 key/reverse pairs       *)
(*   _two / _deep   2 calls on <= 6 tokens / 3 calls on <= 2 words, 5      *)
(*                  tokens                                                 *)
(*   _hidden        comma + uploaders layouts <= 2 words / 10 tokens / 2   *)
(*                  comment lines (a separator hidden between comments),   *)
(*                  sort/reformat only; _hidden_edits: the same with the   *)
(*                  edit calls x 2 calls (1.7 million states, not run by   *)
(*                  the tiers)                                             *)
(*   _find_trail / _find_hidden   defect on, Exempt off: TLC reports       *)
(*                  ReadTotal / WriteBack -- TLC FINDS both defects        *)
(*   _fixed / _fixed_hidden       defects off, Exempt off: all invariants  *)
(*                  hold for the repaired design                           *)
(* Negative controls (wrong designs): SortDropsComments -> Refines         *)
(* (_neg_drop), SepAlways ("up" splits at every comma) -> Refines          *)
(* (_neg_sep), NoNlBeforeCmt (sort forgets the newline in front of the     *)
(* first comment) -> WriteBack (_neg_nl), FmtNoTrailSep (formatter without *)
(* the trailing separator) -> ShapeOK (_neg_fmt).                          *)
(* The harness generates the emission configurations (Emit = TRUE, a slice *)
(* of the layouts chosen by the seed, MinVals; the invariants are checked  *)
(* there as well, so every emitted prediction satisfied them).             *)
(***************************************************************************)
EXTENDS ListSort, Json

CONSTANTS Modes,            \* subset of {"sp", "cm", "up"}
          MaxW, MaxT, MaxC, \* layout bounds: words, tokens (incl. final NL), comment lines
          Dups,             \* one word of the layout may repeat an earlier one (equal values)
          MaxEdits,         \* calls between Open and leaving the with-block
          Edits,            \* TRUE: also the C11 calls (append/remove/replace/references/separator/newline/comment)
          KindSel,          \* "all" | "some" | "one": which <<key kind, reverse>> pairs sort is called with
          MinVals,          \* only layouts with at least this many values are opened (emission runs; 0 for the design runs)
          AllPerms,         \* TRUE: Open renames the words by every permutation, FALSE: identity and reversal
          Emit, SliceK, SliceR,
          DefectTrailComma, DefectHiddenSep, Exempt,
          SortDropsComments, SepAlways, NoNlBeforeCmt, FmtNoTrailSep

VARIABLES mode, lay, phase, toks, contc, changed, steps, out, cres, hist, ncm
ivars == <<mode, lay, phase, toks, contc, changed, steps, out, cres, hist, ncm>>
vars  == <<xvars, ivars>>

KindsUsed == CASE KindSel = "all"  -> {<<"text", FALSE>>, <<"text", TRUE>>, <<"par", FALSE>>, <<"half", FALSE>>,
                                       <<"half", TRUE>>, <<"neg", FALSE>>, <<"const", TRUE>>}
               [] KindSel = "some" -> {<<"text", FALSE>>, <<"text", TRUE>>, <<"par", FALSE>>, <<"half", TRUE>>}
               [] OTHER            -> {<<"text", FALSE>>}
NEWA == 97           \* a new word without '>'
NEWW == 98           \* a new word (ends in '>': a complete uploader)
ABSENT == 96         \* never in the list
Tl(s) == s[Len(s)]
GMode(m) == IF m = "up" THEN "cm" ELSE m

\* ---- growing a layout (ListView!CanFollow on the anonymised tail) ---------------
An(t)        == IF IsCm(t) THEN CM ELSE t
WordsOf(l)   == SelectSeq(l, IsWord)
NCm(l)       == Len(CmOf(l))
Brk(t)       == t = NL \/ IsCm(t)
LineHasC(l)  == \E i \in 1..Len(l) : (IsWord(l[i]) \/ l[i] = SEP) /\ \A k \in i..Len(l) : ~Brk(l[k])
FirstLine(l) == \A i \in 1..Len(l) : l[i] # NL
P1(l)        == IF l = <<>> THEN 0 ELSE An(l[Len(l)])
P2(l)        == IF Len(l) < 2 THEN 0 ELSE An(l[Len(l) - 1])
Distinct(s)  == \A i, j \in 1..Len(s) : s[i] = s[j] => i = j
\* word k of an uploaders layout is 2k-1 (no '>') or 2k ('>'); elsewhere just k
NextWords(m, l) ==
   LET n == Len(WordsOf(l)) IN
   (IF m = "up" THEN {2 * n + 1, 2 * n + 2} ELSE {n + 1})
   \cup (IF Dups /\ n >= 1 /\ Distinct(WordsOf(l))
         THEN (IF m = "up" THEN LET E == {i \in 1..n : EndsGt(WordsOf(l)[i])} IN
                                IF E = {} THEN {} ELSE {WordsOf(l)[SMin(E)]}
               ELSE {1})
         ELSE {})
Need(l, t)   == CASE t = NL -> 0
                  [] t = CM -> 3
                  [] t = CT -> 2
                  [] t = SP -> IF LineHasC(l) \/ FirstLine(l) THEN 1 ELSE 2
                  [] OTHER  -> 1
Complete(l)  == l # <<>> /\ Tl(l) = NL /\ WordsOf(l) # <<>>
LayHash(l)   == LET F[i \in 0..Len(l)] == IF i = 0 THEN 0 ELSE (F[i - 1] * 7 + l[i] + 40) % 1000003 IN F[Len(l)]
\* renaming the words by a permutation of their numbers (parity = '>' is kept)
WIdx(m, w)   == IF m = "up" THEN (w + 1) \div 2 ELSE w
Rename(m, l, pi) == [i \in 1..Len(l) |->
   IF ~IsWord(l[i]) THEN l[i]
   ELSE IF m = "up" THEN 2 * pi[(l[i] + 1) \div 2] - (l[i] % 2) ELSE pi[l[i]]]
NIdx(m, l)   == LET W == {WIdx(m, WordsOf(l)[i]) : i \in 1..Len(WordsOf(l))} IN SMax(W)
PermsFor(n)  == LET all == {p \in [1..n -> 1..n] : \A a, b \in 1..n : p[a] = p[b] => a = b}
                IN IF AllPerms THEN all ELSE {p \in all : (\A a \in 1..n : p[a] = a) \/ (\A a \in 1..n : p[a] = n + 1 - a)}

\* ---- reading: ListInterpretation._parse_stream ------------------------------------
IsVal(e)   == IsWord(e[1])
RECURSIVE ReadCm(_, _)
ReadCm(l, i) ==      \* _parse_comma_list_value
   IF i > Len(l) THEN <<>>
   ELSE IF IsWord(l[i]) THEN
        LET seps  == {j \in i..Len(l) : l[j] = SEP}
            stop  == IF seps = {} THEN Len(l) + 1 ELSE SMin(seps)
            lastw == SMax({j \in i..(stop - 1) : IsWord(l[j])})
        IN << SubSeq(l, i, lastw) >> \o ReadCm(l, lastw + 1)
   ELSE << <<l[i]>> >> \o ReadCm(l, i + 1)
\* _parse_uploaders_list_value: e = position of value_parts[-1]; result = position of the last token of the
\* element, 0 = the negative consume_many count (tokens are lost, the reader fails)
RECURSIVE UpEnd(_, _)
UpEnd(l, e) ==
   LET S == {c \in (e + 1)..Len(l) : l[c] = SEP} IN
   IF S = {} THEN LET lw == SMax({j \in 1..Len(l) : IsWord(l[j])}) IN      \* trim from the right to the last value token
                  IF lw < e /\ DefectTrailComma THEN 0 ELSE lw
   ELSE LET c == SMin(S)
            W == {j \in e..(c - 1) : IsWord(l[j])}                          \* [value_parts[-1]] + peek_many(offset - 1)
        IN IF W # {} /\ EndsGt(l[SMax(W)]) THEN SMax(W)                      \* the comma terminates the value
           ELSE UpEnd(l, c)                                                  \* the comma is part of the name
RECURSIVE ReadUp(_, _)
ReadUp(l, i) ==
   IF i > Len(l) THEN <<>>
   ELSE IF IsWord(l[i]) THEN LET e == UpEnd(l, i) IN
                             IF e = 0 THEN << <<0>> >> ELSE << SubSeq(l, i, e) >> \o ReadUp(l, e + 1)
   ELSE << <<l[i]>> >> \o ReadUp(l, i + 1)
ReadToks(m, l) == IF m = "sp" THEN [i \in 1..Len(l) |-> <<l[i]>>]
                  ELSE IF m = "cm" \/ SepAlways THEN ReadCm(l, 1) ELSE ReadUp(l, 1)
ReadFails(m, l) == m = "up" /\ ~SepAlways /\ \E i \in 1..Len(ReadUp(l, 1)) : ReadUp(l, 1)[i] = <<0>>
Opened(m, l)   == LET r == ReadToks(m, l) IN IF Tl(r) = <<NL>> THEN SubSeq(r, 1, Len(r) - 1) ELSE r

Render(e)      == NoCm(e)
ValIdxs(ts)    == SetToSortSeq({n \in 1..Len(ts) : IsVal(ts[n])}, IntLt)
RenderVals(ts) == LET ix == ValIdxs(ts) IN [k \in 1..Len(ix) |-> Render(ts[ix[k]])]
ValIdx(ts, k)  == ValIdxs(ts)[k]
HasVal(ts, v)  == \E n \in 1..Len(ts) : IsVal(ts[n]) /\ Render(ts[n]) = v
FirstIdx(ts, v) == SMin({n \in 1..Len(ts) : IsVal(ts[n]) /\ Render(ts[n]) = v})
IsCmE(e)       == IsCm(e[1])
\* the comment attachment the token list holds (to be compared with the abstract ann / pend)
AnnToks(m, ts) ==
   LET ix == ValIdxs(ts) IN
   [k \in 1..Len(ix) |->
      LET a   == (IF k = 1 THEN 0 ELSE ix[k - 1]) + 1
          gap == SubSeq(ts, a, ix[k] - 1)
      IN [f |-> ts[ix[k]],
          c |-> [i \in 1..Len(SelectSeq(gap, IsCmE)) |-> SelectSeq(gap, IsCmE)[i][1]],
          h |-> m # "sp" /\ \E i \in 1..Len(gap) : IsCmE(gap[i]) /\ \E j \in (i + 1)..Len(gap) : gap[j] = <<NL>>]]
PendToks(ts)   == LET ix == ValIdxs(ts)
                      a  == (IF ix = <<>> THEN 0 ELSE Tl(ix)) + 1
                      g  == SelectSeq(SubSeq(ts, a, Len(ts)), LAMBDA e : IsCmE(e) \/ e = <<NL>>)
                      fc == {i \in 1..Len(g) : IsCmE(g[i])}
                  IN IF fc = {} THEN <<>> ELSE [i \in 1..(Len(g) - SMin(fc) + 1) |-> g[SMin(fc) + i - 1][1]]

\* ---- writing primitives (st = [ts |-> token list, cc |-> cached continuation char or 0]) ----
IsStype(m, e)  == IF m = "sp" THEN e[1] \in {SP, NL, CT, CTS} ELSE e[1] = SEP
EndsNl(e)      == Brk(e[1])
Cont1(st) ==
   IF st.ts # <<>> /\ EndsNl(Tl(st.ts))
   THEN LET c == IF st.cc # 0 THEN st.cc
                 ELSE IF \E i \in 1..Len(st.ts) : IsCont(st.ts[i][1]) THEN CT ELSE CTS
        IN [ts |-> Append(st.ts, <<c>>), cc |-> c]
   ELSE st
AppSep(m, st, space) ==
   LET s1 == Cont1(st) IN
   [s1 EXCEPT !.ts = IF m = "sp" THEN Append(@, <<SP>>)
                     ELSE IF space THEN @ \o << <<SEP>>, <<WS>> >> ELSE Append(@, <<SEP>>)]
NeedsSep(m, ts) == LET I == {i \in 1..Len(ts) : IsVal(ts[i]) \/ IsStype(m, ts[i])} IN I # {} /\ IsVal(ts[SMax(I)])
AppVal(m, st, v) ==
   LET s1 == IF st.ts = <<>> THEN [st EXCEPT !.ts = << <<WS>> >>]
             ELSE IF NeedsSep(m, st.ts) THEN AppSep(m, st, TRUE) ELSE st
       s2 == Cont1(s1)
   IN [s2 EXCEPT !.ts = Append(@, v)]
AppNl(ts)      == Append(ts, <<NL>>)
AppCmt(ts, id) == (IF ts = <<>> \/ ~EndsNl(Tl(ts)) THEN AppNl(ts) ELSE ts) \o << <<id>> >>
RmNode(ts, n) ==
   LET L  == {i \in 1..(n - 1) : IsVal(ts[i])}
       R  == {i \in (n + 1)..Len(ts) : IsVal(ts[i])}
       l  == IF L = {} THEN 0 ELSE SMax(L)
       r  == IF R = {} THEN 0 ELSE SMin(R)
       cl == \E i \in (l + 1)..(n - 1) : IsCmE(ts[i])
       cr == \E i \in (n + 1)..(IF r = 0 THEN Len(ts) ELSE r - 1) : IsCmE(ts[i])
       dl == IF l # 0 /\ ~cl THEN TRUE ELSE IF r # 0 /\ ~cr THEN FALSE ELSE l # 0
   IN IF l = 0 /\ r = 0 THEN <<>>
      ELSE IF dl THEN SubSeq(ts, 1, l) \o SubSeq(ts, n + 1, Len(ts))
      ELSE SubSeq(ts, 1, n - 1) \o SubSeq(ts, r, Len(ts))

\* ---- sort_elements -----------------------------------------------------------------
\* parts: (value, everything from the first comment line behind the previous value up to the value)
PartsOf(ts) ==
   LET ix == ValIdxs(ts) IN
   [k \in 1..Len(ix) |->
      LET a  == (IF k = 1 THEN 0 ELSE ix[k - 1]) + 1
          C  == {i \in a..(ix[k] - 1) : IsCmE(ts[i])}
      IN [v  |-> ts[ix[k]],
          cs |-> IF C = {} \/ SortDropsComments THEN <<>> ELSE SubSeq(ts, SMin(C), ix[k] - 1)]]
SortStep(m, st, part, first) ==
   IF first
   THEN LET cs == IF DefectHiddenSep THEN SelectSeq(part.cs, LAMBDA e : ~IsStype(m, e))   \* "a separator between the comments ... we remove it"
                  ELSE SelectSeq(part.cs, IsCmE)                                            \* (repaired: keep the comment lines only)
            s1 == IF part.cs # <<>> /\ ~NoNlBeforeCmt THEN [st EXCEPT !.ts = AppNl(@)] ELSE st
        IN AppVal(m, [s1 EXCEPT !.ts = @ \o cs], part.v)
   ELSE LET hasS == \E i \in 1..Len(part.cs) : IsStype(m, part.cs[i])
            s1 == IF m # "sp" /\ ~hasS THEN AppSep(m, st, FALSE) ELSE st
            s2 == IF part.cs # <<>> THEN [s1 EXCEPT !.ts = AppNl(@)] ELSE [s1 EXCEPT !.ts = Append(@, <<WS>>)]
        IN AppVal(m, [s2 EXCEPT !.ts = @ \o part.cs], part.v)
SortToks(m, st, kind, rev) ==
   LET parts == PartsOf(st.ts)
       p     == SortPerm(kind, rev, [k \in 1..Len(parts) |-> Render(parts[k].v)])
       F[i \in 0..Len(p)] == IF i = 0 THEN [st EXCEPT !.ts = <<>>] ELSE SortStep(m, F[i - 1], parts[p[i]], i = 1)
   IN F[Len(p)]

\* ---- leaving the with-block: _update_field --------------------------------------------
Flat(ts)       == LET F[i \in 0..Len(ts)] == IF i = 0 THEN <<>> ELSE F[i - 1] \o ts[i] IN F[Len(ts)]
HasContent(ts) == \E i \in 1..Len(ts) : \E j \in 1..Len(ts[i]) : IsWord(ts[i][j]) \/ ts[i][j] = SEP
Written(ts)    == Flat(ts) \o (IF EndsNl(Tl(ts)) THEN <<>> ELSE <<NL>>)
\* one_value_per_line_trailing_separator through format_field (comments and values only)
Format(m, ts)  ==
   LET it == SelectSeq(ts, LAMBDA e : IsCmE(e) \/ IsVal(e))
       F[i \in 0..Len(it)] ==
          IF i = 0 THEN <<>>
          ELSE F[i - 1] \o (IF IsCmE(it[i]) THEN (IF i = 1 THEN <<NL>> \o it[i] ELSE it[i])
                            ELSE (IF i = 1 THEN <<SP>> ELSE <<CTS, SP>>) \o it[i]
                                 \o (IF m # "sp" /\ ~FmtNoTrailSep THEN <<SEP>> ELSE <<>>) \o <<NL>>)
   IN F[Len(it)]
RECURSIVE TakeField(_)
TakeField(w) == IF w # <<>> /\ IsCm(Tl(w)) THEN TakeField(SubSeq(w, 1, Len(w) - 1)) ELSE w
NewText == IF reform THEN Format(mode, toks) ELSE Written(toks)
CRes == IF ~changed THEN "nowrite"
        ELSE IF ~HasContent(toks) THEN "ValueError"                  \* "Field must have content"
        ELSE IF IsCmE(Tl(toks)) THEN "ValueError"                    \* "Fields must not end on a comment"
        ELSE IF ~Valid(Anon(TakeField(NewText))) THEN "ValueError"   \* the new text is parsed: "Syntax error in new field value"
        ELSE "ok"
COut == IF CRes = "ok" THEN TakeField(NewText) ELSE lay

-----------------------------------------------------------------------------
Init == /\ mode \in Modes /\ lay = <<>> /\ phase = "grow"
        /\ toks = <<>> /\ contc = 0 /\ changed = FALSE /\ steps = 0
        /\ out = <<>> /\ cres = "-" /\ hist = <<>> /\ ncm = 0
        /\ vals = <<>> /\ tail = "none" /\ res = "ok"
        /\ ann = <<>> /\ pend = <<>> /\ cknown = TRUE /\ reform = FALSE /\ khid = FALSE

Grow(t) == /\ phase = "grow"
           /\ Len(lay) + 1 + Need(lay, t) <= MaxT
           /\ IsWord(t) => Len(WordsOf(lay)) < MaxW
           /\ t = CM => NCm(lay) < MaxC
           /\ CanFollow(GMode(mode), P2(lay), P1(lay), LineHasC(lay), FirstLine(lay), t)
           /\ lay' = Append(lay, IF t = CM THEN CM0 - NCm(lay) ELSE t)
           /\ UNCHANGED <<xvars, mode, phase, toks, contc, changed, steps, out, cres, hist, ncm>>

InSlice(l) == LayHash(l) % SliceK = SliceR
\* editing an uploaders list is only specified when every item is a complete "Name <email>": behind an item
\* that does not end in '>' an appended item would not be separated (the comma belongs to the name)
UpItemsOK(vs) == \A i \in 1..Len(vs) : EndsGt(vs[i][Len(vs[i])])
EditLimit  == IF mode = "up" /\ ~UpItemsOK(vals) THEN 0 ELSE MaxEdits

\* Open: rename the words, read.  A layout the reader fails on is a case of its own (phase "failed").
Open(pi) == /\ phase = "grow" /\ Complete(lay) /\ InSlice(lay) /\ Len(Spans(mode, lay)) >= MinVals
            /\ LET l2 == Rename(mode, lay, pi) IN
               /\ lay' = l2
               /\ IF ReadFails(mode, l2)
                  THEN /\ phase' = "failed" /\ UNCHANGED <<toks, xvars>>
                       /\ (Emit => PrintT(<<"CASE", ToJson([mode |-> mode, lay |-> l2, dom |-> UpDomain(l2), fails |-> TRUE])>>))
                  ELSE /\ phase' = "open" /\ toks' = Opened(mode, l2)
                       /\ vals' = ValsOf(mode, l2) /\ ann' = AnnOf(mode, l2) /\ tail' = "none" /\ res' = "ok"
                       /\ pend' = PendOf(mode, l2)
                       /\ UNCHANGED <<cknown, reform, khid>>
            /\ ncm' = NCm(lay)
            /\ UNCHANGED <<mode, contc, changed, steps, out, cres, hist>>

St       == [ts |-> toks, cc |-> contc]
SetSt(s) == toks' = s.ts /\ contc' = s.cc
Log(op, v, w, i, k, r) == IF Emit THEN Append(hist, [op |-> op, v |-> v, w |-> w, i |-> i, kind |-> k, rev |-> r,
                                                        r |-> res', vals |-> vals']) ELSE hist
Step(op, v, w, i, k, r) == /\ phase = "open" /\ steps < EditLimit
                           /\ steps' = steps + 1 /\ hist' = Log(op, v, w, i, k, r)
                           /\ UNCHANGED <<mode, lay, phase, out, cres>>
NoId == UNCHANGED ncm

Sort1(kind, rev) ==
   /\ KeyDomain(vals, ann)
   /\ XSortStable(kind, rev) /\ SetSt(SortToks(mode, St, kind, rev)) /\ changed' = TRUE /\ NoId
   /\ Assert(IsSortedPerm(kind, rev, vals, ann, vals', ann', TRUE), "the stable sort is an ordered permutation of the items")
   /\ Step("sort", <<>>, <<>>, 0, kind, rev)
Reformat1 == /\ ~reform /\ XReformat /\ changed' = TRUE /\ UNCHANGED <<toks, contc>> /\ NoId
             /\ Step("reformat", <<>>, <<>>, 0, "", FALSE)
Append1(v)    == /\ XAppend(v) /\ SetSt(AppVal(mode, St, v)) /\ changed' = TRUE /\ NoId
                 /\ Step("append", v, <<>>, 0, "", FALSE)
Remove1(v)    == /\ XRemove(v)
                 /\ IF HasVal(toks, v) THEN toks' = RmNode(toks, FirstIdx(toks, v)) /\ changed' = TRUE
                                       ELSE UNCHANGED <<toks, changed>>
                 /\ UNCHANGED contc /\ NoId /\ Step("remove", v, <<>>, 0, "", FALSE)
Replace1(v, w) == /\ XReplace(v, w)
                  /\ IF HasVal(toks, v) THEN toks' = [toks EXCEPT ![FirstIdx(toks, v)] = w] /\ changed' = TRUE
                                        ELSE UNCHANGED <<toks, changed>>
                  /\ UNCHANGED contc /\ NoId /\ Step("replace", v, w, 0, "", FALSE)
RefSet1(i, w) == /\ XRefSet(i, w) /\ i <= Len(ValIdxs(toks))
                 /\ toks' = [toks EXCEPT ![ValIdx(toks, i)] = w] /\ changed' = TRUE
                 /\ UNCHANGED contc /\ NoId /\ Step("refset", <<>>, w, i, "", FALSE)
RefRemove1(i) == /\ XRefRemove(i) /\ i <= Len(ValIdxs(toks))
                 /\ toks' = RmNode(toks, ValIdx(toks, i)) /\ changed' = TRUE
                 /\ UNCHANGED contc /\ NoId /\ Step("refremove", <<>>, <<>>, i, "", FALSE)
AppendSep1(sp) == /\ mode # "sp"
                  /\ XAppendSep /\ SetSt(AppSep(mode, St, sp)) /\ changed' = TRUE /\ NoId
                  /\ Step(IF sp THEN "sep" ELSE "sep0", <<>>, <<>>, 0, "", FALSE)
AppendNl1     == /\ XAppendNl
                 /\ IF toks # <<>> /\ EndsNl(Tl(toks)) THEN UNCHANGED toks ELSE toks' = AppNl(toks)
                 /\ UNCHANGED <<contc, changed>> /\ NoId /\ Step("nl", <<>>, <<>>, 0, "", FALSE)
AppendCmt1    == /\ XAppendCmt(CM0 - ncm) /\ toks' = AppCmt(toks, CM0 - ncm) /\ ncm' = ncm + 1
                 /\ UNCHANGED <<contc, changed>> /\ Step("cmt", <<>>, <<>>, CM0 - ncm, "", FALSE)

\* (cases without sort/reformat on a "sp"/"cm" list are C11's business)
Interesting == mode = "up" \/ \E i \in 1..Len(hist) : hist[i].op \in {"sort", "reformat"}
Close == /\ Emit /\ phase = "open" /\ Interesting
         /\ phase' = "closed" /\ cres' = CRes /\ out' = COut
         /\ PrintT(<<"CASE", ToJson([mode |-> mode, lay |-> lay, dom |-> (mode # "up" \/ UpDomain(lay)), fails |-> FALSE,
                                     v0 |-> ValsOf(mode, lay), ops |-> hist,
                                     vals |-> vals, ann |-> ann, cknown |-> cknown, khid |-> khid, reform |-> reform,
                                     tail |-> tail, cres |-> CRes, out |-> Squeeze(COut)])>>)
         /\ UNCHANGED <<xvars, mode, lay, toks, contc, changed, steps, hist, ncm>>

NewVals    == IF mode = "up" THEN {<<NEWW>>, <<NEWA, SEP, SP, NEWW>>} ELSE {<<NEWW>>}
AppendVals == NewVals \cup (IF Dups /\ vals # <<>> THEN {vals[1]} ELSE {})
Targets    == {vals[i] : i \in 1..Len(vals)} \cup {<<ABSENT>>}

Next == \/ (phase = "grow" /\ ((\E t \in {SP, NL, CT, CM, SEP} \cup NextWords(mode, lay) : Grow(t))
                               \/ (Complete(lay) /\ \E pi \in PermsFor(NIdx(mode, lay)) : Open(pi))))
        \/ (phase = "open" /\ steps < EditLimit /\
              \/ \E kr \in KindsUsed : Sort1(kr[1], kr[2])
              \/ Reformat1
              \/ (Edits /\ (\/ \E v \in AppendVals : Append1(v)
                            \/ \E v \in Targets : Remove1(v) \/ Replace1(v, <<NEWW>>)
                            \/ \E i \in 1..Len(vals) : RefSet1(i, <<NEWW>>) \/ RefRemove1(i)
                            \/ AppendSep1(TRUE) \/ AppendSep1(FALSE) \/ AppendNl1 \/ AppendCmt1)))
        \/ Close
Spec == Init /\ [][Next]_vars

-----------------------------------------------------------------------------
IsOpen == phase = "open"
AtGrow == phase = "grow" /\ Complete(lay)
FC(an) == [i \in 1..Len(an) |-> [f |-> an[i].f, c |-> an[i].c]]
LayoutValid  == AtGrow => Valid(Anon(lay)) /\ WellFormed(GMode(mode), Anon(lay))
ReaderAgrees == (AtGrow /\ mode # "up") => ValsOf(mode, lay) = Split(mode, Anon(lay))
ReadTotal    == AtGrow => (ReadFails(mode, lay) => (Exempt /\ ~UpDomain(lay)))
FailExactly  == (AtGrow /\ mode = "up" /\ ~SepAlways) => (ReadFails(mode, lay) <=> (DefectTrailComma /\ ~UpDomain(lay)))
Refines      == IsOpen => /\ RenderVals(toks) = vals
                          /\ cknown => (FC(AnnToks(mode, toks)) = FC(ann) /\ PendToks(toks) = pend)
                          /\ (cknown /\ DefectHiddenSep) => AnnToks(mode, toks) = ann
RoundTrip    == (IsOpen /\ steps = 0) => Written(toks) = lay
TailOK       == IsOpen => /\ (tail = "cmt") <=> (toks # <<>> /\ IsCmE(Tl(toks)))
                          /\ (tail = "nl")  <=> (toks # <<>> /\ Tl(toks) = <<NL>>)
EmptyWrite   == vals = <<>> /\ CRes = "ok"
EditResult   == (IsOpen /\ ~EmptyWrite) =>
                   IF CRes = "ok" THEN /\ ValsOf(mode, COut) = vals
                                       /\ cknown => FC(AnnOf(mode, COut)) = FC(ann)
                   ELSE IF CRes = "nowrite" THEN vals = ValsOf(mode, lay) ELSE TRUE
StillValid   == (IsOpen /\ ~EmptyWrite) => Valid(Anon(COut))
Writable     == changed /\ vals # <<>> /\ tail # "cmt"
WriteBack    == (IsOpen /\ Writable) => (CRes = "ok" \/ (Exempt /\ khid /\ ~reform))
RefuseOnlyWhen == IsOpen => (CRes = "ValueError" => XCloseMayRefuse(Exempt))
ShapeOK      == (IsOpen /\ reform /\ CRes = "ok" /\ ~EmptyWrite) =>
                   /\ HasShape(mode, COut)
                   /\ cknown => Squeeze(COut) = Shape(mode, FC(ann))
KhidTight    == (IsOpen /\ Writable /\ khid /\ cknown /\ ~reform /\ DefectHiddenSep /\ ~SortDropsComments) => CRes = "ValueError"
ValuesWellFormed == IsOpen => \A i \in 1..Len(vals) : vals[i] # <<>> /\ IsWord(vals[i][1]) /\ IsWord(Tl(vals[i]))
=============================================================================
