CONSTANTS
  Modes = {"sp", "cm", "up"}
  MaxW = 3
  MaxT = 6
  MaxC = 1
  Dups = TRUE
  MaxEdits = 1
  Edits = TRUE
  KindSel = "some"
  MinVals = 0
  AllPerms = FALSE
  Emit = FALSE
  SliceK = 1
  SliceR = 0
  DefectTrailComma = TRUE
  DefectHiddenSep = TRUE
  Exempt = TRUE
  SortDropsComments = FALSE
  SepAlways = FALSE
  NoNlBeforeCmt = FALSE
  FmtNoTrailSep = FALSE
SPECIFICATION Spec
INVARIANT LayoutValid
INVARIANT ReaderAgrees
INVARIANT ReadTotal
INVARIANT FailExactly
INVARIANT Refines
INVARIANT RoundTrip
INVARIANT TailOK
INVARIANT EditResult
INVARIANT StillValid
INVARIANT WriteBack
INVARIANT RefuseOnlyWhen
INVARIANT ShapeOK
INVARIANT KhidTight
INVARIANT ValuesWellFormed
CHECK_DEADLOCK FALSE
