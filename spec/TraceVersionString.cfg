CONSTANTS
  Alphabet = {}
  MaxLen = 0
  StartStrings <- NoStrings
  AssignValues <- NoStrings
  Emit = FALSE
  DollarAnchor = FALSE
  UnicodeDigits = FALSE
  NoRollback = FALSE
  StaleKey = FALSE
  CopySharesParts = FALSE
SPECIFICATION TSpec
CHECK_DEADLOCK FALSE
