--------------------------- MODULE ReproParaImpl ---------------------------
(***************************************************************************)
(* C10 -- implementation layer of Deb822DuplicateFieldsParagraphElement    *)
(* (lib/debian/_deb822_repro/parsing.py): the paragraph keeps its fields   *)
(* in a linked list of nodes (_kvpair_order; the list itself is verified   *)
(* in LinkedSet.tla and is abstracted to a sequence of nodes here) and,    *)
(* per field name, a Python list of the nodes carrying that name           *)
(* (_kvpair_elements[name]).  (name, i) is resolved through the per-name   *)
(* list, the dump through the linked list: the two must stay consistent.   *)
(* Each method is transcribed loop by loop and runs jointly with the       *)
(* reference action of ReproDoc on a one-paragraph document; TLC checks    *)
(*   Refines           elements in list order = the reference paragraph    *)
(*   ByNameConsistent  by[n] = the nodes named n, in list order            *)
(* in every reachable state.                                               *)
(* Negative control: ForwardLoopInOrderFirst = TRUE is the code before     *)
(* commit 974c167 (order_first iterated the relocated nodes forwards):     *)
(* TLC then reports Refines violated after one bulk order_first.           *)
(***************************************************************************)
EXTENDS ReproDoc

CONSTANTS MaxNode, ForwardLoopInOrderFirst

Nodes == 1..MaxNode

VARIABLES lst,      \* Seq(node): _kvpair_order
          by,       \* [Names -> Seq(node)]: _kvpair_elements (<<>> = key absent)
          elem,     \* [node -> instance record]: node.value
          ires

ivars == <<lst, by, elem, ires>>
allvars == <<dvars, ivars>>

\* ---- sequence helpers
SRemove(s, x)      == SelectSeq(s, LAMBDA y : y # x)
SPos(s, x)         == CHOOSE i \in 1..Len(s) : s[i] = x
SInsertAt(s, i, x) == SubSeq(s, 1, i - 1) \o <<x>> \o SubSeq(s, i, Len(s))     \* x becomes s'[i]
SBefore(s, x, r)   == SInsertAt(s, SPos(s, r), x)        \* insert_node_before
SAfter(s, x, r)    == SInsertAt(s, SPos(s, r) + 1, x)    \* insert_node_after
SRev(s)            == [i \in 1..Len(s) |-> s[Len(s) + 1 - i]]
SIn(s, x)          == \E i \in 1..Len(s) : s[i] = x
FreshNode          == CHOOSE x \in Nodes : ~SIn(lst, x)

\* _nodes_being_relocated(field): <<nodes, relocated>> or an error
\* (KeyError: name absent; index out of range -> KeyError from _resolve_to_single_node)
Reloc(key) == IF by[key.n] = <<>> THEN [err |-> "KeyError", nodes |-> <<>>, rel |-> <<>>]
              ELSE IF key.i = NoIdx THEN [err |-> "", nodes |-> by[key.n], rel |-> by[key.n]]
              ELSE IF key.i + 1 <= Len(by[key.n])
                   THEN [err |-> "", nodes |-> by[key.n], rel |-> <<by[key.n][key.i + 1]>>]
              ELSE [err |-> "KeyError", nodes |-> <<>>, rel |-> <<>>]

\* fold a per-node step over a sequence of nodes
RECURSIVE Fold(_, _, _)
Fold(step(_, _), s, acc) == IF s = <<>> THEN acc ELSE Fold(step, Tail(s), step(acc, Head(s)))

IFail(e) == ires' = e /\ UNCHANGED <<lst, by, elem>>

\* order_first
IFirst(key) ==
   LET r == Reloc(key) IN
   IF r.err # "" THEN IFail(r.err)
   ELSE LET order == IF ForwardLoopInOrderFirst THEN r.rel ELSE SRev(r.rel)
            step(l, x) == IF l[1] = x THEN l ELSE <<x>> \o SRemove(l, x)
            single == Len(r.rel) = 1 /\ r.rel[1] # r.nodes[1]
        IN /\ lst' = Fold(step, order, lst)
           /\ by' = IF single THEN [by EXCEPT ![key.n] = <<r.rel[1]>> \o SRemove(r.nodes, r.rel[1])] ELSE by
           /\ ires' = "ok" /\ UNCHANGED elem
\* order_last
ILast(key) ==
   LET r == Reloc(key) IN
   IF r.err # "" THEN IFail(r.err)
   ELSE LET step(l, x) == IF l[Len(l)] = x THEN l ELSE Append(SRemove(l, x), x)
            single == Len(r.rel) = 1 /\ r.rel[1] # r.nodes[Len(r.nodes)]
        IN /\ lst' = Fold(step, r.rel, lst)
           /\ by' = IF single THEN [by EXCEPT ![key.n] = Append(SRemove(r.nodes, r.rel[1]), r.rel[1])] ELSE by
           /\ ires' = "ok" /\ UNCHANGED elem
\* _regenerate_relative_kvapir_order
Regen(l, n) == SelectSeq(l, LAMBDA x : elem[x].n = n)
\* order_before / order_after
IRel(key, ref, before) ==
   LET r == Reloc(key) IN
   IF r.err # "" /\ key.n = ref.n /\ by[key.n] = <<>> THEN IFail("KeyOrValueError")
   ELSE IF r.err # "" THEN IFail(r.err)
   ELSE LET q == Reloc(ref) IN
        IF q.err # "" THEN IFail(q.err)
        ELSE LET rn == IF before THEN q.rel[1] ELSE q.rel[Len(q.rel)]
             IN IF SIn(r.rel, rn) THEN IFail("ValueError")
                ELSE LET stepB(l, x) == SBefore(SRemove(l, x), x, rn)
                         stepA(l, x) == SAfter(SRemove(l, x), x, rn)
                         l2 == IF before THEN Fold(stepB, r.rel, lst) ELSE Fold(stepA, SRev(r.rel), lst)
                     IN /\ lst' = l2
                        /\ by' = IF Len(r.rel) = 1 /\ Len(r.nodes) > 1
                                 THEN [by EXCEPT ![key.n] = Regen(l2, key.n)] ELSE by
                        /\ ires' = "ok" /\ UNCHANGED elem
\* set_kvpair_element as reached from __setitem__ (the new element carries the old spelling/comment)
IAssign(key, s, v) ==
   IF by[key.n] = <<>>
   THEN IF key.i > 0 THEN IFail("KeyError")
        ELSE LET x == FreshNode IN
             /\ lst' = Append(lst, x)
             /\ elem' = [elem EXCEPT ![x] = [n |-> key.n, s |-> s, v |-> v, c |-> 0]]
             /\ by' = [by EXCEPT ![key.n] = <<x>>]
             /\ ires' = "ok"
   ELSE IF key.i # NoIdx /\ key.i + 1 > Len(by[key.n]) THEN IFail("IndexError")
   ELSE LET nodes == by[key.n]
            node == IF key.i = NoIdx THEN nodes[1] ELSE nodes[key.i + 1]
            drop == IF key.i = NoIdx THEN Tail(nodes) ELSE <<>>
        IN /\ elem' = [elem EXCEPT ![node].v = v]
           /\ lst' = SelectSeq(lst, LAMBDA x : ~SIn(drop, x))
           /\ by' = IF key.i = NoIdx THEN [by EXCEPT ![key.n] = <<node>>] ELSE by
           /\ ires' = "ok"
\* remove_kvpair_element
IDel(key) ==
   IF by[key.n] = <<>> THEN IFail("KeyError")
   ELSE IF key.i = NoIdx
        THEN /\ lst' = SelectSeq(lst, LAMBDA x : ~SIn(by[key.n], x))
             /\ by' = [by EXCEPT ![key.n] = <<>>]
             /\ ires' = "ok" /\ UNCHANGED elem
   ELSE IF key.i + 1 > Len(by[key.n]) THEN IFail("IndexError")
   ELSE LET node == by[key.n][key.i + 1] IN
        /\ by' = [by EXCEPT ![key.n] = SRemove(by[key.n], node)]
        /\ lst' = SRemove(lst, node)
        /\ ires' = "ok" /\ UNCHANGED elem
\* sort_fields: Python's stable sort of the elements, then _init_kvpair_fields rebuilds both structures
ISort ==
   LET sorted == LET RECURSIVE go(_)
                     go(ns) == IF ns = {} THEN <<>>
                               ELSE LET m == CHOOSE x \in ns : \A y \in ns : x <= y
                                    IN SelectSeq(lst, LAMBDA x : elem[x].n = m) \o go(ns \ {m})
                 IN go({elem[lst[i]].n : i \in 1..Len(lst)})
   IN /\ lst' = sorted
      /\ by' = [n \in Names |-> SelectSeq(sorted, LAMBDA x : elem[x].n = n)]
      /\ ires' = "ok" /\ UNCHANGED elem
IGet(key) ==
   /\ UNCHANGED <<lst, by, elem>>
   /\ ires' = IF by[key.n] = <<>> THEN "KeyError"
              ELSE IF key.i = NoIdx THEN ToString(elem[by[key.n][1]].v)
              ELSE IF key.i + 1 <= Len(by[key.n]) THEN ToString(elem[by[key.n][key.i + 1]].v)
              ELSE "IndexError"

\* ---- joint behaviour on a one-paragraph document parsed with duplicates
StartFs == Para(1).fs
PInit == /\ Init
         /\ Len(doc) = 1 /\ doc[1].t = "p" /\ doc[1].dup
         /\ lst = [i \in 1..Len(doc[1].fs) |-> i]
         /\ elem = [x \in Nodes |-> IF x <= Len(doc[1].fs) THEN doc[1].fs[x] ELSE [n |-> 0, s |-> "", v |-> 0, c |-> 0]]
         /\ by = [n \in Names |-> SelectSeq([i \in 1..Len(doc[1].fs) |-> i], LAMBDA i : doc[1].fs[i].n = n)]
         /\ ires = "ok"

PNext == \E k \in GoodKeys(1) :
            \/ (Get(1, k) /\ IGet(k))
            \/ (Del(1, k) /\ IDel(k))
            \/ (OrderFirst(1, k) /\ IFirst(k))
            \/ (OrderLast(1, k) /\ ILast(k))
            \/ \E s \in SetSpells, v \in SetVals : (Assign(1, k, s, v) /\ IAssign(k, s, v))
            \/ \E r \in GoodKeys(1) : (Rel(1, k, r, TRUE) /\ IRel(k, r, TRUE)) \/ (Rel(1, k, r, FALSE) /\ IRel(k, r, FALSE))
         \/ (SortFields(1) /\ ISort)
PSpec == PInit /\ [][PNext]_allvars

Refines == [i \in 1..Len(lst) |-> elem[lst[i]]] = Para(1).fs
ByNameConsistent == \A n \in Names : by[n] = SelectSeq(lst, LAMBDA x : elem[x].n = n)
\* results agree (exception types in the unspecified zone are interchangeable)
ResAgree(a, b) == \/ a = b
                  \/ {a, b} \subseteq {"KeyError", "IndexError"}
SameResult == [][ResAgree(ires', res')]_allvars
ImplView == <<doc, lst, by, elem>>
=============================================================================
