CONSTANTS
  LineIds = {1, 2}
  MaxLen = 2
  MaxDocs = 2
  MaxEdits = 1
  SharedTokens = FALSE
  LeftoverRunBuffer = FALSE
  MaxFails = 1
SPECIFICATION Spec
INVARIANT UnmodifiedLossless
INVARIANT InputUntouched
INVARIANT NoSharing
PROPERTY Isolation
CHECK_DEADLOCK FALSE
