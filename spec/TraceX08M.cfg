CONSTANTS
  MtMode = "none"
  MtDefects = {}
  MtEmit = "none"
SPECIFICATION TSpec
CHECK_DEADLOCK FALSE
