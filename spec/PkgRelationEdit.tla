-------------------------- MODULE PkgRelationEdit --------------------------
(***************************************************************************)
(* C13 -- structures obtained by EDITING a parse result in place.          *)
(*                                                                         *)
(* The property quantifies over every relation structure, however the      *)
(* caller came by it.  The usual way to come by one is to parse a field    *)
(* and edit what parse_relations returned: a tree of mutable objects (the  *)
(* result list, the conjunct lists, the dicts, the `arch` list, the        *)
(* `restrictions` list, its group lists), each with its own mutators.  A   *)
(* formatter may only look at the VALUE of that tree.  This module puts a  *)
(* layer under the formatter that REMEMBERS text per dict -- the text the  *)
(* dict was parsed from (Remember = "parse"), and also the text it was     *)
(* last formatted as (Remember = "format") -- and writes it back while it  *)
(* is remembered; the mutators of the levels in Forgets drop it.           *)
(*                                                                         *)
(*   sk, start  the relation that was formatted and parsed (its kind, the  *)
(*          structure; cur = its parse at first)                           *)
(*   cur    the structure the caller holds now                             *)
(*   srcs   per dict of cur: [some, t] the remembered token string         *)
(*   eds    the edits made so far;  trail  the structure after each one    *)
(*                                                                         *)
(* One action: Edit(e) for every applicable edit e of Candidates(cur) --   *)
(* every mutator (append / insert / delete / item assignment / reverse /   *)
(* key assignment) of every container at every nesting level (EditLevels   *)
(* of PkgRelation: result list, conjunct, dict, arch list, formula, every  *)
(* group), with new and with REPLACED entries (a namedtuple replaced by    *)
(* its negated twin: the text keeps its length) -- followed by a call of   *)
(* the formatter.  A dict the caller builds by hand and inserts remembers  *)
(* nothing; a dict that moves (reverse, insert before it) keeps what it    *)
(* remembers.                                                              *)
(*                                                                         *)
(* Invariants, in every state (= after every edit history up to MaxEdits): *)
(*   EditProps  Inverse / NoWarning / Stable / well-formed tokens for the  *)
(*              text the formatter writes for cur (what the caller holds), *)
(*              and that text is Format(cur): the layer is invisible       *)
(* Remember = "no" is the plain formatter: EditProps is then Inverse ...   *)
(* of PkgRelation over all edited structures.  Remember = "parse" /        *)
(* "format" with Forgets = AtomLevels (every container inside the dict     *)
(* drops the text) is a correct layer and must hold as well                *)
(* (MC_PkgRelationEdit_layer.cfg).                                         *)
(* Negative controls (each tried; c13.py re-runs them in every check):     *)
(*   Remember = "parse", Forgets = {"key"}  -- only the mutators of the    *)
(*     dict itself drop the text: the seeded change C13-seedK --           *)
(*     -> EditProps violated by one edit of a nested list                  *)
(*   Remember = "parse", Forgets = {"key", "arch", "groups"} -- the lists  *)
(*     stored in the dict are watched, the groups inside the formula are   *)
(*     not -> EditProps violated by an edit of a group                     *)
(*   Remember = "format", Forgets = {"key"} with Starts = {"bare"}: no     *)
(*     parsed dict has a nested list; the list comes in by key assignment  *)
(*     (forgotten), is formatted (remembered again) and then edited        *)
(*     -> EditProps violated only by a history of two edits                *)
(* With Emit every state prints a CASE line: start, the edits, the trail   *)
(* and the token string of the last structure; c13.py replays it on the    *)
(* real class (format start, parse, apply the edits to the PARSED objects  *)
(* through the real list / dict methods, format / parse / format after     *)
(* every edit or after the last one).                                      *)
(***************************************************************************)
EXTENDS PkgRelation

CONSTANTS Remember,              \* "no" / "parse" / "format"
          Forgets,               \* subset of AtomLevels: the containers whose mutators drop the remembered text
          Starts,                \* subset of {"one", "two", "bare"}
          DeepStarts,            \* the starts whose histories have up to MaxEdits edits (the others: MaxEdits - 1)
          MaxEdits

VARIABLES sk, start, cur, srcs, eds, trail
evars == <<vars, sk, start, cur, srcs, eds, trail>>

Full == CtxAtom("full")
Bare == CtxAtom("bare")
StartRel(s) == CASE s = "one"  -> Renumber(<<<<Full>>>>)
                 [] s = "two"  -> Renumber(<<<<Full, Bare>>, <<Full>>>>)
                 [] s = "bare" -> Renumber(<<<<Bare>>>>)

\* what the caller puts in: ids the parsed structure does not have (and one it has: identical items)
NewArch  == [e |-> FALSE, id |-> 3]
NewTerm  == [e |-> TRUE, id |-> 4]
NewGroup == <<[e |-> FALSE, id |-> 5], [e |-> TRUE, id |-> 1]>>
NewBare  == Atom(7, 0, NoVer, NoneList, NoneList)
NewFull  == Atom(8, 8, [some |-> TRUE, op |-> 2, ver |-> 8], SomeList(<<NewArch>>), SomeList(<<NewGroup>>))
Flip(x)  == [x EXCEPT !.e = ~@]                                   \* x._replace(enabled=not x.enabled)

Ed(lv, op, i, j, g, k, x) == [lv |-> lv, op |-> op, i |-> i, j |-> j, g |-> g, k |-> k, x |-> x]

\* (sequences, not sets: TLC cannot order records whose x fields have different types)
RECURSIVE Flat(_, _)
Flat(ss, n) == IF n > Len(ss) THEN <<>> ELSE ss[n] \o Flat(ss, n + 1)

\* the mutator calls of one list: xs the new items tried, l the list as it is (item assignment also
\* with the negated twin of the entry that is there, when flip)
ListCalls(lv, i, j, g, l, xs, flip) ==
   [n \in 1..Len(xs) |-> Ed(lv, "append", i, j, g, 0, xs[n])]
   \o [n \in 1..Len(xs) |-> Ed(lv, "insert", i, j, g, 1, xs[n])]
   \o [k \in 1..Len(l) |-> Ed(lv, "del", i, j, g, k, 0)]
   \o Flat([k \in 1..Len(l) |-> [n \in 1..Len(xs) |-> Ed(lv, "set", i, j, g, k, xs[n])]], 1)
   \o (IF flip THEN [k \in 1..Len(l) |-> Ed(lv, "set", i, j, g, k, Flip(l[k]))] ELSE <<>>)
   \o (IF Len(l) > 1 THEN <<Ed(lv, "rev", i, j, g, 0, 0)>> ELSE <<>>)

KeyCalls(i, j) ==
   <<Ed("key", "name", i, j, 0, 0, 9),
     Ed("key", "q", i, j, 0, 0, 0), Ed("key", "q", i, j, 0, 0, 9),
     Ed("key", "v", i, j, 0, 0, NoVer), Ed("key", "v", i, j, 0, 0, [some |-> TRUE, op |-> 1, ver |-> 9]),
     Ed("key", "a", i, j, 0, 0, NoneList), Ed("key", "a", i, j, 0, 0, SomeList(<<NewArch>>)),
     Ed("key", "r", i, j, 0, 0, NoneList), Ed("key", "r", i, j, 0, 0, SomeList(<<NewGroup>>))>>

AtomCalls(r, i, j) ==
   LET a == r[i][j] IN
   KeyCalls(i, j)
   \o (IF a.a.some THEN ListCalls("arch", i, j, 0, a.a.l, <<NewArch>>, TRUE) ELSE <<>>)
   \o (IF a.r.some THEN ListCalls("groups", i, j, 0, a.r.l, <<NewGroup>>, FALSE)
                        \o Flat([g \in 1..Len(a.r.l) |-> ListCalls("terms", i, j, g, a.r.l[g], <<NewTerm>>, TRUE)], 1)
       ELSE <<>>)

Candidates(r) ==
   ListCalls("conj", 0, 0, 0, r, <<<<NewBare>>, <<NewFull>>>>, FALSE)
   \o Flat([i \in 1..Len(r) |-> ListCalls("alt", i, 0, 0, r[i], <<NewBare, NewFull>>, FALSE)], 1)
   \o Flat([i \in 1..Len(r) |-> Flat([j \in 1..Len(r[i]) |-> AtomCalls(r, i, j)], 1)], 1)

\* ---- the remembering layer
NoSrc == [some |-> FALSE, t |-> <<>>]
SrcOf(a) == [some |-> Remember # "no", t |-> FmtAtom(a)]
SrcsOf(r) == [i \in 1..Len(r) |-> [j \in 1..Len(r[i]) |-> SrcOf(r[i][j])]]
\* what the formatter writes for a dict: the remembered text while there is one
LiveAtom(a, s) == IF s.some THEN s.t ELSE FmtAtom(a)
FormatLive(r, ss) == PJoin([i \in 1..Len(r) |->
                              PJoin([j \in 1..Len(r[i]) |-> LiveAtom(r[i][j], ss[i][j])], <<SP, PIPE, SP>>)],
                           <<COMMA, SP>>)
\* the dicts move with the outer lists; hand-built ones remember nothing; inside a dict the levels of Forgets drop
Blank(e) == IF e.op \in {"del", "rev"} THEN e
            ELSE [e EXCEPT !.x = IF e.lv = "conj" THEN [n \in 1..Len(e.x) |-> NoSrc] ELSE NoSrc]
SrcsAfter(ss, e) == CASE e.lv = "conj" -> ListEdit(ss, Blank(e))
                      [] e.lv = "alt"  -> [ss EXCEPT ![e.i] = ListEdit(@, Blank(e))]
                      [] OTHER -> IF e.lv \in Forgets THEN [ss EXCEPT ![e.i][e.j] = NoSrc] ELSE ss
\* the formatter was called: with Remember = "format" every dict now remembers what was written for it
Formatted(r, ss) == IF Remember = "format"
                    THEN [i \in 1..Len(r) |-> [j \in 1..Len(r[i]) |->
                            [some |-> TRUE, t |-> LiveAtom(r[i][j], ss[i][j])]]]
                    ELSE ss

EInit == /\ rel = <<>> /\ ctx = "edit" /\ kord = CanonOrder
         /\ sk \in Starts
         /\ start = StartRel(sk)
         /\ cur = Parse(Format(start)).rel
         /\ srcs = SrcsOf(cur)
         /\ eds = <<>>
         /\ trail = <<>>

Edit(e) == /\ EditOk(cur, e)
           /\ cur' = ApplyEdit(cur, e)
           /\ srcs' = Formatted(cur', SrcsAfter(srcs, e))
           /\ eds' = Append(eds, e)
           /\ trail' = Append(trail, cur')
           /\ UNCHANGED <<vars, sk, start>>

ENext == /\ Len(eds) < (IF sk \in DeepStarts THEN MaxEdits ELSE MaxEdits - 1)
         /\ LET cs == Candidates(cur) IN \E n \in 1..Len(cs) : Edit(cs[n])
ESpec == EInit /\ [][ENext]_evars

----------------------------------------------------------------------------
\* the text the caller gets for what it holds.  (With Remember = "format" srcs already holds what the call
\* after the last edit wrote: FormatLive gives exactly that text back.)
EmitE(f) == Emit /\ eds # <<>> =>
               PrintT(<<"CASE", ToJson([s |-> EncRel(start), e |-> eds,
                                        tr |-> [n \in 1..Len(trail) |-> EncRel(trail[n])], t |-> EncToks(f)])>>)
EditProps == LET f == FormatLive(cur, srcs)
                 p == Parse(f)
             IN /\ f = Format(cur)
                /\ TokWellFormed(f)
                /\ p.rel = cur /\ ~p.exc
                /\ ~p.warn
                /\ Format(p.rel) = f
                /\ trail = EditTrail(start, eds, 1)
                /\ EmitE(f)
=============================================================================
