------------------------- MODULE TraceEdScript -------------------------
(***************************************************************************)
(* C18 -- trace validation: executions recorded from the real              *)
(* patches_from_ed_script / patch_lines (harness/props/c18.py) are checked *)
(* against EdScript.  Two kinds of trace:                                  *)
(*                                                                         *)
(*  [kind |-> "apply", old, new, events, final]                            *)
(*     old/new: line-id sequences; the script was derived from (old, new)  *)
(*     by an independent differ.  events[i] = [cmd, res, obs]: the i-th    *)
(*     command and what the real code produced for the script prefix of    *)
(*     i commands; final = [res, obs]: the whole script in one call.       *)
(*     Each step applies the logged command with EdApply and must reach    *)
(*     the observed buffer; at the end the buffer must be `new`            *)
(*     (TargetReached) and equal to the whole-script observation.          *)
(*     Size-stressed executions (files of 10^4 / 10^5 lines) are logged at  *)
(*     the level of RUNS: every id of old stands for a run of distinct     *)
(*     concrete lines, addresses in the real script are prefix sums, and   *)
(*     the harness collapses the observed lines run by run to ids before   *)
(*     logging (an incomplete run is logged as the impossible id 0).       *)
(*     EdApply is independent of what an element stands for, so the same   *)
(*     steps validate them (see Structure in EdScript.tla).                *)
(*  [kind |-> "corrupt", lines, res]                                       *)
(*     lines: a script as line tokens with one syntactic corruption; res:  *)
(*     "ok" or the name of the exception raised.  The parser automaton     *)
(*     (Parse) must predict the outcome (ValueError).                      *)
(*                                                                         *)
(* Batched: one TLC run validates all traces of TRACE_FILE; <<"ACCEPTED",  *)
(* tid>> is printed for every trace the specification explains completely. *)
(* <<"REJECT", tid, l>> flags a logged script outside the generator domain *)
(* of EdScript (a harness defect, not a verdict).                          *)
(***************************************************************************)
EXTENDS EdScript, IOUtils, TLCExt

Traces == JsonDeserialize(IOEnv.TRACE_FILE)
Diag   == IOEnv.TRACE_DIAG = "1"

VARIABLES tid, l, buf
tvars == <<vars, tid, l, buf>>

Tr      == Traces[tid]
NEvents == IF Tr.kind = "apply" THEN Len(Tr.events) ELSE 0

TInit == /\ tid \in 1..Len(Traces)
         /\ l = 1
         /\ buf = IF Traces[tid].kind = "apply" THEN Traces[tid].old ELSE <<>>
         /\ old = buf
         /\ script = <<>>

Keep == UNCHANGED <<tid, old, script>>

\* one command of the logged script
TApply == /\ Tr.kind = "apply" /\ l <= NEvents
          /\ LET e == Tr.events[l] IN
               /\ EdValid(buf, e.cmd)
               /\ buf' = EdApply(buf, e.cmd)
               /\ e.res = "ok"
               /\ e.obs = buf'
               /\ (IF l > 1 THEN ~Follows(e.cmd, Tr.events[l - 1].cmd) ELSE ~EdValid(old, e.cmd))
                     => PrintT(<<"REJECT", tid, l>>)
          /\ l' = l + 1 /\ Keep
          /\ (Diag => PrintT(<<"AT", tid, l>>))

\* end of the script: the target of the diff is reached, by the prefix runs and by the single call
TFinish == /\ Tr.kind = "apply" /\ l = NEvents + 1
           /\ buf = Tr.new
           /\ Tr.final.res = "ok"
           /\ Tr.final.obs = buf
           /\ l' = l + 1 /\ buf' = buf /\ Keep
           /\ (Diag => PrintT(<<"AT", tid, l>>))
           /\ PrintT(<<"ACCEPTED", tid>>)

\* a corrupted script: the real code's outcome is the automaton's
TCorrupt == /\ Tr.kind = "corrupt" /\ l = 1
            /\ Tr.res = (IF Parse(Tr.lines).ok THEN "ok" ELSE "ValueError")
            /\ l' = l + 1 /\ buf' = buf /\ Keep
            /\ PrintT(<<"ACCEPTED", tid>>)

TNext == TApply \/ TFinish \/ TCorrupt
TSpec == TInit /\ [][TNext]_tvars
=============================================================================
