CONSTANTS
  MaxItems = 2
  ItemLen = 2
  RawLen = 1
  EmitItems = 0
  EmitItemLen = 0
  EmitRawLen = 0
  Emit = FALSE
  NoStrip = TRUE
  SplitLinesSingle = FALSE
SPECIFICATION CSpec
INVARIANT DebSafeLines
INVARIANT EmitCase
CHECK_DEADLOCK FALSE
