------------------------- MODULE TraceDebFileCache -------------------------
(***************************************************************************)
(* C07 -- trace validation of two-package histories: the harness keeps two *)
(* real DebFile objects open (same file names, different contents and      *)
(* compression), interleaves repeated queries between them, mutates the    *)
(* dictionaries it gets back and rewrites + re-opens a path; every answer  *)
(* is checked against the actions of DebFileCache.tla.                     *)
(* A trace is [objs |-> <<[mem, pkg], [mem, pkg]>>, events |-> <<...>>];   *)
(* events: [op |-> "has"|"get", o, p, sp, n, err, found(, blob)],          *)
(*         [op |-> "scripts"|"md5sums", o, err, map],                      *)
(*         [op |-> "debcontrol", o, err, blob], [op |-> "mutate"],         *)
(*         [op |-> "reopen", o, pkg]  (same member list, new content),     *)
(*         [op |-> "readbegin", o, p, sp, n, err, found] get_file + head,  *)
(*         [op |-> "readend", o, err, found, blob]  head + remainder,      *)
(*         [op |-> "ar", o, kind, w, err]  ArFile-level call naming the    *)
(*            member of part w ("info": debian-binary / no member named),  *)
(*         [op |-> "fault", o, q(, p, sp, n), exc]  the caller's file      *)
(*            object raised during query q: exc = "caller" (the injected   *)
(*            exception itself came out) or "DebError"; anything else is   *)
(*            not a step of the specification.                             *)
(*         [op |-> "close", o, w, err]  close() / `with` exit (w = "all") *)
(*            or the close() of one part (w = "control" | "data").         *)
(* After a fault outside FaultDomOf the object is tainted: its events are  *)
(* accepted whatever they say, until it is opened again.                   *)
(***************************************************************************)
EXTENDS DebFileCache, IOUtils, TLCExt

Traces == JsonDeserialize(IOEnv.TRACE_FILE)
Diag   == IOEnv.TRACE_DIAG = "1"

VARIABLES tid, l

Tr == Traces[tid]

\* the parts Open chooses for a member list (DebFile!DOpen); both packages of a trace are valid ones
OpenOf(m) == D!DOpen(m, D!Cands)

TInit == /\ tid \in 1..Len(Traces)
         /\ l = 1
         /\ \A o \in Objs : OpenOf(Traces[tid].objs[o].mem).st = "ok"
         /\ objs = [o \in Objs |-> [pkg |-> Traces[tid].objs[o].pkg,
                                    prts |-> [ctrl |-> OpenOf(Traces[tid].objs[o].mem).ctrl,
                                              data |-> OpenOf(Traces[tid].objs[o].mem).data]]]
         /\ gen = [o \in Objs |-> 0]
         /\ tcache = {} /\ ccache = {} /\ rmemo = {} /\ last = <<>>
         /\ fh = <<>> /\ strm = {} /\ scan = [dead |-> {}, seen |-> {}] /\ taint = {}
         /\ hres = [op |-> "init"]

TStep == /\ l <= Len(Tr.events)
         /\ LET e == Tr.events[l] IN
              \/ /\ e.op = "has"
                 /\ HasFile(e.o, e.p, e.sp, e.n)
                 /\ hres'.out.err = e.err /\ hres'.out.found = e.found
              \/ /\ e.op = "get"
                 /\ GetContent(e.o, e.p, e.sp, e.n)
                 /\ hres'.out.err = e.err /\ hres'.out.found = e.found /\ hres'.out.blob = e.blob
              \/ /\ e.op = "scripts"
                 /\ Scripts(e.o)
                 /\ hres'.out.err = e.err /\ hres'.out.map = e.map
              \/ /\ e.op = "md5sums"
                 /\ Md5sums(e.o)
                 /\ hres'.out.err = e.err /\ hres'.out.map = e.map
              \/ /\ e.op = "debcontrol"
                 /\ DebControl(e.o)
                 /\ hres'.out.err = e.err /\ hres'.out.blob = e.blob
              \/ /\ e.op = "mutate"
                 /\ Mutate
              \/ /\ e.op = "reopen"
                 /\ Reopen(e.o, e.pkg)
                 /\ UNCHANGED gen
              \/ /\ e.op = "readbegin"
                 /\ ReadBegin(e.o, e.p, e.sp, e.n)
                 /\ hres'.out.err = e.err /\ hres'.out.found = e.found
              \/ /\ e.op = "readend"
                 /\ fh # <<>> /\ fh.o = e.o
                 /\ ReadEnd
                 /\ hres'.out.err = e.err /\ hres'.out.found = e.found /\ hres'.out.blob = e.blob
              \/ /\ e.op = "ar"
                 /\ e.kind \in ArKinds /\ e.w \in ArWhich
                 /\ ArCall(e.o, e.kind, e.w)
                 /\ hres'.out.err = e.err
              \/ /\ e.op = "close"
                 /\ e.w \in CloseWhich
                 /\ Close(e.o, e.w)
                 /\ hres'.out.err = e.err
              \/ /\ e.op = "fault"
                 /\ e.exc \in FaultExc
                 /\ Fault(e.o, e.q, IF e.q \in {"has", "get", "readbegin"} THEN <<e.p, e.sp, e.n>> ELSE <<>>)
              \/ /\ e.op \in QueryOps \cup ReadOps \cup {"ar", "fault", "close"}
                 /\ e.o \in taint                       \* unspecified: whatever a tainted object says
                 /\ hres' = [op |-> "tainted", o |-> e.o]
                 /\ UNCHANGED <<objs, gen, tcache, ccache, rmemo, last, fh, strm, scan, taint>>
         /\ l' = l + 1 /\ UNCHANGED tid
         /\ (Diag => PrintT(<<"AT", tid, l>>))
         /\ (l' = Len(Tr.events) + 1 => PrintT(<<"ACCEPTED", tid>>))

TSpec == TInit /\ [][TStep]_<<hvars, tid, l>>
=============================================================================
