------------------------- MODULE TraceDebFileCache -------------------------
(***************************************************************************)
(* C07 -- trace validation of two-package histories: the harness keeps two *)
(* real DebFile objects open (same file names, different contents and      *)
(* compression), interleaves repeated queries between them, mutates the    *)
(* dictionaries it gets back and rewrites + re-opens a path; every answer  *)
(* is checked against the actions of DebFileCache.tla.                     *)
(* A trace is [objs |-> <<[mem, pkg], [mem, pkg]>>, events |-> <<...>>];   *)
(* events: [op |-> "has"|"get", o, p, sp, n, err, found(, blob)],          *)
(*         [op |-> "scripts"|"md5sums", o, err, map],                      *)
(*         [op |-> "debcontrol", o, err, blob], [op |-> "mutate"],         *)
(*         [op |-> "reopen", o, pkg]  (same member list, new content).     *)
(***************************************************************************)
EXTENDS DebFileCache, IOUtils, TLCExt

Traces == JsonDeserialize(IOEnv.TRACE_FILE)
Diag   == IOEnv.TRACE_DIAG = "1"

VARIABLES tid, l

Tr == Traces[tid]

\* the parts Open chooses for a member list (DebFile!DOpen); both packages of a trace are valid ones
OpenOf(m) == D!DOpen(m, D!Cands)

TInit == /\ tid \in 1..Len(Traces)
         /\ l = 1
         /\ \A o \in Objs : OpenOf(Traces[tid].objs[o].mem).st = "ok"
         /\ objs = [o \in Objs |-> [pkg |-> Traces[tid].objs[o].pkg,
                                    prts |-> [ctrl |-> OpenOf(Traces[tid].objs[o].mem).ctrl,
                                              data |-> OpenOf(Traces[tid].objs[o].mem).data]]]
         /\ gen = [o \in Objs |-> 0]
         /\ tcache = {} /\ ccache = {} /\ rmemo = {} /\ last = <<>>
         /\ hres = [op |-> "init"]

TStep == /\ l <= Len(Tr.events)
         /\ LET e == Tr.events[l] IN
              \/ /\ e.op = "has"
                 /\ HasFile(e.o, e.p, e.sp, e.n)
                 /\ hres'.out.err = e.err /\ hres'.out.found = e.found
              \/ /\ e.op = "get"
                 /\ GetContent(e.o, e.p, e.sp, e.n)
                 /\ hres'.out.err = e.err /\ hres'.out.found = e.found /\ hres'.out.blob = e.blob
              \/ /\ e.op = "scripts"
                 /\ Scripts(e.o)
                 /\ hres'.out.err = e.err /\ hres'.out.map = e.map
              \/ /\ e.op = "md5sums"
                 /\ Md5sums(e.o)
                 /\ hres'.out.err = e.err /\ hres'.out.map = e.map
              \/ /\ e.op = "debcontrol"
                 /\ DebControl(e.o)
                 /\ hres'.out.err = e.err /\ hres'.out.blob = e.blob
              \/ /\ e.op = "mutate"
                 /\ Mutate
              \/ /\ e.op = "reopen"
                 /\ Reopen(e.o, e.pkg)
                 /\ UNCHANGED gen
         /\ l' = l + 1 /\ UNCHANGED tid
         /\ (Diag => PrintT(<<"AT", tid, l>>))
         /\ (l' = Len(Tr.events) + 1 => PrintT(<<"ACCEPTED", tid>>))

TSpec == TInit /\ [][TStep]_<<hvars, tid, l>>
=============================================================================
