\* C06 process-level layer, complete LTS for the replay (thorough tier): 2 path names, up to 2 successive
\* archives per name, up to 3 ArFile objects; closed state space
CONSTANTS
  Paths = {1, 2}
  MaxVersion = 2
  MaxObjs = 3
  SharedHandlePerPath = FALSE
  Emit = TRUE
SPECIFICATION PSpec
INVARIANT PTypeOK
INVARIANT SnapNotOlder
PROPERTY FreshSeesOwn
VIEW PView
CHECK_DEADLOCK FALSE
