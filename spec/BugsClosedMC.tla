---------------------------- MODULE BugsClosedMC ----------------------------
(***************************************************************************)
(* X14 (a) -- model-checking instance of BugsClosed: the anchors (one      *)
(* shortest word per reachable state of the product of the two control     *)
(* automata, computed by the harness from the EDGE lines of the "lts" run) *)
(* and the pieces are read from the JSON file named by X14_BND             *)
(* ([anchors |-> <<text>>, pieces |-> <<text>>], a text = sequence of      *)
(* one-character strings).                                                 *)
(***************************************************************************)
EXTENDS BugsClosed, IOUtils

MCBnd     == JsonDeserialize(IOEnv.X14_BND)
MCAnchors == ToSet(MCBnd.anchors)
MCPieces  == ToSet(MCBnd.pieces)
=============================================================================
