CONSTANTS
  PhWhich = "G"
  PhEmit = FALSE
  HMode = "std"
  HMaxChars = 2
  HMaxCls = 3
  HMaxChunks = 3
  PMode = "std"
  PMaxLen = 2
  PMaxIdx = 3
  PMaxHunks = 2
  MMode = "std"
  MRanks = 3
  MMaxLen = 2
  MMaxArgs = 3
  GMode = "perMember"
  GMaxLen = 3
  GMaxMembers = 2
SPECIFICATION PhSpec
CHECK_DEADLOCK FALSE
INVARIANT GMemberBoundaryInvisibleInv
