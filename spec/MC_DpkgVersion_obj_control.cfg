\* C03 spec-level negative control of the object layer: the harness sets StaleKey = TRUE or NoResplit = TRUE and keeps
\* ONE of the two invariants; TLC must report it violated after an assignment
CONSTANTS
  HashOnString = FALSE
  TildeOrderZero = FALSE
  StaleKey = FALSE
  NoResplit = FALSE
  PartialOnReject = FALSE
  SharedOnCopy = FALSE
  Boundary = TRUE
  MaxFull = 5
  Epochs <- E_two
  Revs <- R_two
  UpChars = {48, 49}
  MaxUp = 1
  Seps = FALSE
  Triples = FALSE
  EmitStride = 0
  EmitOffset = 0
  CheckPos = FALSE
SPECIFICATION OSpec
INVARIANT Agree
INVARIANT HashConsistent
CHECK_DEADLOCK FALSE
