CONSTANTS
  Which = "oset"
  NNodes = 4
  NLists = 0
  NSets = 1
  NNames = 3
  Values = {}
  Spells = {"C"}
  MaxSeq = 2
  Hows = {"copy", "pickle0"}
  ItKinds = {}
  FSole = FALSE
  FEmPick = FALSE
  Neg = ""
  Emit = FALSE
  WithImpl = TRUE
SPECIFICATION USpec
INVARIANT WellFormed
INVARIANT Refines
INVARIANT Structure
PROPERTY SameResult
PROPERTY ErrAtomic
PROPERTY ImplErrAtomic
PROPERTY QueriesPure
PROPERTY SetCopyEqual
PROPERTY SetFrame
VIEW UView
