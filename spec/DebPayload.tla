------------------------------ MODULE DebPayload ------------------------------
(***************************************************************************)
(* C07, payload layer -- what "the same control fields" and "the same      *)
(* md5sum map" mean for the TEXT inside the two files DebFile.tla treats   *)
(* as opaque blobs (control, md5sums).  Character-CLASS level:             *)
(*                                                                         *)
(*   x  any character that is not white space (letters, digits, '#', ':',  *)
(*      non-ASCII, U+200B, U+FEFF ...)                                     *)
(*   b  the format's blank: SPACE, TAB                                     *)
(*   v  VT, FF         -- a line boundary for str.splitlines, white space  *)
(*                        for str AND for bytes                            *)
(*   s  FS GS RS (1C..1E), NEL U+0085, LS U+2028, PS U+2029                *)
(*                     -- a line boundary for str.splitlines, white space  *)
(*                        for str only (the UTF-8 bytes are not)           *)
(*   u  US (1F), NBSP U+00A0, U+1680, U+2003, U+3000 ...                   *)
(*                     -- white space for str only, no line boundary       *)
(*   n  LF             -- THE line terminator of both file formats         *)
(*   r  CR                                                                 *)
(*                                                                         *)
(* The package format knows one line terminator, LF.  DebFile hands both   *)
(* files to their parsers as BYTES (Deb822(bytes) -> bytes.splitlines;     *)
(* tarfile member -> readlines), so a look-alike boundary (v, s) inside a  *)
(* line is payload.  Two layers, like DebFile.tla:                         *)
(*  * statement level: the packed value / file name itself, the domain     *)
(*    (ValDom / NameDom: "exact" = the statement applies, "unspec" = zone  *)
(*    where the statement is ambiguous, "outside" = not a value / name the *)
(*    format can carry);                                                   *)
(*  * code level: CodeCtl transcribes Deb822._internal_parser for bytes    *)
(*    input (bytes.splitlines, paragraph end at the first white-space-only *)
(*    line, the three regular expressions, validate_input with             *)
(*    str.splitlines) on the frame  "K: " v LF [ "L: z" LF ];  CodeMd5     *)
(*    transcribes DebControl.md5sums for the bytes flavour (encoding=None) *)
(*    and the text flavour (TextIOWrapper, universal newlines) on the      *)
(*    frame  h "  " name LF g "  " y LF.                                   *)
(* Results are sequences of ITEMS [s |-> class, i |-> position in the      *)
(* input (0: frame symbol or the LF the parser inserts)], so the harness   *)
(* can concretise every symbol by a string of any length and knows which   *)
(* piece of the input each piece of the predicted result is.               *)
(*                                                                         *)
(* Invariants (every sequence over Alphabet up to ShortLen, over           *)
(* CoreAlphabet up to MaxLen):                                             *)
(*   CtlExact   ValDom = "exact"  => debcontrol() returns K -> v (and      *)
(*              L -> z) whether the field is the last one or not           *)
(*   D1IsReject ValDom = "unspec" => ValueError (DESIGN D1: the zone is    *)
(*              exactly Deb822's own str.splitlines validation)            *)
(*   Md5Exact   NameDom = "exact" => both flavours return                  *)
(*              {name -> h, y -> g}                                        *)
(* Domains:                                                                *)
(*   value  no CR; does not end in LF; first line empty or without leading *)
(*          / trailing white space; every continuation line starts with a  *)
(*          blank and ends with a non-space character.  unspec (D1): a     *)
(*          look-alike boundary that is not followed by b / u.             *)
(*   name   non-empty, no LF / CR.  unspec: starts with white space (the   *)
(*          "sum  name" line cannot carry it: split(None, 1); the two      *)
(*          flavours also disagree about u / s there).  White space inside *)
(*          and at the END of a name is payload.                           *)
(*                                                                         *)
(* Negative controls tried (each makes TLC report the named invariant):    *)
(*   CtlSplitsLikeStr = TRUE  (bytes decoded first, then str.splitlines)   *)
(*       -> CtlExact violated by  x v u x    (MC_DebPayload_neg_split.cfg) *)
(*   Md5StripsLine = TRUE  (line.strip() instead of rstrip(CR LF))         *)
(*       -> Md5Exact violated by  x b        (MC_DebPayload_neg_strip.cfg) *)
(*   Md5TextSplitsLikeStr = TRUE  (text flavour cut with str.splitlines)   *)
(*       -> Md5Exact violated by  x v        (MC_DebPayload_neg_lines.cfg) *)
(*                                                                         *)
(* Output: one VAL and one NAME line per sequence that is "exact" or no    *)
(* longer than ShortLen; the non-exact ones carry the code-level           *)
(* prediction (diagnostic leg of the harness: never a verdict).            *)
(***************************************************************************)
EXTENDS Naturals, Sequences, FiniteSets, TLC, Json, SequencesExt

CONSTANTS Alphabet, CoreAlphabet, ShortLen, MaxLen,
          CtlSplitsLikeStr, Md5StripsLine, Md5TextSplitsLikeStr,   \* negative controls
          EmitShapes

VARIABLE pv         \* the payload under consideration (a value and a file name)

StrWs      == {"b", "v", "s", "u", "n", "r"}      \* str.isspace / \s of a str pattern
BytesWs    == {"b", "v", "n", "r"}                \* bytes.isspace / \s of a bytes pattern
StrBound   == {"v", "s", "n", "r"}                \* str.splitlines
BytesBound == {"n", "r"}                          \* bytes.splitlines; universal newlines

Item(sy, ix) == [s |-> sy, i |-> ix]
Fr(sy)       == Item(sy, 0)                       \* frame symbol / inserted LF
Tag(q)       == [j \in 1..Len(q) |-> Item(q[j], j)]
PMin(S)      == CHOOSE m \in S : \A y \in S : m <= y
PMax(S)      == CHOOSE m \in S : \A y \in S : m >= y

\* Python's splitlines(): cut at every symbol of B, CR LF is one cut, no empty line after a final cut
SplitStep(B, acc, e) ==
    IF e.s = "n" /\ acc.pr THEN [acc EXCEPT !.pr = FALSE]
    ELSE IF e.s \in B THEN [ls |-> Append(acc.ls, acc.cur), cur |-> <<>>, pr |-> (e.s = "r")]
    ELSE [ls |-> acc.ls, cur |-> Append(acc.cur, e), pr |-> FALSE]
SplitAt(text, B) ==
    LET acc == FoldLeft(LAMBDA acc, e : SplitStep(B, acc, e), [ls |-> <<>>, cur |-> <<>>, pr |-> FALSE], text)
    IN IF acc.cur = <<>> THEN acc.ls ELSE Append(acc.ls, acc.cur)

LStrip(q, W) == LET keep == {j \in 1..Len(q) : q[j].s \notin W}
                IN IF keep = {} THEN <<>> ELSE SubSeq(q, PMin(keep), Len(q))
RStrip(q, W) == LET keep == {j \in 1..Len(q) : q[j].s \notin W}
                IN IF keep = {} THEN <<>> ELSE SubSeq(q, 1, PMax(keep))
Strip(q, W)  == RStrip(LStrip(q, W), W)
AllIn(q, W)  == \A j \in 1..Len(q) : q[j].s \in W

----------------------------------------------------------------------------
(* code level: Deb822(bytes) as called by DebControl.debcontrol() *)
CtlText(v, last) ==
    <<Fr("K"), Fr("c"), Fr("b")>> \o Tag(v) \o <<Fr("n")>>
    \o (IF last THEN <<>> ELSE <<Fr("L"), Fr("c"), Fr("b"), Fr("z"), Fr("n")>>)

\* validate_input: no line (str.splitlines) after the first is empty or starts with a non-space
ValidOk(content) ==
    /\ (content = <<>> \/ content[Len(content)].s # "n")
    /\ LET ps == SplitAt(content, StrBound)
       IN \A j \in 2..Len(ps) : ps[j] # <<>> /\ ps[j][1].s \in StrWs

\* self[curkey] = content
Flush(acc) == IF acc.key = "" \/ acc.err THEN acc
              ELSE IF ~ValidOk(acc.content) THEN [acc EXCEPT !.err = TRUE]
              ELSE [acc EXCEPT !.fields = Append(@, [k |-> acc.key, val |-> acc.content])]

\* one line of the paragraph: _single / _multi (key, colon, stripped data), _multidata (white space
\* first, at least one more character: the WHOLE line is appended after an LF), anything else ignored
ParseStep(acc, line) ==
    IF line # <<>> /\ line[1].s \in {"K", "L"}
    THEN LET f == Flush(acc)
         IN [f EXCEPT !.key = line[1].s, !.content = Strip(SubSeq(line, 3, Len(line)), StrWs)]
    ELSE IF Len(line) >= 2 /\ line[1].s \in StrWs /\ acc.key # ""
    THEN [acc EXCEPT !.content = @ \o <<Fr("n")>> \o line]
    ELSE acc

\* split_gpg_and_payload: the paragraph ends at the first line that is empty or bytes-white-space only
Paragraph(lines) ==
    LET blank == {j \in 1..Len(lines) : AllIn(lines[j], BytesWs)}
    IN IF blank = {} THEN lines ELSE SubSeq(lines, 1, PMin(blank) - 1)

CodeCtl(v, last) ==
    LET lines == SplitAt(CtlText(v, last), IF CtlSplitsLikeStr THEN StrBound ELSE BytesBound)
        acc   == Flush(FoldLeft(LAMBDA a, ln : ParseStep(a, ln), [fields |-> <<>>, key |-> "", content |-> <<>>, err |-> FALSE],
                                Paragraph(lines)))
    IN IF acc.err THEN [err |-> "ValueError", fields |-> <<>>] ELSE [err |-> "", fields |-> acc.fields]

----------------------------------------------------------------------------
(* code level: DebControl.md5sums(encoding) *)
Md5Text(nm) == <<Fr("h"), Fr("b"), Fr("b")>> \o Tag(nm) \o <<Fr("n"), Fr("g"), Fr("b"), Fr("b"), Fr("y"), Fr("n")>>

FlavourWs(fl) == IF fl = "bytes" THEN BytesWs ELSE StrWs
\* readlines(): bytes -- LF only; text -- TextIOWrapper with universal newlines
ReadLines(text, fl) == SplitAt(text, IF fl = "bytes" THEN {"n"}
                                     ELSE IF Md5TextSplitsLikeStr THEN StrBound ELSE BytesBound)

\* line.split(None, 1)
SplitOnce(line, W) ==
    LET a    == LStrip(line, W)
        cuts == {j \in 1..Len(a) : a[j].s \in W}
    IN IF a = <<>> \/ cuts = {} THEN [ok |-> FALSE, tok |-> <<>>, rest |-> <<>>]
       ELSE LET rest == LStrip(SubSeq(a, PMin(cuts), Len(a)), W)
            IN [ok |-> rest # <<>>, tok |-> SubSeq(a, 1, PMin(cuts) - 1), rest |-> rest]

Md5Step(fl, acc, line) ==
    LET W  == FlavourWs(fl)
        ln == IF Md5StripsLine THEN Strip(line, W) ELSE RStrip(line, {"n", "r"})
        sp == SplitOnce(ln, W)
    IN IF acc.err \/ (Md5StripsLine /\ ln = <<>>) THEN acc
       ELSE IF ~sp.ok THEN [acc EXCEPT !.err = TRUE]
       ELSE [acc EXCEPT !.entries = Append(@, [key |-> sp.rest, sum |-> sp.tok])]

CodeMd5(nm, fl) ==
    LET acc == FoldLeft(LAMBDA a, ln : Md5Step(fl, a, ln), [entries |-> <<>>, err |-> FALSE], ReadLines(Md5Text(nm), fl))
    IN IF acc.err THEN [err |-> "ValueError", entries |-> <<>>] ELSE [err |-> "", entries |-> acc.entries]

----------------------------------------------------------------------------
(* statement level *)
\* the lines of the FORMAT: cut at LF only, nothing dropped
FSplit(q) == LET acc == FoldLeft(LAMBDA a, e : IF e = "n" THEN [ls |-> Append(a.ls, a.cur), cur |-> <<>>]
                                               ELSE [ls |-> a.ls, cur |-> Append(a.cur, e)],
                                 [ls |-> <<>>, cur |-> <<>>], q)
             IN Append(acc.ls, acc.cur)

InDomainVal(v) ==
    /\ \A j \in 1..Len(v) : v[j] # "r"
    /\ LET fl == FSplit(v)
       IN /\ fl[1] = <<>> \/ (fl[1][1] = "x" /\ fl[1][Len(fl[1])] = "x")
          /\ \A j \in 2..Len(fl) : Len(fl[j]) >= 2 /\ fl[j][1] = "b" /\ fl[j][Len(fl[j])] = "x"
\* DESIGN D1: Deb822's own validation cuts values with str.splitlines
D1Zone(v) == \E j \in 1..Len(v) : v[j] \in {"v", "s"} /\ (j = Len(v) \/ v[j + 1] \notin {"b", "u"})
ValDom(v) == IF ~InDomainVal(v) THEN "outside" ELSE IF D1Zone(v) THEN "unspec" ELSE "exact"

InDomainName(nm) == nm # <<>> /\ \A j \in 1..Len(nm) : nm[j] \notin {"n", "r"}
NameDom(nm) == IF ~InDomainName(nm) THEN "outside" ELSE IF nm[1] \in StrWs THEN "unspec" ELSE "exact"

\* the parsed text is the packed text: same classes, every piece from its own place (LF may be the inserted one)
SameAs(items, q) == /\ Len(items) = Len(q)
                    /\ \A j \in 1..Len(q) : /\ items[j].s = q[j]
                                            /\ items[j].i = j \/ (items[j].i = 0 /\ q[j] = "n")

CtlExactFor(v) == \A last \in BOOLEAN :
    LET r == CodeCtl(v, last)
    IN /\ r.err = ""
       /\ Len(r.fields) = (IF last THEN 1 ELSE 2)
       /\ r.fields[1].k = "K" /\ SameAs(r.fields[1].val, v)
       /\ ~last => r.fields[2] = [k |-> "L", val |-> <<Fr("z")>>]

Md5ExactFor(nm) == \A fl \in {"bytes", "text"} :
    CodeMd5(nm, fl) = [err |-> "", entries |-> <<[key |-> Tag(nm), sum |-> <<Fr("h")>>],
                                                 [key |-> <<Fr("y")>>, sum |-> <<Fr("g")>>]>>]

CtlExact   == ValDom(pv) = "exact" => CtlExactFor(pv)
D1IsReject == ValDom(pv) = "unspec" => \A last \in BOOLEAN : CodeCtl(pv, last).err = "ValueError"
Md5Exact   == NameDom(pv) = "exact" => Md5ExactFor(pv)

----------------------------------------------------------------------------
Allowed(q) == Len(q) <= ShortLen \/ \A j \in 1..Len(q) : q[j] \in CoreAlphabet

Init == pv = <<>>
Next == /\ Len(pv) < MaxLen
        /\ \E a \in Alphabet : Allowed(Append(pv, a)) /\ pv' = Append(pv, a)
Spec == Init /\ [][Next]_pv

\* emission (an invariant: evaluated once per distinct sequence)
ValLine  == IF ValDom(pv) = "exact" THEN [v |-> pv, dom |-> "exact"]
            ELSE [v |-> pv, dom |-> ValDom(pv), mid |-> CodeCtl(pv, FALSE), last |-> CodeCtl(pv, TRUE)]
NameLine == IF NameDom(pv) = "exact" THEN [nm |-> pv, dom |-> "exact"]
            ELSE [nm |-> pv, dom |-> NameDom(pv), bytes |-> CodeMd5(pv, "bytes"), text |-> CodeMd5(pv, "text")]
Shapes == EmitShapes =>
    /\ (ValDom(pv) = "exact" \/ Len(pv) <= ShortLen) => PrintT(<<"VAL", ToJson(ValLine)>>)
    /\ (NameDom(pv) = "exact" \/ Len(pv) <= ShortLen) => PrintT(<<"NAME", ToJson(NameLine)>>)
=============================================================================
