---------------------------- MODULE PackageFile ----------------------------
(***************************************************************************)
(* X01 (extra) -- the PackageFile reader of lib/debian/debian_support.py   *)
(* (class PackageFile: __iter__, _aux_read_line, raise_syntax_error; the   *)
(* regular expressions re_field / re_continuation).  update_file reads the *)
(* pdiff Index with it.                                                    *)
(*                                                                         *)
(* STATEMENT.  For every file made of paragraphs of field lines            *)
(* `Name:value` (Name = a letter followed by at least one letter, digit,   *)
(* '-' or '_'; the name ends at the FIRST colon) each followed by zero or  *)
(* more continuation lines (first character blank or tab, at least one     *)
(* other character), paragraphs separated by exactly one blank line (only  *)
(* blanks / tabs), iterating PackageFile yields exactly the paragraphs, in *)
(* order, each a NEW list of (name, value) pairs in file order, where      *)
(* value = the text after the colon and every continuation line, each      *)
(* stripped of blanks and tabs at both ends and joined by "\n"; a          *)
(* continuation line that is just " ." stands for an empty line.  The      *)
(* first line that is not allowed where it stands -- a line that is        *)
(* neither field, continuation nor blank; a continuation line without a    *)
(* field before it in the paragraph; a blank line that does not end a      *)
(* paragraph (first line of the file, or directly after a blank line) --   *)
(* makes the iteration raise ParseError carrying the file name given to    *)
(* the constructor, the 1-based number of that line and the message        *)
(* 'expected package record' (blank line) / 'expected package field'       *)
(* (otherwise), after the paragraphs completed by a blank line before it   *)
(* have been yielded and before anything else is.  The outcome depends     *)
(* only on the text: not on str vs. bytes lines (bytes are decoded with    *)
(* the reader's encoding), on the kind of file object or how it buffers,   *)
(* on a blank line / newline at the very end, on any payload length or     *)
(* count, on other readers alive or iterated in between, or on what the    *)
(* caller does to lists yielded earlier.                                   *)
(*                                                                         *)
(* UNSPECIFIED (executed, any outcome that is a result or a ParseError is  *)
(* accepted): one-character names ("A: b": re_field wants two); a          *)
(* white-space-only last line without newline; " ." followed by blanks;    *)
(* white space other than blank / tab (CR, VT, FF, FS..US, NEL, NBSP,      *)
(* U+2000..) at the beginning or end of a line or of a value (the regular  *)
(* expressions strip \s there; strictly inside a value it is ordinary      *)
(* text, class X); input that is not valid in the reader's encoding;       *)
(* iterating a reader twice.                                               *)
(*                                                                         *)
(* MODEL.  Two levels.                                                     *)
(* (1) Character level: a line body is a sequence of RUNS [c, n] = n       *)
(*     characters of class c: L letter, D digit, H '-' '_', C ':', S blank *)
(*     / tab, P '.', X any other non-white character.  Classify(rs, nl)    *)
(*     (nl: the line is terminated by a newline) is what the two regular   *)
(*     expressions and the blank test decide: [c, nlen, lo, hi] = line     *)
(*     class (Blank Field Cont Dot Junk Unspec), length of the name, and   *)
(*     the half-open character span of the stripped text.  It only adds    *)
(*     run lengths, so it is independent of every length (size stress:     *)
(*     the harness hands TLC runs of 8193 or 65537 characters).            *)
(*     ESpec enumerates EVERY line of <= MaxLen characters over the seven  *)
(*     classes, with and without newline: EShape (the declarative reading  *)
(*     of the result, character by character), ERunAgrees (merging         *)
(*     adjacent runs does not change the result), EPad (blanks appended /  *)
(*     inserted after the colon do not change class or text); one CASE     *)
(*     line per line, and the CTX table: the outcome of the files          *)
(*     <Zz: v, line, Yy: w> and <line, Yy: w> per class of the line.       *)
(* (2) Line level: the reader automaton, one BRANCH per branch of the      *)
(*     loops of __iter__ (G = guard, Apply = effect, BranchOf = decision   *)
(*     function): Failed BlankNoRecord BlankEndsParagraph FieldFirst       *)
(*     FieldNext ContAppend DotAppend ContOrphan JunkLine; Finish = end    *)
(*     of file.  BSpec enumerates EVERY file of <= MaxLines lines over     *)
(*     {Field with text, Field without, Cont, Dot, Blank, Junk}, one action *)
(*     per branch: BTotality (guards total and exclusive, agree with       *)
(*     BranchOf), BRunAgrees, BAccepts (no error <=> the file matches the  *)
(*     grammar WF), BRoundTrip (Render(Parse(D)) = D), BFinalBlank,        *)
(*     BErrorLine (line number = first line where the grammar fails, kind  *)
(*     by its class, output = the paragraphs completed before, later lines *)
(*     irrelevant), BShape (never an empty paragraph / value); one CASE    *)
(*     line per file.  BigSpec: a few LARGE uniform files (1000            *)
(*     paragraphs, 257 fields, 1000 continuation lines, errors beyond line *)
(*     65536) for the same invariants.                                     *)
(* Negative controls tried (TLC reports the named invariant):              *)
(*   TrimEnd = FALSE      -> EShape      (value keeps trailing blanks)     *)
(*   LenientBlank = TRUE  -> BAccepts    (extra blank lines are skipped)   *)
(*   FlushOnError = TRUE  -> BErrorLine  (the unfinished paragraph is      *)
(*                                        yielded before the error)        *)
(* Calls, live readers and caller-side mutation: PackageFileCalls.tla.     *)
(* Trace validation of recorded executions: TracePackageFile.tla.          *)
(***************************************************************************)
EXTENDS Naturals, Sequences, FiniteSets, TLC, Json

CONSTANTS NoText,        \* token of an empty text / absent name (0 or "")
          TrimEnd,       \* design: TRUE
          LenientBlank,  \* design: FALSE
          FlushOnError,  \* design: FALSE
          MaxLen,        \* ESpec: characters per enumerated line
          MaxLines,      \* BSpec: lines per enumerated file
          BigSel,        \* BigSpec: indexes into BigTable
          Emit

VARIABLES xln,    \* ESpec: the line [cs, nl] under construction
          xrd,    \* BSpec: reader state
          xdoc    \* BSpec: the file read so far

vars == <<xln, xrd, xdoc>>

----------------------------------------------------------------------------
(* (1) character level *)
CharClasses == {"L", "D", "H", "C", "S", "P", "X"}
NameCls     == {"L", "D", "H"}
Rn(c, n)    == [c |-> c, n |-> n]

PfMin(S) == CHOOSE x \in S : \A y \in S : x <= y
PfMax(S) == CHOOSE x \in S : \A y \in S : x >= y

\* number of characters before run i  (OffR(rs, Len(rs) + 1) = length of the body)
RECURSIVE OffR(_, _)
OffR(rs, i) == IF i <= 1 THEN 0 ELSE OffR(rs, i - 1) + rs[i - 1].n
Tot(rs)     == OffR(rs, Len(rs) + 1)

Res(c, nlen, lo, hi) == [c |-> c, nlen |-> nlen, lo |-> lo, hi |-> hi]
UnspecRes == Res("Unspec", 0, 0, 0)

Classify(rs, nl) ==
  LET n    == Len(rs)
      nonS == {i \in 1..n : rs[i].c # "S"}
  IN IF nonS = {} THEN (IF nl THEN Res("Blank", 0, 0, 0) ELSE UnspecRes)
     ELSE LET f    == PfMin(nonS)
              l    == PfMax(nonS)
              endT == IF TrimEnd THEN OffR(rs, l + 1) ELSE Tot(rs)
          IN IF rs[1].c = "S"
             THEN IF f = l /\ rs[f] = Rn("P", 1)
                  THEN (IF l = n THEN Res("Dot", 0, OffR(rs, f), OffR(rs, f) + 1) ELSE UnspecRes)
                  ELSE Res("Cont", 0, OffR(rs, f), endT)
             ELSE LET m == PfMax({j \in 0..n : \A i \in 1..j : rs[i].c \in NameCls}) IN
                  IF rs[1].c = "L" /\ m < n /\ rs[m + 1].c = "C"
                  THEN LET nlen  == OffR(rs, m + 1)
                           after == {i \in nonS : i > m + 1}
                           many  == rs[m + 1].n > 1            \* "Ab::c": the value starts with a colon
                           lo    == IF many \/ after = {} THEN nlen + 1 ELSE OffR(rs, PfMin(after))
                           hi    == IF many \/ after # {} THEN endT ELSE nlen + 1
                       IN IF nlen >= 2 THEN Res("Field", nlen, lo, hi) ELSE UnspecRes
                  ELSE Res("Junk", 0, 0, 0)

\* ---- declarative reading, character by character (ESpec only: short lines)
RECURSIVE Expand(_)
Expand(rs) == IF rs = <<>> THEN <<>> ELSE [i \in 1..Head(rs).n |-> Head(rs).c] \o Expand(Tail(rs))
\* E = Expand(rs): E[o + 1] is the class of the character at offset o
AllBlank(E, a, b) == \A o \in a..b : E[o + 1] = "S"
HasNameAt(E, k) == /\ k >= 1 /\ k < Len(E)
                   /\ E[1] = "L"
                   /\ \A o \in 0..(k - 1) : E[o + 1] \in NameCls
                   /\ E[k + 1] = "C"
ShapeOK(rs, nl) ==
  LET r == Classify(rs, nl)
      E == Expand(rs)
      T == Len(E)
  IN /\ T = Tot(rs)
     /\ CASE r.c = "Blank"  -> AllBlank(E, 0, T - 1) /\ nl
          [] r.c = "Field"  -> /\ r.nlen >= 2 /\ HasNameAt(E, r.nlen)
                               /\ r.nlen + 1 <= r.lo /\ r.lo <= r.hi /\ r.hi <= T
                               /\ AllBlank(E, r.nlen + 1, r.lo - 1) /\ AllBlank(E, r.hi, T - 1)
                               /\ (r.lo < r.hi => E[r.lo + 1] # "S" /\ E[r.hi] # "S")
                               /\ (r.lo = r.hi => r.lo = r.nlen + 1)
          [] r.c = "Cont"   -> /\ T > 0 /\ E[1] = "S" /\ r.lo < r.hi /\ r.hi <= T
                               /\ AllBlank(E, 0, r.lo - 1) /\ AllBlank(E, r.hi, T - 1)
                               /\ E[r.lo + 1] # "S" /\ E[r.hi] # "S"
                               /\ ~(r.hi = r.lo + 1 /\ E[r.lo + 1] = "P")
          [] r.c = "Dot"    -> /\ r.lo >= 1 /\ r.hi = r.lo + 1 /\ r.hi = T
                               /\ E[r.lo + 1] = "P" /\ AllBlank(E, 0, r.lo - 1)
          [] r.c = "Junk"   -> T > 0 /\ E[1] # "S" /\ ~\E k \in 1..(T - 1) : HasNameAt(E, k)
          [] r.c = "Unspec" -> \/ AllBlank(E, 0, T - 1) /\ ~nl
                               \/ HasNameAt(E, 1)
                               \/ \E o \in 1..(T - 2) : /\ E[o + 1] = "P"
                                                        /\ AllBlank(E, 0, o - 1) /\ AllBlank(E, o + 1, T - 1)

RECURSIVE MergeRuns(_)
MergeRuns(rs) == IF Len(rs) <= 1 THEN rs
                 ELSE LET m == MergeRuns(Tail(rs)) IN
                      IF Head(rs).c = Head(m).c THEN <<Rn(Head(rs).c, Head(rs).n + Head(m).n)>> \o Tail(m)
                      ELSE <<Head(rs)>> \o m

----------------------------------------------------------------------------
(* (2) line level: the reader *)
LineClasses == {"Blank", "Field", "Cont", "Dot", "Junk"}
Ln(c, k, t) == [c |-> c, k |-> k, t |-> t]
BlankLn == Ln("Blank", NoText, NoText)
DotLn   == Ln("Dot", NoText, NoText)
JunkLn  == Ln("Junk", NoText, NoText)

NoErr        == [kind |-> "none", lineno |-> 0]
Err(kind, n) == [kind |-> kind, lineno |-> n]

\* out = paragraphs yielded so far; pkg / open / key / content = the locals of __iter__
RInit == [err |-> NoErr, out |-> <<>>, pkg |-> <<>>, open |-> FALSE, key |-> NoText, content |-> <<>>, lineno |-> 0]

Flush(s) == IF s.open THEN Append(s.pkg, [k |-> s.key, v |-> s.content]) ELSE s.pkg

Branches == {"Failed", "BlankNoRecord", "BlankEndsParagraph", "FieldFirst", "FieldNext", "ContAppend",
             "DotAppend", "ContOrphan", "JunkLine"}

G(b, s, c) ==
  CASE b = "Failed"             -> s.err.kind # "none"
    [] b = "BlankNoRecord"      -> s.err.kind = "none" /\ c = "Blank" /\ ~s.open
    [] b = "BlankEndsParagraph" -> s.err.kind = "none" /\ c = "Blank" /\ s.open
    [] b = "FieldFirst"         -> s.err.kind = "none" /\ c = "Field" /\ ~s.open
    [] b = "FieldNext"          -> s.err.kind = "none" /\ c = "Field" /\ s.open
    [] b = "ContAppend"         -> s.err.kind = "none" /\ c = "Cont" /\ s.open
    [] b = "DotAppend"          -> s.err.kind = "none" /\ c = "Dot" /\ s.open
    [] b = "ContOrphan"         -> s.err.kind = "none" /\ c \in {"Cont", "Dot"} /\ ~s.open
    [] b = "JunkLine"           -> s.err.kind = "none" /\ c = "Junk"

\* the same decision in the order of the tests of the code
BranchOf(s, c) ==
  IF s.err.kind # "none" THEN "Failed"
  ELSE IF s.open /\ c = "Cont" THEN "ContAppend"              \* inner loop: re_continuation
  ELSE IF s.open /\ c = "Dot" THEN "DotAppend"
  ELSE IF c = "Blank" THEN (IF s.open THEN "BlankEndsParagraph" ELSE "BlankNoRecord")
  ELSE IF c = "Field" THEN (IF s.open THEN "FieldNext" ELSE "FieldFirst")
  ELSE IF c = "Junk" THEN "JunkLine"
  ELSE "ContOrphan"

Fail(s, kind) == [s EXCEPT !.lineno = @ + 1, !.err = Err(kind, s.lineno + 1),
                           !.out = IF FlushOnError /\ s.open THEN Append(@, Flush(s)) ELSE @,
                           !.open = FALSE, !.pkg = <<>>, !.key = NoText, !.content = <<>>]

Apply(b, s, ln) ==
  CASE b = "Failed"             -> s
    [] b = "BlankNoRecord"      -> IF LenientBlank THEN [s EXCEPT !.lineno = @ + 1] ELSE Fail(s, "record")
    [] b = "BlankEndsParagraph" -> [s EXCEPT !.lineno = @ + 1, !.out = Append(@, Flush(s)), !.open = FALSE,
                                             !.pkg = <<>>, !.key = NoText, !.content = <<>>]
    [] b = "FieldFirst"         -> [s EXCEPT !.lineno = @ + 1, !.open = TRUE, !.key = ln.k, !.content = <<ln.t>>]
    [] b = "FieldNext"          -> [s EXCEPT !.lineno = @ + 1, !.pkg = Flush(s), !.key = ln.k, !.content = <<ln.t>>]
    [] b = "ContAppend"         -> [s EXCEPT !.lineno = @ + 1, !.content = Append(@, ln.t)]
    [] b = "DotAppend"          -> [s EXCEPT !.lineno = @ + 1, !.content = Append(@, NoText)]
    [] b = "ContOrphan"         -> Fail(s, "field")
    [] b = "JunkLine"           -> Fail(s, "field")

StepF(s, ln) == Apply(BranchOf(s, ln.c), s, ln)

\* the automaton over ls[lo..hi], split in halves (recursion depth log n: large files stay cheap)
RECURSIVE RunRange(_, _, _, _)
RunRange(s, ls, lo, hi) == IF lo > hi THEN s
                           ELSE IF lo = hi THEN StepF(s, ls[lo])
                           ELSE LET mid  == (lo + hi) \div 2
                                    left == RunRange(s, ls, lo, mid)
                                IN \* (the test makes TLC evaluate the left half now, see Deb822Reader)
                                   IF left.open \in BOOLEAN THEN RunRange(left, ls, mid + 1, hi) ELSE left
Run(ls) == RunRange(RInit, ls, 1, Len(ls))

\* end of file: the paragraph in progress is yielded
Finish(s) == IF s.err.kind = "none" /\ s.open THEN Append(s.out, Flush(s)) ELSE s.out
Result(s) == [out |-> Finish(s), err |-> s.err]
Parse(ls) == Result(Run(ls))

\* ---- the grammar, written independently of the automaton
WF(D) == \A i \in 1..Len(D) :
            /\ D[i].c # "Junk"
            /\ D[i].c = "Blank" => (i > 1 /\ D[i - 1].c # "Blank")
            /\ D[i].c \in {"Cont", "Dot"} => (i > 1 /\ D[i - 1].c \in {"Field", "Cont", "Dot"})

RECURSIVE FlatR(_, _, _)
FlatR(ss, lo, hi) == IF lo > hi THEN <<>>
                     ELSE IF lo = hi THEN ss[lo]
                     ELSE LET mid == (lo + hi) \div 2 IN FlatR(ss, lo, mid) \o FlatR(ss, mid + 1, hi)
Flat(ss) == FlatR(ss, 1, Len(ss))

RenderField(fl) == <<Ln("Field", fl.k, fl.v[1])>>
                   \o [j \in 1..(Len(fl.v) - 1) |-> IF fl.v[j + 1] = NoText THEN DotLn ELSE Ln("Cont", NoText, fl.v[j + 1])]
RenderPara(p)   == Flat([i \in 1..Len(p) |-> RenderField(p[i])])
Render(P, fb)   == Flat([i \in 1..Len(P) |-> IF i = 1 THEN RenderPara(P[i]) ELSE <<BlankLn>> \o RenderPara(P[i])])
                   \o (IF fb THEN <<BlankLn>> ELSE <<>>)

EndsBlank(D) == D # <<>> /\ D[Len(D)].c = "Blank"
\* the paragraphs of a well-formed file that are followed by their blank line
Completed(D) == LET o == Parse(D).out IN
                IF D = <<>> \/ EndsBlank(D) THEN o ELSE SubSeq(o, 1, Len(o) - 1)

----------------------------------------------------------------------------
(* ESpec: every line *)
\* the line in context: after a field (and, terminated lines, before one) / as the first line of the file.
\* The outcome depends on the class and on "the text is empty" only: CTX table, printed once.
CtxA == <<Ln("Field", "Zz", "v")>>
CtxZ == <<Ln("Field", "Yy", "w")>>
LineOf(c, e) == CASE c = "Field" -> Ln("Field", "K", IF e THEN NoText ELSE "T")
                  [] c = "Cont"  -> Ln("Cont", NoText, "T")
                  [] c = "Dot"   -> DotLn
                  [] c = "Blank" -> BlankLn
                  [] OTHER       -> JunkLn
CtxEntry(c, e, nl) == LET z == IF nl THEN CtxZ ELSE <<>> IN
                      [c |-> c, e |-> e, nl |-> nl,
                       after |-> Parse(CtxA \o <<LineOf(c, e)>> \o z),
                       first |-> Parse(<<LineOf(c, e)>> \o z)]
CtxKeys  == {<<c, e, nl>> : c \in LineClasses, e \in BOOLEAN, nl \in BOOLEAN}
CtxLine  == (Emit /\ MaxLen > 0) => PrintT(<<"CTX", ToJson({CtxEntry(x[1], x[2], x[3]) : x \in CtxKeys})>>)
ASSUME CtxLine

EInit == /\ xln \in {[cs |-> <<>>, nl |-> b] : b \in BOOLEAN}
         /\ xrd = RInit /\ xdoc = <<>>
ENext == /\ Len(xln.cs) < MaxLen
         /\ \E c \in CharClasses : xln' = [xln EXCEPT !.cs = Append(@, Rn(c, 1))]
         /\ UNCHANGED <<xrd, xdoc>>
ESpec == EInit /\ [][ENext]_vars

IsLine  == xln.cs # <<>> \/ xln.nl
EShape  == IsLine => ShapeOK(xln.cs, xln.nl)
ERunAgrees == IsLine => Classify(MergeRuns(xln.cs), xln.nl) = Classify(xln.cs, xln.nl)
InsertRun(rs, i, x) == SubSeq(rs, 1, i) \o <<x>> \o SubSeq(rs, i + 1, Len(rs))
EPad == IsLine =>
        LET r == Classify(xln.cs, xln.nl) IN
          /\ r.c \in {"Field", "Cont"} => Classify(Append(xln.cs, Rn("S", 1)), xln.nl) = r
          /\ r.c = "Field" => Classify(InsertRun(xln.cs, r.nlen + 1, Rn("S", 1)), xln.nl)
                                = IF r.lo = r.hi THEN r ELSE [r EXCEPT !.lo = @ + 1, !.hi = @ + 1]
          /\ r.c = "Cont"  => Classify(<<Rn("S", 1)>> \o xln.cs, xln.nl) = [r EXCEPT !.lo = @ + 1, !.hi = @ + 1]
EmitLine == (Emit /\ IsLine) =>
            LET r == Classify(xln.cs, xln.nl) IN
            PrintT(<<"CASE", ToJson(<<[i \in 1..Len(xln.cs) |-> xln.cs[i].c], xln.nl, r.c, r.nlen, r.lo, r.hi>>)>>)

----------------------------------------------------------------------------
(* BSpec: every file, one action per branch *)
\* (names and texts are numbered by position: every field line can be told from the others in the outcome)
Alphabet(pos) == {Ln("Field", 100 + pos, 10 + pos), Ln("Field", 200 + pos, NoText), Ln("Cont", NoText, 10 + pos),
                  DotLn, BlankLn, JunkLn}

BInit == xrd = RInit /\ xdoc = <<>> /\ xln = [cs |-> <<>>, nl |-> TRUE]
BNext == /\ Len(xdoc) < MaxLines
         /\ \E ln \in Alphabet(Len(xdoc) + 1), b \in Branches :
               /\ G(b, xrd, ln.c)
               /\ xrd' = Apply(b, xrd, ln)
               /\ xdoc' = Append(xdoc, ln)
         /\ UNCHANGED xln
BSpec == BInit /\ [][BNext]_vars

BTotality  == \A c \in LineClasses : /\ Cardinality({b \in Branches : G(b, xrd, c)}) = 1
                                     /\ G(BranchOf(xrd, c), xrd, c)
BRunAgrees == xrd = Run(xdoc)
BShape     == /\ ~xrd.open => (xrd.pkg = <<>> /\ xrd.content = <<>>)
              /\ xrd.open => xrd.content # <<>>
              /\ xrd.lineno = (IF xrd.err.kind = "none" THEN Len(xdoc) ELSE xrd.err.lineno)
              /\ \A i \in 1..Len(xrd.out) : xrd.out[i] # <<>> /\ \A j \in 1..Len(xrd.out[i]) : xrd.out[i][j].v # <<>>
BAccepts   == (Parse(xdoc).err.kind = "none") <=> WF(xdoc)
BRoundTrip == WF(xdoc) => Render(Parse(xdoc).out, EndsBlank(xdoc)) = xdoc
BFinalBlank == (WF(xdoc) /\ xdoc # <<>> /\ ~EndsBlank(xdoc)) => Parse(Append(xdoc, BlankLn)) = Parse(xdoc)
FirstBad(D) == PfMin({i \in 1..Len(D) : ~WF(SubSeq(D, 1, i))})
BErrorLine == ~WF(xdoc) =>
              LET i == FirstBad(xdoc)
                  r == Parse(xdoc)
              IN /\ r.err = Err(IF xdoc[i].c = "Blank" THEN "record" ELSE "field", i)
                 /\ r.out = Completed(SubSeq(xdoc, 1, i - 1))
                 /\ r = Parse(SubSeq(xdoc, 1, i))
EmitCase == Emit => PrintT(<<"CASE", ToJson([lines |-> xdoc, out |-> Parse(xdoc).out, err |-> Parse(xdoc).err,
                                             n |-> Len(xdoc)])>>)

----------------------------------------------------------------------------
(* BigSpec: size stress -- a few LARGE uniform files.  The automaton is the same; what is checked *)
(* is that nothing in the specification depends on a count, and the harness gets TLC's expected    *)
(* outcome for files of that size.  <<paragraphs, fields, continuation lines, tail>>: tail 0 = the  *)
(* file ends with the last field, 1 = final blank line, 2 = two blank lines (error 'record' at the *)
(* last line), 3 = junk line after the last paragraph's blank line, 4 = junk inside the last       *)
(* paragraph, 5 = orphan continuation line after the final blank line.                             *)
BigTable == << <<10, 1, 0, 0>>, <<100, 2, 1, 1>>, <<1000, 1, 0, 2>>, <<1, 10, 1, 3>>, <<1, 100, 0, 4>>,
               <<1, 1, 1000, 0>>, <<2, 2, 101, 5>>, <<10, 10, 2, 2>>, <<33, 3, 9, 3>>, <<1, 257, 1, 1>>,
               <<257, 1, 1, 4>>, <<3, 17, 16, 0>>, <<1, 2, 32767, 2>>, <<32769, 1, 0, 3>> >>
TextId(t, p, f, j) == (p * (t[2] + 1) + f) * (t[3] + 1) + j + 10      \* about the size of the file: far below 2^31
BigValue(t, p, f) == <<IF (p + f) % 3 = 0 THEN NoText ELSE TextId(t, p, f, 0)>>
                     \o [j \in 1..(IF (p + f) % 2 = 0 THEN t[3] ELSE 0) |-> IF j % 7 = 3 THEN NoText ELSE TextId(t, p, f, j)]
BigParas(t) == [p \in 1..t[1] |-> [f \in 1..t[2] |-> [k |-> 1000000 + TextId(t, p, f, 0), v |-> BigValue(t, p, f)]]]
BigTail(t)  == CASE t[4] = 0 -> <<>>
                 [] t[4] = 1 -> <<BlankLn>>
                 [] t[4] = 2 -> <<BlankLn, BlankLn>>
                 [] t[4] = 3 -> <<BlankLn, JunkLn, Ln("Field", 1, 5)>>
                 [] t[4] = 4 -> <<JunkLn, BlankLn>>
                 [] t[4] = 5 -> <<BlankLn, Ln("Cont", NoText, 6), BlankLn>>
BigFile(t)  == Render(BigParas(t), FALSE) \o BigTail(t)

\* one dummy initial state per selected entry (so that TLC's workers share the large files)
BigInit == /\ xrd \in {[RInit EXCEPT !.lineno = i] : i \in BigSel}
           /\ xdoc = <<>> /\ xln = [cs |-> <<>>, nl |-> TRUE]
BigNext == /\ xdoc = <<>> /\ xdoc' = BigFile(BigTable[xrd.lineno]) /\ UNCHANGED <<xrd, xln>>
BigSpec == BigInit /\ [][BigNext]_vars
BigInvariant ==
    xdoc # <<>> =>
    LET t == BigTable[xrd.lineno]
        P == BigParas(t)
        r == Parse(xdoc)
        n == Len(xdoc)
    IN /\ (t[4] \in {0, 1} => r = [out |-> P, err |-> NoErr])
       /\ (t[4] = 2 => r = [out |-> P, err |-> Err("record", n)])
       /\ (t[4] = 3 => r = [out |-> P, err |-> Err("field", n - 1)])
       /\ (t[4] = 4 => r = [out |-> SubSeq(P, 1, Len(P) - 1), err |-> Err("field", n - 1)])
       /\ (t[4] = 5 => r = [out |-> P, err |-> Err("field", n - 1)])
       /\ (r.err.kind = "none" <=> WF(xdoc))
EmitBig == (Emit /\ xdoc # <<>>) =>
           PrintT(<<"CASE", ToJson([lines |-> xdoc, out |-> Parse(xdoc).out, err |-> Parse(xdoc).err,
                                    n |-> Len(xdoc), dims |-> BigTable[xrd.lineno]])>>)
=============================================================================
