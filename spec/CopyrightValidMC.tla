-------------------------- MODULE CopyrightValidMC --------------------------
(***************************************************************************)
(* X13 -- model checking and emission of the decision tables of            *)
(* CopyrightValid.tla: every header shape (19 Format values x 4            *)
(* Format-Specification values), bodies grown paragraph by paragraph over  *)
(* the 12 body shapes, both values of strict.  CASE / ATTR / CREATE /      *)
(* LCREATE / CTOR / HDR / FSET lines carry the expected outcome for the    *)
(* harness (harness/props/x13.py).                                         *)
(***************************************************************************)
EXTENDS CopyrightValid

\* every header shape, bodies grown paragraph by paragraph
CONSTANTS MaxBody,     \* longest body explored
          EmitBody,    \* bodies up to this length are emitted for every header, longer ones for EmitHdrs only
          Emit
VARIABLES vin, vstrict
vvars == <<vin, vstrict>>

HdrShapes == {Hdr(f, s) : f \in Formats \cup {NoFmt}, s \in {NoFmt, Cur, Fmt("http", "cur", 0), Fmt("https", "old", 1)}}
LongHdrs  == {Hdr(Cur, NoFmt), Hdr(NoFmt, NoFmt), Hdr(Fmt("http", "cur", 0), NoFmt), Hdr(Fmt("other", "old", 2), NoFmt)}

VInit == /\ vstrict \in BOOLEAN
         /\ \/ vin = Inp(TRUE, Hdr(NoFmt, NoFmt), <<>>)
            \/ \E h \in HdrShapes : vin = Inp(FALSE, h, <<>>)
VNext == /\ ~vin.empty /\ Len(vin.body) < MaxBody
         /\ (Len(vin.body) < EmitBody \/ vin.hdr \in LongHdrs) = TRUE
         /\ \E p \in BodyShapes : vin' = [vin EXCEPT !.body = Append(@, p)]
         /\ UNCHANGED vstrict
VSpec == VInit /\ [][VNext]_vvars

LS == Load(vin, TRUE, VCfg)
LN == Load(vin, FALSE, VCfg)

\* the design
Accepted(r) == r.errs = {}
StrictImpliesTolerant == Accepted(LS) => (Accepted(LN) /\ LN.kinds = LS.kinds /\ LN.keep = LS.keep /\ LN.fmt = LS.fmt
                                          /\ LN.warned = LS.warned /\ LN.known = LS.known)
TolerantNeverFormatError == MRFE \notin LN.errs
NotReadableWhateverStrict == (NMR \in LS.errs) <=> (NMR \in LN.errs)
\* strict acceptance means: every paragraph is there and none is defective
StrictOnlyValid == Accepted(LS) => (Len(LS.kinds) = Len(vin.body) /\ \A i \in DOMAIN vin.body : ~Defective(vin.body[i]))
\* what non-strict parsing tolerates it talks about
TolerantWarns == (Accepted(LN) /\ ~Accepted(LS)) => LN.warned
ValidQuiet == (Accepted(LS) /\ vin.hdr = Hdr(Cur, NoFmt)) => ~LS.warned
KindsInOrder == Accepted(LN) => /\ \A j \in DOMAIN LN.keep : Kind(vin.body[LN.keep[j]]) = LN.kinds[j] /\ LN.kinds[j] # "-"
                                /\ \A j, k \in DOMAIN LN.keep : j < k => LN.keep[j] < LN.keep[k]
                                /\ \A i \in DOMAIN vin.body : Kind(vin.body[i]) # "-" => \E j \in DOMAIN LN.keep : LN.keep[j] = i
FixLaw == \A f \in Formats : /\ AfterFix(AfterFix(f)) = AfterFix(f)
                             /\ (Fixable(f) <=> f \in {Cur, Fmt("https", "cur", 0), Fmt("http", "cur", 1), Fmt("http", "cur", 0)})
KnownIffCurrent == Accepted(LN) => (LN.known <=> LN.fmt = Cur)
\* the constructors a user may call agree with what parsing does with one paragraph
CtorAgrees == \A p \in BodyShapes :
                 LET one == Load(Inp(FALSE, Hdr(Cur, NoFmt), <<p>>), TRUE, VStmt) IN
                 /\ (Kind(p) = "F" => (Accepted(one) <=> FilesCtor(p, TRUE).errs = {}))
                 /\ (Kind(p) = "L" => (Accepted(one) /\ LicCtor(p).errs = {}))
                 /\ (FilesCtor(p, FALSE).errs = {} <=> p.f # "no")
                 /\ (FilesCtor(p, FALSE).warned <=> FilesDefect(p))
\* required fields cannot be taken away through the attributes, optional ones can
RequiredStay == \A c \in Classes : \A i \in DOMAIN FieldTable[c] :
                   LET fd == FieldTable[c][i] IN
                   /\ (AttrSet(fd, "none") = "deleted") <=> fd.an
                   /\ ~fd.an <=> <<c, fd.name>> \in {<<"Header", "Format">>, <<"FilesParagraph", "Files">>,
                                                      <<"FilesParagraph", "Copyright">>, <<"FilesParagraph", "License">>,
                                                      <<"LicenseParagraph", "License">>}
\* create() succeeds exactly when every part is given, and then the paragraph is strictly valid
CreateLaw == \A fv \in {ValClasses.words[i] : i \in DOMAIN ValClasses.words},
                cv \in {ValClasses.id[i] : i \in DOMAIN ValClasses.id},
                lv \in {ValClasses.lic[i] : i \in DOMAIN ValClasses.lic} :
                LET r == Create(fv, cv, lv) IN
                /\ (r.errs = {} <=> (fv \in {"one", "many"} /\ cv = "str" /\ lv = "lic"))
                /\ (r.errs = {} => FilesCtor(r.shape, TRUE) = Ctor({}, FALSE))
LicCreateLaw == \A i \in DOMAIN LicArgs : LET r == LicCreate(LicArgs[i]) IN r.errs = {} => LicCtor(r.shape) = Ctor({}, FALSE)

ASSUME FixLaw /\ CtorAgrees /\ RequiredStay /\ CreateLaw /\ LicCreateLaw

\* emission (one CASE per explored input, both values of strict in the two behaviours that differ in vstrict)
SetSeq(S) == IF MRFE \in S /\ NMR \in S THEN <<NMR, MRFE>> ELSE IF MRFE \in S THEN <<MRFE>> ELSE IF NMR \in S THEN <<NMR>>
             ELSE IF TERR \in S THEN <<TERR>> ELSE <<>>
OutJ(r) == [errs |-> SetSeq(r.errs), kinds |-> r.kinds, keep |-> r.keep, fmt |-> r.fmt, warned |-> r.warned,
            known |-> r.known, unspec |-> r.unspec]
EmitCase == Emit => PrintT(<<"CASE", ToJson([inp |-> vin, strict |-> vstrict,
                                            exp |-> OutJ(Load(vin, vstrict, VStmt)),
                                            built |-> OutJ(Load(vin, vstrict, VBuilt))])>>)

ErrSeq(S) == IF S = {} THEN <<>> ELSE IF S = {MRFE} THEN <<MRFE>> ELSE IF S = {TERR} THEN <<TERR>> ELSE <<MRFE, TERR>>
ASSUME Emit => \A c \in Classes : \A i \in DOMAIN FieldTable[c] :
                  LET fd == FieldTable[c][i] vs == ValClasses[fd.kind] IN
                  \A j \in DOMAIN vs : PrintT(<<"ATTR", ToJson([cls |-> c, fd |-> fd, v |-> vs[j], out |-> AttrSet(fd, vs[j])])>>)
ASSUME Emit => \A i \in DOMAIN ValClasses.words, j \in DOMAIN ValClasses.id, k \in DOMAIN ValClasses.lic :
                  LET r == Create(ValClasses.words[i], ValClasses.id[j], ValClasses.lic[k]) IN
                  PrintT(<<"CREATE", ToJson([files |-> ValClasses.words[i], copyright |-> ValClasses.id[j],
                                             license |-> ValClasses.lic[k], errs |-> ErrSeq(r.errs)])>>)
ASSUME Emit => \A i \in DOMAIN LicArgs : PrintT(<<"LCREATE", ToJson([license |-> LicArgs[i], errs |-> ErrSeq(LicCreate(LicArgs[i]).errs)])>>)
ASSUME Emit => \A p \in BodyShapes : \A s \in BOOLEAN :
                  PrintT(<<"CTOR", ToJson([p |-> p, strict |-> s, files |-> [errs |-> ErrSeq(FilesCtor(p, s).errs), warned |-> FilesCtor(p, s).warned],
                                           lic |-> [errs |-> ErrSeq(LicCtor(p).errs), warned |-> FALSE]])>>)
ASSUME Emit => \A h \in HdrShapes : PrintT(<<"HDR", ToJson([hdr |-> h, exp |-> HeaderLoad(h)])>>)
\* h.format = value: no re-validation; known_format() / current_format() compare with the current format
ASSUME Emit => \A f \in Formats : PrintT(<<"FSET", ToJson([fmt |-> f, known |-> (f = Cur)])>>)
=============================================================================
