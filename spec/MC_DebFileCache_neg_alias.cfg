CONSTANTS
  CacheKeyedByNameOnly = FALSE
  ContentCacheByFile = FALSE
  ResultsAliased = TRUE
  GetMemberRewinds = FALSE
  LazyScanDiesOnFault = FALSE
  CloseForgetsPosition = FALSE
  EmitH = FALSE
SPECIFICATION Spec
INVARIANT CacheCoherent
INVARIANT NoOtherMemo
PROPERTY HistExact
PROPERTY RepeatStable
VIEW HView
CHECK_DEADLOCK FALSE
