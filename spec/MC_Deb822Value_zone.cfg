\* C08, informational (thorough): values of length <= 4; for the values whose acceptance the
\* statement leaves open because of a lone CR ("zone") the read-backs are computed as if they
\* had been accepted -- the CASE lines tell which of them would inject or split (zs = FALSE)
CONSTANTS
  Alphabet = {120, 58, 35, 32, 9, 13, 10}
  MaxLen = 4
  LemmaLen = 0
  GpgLen = 0
  StrictDroppedInGpgClasses = FALSE
  PosStrictMissedByPrepass = FALSE
  ZoneWhatIf = TRUE
  Emit = TRUE
  NoIndentRule = FALSE
  AllowEndLF = FALSE
  ValidateLFOnly = FALSE
  ReaderNoWsRule = FALSE
SPECIFICATION BndSpec
INVARIANT Sound
INVARIANT RejectExact
CHECK_DEADLOCK FALSE
