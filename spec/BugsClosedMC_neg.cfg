\* X14 (a) negative control: any number of blanks after "#" -> AutomatonIsGrammar must be violated
\* environment variable X14_BND (harness/props/x14.py writes it from the EDGE lines of BugsClosed_lts.cfg):
\*   X14_BND=/path/bnd.json java -cp ... tlc2.TLC -config BugsClosedMC_bnd.cfg BugsClosedMC.tla
\* (the harness generates this text with MaxTail = 2 (quick) / 3 (thorough) and BEmit = TRUE)
CONSTANTS
  BMode = "bnd"
  Anchors <- MCAnchors
  Pieces <- MCPieces
  MaxTail = 2
  BEmit = FALSE
  BBug = "wsstar"
SPECIFICATION BSpec
CHECK_DEADLOCK FALSE
INVARIANT AutomatonIsGrammar
