CONSTANTS
  Leads = {"none", "SP"}
  Gaps = {"SP"}
  Trails = {"none"}
  MaxArch = 2
  MaxEdits = 0
  MaxLen = 16
  EditClasses = {}
  MaxNum = 0
  SplitComma = FALSE
  SrcNeedsWs = FALSE
  EmptyRaises = FALSE
  Emit = FALSE
SPECIFICATION Spec
INVARIANT TypeOK
INVARIANT SrcRoundTrip
INVARIANT BinRoundTrip
INVARIANT SrcOnBinLine
INVARIANT NoUnderscoreNoRecord
INVARIANT LineRefines
INVARIANT NumRefines
CHECK_DEADLOCK FALSE
