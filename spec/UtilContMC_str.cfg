CONSTANTS
  Which = "str"
  NNodes = 0
  NLists = 0
  NSets = 0
  NNames = 2
  Values = {}
  Spells = {}
  MaxSeq = 2
  Hows = {"copy", "deepcopy", "pickle2", "pickle5"}
  ItKinds = {}
  FSole = FALSE
  FEmPick = FALSE
  Neg = ""
  Emit = TRUE
  WithImpl = FALSE
SPECIFICATION USpec
INVARIANT WellFormed
INVARIANT EmitState
PROPERTY QueriesPure
VIEW UView
