\* C13 in-place edits (quick): every history of up to two mutator calls -- any container, any nesting level -- on the
\* structure parse_relations returned for the one-atom relation (every optional part), of one call for the three-atom
\* relation; the plain formatter (Remember = "no"); every state prints a CASE line that c13.py replays on the real class
CONSTANTS
  MaxConj = 0
  MaxAlt = 0
  MaxAtoms = 0
  MaxArch = 0
  MaxGroups = 0
  MaxTerms = 0
  OpIds = {}
  CtxKinds = {}
  RestrictionsFirst = FALSE
  IgnoreNegation = FALSE
  PipeFirst = FALSE
  FormatInKeyOrder = FALSE
  SplitLimit = 0
  LimitedSplits = {}
  KeyOrders <- OneKeyOrder
  Emit = TRUE
  Remember = "no"
  Forgets = {}
  Starts = {"one", "two"}
  DeepStarts = {"one"}
  MaxEdits = 2
SPECIFICATION ESpec
INVARIANT EditProps
CHECK_DEADLOCK FALSE
