CONSTANTS
  Leads = {}
  Gaps = {}
  Trails = {}
  MaxArch = 0
  MaxEdits = 0
  MaxLen = 0
  EditClasses = {}
  MaxNum = 0
  SplitComma = FALSE
  SrcNeedsWs = FALSE
  EmptyRaises = FALSE
  Emit = FALSE
  Objs = {o1, o2}
  OFields = {"src", "bin"}
  Rich = 1
  SharedMemo = FALSE
  EmitObj = FALSE
SPECIFICATION OSpec
INVARIANT OTypeOK
INVARIANT MemoSound
INVARIANT NoGhostMemo
PROPERTY ResSound
VIEW OView
SYMMETRY ObjSym
CHECK_DEADLOCK FALSE
