------------------------------- MODULE Glob -------------------------------
(***************************************************************************)
(* C16 -- a file resolves to the last Files paragraph whose glob matches.  *)
(*                                                                         *)
(* Text is modelled as sequences of CODE POINTS (integers), so the same    *)
(* operators serve the bounded-exhaustive configurations (alphabet = a few *)
(* chosen code points) and trace validation of arbitrary concrete strings  *)
(* (TraceGlob.tla).                                                        *)
(*                                                                         *)
(* Reference layer (the oracle): GlobMatch(p, nm), RefMatches(ps, nm),     *)
(* RefFind(d, nm) -- recursive glob matching straight from the statement:  *)
(* '*' any run of characters (including '/' and LF), '?' exactly one       *)
(* character, backslash escapes '*', '?' and itself, any other escape or a *)
(* trailing backslash is a format error.                                   *)
(*                                                                         *)
(* Implementation layer, transcribed from lib/debian/copyright.py:         *)
(*   Xlate(g, 1)      globs_to_re's loop: glob -> sequence of regex nodes  *)
(*   Regex(ps)        alternation of the translated globs with a SINGLE    *)
(*                    trailing end anchor (it binds to the last            *)
(*                    alternative only: 'a|b\Z' is 'a' or 'b\Z')           *)
(*   AltEnds(r, nm)   position-set simulation of one alternative           *)
(*   ImplMatches      FilesParagraph.matches under one of two disciplines: *)
(*                    "prefix" = re.match (an alternative may succeed      *)
(*                    without consuming the name: the defect repaired by   *)
(*                    commit ae99ec4), "full" = re.fullmatch (current)     *)
(*   ImplFind         Copyright.find_files_paragraph's loop                *)
(*                                                                         *)
(* The bounded configurations (MC_Glob_*.cfg) enumerate documents (<=      *)
(* MaxParas paragraphs of <= MaxPats patterns of <= MaxPatLen symbols) and *)
(* names piecewise -- Init/Next append one symbol at a time, the state     *)
(* graph is a tree, every state is one case -- and check MatchesIffGlob,   *)
(* BadEscapeRaises, LastWins and RefSanity in every state.                 *)
(*                                                                         *)
(* Configurations: MC_Glob_quick (2 patterns x 2 symbols, names <= 2, 5    *)
(* symbols, 30 752 states), MC_Glob_bnd_a (1 x 3, names <= 4, 2 738 385),  *)
(* MC_Glob_bnd_b (2 x 2, names <= 3, 3 160 170), MC_Glob_bnd_c (2 x 3,     *)
(* names <= 3 over {a,*,?,\}, 621 350), MC_Glob_doc_quick / _doc           *)
(* (<= 3 paragraphs: LastWins; 22 587 / 694 022 states), MC_Glob_emit and  *)
(* MC_Glob_doc_emit (emission).  Histories: GlobCache.tla (per-paragraph   *)
(* regex cache, error path), GlobMemo.tla (direct globs_to_re calls within *)
(* one process), GlobFind.tla (lookups on one document edited in place).   *)
(* BlockInvariance (quick, bnd_b: L = 3) model-checks the size argument    *)
(* the binding uses for long patterns / names (see below).                 *)
(*                                                                         *)
(* Spec-level negative controls (all tried, all make TLC report the stated *)
(* violation; the harness re-runs them in every check):                    *)
(*   Discipline = "prefix"  -> MatchesIffGlob violated (<<a>>,<<b>> / ab)  *)
(*   DotAll = FALSE         -> MatchesIffGlob violated ('?' vs LF)         *)
(*   FindFirst = TRUE       -> LastWins violated                           *)
(*   AffixFrom = 1          -> MatchesIffGlob violated (<<a,*,a>> / a)     *)
(* Emission (ESpec + EmitCase): one CASE line per pattern list / document  *)
(* carrying the expected results for ALL names up to MaxNameLen.           *)
(***************************************************************************)
EXTENDS Integers, Sequences, FiniteSets, TLC, Json

CONSTANTS Sigma,        \* code points offered for patterns
          NSigma,       \* code points offered for names
          MaxParas, MaxPats, MaxPatLen, MaxSyms, MaxNameLen,
          Discipline,   \* "full" | "prefix"
          DotAll,       \* TRUE: '.' and '.*' match LF (re.DOTALL)
          FindFirst,    \* FALSE; TRUE = buggy "first match wins"
          AffixFrom,    \* 0; k > 0 = lists of >= k patterns answered from lookup tables (negative control, below)
          Emit,         \* "none" | "match" | "find"
          BlockLen      \* 0, or the block length L checked by BlockInvariance

VARIABLES doc,          \* <<paragraph>>, paragraph = <<pattern>>, pattern = <<code point>>
          n             \* file name, <<code point>>

vars == <<doc, n>>

STAR == 42
QM   == 63
BS   == 92
LF   == 10
Special == {STAR, QM, BS}

----------------------------------------------------------------------------
\* Reference: glob semantics as stated by the property

RECURSIVE GOk(_, _)
GOk(p, i) == IF i > Len(p) THEN TRUE
             ELSE IF p[i] = BS THEN i < Len(p) /\ p[i + 1] \in Special /\ GOk(p, i + 2)
             ELSE GOk(p, i + 1)
GlobOK(p) == GOk(p, 1)

\* does p[i..] match nm[j..] entirely (p well-formed)
RECURSIVE GM(_, _, _, _)
GM(p, i, nm, j) ==
   IF i > Len(p) THEN j > Len(nm)
   ELSE IF p[i] = STAR THEN GM(p, i + 1, nm, j) \/ (j <= Len(nm) /\ GM(p, i, nm, j + 1))
   ELSE IF p[i] = QM   THEN j <= Len(nm) /\ GM(p, i + 1, nm, j + 1)
   ELSE IF p[i] = BS   THEN j <= Len(nm) /\ nm[j] = p[i + 1] /\ GM(p, i + 2, nm, j + 1)
   ELSE j <= Len(nm) /\ nm[j] = p[i] /\ GM(p, i + 1, nm, j + 1)

GlobMatch(p, nm) == IF ~GlobOK(p) THEN "FormatError"
                    ELSE IF GM(p, 1, nm, 1) THEN "match" ELSE "nomatch"

AllOK(ps) == \A i \in 1..Len(ps) : GlobOK(ps[i])
AnyGlob(ps, nm) == \E i \in 1..Len(ps) : GM(ps[i], 1, nm, 1)
RefMatches(ps, nm) == IF ~AllOK(ps) THEN "FormatError"
                      ELSE IF AnyGlob(ps, nm) THEN "match" ELSE "nomatch"

\* find: 0 = None, k = k-th Files paragraph, -1 = format error
Matching(d, nm) == {k \in 1..Len(d) : AllOK(d[k]) /\ AnyGlob(d[k], nm)}
SetMax(S) == CHOOSE x \in S : \A y \in S : y <= x
LenientFind(d, nm) == IF Matching(d, nm) = {} THEN 0 ELSE SetMax(Matching(d, nm))
RefFind(d, nm) == IF \E k \in 1..Len(d) : ~AllOK(d[k]) THEN -1 ELSE LenientFind(d, nm)

----------------------------------------------------------------------------
\* Implementation layer: globs_to_re + re.match / re.fullmatch + find loop

Node(k, c) == [k |-> k, c |-> c]
EndNode == Node("end", 0)

\* the while loop of globs_to_re for one glob, i = loop index (1-based)
RECURSIVE Xlate(_, _)
Xlate(g, i) ==
   IF i > Len(g) THEN <<>>
   ELSE LET c == g[i] IN
        IF c = STAR THEN <<Node("star", 0)>> \o Xlate(g, i + 1)              \* '.*'
        ELSE IF c = QM THEN <<Node("any", 0)>> \o Xlate(g, i + 1)            \* '.'
        ELSE IF c = BS THEN
             IF i + 1 > Len(g) THEN <<Node("err", 0)>>                       \* single backslash at end
             ELSE IF g[i + 1] \in Special THEN <<Node("lit", g[i + 1])>> \o Xlate(g, i + 2)
             ELSE <<Node("err", g[i + 1])>>                                  \* invalid escape: raise
        ELSE <<Node("lit", c)>> \o Xlate(g, i + 1)                           \* re.escape(c)

HasErr(r) == \E j \in 1..Len(r) : r[j].k = "err"
RegexErr(ps) == \E i \in 1..Len(ps) : HasErr(Xlate(ps[i], 1))

\* '|'.join(translated) + '\Z' : the anchor is part of the last alternative only
Regex(ps) == IF ps = <<>> THEN <<<<EndNode>>>>
             ELSE [i \in 1..Len(ps) |-> IF i = Len(ps) THEN Xlate(ps[i], 1) \o <<EndNode>>
                                                       ELSE Xlate(ps[i], 1)]

NoLF(nm, a, b) == \A m \in a..b : nm[m] # LF
StepNode(nd, S, nm) ==
   CASE nd.k = "lit"  -> {j + 1 : j \in {j \in S : j < Len(nm) /\ nm[j + 1] = nd.c}}
     [] nd.k = "any"  -> {j + 1 : j \in {j \in S : j < Len(nm) /\ (DotAll \/ nm[j + 1] # LF)}}
     [] nd.k = "star" -> UNION {{e \in j..Len(nm) : DotAll \/ NoLF(nm, j + 1, e)} : j \in S}
     [] nd.k = "end"  -> {j \in S : j = Len(nm)}                             \* \Z
     [] OTHER         -> {}

RECURSIVE Run(_, _, _, _)
Run(r, i, S, nm) == IF i > Len(r) THEN S ELSE Run(r, i + 1, StepNode(r[i], S, nm), nm)
\* positions at which a match of alternative r started at 0 can end
AltEnds(r, nm) == Run(r, 1, {0}, nm)

RegexMatch(re, nm, disc) ==
   \E i \in 1..Len(re) : IF disc = "full" THEN Len(nm) \in AltEnds(re[i], nm)
                                          ELSE AltEnds(re[i], nm) # {}

\* Negative control AffixFrom = k > 0 (seeded change C16-seedN): a paragraph that lists >= k patterns answers from
\* lookup tables instead of the one regex -- patterns without special symbols by equality, patterns PREFIX*SUFFIX
\* (exactly one '*', no '?', no backslash) by startswith(PREFIX) and endswith(SUFFIX) WITHOUT asking that the name
\* is long enough for both (prefix and suffix may overlap in the name: 'a*a' answers 'a'), all other patterns by the
\* regex of those alone.  The NUMBER of patterns of a list is a dimension of the property ("lists of 1..n patterns"):
\* TLC enumerates lists of <= MaxPats patterns, longer lists reach the code by the filler argument of the binding
\* (every enumerated case also as part of a list of 2..15 and of 16..65 patterns).
Plain(g)   == \A j \in 1..Len(g) : g[j] \notin Special
OneStar(g) == /\ \A j \in 1..Len(g) : g[j] \notin {QM, BS}
              /\ Cardinality({j \in 1..Len(g) : g[j] = STAR}) = 1
ByRegex(g) == ~Plain(g) /\ ~OneStar(g)
StartsWith(nm, x) == Len(x) <= Len(nm) /\ SubSeq(nm, 1, Len(x)) = x
EndsWith(nm, x)   == Len(x) <= Len(nm) /\ SubSeq(nm, Len(nm) - Len(x) + 1, Len(nm)) = x
AffixHit(g, nm) == LET s == CHOOSE j \in 1..Len(g) : g[j] = STAR IN
                   StartsWith(nm, SubSeq(g, 1, s - 1)) /\ EndsWith(nm, SubSeq(g, s + 1, Len(g)))
TableMatches(ps, nm) ==
   LET others == SelectSeq(ps, ByRegex) IN
   IF RegexErr(others) THEN "FormatError"
   ELSE IF \/ \E i \in 1..Len(ps) : Plain(ps[i]) /\ ps[i] = nm
           \/ \E i \in 1..Len(ps) : OneStar(ps[i]) /\ AffixHit(ps[i], nm)
           \/ (others # <<>> /\ RegexMatch(Regex(others), nm, Discipline))
        THEN "match" ELSE "nomatch"

\* files_pattern() raises while translating, otherwise matches() applies the discipline
ImplMatches(ps, nm) == IF AffixFrom > 0 /\ Len(ps) >= AffixFrom THEN TableMatches(ps, nm)
                       ELSE LET re == Regex(ps) IN
                       IF \E i \in 1..Len(re) : HasErr(re[i]) THEN "FormatError"
                       ELSE IF RegexMatch(re, nm, Discipline) THEN "match" ELSE "nomatch"

\* result = None; for p in all_files_paragraphs(): if p.matches(filename): result = p
RECURSIVE IFind(_, _, _, _)
IFind(d, k, nm, result) ==
   IF k > Len(d) THEN result
   ELSE LET r  == ImplMatches(d[k], nm)
            nr == IF r = "match" THEN k ELSE result IN
        IF r = "FormatError" THEN -1
        ELSE IF r = "match" /\ FindFirst THEN k
        ELSE IF nr >= 0 THEN IFind(d, k + 1, nm, nr)     \* (the test only makes TLC evaluate nr now: a lazily
        ELSE -1                                          \*  accumulated argument blows up on 100 paragraphs)
ImplFind(d, nm) == IFind(d, 1, nm, 0)

----------------------------------------------------------------------------
\* Bounded enumeration: the state graph is a tree, one symbol per step

LastPara == doc[Len(doc)]
LastPat  == LastPara[Len(LastPara)]
RECURSIVE SumLen(_, _)
SumLen(ps, i) == IF i > Len(ps) THEN 0 ELSE Len(ps[i]) + SumLen(ps, i + 1)
RECURSIVE Syms(_, _)
Syms(d, k) == IF k > Len(d) THEN 0 ELSE SumLen(d[k], 1) + Syms(d, k + 1)

Init == doc = << << <<>> >> >> /\ n = <<>>

AddSym(c) == /\ n = <<>> /\ Len(LastPat) < MaxPatLen /\ Syms(doc, 1) < MaxSyms
             /\ doc' = [doc EXCEPT ![Len(doc)][Len(LastPara)] = Append(@, c)]
             /\ UNCHANGED n
NewPat    == /\ n = <<>> /\ Len(LastPara) < MaxPats
             /\ doc' = [doc EXCEPT ![Len(doc)] = Append(@, <<>>)]
             /\ UNCHANGED n
NewPara   == /\ n = <<>> /\ Len(doc) < MaxParas
             /\ doc' = Append(doc, << <<>> >>)
             /\ UNCHANGED n
AddName(c) == Len(n) < MaxNameLen /\ n' = Append(n, c) /\ UNCHANGED doc

PatNext == (\E c \in Sigma : AddSym(c)) \/ NewPat \/ NewPara
Next    == PatNext \/ \E c \in NSigma : AddName(c)

Spec  == Init /\ [][Next]_vars
ESpec == Init /\ [][PatNext]_vars       \* emission: names are enumerated inside EmitCase

----------------------------------------------------------------------------
\* The property, on every enumerated (document, name)

MatchesIffGlob ==
   \A k \in 1..Len(doc) : AllOK(doc[k]) =>
       ((ImplMatches(doc[k], n) = "match")
            <=> (\E i \in 1..Len(doc[k]) : GlobMatch(doc[k][i], n) = "match"))

BadEscapeRaises ==
   \A k \in 1..Len(doc) :
       (ImplMatches(doc[k], n) = "FormatError")
            <=> (\E i \in 1..Len(doc[k]) : GlobMatch(doc[k][i], n) = "FormatError")

LastWins == ImplFind(doc, n) = RefFind(doc, n)

\* Size argument used by the binding (harness/props/c16.py, size-stressed concretizations): expand
\* every name symbol c to the block c.PAD^(L-1), every literal / escaped pattern symbol likewise,
\* '?' to '?'^L and keep '*'.  PAD occurs in no alphabet, so a symbol occurs in an expanded name only
\* at block starts: literal blocks can only match block-aligned, '?'^L consumes one block's worth of
\* characters, '*' takes the rest -- the verdict of the reference is the same for every L >= 1.
\* That is what lets TLC's expectation for a 3-symbol case be used for 4097-character patterns and
\* 64 KiB names.  TLC checks the claim itself for L = BlockLen on every enumerated case.
PAD == 45
RECURSIVE Rep(_, _)
Rep(c, k) == IF k <= 0 THEN <<>> ELSE <<c>> \o Rep(c, k - 1)
RECURSIVE BlowName(_, _)
BlowName(nm, i) == IF i > Len(nm) THEN <<>>
                   ELSE <<nm[i]>> \o Rep(PAD, BlockLen - 1) \o BlowName(nm, i + 1)
RECURSIVE BlowPat(_, _)
BlowPat(p, i) ==
   IF i > Len(p) THEN <<>>
   ELSE IF p[i] = STAR THEN <<STAR>> \o BlowPat(p, i + 1)
   ELSE IF p[i] = QM THEN Rep(QM, BlockLen) \o BlowPat(p, i + 1)
   ELSE IF p[i] = BS THEN IF i = Len(p) THEN <<BS>>
                          ELSE <<BS, p[i + 1]>> \o Rep(PAD, BlockLen - 1) \o BlowPat(p, i + 2)
   ELSE <<p[i]>> \o Rep(PAD, BlockLen - 1) \o BlowPat(p, i + 1)
BlockInvariance ==
   BlockLen > 0 => \A k \in 1..Len(doc) : \A i \in 1..Len(doc[k]) :
       GlobMatch(BlowPat(doc[k][i], 1), BlowName(n, 1)) = GlobMatch(doc[k][i], n)

\* laws the reference itself must obey (the oracle is not vacuous / not inverted)
RefSanity ==
   \A k \in 1..Len(doc) : \A i \in 1..Len(doc[k]) :
      LET p == doc[k][i] IN
      /\ (\A j \in 1..Len(p) : p[j] \notin Special) => (GM(p, 1, n, 1) <=> n = p)
      /\ ((\A j \in 1..Len(p) : p[j] = QM)) => (GM(p, 1, n, 1) <=> Len(n) = Len(p))
      /\ (p = <<STAR>>) => GM(p, 1, n, 1)
      /\ (GlobOK(p) /\ GM(p, 1, n, 1)) => GM(<<STAR>> \o p, 1, <<LF>> \o n, 1)
      /\ (Len(p) = 2 /\ p[1] = BS /\ GlobOK(p)) => (GM(p, 1, n, 1) <=> n = <<p[2]>>)
      /\ (GlobOK(p) /\ p # <<>> /\ p[Len(p)] = STAR /\ (Len(p) = 1 \/ p[Len(p) - 1] # BS \/ GlobOK(SubSeq(p, 1, Len(p) - 1)))) =>
             (GM(p \o <<STAR, STAR>>, 1, n, 1) <=> GM(p, 1, n, 1))        \* a run of '*' is one '*'

----------------------------------------------------------------------------
\* Emission of cases with their expected results (reference layer only)

\* a pattern list can be the value of a (whitespace-separated) Files field
WS == {9, 10, 11, 12, 13, 32}
Representable(d) == \A k \in 1..Len(d) : \A i \in 1..Len(d[k]) :
                        d[k][i] # <<>> /\ \A j \in 1..Len(d[k][i]) : d[k][i][j] \notin WS

AllNames == UNION {[1..k -> NSigma] : k \in 0..MaxNameLen}
AsSeq(f) == [i \in 1..Len(f) |-> f[i]]

EmitCase ==
   /\ (Emit = "match") =>
        PrintT(<<"CASE", ToJson([ps |-> doc[1],
                                 ok |-> AllOK(doc[1]),
                                 m  |-> {nm \in AllNames : RefMatches(doc[1], nm) = "match"}])>>)
   /\ (Emit = "find" /\ Representable(doc)) =>
        PrintT(<<"DOC", ToJson([doc |-> doc,
                                f   |-> {<<nm, RefFind(doc, nm), LenientFind(doc, nm)>> : nm \in AllNames}])>>)
=============================================================================
