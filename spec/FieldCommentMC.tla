--------------------------- MODULE FieldCommentMC ---------------------------
(***************************************************************************)
(* X17 -- closed scenarios for FieldComment.tla: every history of up to    *)
(* MaxOps calls from a start world, every call with every comment mode.    *)
(*   uniq  paragraph 1 = <<name 1 (comment K1, element held as handle 1),  *)
(*         name 2 (no comment)>>, name 3 absent; paragraph 2 = <<name 1    *)
(*         (two-line comment K2, element never seen)>>; the caller holds a *)
(*         detached element (handle 2, lines K3).  Calls on paragraph 1,   *)
(*         comment_element assignments on both.                            *)
(*   dup   one paragraph with name 1 twice (comments K1, K2) around name   *)
(*         2: plain and indexed keys.                                      *)
(*   ctor  no paragraph: new_empty_paragraph / from_dict / from_kvpairs    *)
(*         build them, then the same calls.                                *)
(* Every scenario also has the calls with a FAULTING caller-supplied       *)
(* object (a list of comment lines whose iteration raises after 0..2       *)
(* lines, ctor: a mapping whose items() raises): CallerError, no change.   *)
(* Lines offered as field_comment (LinePool) cover every branch of the     *)
(* normalisation rule; CLs are the lists built from them.                  *)
(* EDGE lines carry the outcome the STATEMENT prescribes (res/to) and the  *)
(* outcome of the code as long as the open finding X17-blank-comment-line  *)
(* stands (k), the other acceptable empty comment line (a) and the variant *)
(* in which a kept comment lives on in a new element object (c).           *)
(* Negative controls (constant Neg, see FieldComment.tla): StoreBroken ->  *)
(* LinesWF, ElemStays -> Ownership, MoveLeavesComment -> MovesWhole,       *)
(* ErrDropsComment -> ErrAtomic, KeepCopies -> ModeLaw.                    *)
(***************************************************************************)
EXTENDS FieldComment, Json

CONSTANTS Scn, MaxOps, MaxH, Emit

VARIABLES fcw, fcres, fcn, fclast
fcvars == <<fcw, fcres, fcn, fclast>>

X(i) == Tk("x", i)
B(i) == Tk("b", i)
LPlain == <<X(10)>>                          \* foo          -> "# foo" + nl
LFull  == <<HASH, B(11), X(12), NLT>>        \* #  foo + nl  -> as given
LHash  == <<HASH, X(13), B(14)>>             \* #foo + blanks -> "#foo" + nl
LInd   == <<B(15), X(16), B(17), NLT>>       \* blanks foo blanks nl -> "# foo" blanks nl
LEmpty == <<>>                               \* ''           -> "#" + nl
LBlank == <<B(18)>>                          \* blanks only  -> finding
LBad   == <<X(19), NLT, X(20)>>              \* embedded newline -> ValueError
CLs == {<<>>, <<LPlain>>, <<LFull, LHash>>, <<LInd, LEmpty>>, <<LBlank>>, <<LPlain, LBad>>}

K1 == <<<<HASH, B(1), X(31), NLT>>>>
K2 == <<<<HASH, X(32), NLT>>, <<HASH, NLT>>>>
K3 == <<<<HASH, B(1), X(33), NLT>>, <<HASH, B(34), X(35), NLT>>>>
Cm(h, ls) == [h |-> h, ls |-> ls]

Start ==
   CASE Scn = "uniq" -> Wd(<< <<Fld(1, "C", 0, Cm(1, K1)), Fld(2, "C", 0, NoC)>>, <<Fld(1, "C", 0, Cm(0, K2))>> >>,
                           <<[h |-> 2, ls |-> K3]>>, 3)
     [] Scn = "dup"  -> Wd(<< <<Fld(1, "C", 0, Cm(0, K1)), Fld(2, "C", 0, NoC), Fld(1, "L", 0, Cm(0, K2))>> >>,
                           <<[h |-> 1, ls |-> K3]>>, 2)
     [] OTHER        -> Wd(<<>>, <<[h |-> 1, ls |-> K3]>>, 2)
EditParas(w) == IF Scn = "uniq" THEN {1} ELSE DOMAIN w.ps
Names == 1..3
DictPool == {<< [n |-> 1, s |-> "C", v |-> 7] >>,
             << [n |-> 2, s |-> "L", v |-> 7], [n |-> 1, s |-> "C", v |-> 8] >>,
             << [n |-> 1, s |-> "C", v |-> 7], [n |-> 1, s |-> "L", v |-> 8] >>}

Call(op, p, n, key, m, j, x) == [op |-> op, p |-> p, n |-> n, key |-> key, m |-> m, j |-> j, x |-> x, it |-> <<>>, v |-> fcn + 1]
NoCall == [op |-> "", p |-> 0, n |-> 0, key |-> Key(0, "C", NoIdx), m |-> Mode("", <<>>, 0), j |-> 0, x |-> "", it |-> <<>>, v |-> 0]

Kb == IF Neg = "StoreBroken" THEN "K" ELSE "S"
Diff(o, x) == IF x = o THEN [same |-> TRUE] ELSE [same |-> FALSE, e |-> x.e, w |-> x.w]
Step4(c, o, ao, ko, co) ==
   /\ fcn < MaxOps
   /\ fcw' = o.w /\ fcres' = o.e /\ fcn' = fcn + 1 /\ fclast' = c
   /\ IF Emit THEN PrintT(<<"EDGE", ToJson([from |-> fcw, call |-> c, res |-> o.e, to |-> o.w, a |-> Diff(o, ao), k |-> Diff(o, ko), c |-> Diff(o, co), file |-> FileParts(o.w)])>>) ELSE TRUE
Step(c, o, ko) == Step4(c, o, o, ko, o)

Modes(w, orig) ==
   {Mode("default", <<>>, 0), Mode("keep", <<>>, 0), Mode("drop", <<>>, 0), Mode("bad", <<>>, 0),
    Mode("confK", <<LPlain>>, 0), Mode("confD", <<LPlain>>, 0)}
   \cup {Mode("list", cl, 0) : cl \in CLs}
   \cup {Mode("elem", <<>>, w.held[k].h) : k \in 1..Len(w.held)}
   \cup (IF HasC(orig) /\ (orig.h # 0 \/ w.nh <= MaxH) THEN {Mode("self", <<>>, 0)} ELSE {})

ASet == \E p \in EditParas(fcw) : \E n \in Names :
          LET fs  == fcw.ps[p]
              cnt == Len(Occ(fs, n))
          IN \E i \in {NoIdx} \cup (IF cnt = 0 THEN {0} ELSE IF cnt = 1 THEN {} ELSE 0..(cnt - 1)) :
             \E s \in (IF cnt = 0 THEN {"C", "L"} ELSE {"C"}) :
                LET key  == Key(n, s, i)
                    tgt  == Tgt(fs, key)
                    orig == IF tgt = 0 THEN NoC ELSE fs[tgt].c
                IN /\ Len(fs) < 3 \/ tgt # 0
                   /\ \E m \in Modes(fcw, orig) :
                        Step4(Call("set", p, n, key, m, 0, ""),
                              SetOut(fcw, p, key, fcn + 1, m, Kb), SetOut(fcw, p, key, fcn + 1, m, "A"), SetOut(fcw, p, key, fcn + 1, m, "K"),
                              SetOut(fcw, p, key, fcn + 1, m, "C"))
ACmt == \E p \in DOMAIN fcw.ps : \E j \in DOMAIN fcw.ps[p] :
          LET c == fcw.ps[p][j].c IN
          \/ /\ ~HasC(c) \/ c.h # 0 \/ fcw.nh <= MaxH
             /\ \/ LET o == CmtOut(fcw, p, j, "none", 0) IN Step(Call("cmt", p, fcw.ps[p][j].n, Key(0, "C", NoIdx), Mode("", <<>>, 0), j, "none"), o, o)
                \/ \E k \in 1..Len(fcw.held) :
                     LET o == CmtOut(fcw, p, j, "elem", fcw.held[k].h)
                     IN Step(Call("cmt", p, fcw.ps[p][j].n, Key(0, "C", NoIdx), Mode("", <<>>, fcw.held[k].h), j, "elem"), o, o)
          \/ LET o == CmtOut(fcw, p, j, "bad", 0) IN Step(Call("cmt", p, fcw.ps[p][j].n, Key(0, "C", NoIdx), Mode("", <<>>, 0), j, "bad"), o, o)
ADel == \E p \in EditParas(fcw) : \E n \in Names :
          LET fs  == fcw.ps[p]
              cnt == Len(Occ(fs, n))
          IN \E i \in {NoIdx} \cup (IF cnt <= 1 THEN {} ELSE 0..(cnt - 1)) :
               /\ cnt = 0 \/ Len(Others(fs, n)) > 0 \/ (i # NoIdx /\ cnt > 1)          \* never the last field of a paragraph
               /\ LET o == DelOut(fcw, p, Key(n, "C", i)) IN Step(Call("del", p, n, Key(n, "C", i), Mode("", <<>>, 0), 0, ""), o, o)
AMove == \E p \in EditParas(fcw) : \E n \in Names : \E how \in {"first", "last"} :
           /\ Len(Occ(fcw.ps[p], n)) = 1
           /\ LET o == MoveOut(fcw, p, n, how) IN Step(Call("move", p, n, Key(n, "C", NoIdx), Mode("", <<>>, 0), 0, how), o, o)
ASort == \E p \in EditParas(fcw) :
           /\ fcw.ps[p] # <<>>
           /\ LET o == SortOut(fcw, p) IN Step(Call("sort", p, 0, Key(0, "C", NoIdx), Mode("", <<>>, 0), 0, ""), o, o)
ACtor == /\ Scn = "ctor"
         /\ \/ /\ Len(fcw.ps) < 2
               /\ \/ LET o == NewOut(fcw) IN Step(Call("new", 0, 0, Key(0, "C", NoIdx), Mode("", <<>>, 0), 0, ""), o, o)
                  \/ \E items \in DictPool :
                        LET o == DictOut(fcw, items)
                        IN Step([Call("dict", 0, 0, Key(0, "C", NoIdx), Mode("", <<>>, 0), 0, "") EXCEPT !.it = items], o, o)
            \/ \E p \in DOMAIN fcw.ps : \E rev \in BOOLEAN :
                  LET o == KvOut(fcw, p, rev)
                  IN Step(Call("kv", p, 0, Key(0, "C", NoIdx), Mode("", <<>>, 0), 0, IF rev THEN "rev" ELSE "same"), o, o)
            \/ /\ Len(fcw.ps) = 2 /\ Len(fcw.ps[1]) + Len(fcw.ps[2]) <= 3
               /\ \E p \in {1, 2} : LET o == JoinOut(fcw, p, 3 - p)
                                    IN Step(Call("join", p, 0, Key(0, "C", NoIdx), Mode("", <<>>, 0), 3 - p, ""), o, o)

ASSUME Emit => PrintT(<<"START", ToJson(Start)>>)

\* faulting caller-supplied objects (j = the number of items delivered before the fault)
AFault == \/ \E p \in EditParas(fcw) : \E n \in Names : \E k \in 0..2 :
                /\ Len(fcw.ps[p]) < 3 \/ Tgt(fcw.ps[p], Key(n, "C", NoIdx)) # 0
                /\ LET o == FaultOut(fcw)
                   IN Step(Call("fset", p, n, Key(n, "C", NoIdx), Mode("list", <<LPlain, LFull, LHash>>, 0), k, ""), o, o)
          \/ /\ Scn = "ctor" /\ Len(fcw.ps) < 2
             /\ \E k \in 0..1 : LET o == FaultOut(fcw)
                                IN Step([Call("fdict", 0, 0, Key(0, "C", NoIdx), Mode("", <<>>, 0), k, "")
                                            EXCEPT !.it = << [n |-> 2, s |-> "L", v |-> 7], [n |-> 1, s |-> "C", v |-> 8] >>], o, o)

FcInit == fcw = Start /\ fcres = "ok" /\ fcn = 0 /\ fclast = NoCall
FcNext == ASet \/ ACmt \/ ADel \/ AMove \/ ASort \/ ACtor \/ AFault
FcSpec == FcInit /\ [][FcNext]_fcvars

\* ---- the statement ------------------------------------------------------------------
InvOwnership == Ownership(fcw)
InvLinesWF   == LinesWF(fcw)
\* detaching the comment element of a field and assigning it again restores the world
InvDetachAttach ==
   \A p \in DOMAIN fcw.ps : \A j \in DOMAIN fcw.ps[p] :
      LET c  == fcw.ps[p][j].c
          hh == IF c.h = 0 THEN fcw.nh ELSE c.h
          d  == CmtOut(fcw, p, j, "none", 0).w
          r  == CmtOut(d, p, j, "elem", hh).w
      IN HasC(c) => /\ d.ps[p][j].c = NoC /\ HeldHas(d.held, hh) /\ HeldLs(d.held, hh) = c.ls
                    /\ r.ps = [fcw.ps EXCEPT ![p][j].c.h = hh] /\ r.held = fcw.held
\* preserve...=True is the default when the key is not ambiguous; an empty list is "no comment"
InvModeAlgebra ==
   \A p \in DOMAIN fcw.ps : \A n \in Names :
      LET key == Key(n, "C", NoIdx) IN
      /\ ~Amb(fcw.ps[p], key) => SetOut(fcw, p, key, 9, Mode("keep", <<>>, 0), "S") = SetOut(fcw, p, key, 9, Mode("default", <<>>, 0), "S")
      /\ SetOut(fcw, p, key, 9, Mode("list", <<>>, 0), "S") = SetOut(fcw, p, key, 9, Mode("drop", <<>>, 0), "S")

ErrAtomic == [][fcres' # "ok" => fcw' = fcw]_fcvars
\* a call addressed to name n of paragraph p touches nothing else
Frame == [][LET c == fclast' IN
            (c.op \in {"set", "cmt", "del", "move", "sort"} /\ fcres' = "ok") =>
               /\ Len(fcw'.ps) = Len(fcw.ps)
               /\ \A q \in DOMAIN fcw.ps : q # c.p => fcw'.ps[q] = fcw.ps[q]
               /\ c.op \in {"set", "del"} => Others(fcw'.ps[c.p], c.n) = Others(fcw.ps[c.p], c.n)
               /\ c.op = "cmt" => /\ Len(fcw'.ps[c.p]) = Len(fcw.ps[c.p])
                                  /\ \A k \in DOMAIN fcw.ps[c.p] : k # c.j => fcw'.ps[c.p][k] = fcw.ps[c.p][k]
                                  /\ fcw'.ps[c.p][c.j] = [fcw.ps[c.p][c.j] EXCEPT !.c = fcw'.ps[c.p][c.j].c]
               /\ (c.op \in {"del", "move", "sort"} \/ (c.op = "set" /\ c.m.k \notin {"elem", "self"})) =>
                     fcw'.held = fcw.held /\ fcw'.nh = fcw.nh]_fcvars
\* the written field: one instance (plain key), in place or at the end, spelling kept, comment as the mode says
ModeLaw == [][LET c == fclast' IN
              (c.op = "set" /\ fcres' = "ok") =>
                 LET fs   == fcw.ps[c.p]
                     gs   == fcw'.ps[c.p]
                     tgt  == Tgt(fs, c.key)
                     orig == IF tgt = 0 THEN NoC ELSE fs[tgt].c
                     pos  == IF tgt = 0 THEN Len(gs) ELSE tgt
                     new  == gs[pos]
                 IN /\ new.n = c.n /\ new.v = fcn + 1
                    /\ new.s = (IF tgt = 0 THEN c.key.s ELSE fs[tgt].s)
                    /\ c.key.i = NoIdx => Len(Occ(gs, c.n)) = 1
                    /\ c.key.i # NoIdx => Len(gs) = (IF tgt = 0 THEN Len(fs) + 1 ELSE Len(fs))
                    /\ CASE c.m.k \in {"default", "keep"} -> new.c = orig
                         [] c.m.k = "drop" -> new.c = NoC
                         [] c.m.k = "list" -> /\ Len(new.c.ls) = Len(c.m.cl) /\ new.c.h = 0
                                              /\ \A i \in DOMAIN new.c.ls : new.c.ls[i] \in {Norm(c.m.cl[i], "S").r, NormAlt(c.m.cl[i])}
                         [] c.m.k = "elem" -> /\ new.c = [h |-> c.m.h, ls |-> HeldLs(fcw.held, c.m.h)]
                                              /\ fcw'.held = HeldDel(fcw.held, c.m.h)
                         [] c.m.k = "self" -> new.c.ls = orig.ls /\ new.c.h # 0 /\ (orig.h # 0 => new.c.h = orig.h)
                         [] OTHER -> FALSE]_fcvars
\* structural calls move or drop whole field instances, comments included
MovesWhole == [][LET c == fclast' IN
                 fcres' = "ok" =>
                    /\ c.op \in {"move", "sort", "kv"} => SameBagF(fcw'.ps[c.p], fcw.ps[c.p])
                    /\ c.op = "del" => /\ \A k \in DOMAIN fcw'.ps[c.p] : \E k0 \in DOMAIN fcw.ps[c.p] : fcw'.ps[c.p][k] = fcw.ps[c.p][k0]
                                       /\ Len(fcw'.ps[c.p]) < Len(fcw.ps[c.p])
                    /\ c.op = "join" => Len(fcw'.ps) = Len(fcw.ps) - 1]_fcvars
FcView == <<fcw, fcn>>
=============================================================================
