CONSTANTS
  Tables <- DocTables
  Modes = {}
  IterateAllFields = FALSE
  SplitEverySpace = FALSE
  CacheWidths = FALSE
  SharedEqualRecords = FALSE
  ClassLevelOption = FALSE
  StoreBeforeValidate = FALSE
  ReorderStoresPlainKeys = FALSE
  RefusedUnlinksFirst = FALSE
  Emit = FALSE
  EmitOff = 0
SPECIFICATION TSpec
INVARIANT DumpTotal
INVARIANT RecordsRoundTrip
INVARIANT SubFieldNames
CHECK_DEADLOCK FALSE
