\* C14 object LTS: 12 start versions (+7 texts that are not versions) x 8 assignment values per
\* component, closed under the assignments up to Len(full_version) <= MaxLen (thorough: 11)
CONSTANTS
  Alphabet = {}
  MaxLen = 11
  StartStrings <- LtsStart
  AssignValues <- LtsValues
  Emit = TRUE
  DollarAnchor = FALSE
  UnicodeDigits = FALSE
  NoRollback = FALSE
  StaleKey = FALSE
  CopySharesParts = FALSE
SPECIFICATION LtsSpec
INVARIANT KeyFresh
INVARIANT ObjConsistent
INVARIANT ImplRefines
PROPERTY AssignOrRollback
PROPERTY CopyIndependent
VIEW ObjView
CHECK_DEADLOCK FALSE
