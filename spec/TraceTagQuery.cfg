SPECIFICATION TSpec
CHECK_DEADLOCK FALSE
