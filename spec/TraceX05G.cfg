CONSTANTS
  GMaxLines = 0
  GPalette = {}
  GMaxLen = 0
  GShort = 0
  ArglessQuirk = FALSE
  FirstWins = FALSE
  ValidAny = FALSE
  GEmit = FALSE
SPECIFICATION TSpec
CHECK_DEADLOCK FALSE
