CONSTANTS
  XMaxLen = 3
  ExpandOnce = TRUE
  XEmit = FALSE
SPECIFICATION XSpec
INVARIANT ImplIsExpand
CHECK_DEADLOCK FALSE
