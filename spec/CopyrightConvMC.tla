--------------------------- MODULE CopyrightConvMC ---------------------------
(***************************************************************************)
(* X13 -- bounded-exhaustive model checking and emission for               *)
(* CopyrightConv.tla: every list of <= MaxItems items of <= ItemLen        *)
(* symbols (grown item by item) and every raw text of <= RawLen symbols    *)
(* (grown symbol by symbol).  LIST / RAW lines carry the expected results  *)
(* for the harness.                                                        *)
(***************************************************************************)
EXTENDS CopyrightConv

CONSTANTS MaxItems, ItemLen, RawLen,
          EmitItems, EmitItemLen, EmitRawLen,    \* what is emitted (<= what is checked)
          Emit

VARIABLES cvmode, cvlist, cvraw
cvars == <<cvmode, cvlist, cvraw>>

Texts(n) == UNION {[1..m -> Sym] : m \in 0..n}

CInit == /\ cvmode \in {"list", "raw"} /\ cvlist = <<>> /\ cvraw = <<>>
CNext == \/ /\ cvmode = "list" /\ Len(cvlist) < MaxItems
            /\ \E it \in Texts(ItemLen) : cvlist' = Append(cvlist, it)
            /\ UNCHANGED <<cvmode, cvraw>>
         \/ /\ cvmode = "raw" /\ Len(cvraw) < RawLen
            /\ \E c \in Sym : cvraw' = Append(cvraw, c)
            /\ UNCHANGED <<cvmode, cvlist>>
CSpec == CInit /\ [][CNext]_cvars

LT == LinesTo(cvlist)
WT == WordsTo(cvlist)
Stripped(l) == [i \in DOMAIN l |-> Cut(l[i], StripR(l[i], i, 1, Len(l[i])))]

\* reading back what was stored gives the (stripped) items; what is stored is a well-formed deb822 value
RoundTripLines == LT.t = "raw" => LET x == Flat(cvlist, LT.out) IN
                                  /\ Vals(<<x>>, LinesFrom(x)) = Stripped(cvlist)
                                  /\ ~LinesFromUnspec(x)
DebSafeLines   == LT.t = "raw" => DebSafe(Flat(cvlist, LT.out))
RoundTripWords == WT.t = "raw" => LET x == Flat(cvlist, WT.out) IN
                                  /\ Vals(<<x>>, WordsFrom(x)) = cvlist
                                  /\ DebSafe(x) /\ "n" \notin ToSet(x)
\* when a list is refused
LinesFailIff == (LT.t = "fail") <=> (cvlist # <<>> /\ \E i \in DOMAIN cvlist :
                                        LET s == Stripped(cvlist)[i] IN s = <<>> \/ "n" \in ToSet(s))
WordsFailIff == (WT.t = "fail") <=> (cvlist # <<>> /\ \E i \in DOMAIN cvlist :
                                        cvlist[i] = <<>> \/ \E j \in DOMAIN cvlist[i] : IsWs(cvlist[i][j]))
NilIffEmpty  == (LT.t = "nil" <=> cvlist = <<>>) /\ (WT.t = "nil" <=> cvlist = <<>>)
\* what is read from any raw text can be stored again and reads back the same (normal form)
RawLinesStable == ~LinesFromUnspec(cvraw) =>
                  LET v == Vals(<<cvraw>>, LinesFrom(cvraw)) t == LinesTo(v) IN
                  /\ t.t = (IF v = <<>> THEN "nil" ELSE "raw")
                  /\ (v # <<>> => Vals(<<Flat(v, t.out)>>, LinesFrom(Flat(v, t.out))) = v)
                  /\ \A i \in DOMAIN v : v[i] # <<>> /\ ~IsWs(v[i][1]) /\ ~IsWs(v[i][Len(v[i])])
RawWordsStable == LET v == Vals(<<cvraw>>, WordsFrom(cvraw)) t == WordsTo(v) IN
                  /\ t.t = (IF v = <<>> THEN "nil" ELSE "raw")
                  /\ (v # <<>> => Vals(<<Flat(v, t.out)>>, WordsFrom(Flat(v, t.out))) = v)
SingleLaw == cvraw # <<>> => (SingleTo(cvraw) = "fail" <=> "n" \in ToSet(cvraw))

InEmitList == Len(cvlist) <= EmitItems /\ \A i \in DOMAIN cvlist : Len(cvlist[i]) <= EmitItemLen
EmitCase == Emit =>
    IF cvmode = "list"
    THEN (InEmitList => PrintT(<<"LIST", ToJson([l |-> cvlist, lines |-> LT, words |-> WT])>>))
    ELSE (Len(cvraw) <= EmitRawLen =>
             PrintT(<<"RAW", ToJson([x |-> cvraw, lines |-> LinesFrom(cvraw), lines_unspec |-> LinesFromUnspec(cvraw),
                                     words |-> WordsFrom(cvraw), single |-> SingleTo(cvraw)])>>))
=============================================================================
