\* C14 bounded configuration (quick): every string of length <= 4 over
\* 1 a . + ~ - : space LF _ e-acute ARABIC-INDIC-DIGIT-THREE
CONSTANTS
  Alphabet = {49, 97, 46, 43, 126, 45, 58, 32, 10, 95, 233, 1635}
  MaxLen = 4
  StartStrings <- NoStrings
  AssignValues <- NoStrings
  Emit = TRUE
  DollarAnchor = FALSE
  UnicodeDigits = FALSE
  NoRollback = FALSE
  StaleKey = FALSE
  CopySharesParts = FALSE
SPECIFICATION BndSpec
INVARIANT AcceptExact
INVARIANT DecomposeAgree
INVARIANT Lossless
INVARIANT ZonesDisjoint
INVARIANT ObjConsistent
INVARIANT KeyFresh
CHECK_DEADLOCK FALSE
