CONSTANTS
  AMode = "closed"
  ADepth = 0
  AMaxBlocks = 2
  AMaxChanges = 2
  AEmit = FALSE
  ABug = "none"
  ANewKinds = {"full", "empty", "no_vr", "only_vr", "no_au", "keys34"}
  AInits = {"empty", "one"}
SPECIFICATION ASpec
INVARIANT ATypeOK
INVARIANT IndexLaws
INVARIANT LookupByValue
INVARIANT VersionsMatchBlocks
INVARIANT AddChangeIsRule
INVARIANT RenderLaws
INVARIANT NormShape
PROPERTY NewBlockOnTop
PROPERTY OnlyTopChanges
PROPERTY ReadBack
PROPERTY ErrAtomic
PROPERTY EmptyRaises
VIEW AView
CHECK_DEADLOCK FALSE
