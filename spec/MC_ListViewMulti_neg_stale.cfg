CONSTANTS
  Docs = {1}
  Fields = {"F"}
  Handles = {1}
  MaxLen = 3
  MaxSteps = 6
  Extras = FALSE
  Emit = FALSE
  SharedTokenCache = FALSE
  StaleSnapshot = TRUE
SPECIFICATION Spec
PROPERTY WriteBack
CHECK_DEADLOCK FALSE
