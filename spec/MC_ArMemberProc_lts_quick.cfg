\* C06 process-level layer, complete LTS for the replay (quick tier): 1 path name, up to 2 successive
\* archives per name, up to 3 ArFile objects; closed state space
CONSTANTS
  Paths = {1}
  MaxVersion = 2
  MaxObjs = 3
  SharedHandlePerPath = FALSE
  Emit = TRUE
SPECIFICATION PSpec
INVARIANT PTypeOK
INVARIANT SnapNotOlder
PROPERTY FreshSeesOwn
VIEW PView
CHECK_DEADLOCK FALSE
