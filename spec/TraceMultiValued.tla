------------------------- MODULE TraceMultiValued -------------------------
(***************************************************************************)
(* C12 -- trace validation: life cycles of paragraph objects recorded from *)
(* the real classes Dsc, Changes, BuildInfo, PdiffIndex, Release           *)
(* (harness/props/c12.py) are checked against the actions of MultiValued.  *)
(*                                                                         *)
(* A trace is [cls, beh, behset, events] (beh: size_field_behavior of the  *)
(* object at its creation, behset: assigned explicitly or the untouched    *)
(* default); tokens are logged as [id, len] (id =                          *)
(* identity of the text within the trace), lines of text as sequences of   *)
(* cells [pad, id, len] (pad = white space before the token).  Events:     *)
(*   build  f, form, recs          obj[field] = list of records            *)
(*   given  fields: <<[f, form, recs, lines]>>                             *)
(*                                 obj = cls(text); the text was written   *)
(*                                 by the recorder from recs with lines as *)
(*                                 layout (arbitrary white space)          *)
(*   dump   res, fields: <<[f, form, lines]>>   obj.dump() and its layout  *)
(*   parse  fields: <<[f, form, recs of <<[n, t]>>]>>                      *)
(*                                 the records cls(text) exposes           *)
(*   load                          continue with the parsed object         *)
(*   append f, rec / setsize f, r, tok                                     *)
(*                                 obj[f].append(rec) / obj[f][r]['size']  *)
(*                                 = tok: the list is changed IN PLACE     *)
(*   assign f, form, recs / delete f                                       *)
(*                                 obj[f] = recs / del obj[f]              *)
(*   setbeh v                      obj.size_field_behavior = v             *)
(*   setbehfails                   obj.size_field_behavior = <illegal      *)
(*                                 value> raised: nothing changes          *)
(*   other c, v                    ANOTHER live object of class c was      *)
(*                                 created / configured with v / dumped    *)
(*   reorder kind, f, g            obj.sort_fields() (kind "sort"),        *)
(*                                 sort_fields(key function) ("sortkey"),  *)
(*                                 order_first / order_last(f), order_     *)
(*                                 before / order_after(f, g); f, g =      *)
(*                                 field index or 0 (a field outside the   *)
(*                                 tables); also BEFORE the first dump.    *)
(*                                 Changes the order of the fields only:   *)
(*                                 the next dump / edit / deletion must be *)
(*                                 explained by the same records           *)
(*   refused kind, f, g            a call on the living object that was    *)
(*                                 REFUSED (the recorder caught the        *)
(*                                 exception): order_before / order_after  *)
(*                                 with an absent reference / item or      *)
(*                                 f = g, order_first / order_last /       *)
(*                                 del obj[] / obj[] of an absent field,   *)
(*                                 sort_fields(key) with a faulting key    *)
(*                                 function, dump(fd) with a faulting fd,  *)
(*                                 cls(faulting file / iterator); f, g =   *)
(*                                 field index, 0 (a present field outside *)
(*                                 the tables) or 99 (an absent one).      *)
(*                                 Changes nothing: the next dump must be  *)
(*                                 explained by the same records and must  *)
(*                                 still write every present field         *)
(* A dump is always of the living object, a parse always of a fresh object *)
(* made from the dumped text; mutations change the living object, and the  *)
(* next dump must be explained by its CURRENT records.                     *)
(* build* dump parse            is the direction records -> text -> records*)
(* given parse load dump parse  is the direction text -> records -> text   *)
(* The specification explains a dump iff it predicts the outcome (never an *)
(* exception, whatever subset of the fields is present), the text has the  *)
(* tokens of the records in order, blank-separated, and the size column is *)
(* as wide as documented (MExplains); it explains a parse iff the exposed  *)
(* records are exactly what Parse computes from the text that was read     *)
(* (documented names, same tokens, same order).  A dump in the unspecified *)
(* zone (MUnspecified) is never logged.  Batched: <<"ACCEPTED", tid>> is   *)
(* printed for every trace explained completely.                           *)
(***************************************************************************)
EXTENDS MultiValued, IOUtils, TLCExt

Traces == JsonDeserialize(IOEnv.TRACE_FILE)
Diag   == IOEnv.TRACE_DIAG = "1"

VARIABLES tid, l

Tr == Traces[tid]

TIdx(fields)    == {fields[i].f : i \in 1..Len(fields)}
TPick(fields, f) == fields[CHOOSE i \in 1..Len(fields) : fields[i].f = f]
TPara(fields)   == [f \in TIdx(fields) |-> [form |-> TPick(fields, f).form, recs  |-> TPick(fields, f).recs]]
TText(fields)   == [f \in TIdx(fields) |-> [form |-> TPick(fields, f).form, lines |-> TPick(fields, f).lines]]

TInit == /\ tid \in 1..Len(Traces)
         /\ l = 1
         /\ mode = [name |-> "trace", uniform |-> FALSE, maxf |-> 99, heavy |-> TRUE, emitmod |-> 1,
                    maxmut |-> 0, flimit |-> 99]
         /\ cls = Traces[tid].cls
         /\ start = [beh |-> Traces[tid].beh, set |-> Traces[tid].behset, origin |-> "built"]
         /\ opt = [beh |-> Traces[tid].beh, set |-> Traces[tid].behset, shared |-> Traces[tid].beh]
         /\ shape = NoShape
         /\ para = <<>> /\ phase = "build" /\ widths = <<>> /\ text = <<>> /\ parsed = <<>> /\ res = "ok"
         /\ nmut = 0 /\ hist = <<>> /\ cache = NoCache /\ fold = <<>> /\ linked = <<>>

\* obj = cls(text): the object holds what the text says; the text must be a rendering of recs.
\* (The large predicates are written "P = TRUE": TLC then evaluates them as values instead of
\*  expanding their quantifiers conjunct by conjunct on the Java stack as parts of the action.)
Given(p, t) == /\ phase = "build" /\ para = <<>>
               /\ DOMAIN p \subseteq 1..NFields
               /\ (\A f \in DOMAIN p : MEntryOK(Subs(f), p[f])) = TRUE
               /\ MExplains(Tables, cls, beh, p, t, FALSE) = TRUE
               /\ para' = p /\ text' = t /\ phase' = "dumped" /\ res' = "ok"
               /\ fold' = [f \in DOMAIN p |-> TRUE]
               /\ linked' = [f \in DOMAIN p |-> TRUE]
               /\ UNCHANGED <<mode, cls, start, opt, shape, widths, parsed, nmut, hist, cache>>

TStep == /\ l <= Len(Tr.events)
         /\ LET e == Tr.events[l] IN
              \/ /\ e.op = "build"
                 /\ BuildWith(e.f, [form |-> e.form, recs |-> e.recs])
              \/ /\ e.op = "given"
                 /\ Given(TPara(e.fields), TText(e.fields))
              \/ /\ e.op = "dump"
                 /\ ~MUnspecified(cls, beh, para)
                 /\ e.res = MDumpRes(cls, beh, DOMAIN para, IterSet)          \* dump() is total
                 /\ (e.res = "ok" => MExplains(Tables, cls, beh, para, TText(e.fields), TRUE)) = TRUE
                 /\ DumpTo(TText(e.fields))
              \/ /\ e.op = "parse"
                 /\ Parse
                 /\ parsed' = TPara(e.fields)                      \* names, tokens, order
              \/ /\ e.op = "load"
                 /\ Load
              \/ /\ e.op = "append"
                 /\ AppendRec(e.f, e.rec)
              \/ /\ e.op = "setsize"
                 /\ SetSize(e.f, e.r, e.tok)
              \/ /\ e.op = "assign"
                 /\ Assign(e.f, [form |-> e.form, recs |-> e.recs])
              \/ /\ e.op = "delete"
                 /\ Delete(e.f)
              \/ /\ e.op = "setbeh"
                 /\ SetBeh(e.v)
              \/ /\ e.op = "other"
                 /\ OtherSet(e.c, e.v)
              \/ /\ e.op = "setbehfails"       \* an illegal value was assigned and rejected
                 /\ SetBehFails
              \/ /\ e.op = "reorder"           \* sort_fields / order_first / order_last / order_before / order_after
                 /\ Reorder(e.kind, e.f, e.g)
              \/ /\ e.op = "refused"           \* a call that was refused / failed through a caller-supplied object: nothing changes
                 /\ Refused(e.kind, e.f, e.g)
         /\ l' = l + 1 /\ UNCHANGED tid
         /\ (Diag => PrintT(<<"AT", tid, l>>))
         /\ (l' = Len(Tr.events) + 1 => PrintT(<<"ACCEPTED", tid>>))

TSpec == TInit /\ [][TStep]_<<vars, tid, l>>
=============================================================================
