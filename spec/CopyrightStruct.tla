--------------------------- MODULE CopyrightStruct ---------------------------
(***************************************************************************)
(* X13 (extra) -- the DOCUMENT STRUCTURE of debian.copyright.Copyright:    *)
(* a header object plus an ordered list of Files / License paragraph       *)
(* objects, and the calls that build, change and read it.                  *)
(*                                                                         *)
(* STATEMENT (structure part).  Copyright() holds a new Header in the      *)
(* current format and no paragraphs; Copyright(sequence) holds one object  *)
(* per accepted paragraph of the input in input order (CopyrightValid.tla  *)
(* says which).  add_license_paragraph(p) puts p after every other         *)
(* paragraph; add_files_paragraph(p) puts p directly after the last        *)
(* FilesParagraph of the list (first when there is none), everything else  *)
(* keeps its relative order; `header = h` replaces the header object;      *)
(* each of the three raises TypeError for an argument of another class and *)
(* then changes nothing.  all_paragraphs() and iter() give the header and  *)
(* then the list; all_files_paragraphs() / all_license_paragraphs() the    *)
(* FilesParagraph / LicenseParagraph objects of the list in list order;    *)
(* .header the header; dump() the dump of the header followed, for every   *)
(* paragraph of the list in order, by an empty line and its dump -- always *)
(* THE objects that were parsed or added (identity), as they are now (no   *)
(* copy, no cache).  Queries change nothing; a call on one document never  *)
(* changes another one, also when both hold the same paragraph object.     *)
(*                                                                         *)
(* MODEL.  An object is [k, d, i]: kind "H" / "F" / "L" / "X" (anything    *)
(* that is none of the three classes), d = 0 for an object of the caller   *)
(* (i-th of its kind), d > 0 for the object document d created itself      *)
(* (i = 0 its header, i > 0 the i-th paragraph parsed).  A document is     *)
(* [hdr, ps].  One pure operator SCall = one action per public call:       *)
(* add_files add_license set_header (commands), header all iter files      *)
(* licenses dump (queries), touch (the caller changes a field of an        *)
(* object through its own API: no structural change -- the harness checks  *)
(* that every document that holds the object shows the change).            *)
(*                                                                         *)
(* Defect switches (the statement: AddMode = "afterlast", SharedList =     *)
(* FALSE):                                                                 *)
(*   AddMode = "append" / "afterfirst" / "front"   add_files_paragraph     *)
(*             inserts elsewhere                     -> AddFilesRule       *)
(*   SharedList   one paragraph list for all documents (class attribute)   *)
(*                                                   -> DocsIndependent    *)
(***************************************************************************)
EXTENDS Naturals, Sequences, FiniteSets, TLC, Json

CONSTANTS AddMode, SharedList

Obj(k, d, i) == [k |-> k, d |-> d, i |-> i]
Doc(h, ps)   == [hdr |-> h, ps |-> ps]
\* the document `d` makes of an input whose accepted paragraphs have these kinds (<<>>: also Copyright())
StartDoc(d, kinds) == Doc(Obj("H", d, 0), [i \in 1..Len(kinds) |-> Obj(kinds[i], d, i)])

SFlags(mode, shared) == [mode |-> mode, shared |-> shared]
SStmt == SFlags("afterlast", FALSE)
SCfg  == SFlags(AddMode, SharedList)

IdxOf(ps, k) == {i \in 1..Len(ps) : ps[i].k = k}
Highest(S)   == CHOOSE x \in S : \A y \in S : y <= x
Lowest(S)    == CHOOSE x \in S : \A y \in S : x <= y
PutAfter(s, k, x) == SubSeq(s, 1, k) \o <<x>> \o SubSeq(s, k + 1, Len(s))
FilesPos(ps, mode) == CASE mode = "afterlast"  -> IF IdxOf(ps, "F") = {} THEN 0 ELSE Highest(IdxOf(ps, "F"))
                        [] mode = "afterfirst" -> IF IdxOf(ps, "F") = {} THEN 0 ELSE Lowest(IdxOf(ps, "F"))
                        [] mode = "append"     -> Len(ps)
                        [] mode = "front"      -> 0
OfKind(ps, k) == SelectSeq(ps, LAMBDA o : o.k = k)

\* results: [t, e, os]  t = "ok" | "err" | "objs";  e = exception;  os = sequence of objects
RS(t, e, os) == [t |-> t, e |-> e, os |-> os]
ROk          == RS("ok", "", <<>>)
RErr(e)      == RS("err", e, <<>>)
RObjs(os)    == RS("objs", "", os)

SC(op, d, o) == [op |-> op, d |-> d, o |-> o]
NoObj        == Obj("-", 0, 0)
NoCall       == SC("-", 0, NoObj)
Commands     == {"add_files", "add_license", "set_header"}
Queries      == {"header", "all", "iter", "files", "licenses", "dump", "touch"}

\* new paragraph list of document e when document d's list becomes ps
Spread(ds, d, ps, fl) == [e \in DOMAIN ds |-> IF e = d \/ fl.shared THEN [ds[e] EXCEPT !.ps = ps] ELSE ds[e]]

SCall(ds, c, fl) ==
    LET doc == ds[c.d] ps == doc.ps IN
    CASE c.op = "add_files"   -> IF c.o.k = "F" THEN [ds |-> Spread(ds, c.d, PutAfter(ps, FilesPos(ps, fl.mode), c.o), fl), r |-> ROk]
                                 ELSE [ds |-> ds, r |-> RErr("TypeError")]
      [] c.op = "add_license" -> IF c.o.k = "L" THEN [ds |-> Spread(ds, c.d, Append(ps, c.o), fl), r |-> ROk]
                                 ELSE [ds |-> ds, r |-> RErr("TypeError")]
      [] c.op = "set_header"  -> IF c.o.k = "H" THEN [ds |-> [ds EXCEPT ![c.d].hdr = c.o], r |-> ROk]
                                 ELSE [ds |-> ds, r |-> RErr("TypeError")]
      [] c.op = "header"      -> [ds |-> ds, r |-> RObjs(<<doc.hdr>>)]
      [] c.op \in {"all", "iter", "dump"} -> [ds |-> ds, r |-> RObjs(<<doc.hdr>> \o ps)]
      [] c.op = "files"       -> [ds |-> ds, r |-> RObjs(OfKind(ps, "F"))]
      [] c.op = "licenses"    -> [ds |-> ds, r |-> RObjs(OfKind(ps, "L"))]
      [] c.op = "touch"       -> [ds |-> ds, r |-> ROk]
=============================================================================
