CONSTANTS
  Which = {"plain", "multi"}
  MaxLen = 2
  FEqRaise = TRUE
  FObjEnc = FALSE
  FSdMove = FALSE
  Emit = FALSE
SPECIFICATION OSpec
INVARIANT MapsOK
INVARIANT EqIsSetEquality
INVARIANT EqSymmetric
INVARIANT RenderingsAgree
INVARIANT DumpFollowsKeys
PROPERTY QueriesPure
PROPERTY ErrAtomic
PROPERTY Frame
PROPERTY KeepsPlace
PROPERTY ReadBack
PROPERTY NeNegatesEq
PROPERTY NonMappingNeverEqual
PROPERTY ObjEncUsed
PROPERTY GetIsTotal
VIEW OView
