CONSTANTS
  Scope = "emit"
  Slots = {1, 2, 3}
  Bases <- MCBases
  ArgSeqs <- MCArgSeqs
  Preds <- MCPreds
  FT <- MCFT
  AddNames = {"zz"}
  MaxMut = 1
  AllKeys = FALSE
  MaxDer = 2
  ChooseCopyShares = TRUE
  ReverseDropsUntagged = FALSE
  Emit = TRUE
SPECIFICATION Spec
INVARIANT TypeOK
INVARIANT AliasSane
CHECK_DEADLOCK FALSE
