CONSTANTS
  Sigma = {}
  NSigma = {}
  MaxParas = 1
  MaxPats = 2
  MaxPatLen = 2
  MaxSyms = 4
  MaxNameLen = 2
  Discipline = "full"
  DotAll = TRUE
  FindFirst = FALSE
  AffixFrom = 0
  Emit = "none"
  BlockLen = 0
  MemoKeyJoined = FALSE
  JoinSep = 10
  MPool <- MCMPool
  MNames <- MCMNames
SPECIFICATION MSpec
INVARIANT OutFaithful
PROPERTY SameAnswer
VIEW MView
CHECK_DEADLOCK FALSE
