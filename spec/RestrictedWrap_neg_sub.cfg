CONSTANTS
  Which = {"sub"}
  MaxLen = 2
  FSub = TRUE
  FInx = FALSE
  FShared = FALSE
  FKeepNone = FALSE
  Emit = FALSE
SPECIFICATION RSpec
INVARIANT ParasOK
INVARIANT ConvLaw
PROPERTY ErrAtomic
PROPERTY QueriesPure
PROPERTY Frame
PROPERTY KeepsPlace
PROPERTY RestrictedOnlyViaAttr
PROPERTY UnrestrictedLikeDeb822
PROPERTY ReadBack
PROPERTY SetNoneDeletes
PROPERTY NoneRefused
PROPERTY ContainsAgrees
VIEW RView
