CONSTANTS
  FSilent = TRUE
  FStrictDrops = FALSE
  MaxBody = 1
  EmitBody = 1
  Emit = FALSE
SPECIFICATION VSpec
INVARIANT TolerantWarns
CHECK_DEADLOCK FALSE
