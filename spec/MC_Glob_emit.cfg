CONSTANTS
  Sigma = {97, 98, 47, 46, 42, 63, 92, 10}
  NSigma = {97, 98, 47, 46, 42, 63, 92, 10}
  MaxParas = 1
  MaxPats = 2
  MaxPatLen = 2
  MaxSyms = 6
  MaxNameLen = 2
  Discipline = "full"
  DotAll = TRUE
  FindFirst = FALSE
  AffixFrom = 0
  Emit = "match"
  BlockLen = 0
SPECIFICATION ESpec
INVARIANT EmitCase
CHECK_DEADLOCK FALSE
