-------------------------- MODULE TraceStreamGlue --------------------------
(***************************************************************************)
(* X06 (b), (c) -- trace validation for len_check_iterator and             *)
(* combine_into_replacement.  A trace is [mode, input, clen, events]; each *)
(* event is one next() on the generator: [res |-> [t, v], polls |-> reads  *)
(* of the input stream so far, handed |-> the lists given to the           *)
(* constructor so far, as they are NOW].                                   *)
(***************************************************************************)
EXTENDS StreamGlue, IOUtils, TLCExt

Traces == JsonDeserialize(IOEnv.TRACE_FILE)
Diag   == IOEnv.TRACE_DIAG = "1"

VARIABLES tid, l

Tr == Traces[tid]

TInit == /\ tid \in 1..Len(Traces)
         /\ l = 1
         /\ SGInitWith(Traces[tid].mode, Traces[tid].input, Traces[tid].clen)

TStep == /\ l <= Len(Tr.events)
         /\ LET e == Tr.events[l] IN
              /\ Next
              /\ gres' = e.res
              /\ i' = e.polls
              /\ e.handed = [h \in 1..Len(handed') |-> handed'[h].now]
         /\ l' = l + 1 /\ UNCHANGED tid
         /\ (Diag => PrintT(<<"AT", tid, l>>))
         /\ (l' = Len(Tr.events) + 1 => PrintT(<<"ACCEPTED", tid>>))

TSpec == TInit /\ [][TStep]_<<gvars, tid, l>>
TInv  == LenRefines /\ HandedStable
=============================================================================
