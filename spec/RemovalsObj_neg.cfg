CONSTANTS
  Leads = {}
  Gaps = {}
  Trails = {}
  MaxArch = 0
  MaxEdits = 0
  MaxLen = 0
  EditClasses = {}
  MaxNum = 0
  SplitComma = FALSE
  SrcNeedsWs = FALSE
  EmptyRaises = FALSE
  Emit = FALSE
  Objs = {1, 2}
  OFields = {"src"}
  Rich = 0
  SharedMemo = TRUE
  EmitObj = FALSE
SPECIFICATION OSpec
INVARIANT OTypeOK
INVARIANT MemoSound
INVARIANT NoGhostMemo
PROPERTY ResSound
VIEW OView
CHECK_DEADLOCK FALSE
