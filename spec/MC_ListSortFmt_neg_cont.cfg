CONSTANTS
  MaxLen = 4
  MaxInp = 4
  BadShip = "nocont"
SPECIFICATION Spec
INVARIANT EmitCase
CHECK_DEADLOCK FALSE
