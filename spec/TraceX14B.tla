------------------------------ MODULE TraceX14B ------------------------------
(***************************************************************************)
(* X14 (a) -- trace validation of ChangeBlock.bugs_closed / lp_bugs_closed.*)
(* A trace is the history of ONE block: a sequence of observations         *)
(*   [t |-> text, c |-> numbers, l |-> numbers]                            *)
(* t = the block's change lines at the time of the call, abstracted by the *)
(* harness character by character to the symbols of BugsClosed (ASCII      *)
(* digits stay themselves, "n" = boundary between two change lines), c / l *)
(* = what bugs_closed / lp_bugs_closed returned, every int written as its  *)
(* decimal digits.  Each observation must be what the automata of          *)
(* BugsClosed read in the CURRENT text (the properties are pure functions  *)
(* of the change lines: an earlier text, an earlier result or another      *)
(* block must not show).  Where the Unicode-only characters (W D S)        *)
(* influence the result the observation is unspecified and accepted.       *)
(* <<"ACCEPTED", tid>> per explained trace; <<"AT", tid, l>> with          *)
(* TRACE_DIAG = "1".                                                       *)
(***************************************************************************)
EXTENDS BugsClosed, IOUtils, TLCExt

Traces == JsonDeserialize(IOEnv.TRACE_FILE)
Diag   == IOEnv.TRACE_DIAG = "1"

VARIABLES tid, tl
tbvars == <<bvars, tid, tl>>
Tr == Traces[tid]
Chk(P) == P = TRUE

TBInit == /\ tid \in 1..Len(Traces) /\ tl = 1
          /\ btext = <<>> /\ bk = 0 /\ qc = "K0" /\ ql = "L0"

Explains(kind, t, obs) ==
    LET strict == BScanN(kind, BNormText(t, FALSE)) IN
    IF (\E i \in 1..Len(t) : t[i] \in BOdd) /\ BScanN(kind, BNormText(t, TRUE)) # strict THEN TRUE     \* unspecified
    ELSE BValues(strict) = obs

TBStep == /\ tl <= Len(Tr)
          /\ LET e == Tr[tl] IN
             /\ Chk(Explains("closes", e.t, e.c))
             /\ Chk(Explains("lp", e.t, e.l))
             /\ btext' = e.t
             /\ qc' = BCtlN("closes", BNormText(e.t, FALSE))
             /\ ql' = BCtlN("lp", BNormText(e.t, FALSE))
          /\ tl' = tl + 1 /\ UNCHANGED <<tid, bk>>
          /\ (Diag => PrintT(<<"AT", tid, tl>>))
          /\ (tl + 1 = Len(Tr) + 1 => PrintT(<<"ACCEPTED", tid>>))

TBSpec == TBInit /\ [][TBStep]_tbvars
=============================================================================
