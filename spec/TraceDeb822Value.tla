------------------------- MODULE TraceDeb822Value -------------------------
(***************************************************************************)
(* C08 -- trace validation: assignments recorded from the real Deb822 /    *)
(* Dsc classes (harness/props/c08.py) are checked against Deb822Value on   *)
(* the CONCRETE code points (arbitrary printable text, values up to 40     *)
(* characters, neighbour fields that themselves hold accepted multi-line   *)
(* values).                                                                *)
(* A trace is [init |-> paragraph, events |-> <<event>>]; a paragraph is a *)
(* sequence of [k, v] (code point sequences); an event is                  *)
(*   [pos, v, acc, res, items, rb]:                                        *)
(*   pos    index of the field assigned to, v the value given,             *)
(*   acc    TRUE iff the assignment returned normally, res "ok" /          *)
(*          "ValueError" / "EXC:<type>",                                   *)
(*   items  the paragraph read from the object after the call,             *)
(*   rb     when accepted: what list(Deb822.iter_paragraphs(dump, ...))    *)
(*          gave, [st, paras (key list per paragraph)], for the input      *)
(*          forms s (str), f (io.StringIO), b (io.BytesIO) and the         *)
(*          settings F (whitespace-separates-paragraphs: False) and T      *)
(*          (default):  sF sT fF fT bF bT.                                 *)
(* An event is explained when                                              *)
(*   - acc agrees with Classify(v) where the statement decides ("accept" / *)
(*     "reject"; "zone" and "blank" are unspecified: the trace follows the *)
(*     code's decision),                                                   *)
(*   - not accepted: res = "ValueError" and items = the paragraph before,  *)
(*   - accepted: items = the paragraph with v stored, and every read-back  *)
(*     with setting F -- and with T when no value of the paragraph has a   *)
(*     blank continuation line -- is exactly one paragraph with the keys   *)
(*     of the paragraph.                                                   *)
(* Independently (diagnostic, never a rejection) the reader model of       *)
(* Deb822Value is evaluated on the concrete dump and compared with all six *)
(* observed read-backs: a difference prints <<"REJECT", tid, l, "model">>  *)
(* (reported as spec drift).  With TRACE_DIAG = "1" the first unexplained  *)
(* event prints <<"REJECT", tid, l, reasons>>.                             *)
(***************************************************************************)
EXTENDS Deb822Value, IOUtils, TLCExt

Traces == JsonDeserialize(IOEnv.TRACE_FILE)
Diag   == IOEnv.TRACE_DIAG = "1"

VARIABLES tid, l

Tr == Traces[tid]

TInit == /\ tid \in 1..Len(Traces)
         /\ l = 1
         /\ inp = <<>> /\ out = <<>> /\ res = "none"
         /\ para = Traces[tid].init

After(e) == IF e.acc THEN Stored(para, e.pos, e.v) ELSE para

FNames == {"sF", "fF", "bF"}
TNames == {"sT", "fT", "bT"}

\* name -> truth value of each obligation; an event is explained when all hold
Checks(e) == LET cls == Classify(e.v)
                 q   == After(e)
             IN << <<"must-accept", cls = "accept" => e.acc>>,
                   <<"must-reject", cls = "reject" => ~e.acc>>,
                   <<"exception-type", e.res = IF e.acc THEN "ok" ELSE "ValueError">>,
                   <<"reject-atomic", ~e.acc => e.items = para>>,
                   <<"stored", e.acc => e.items = q>>,
                   <<"readback-ws-false", e.acc => \A n \in FNames : e.rb[n] = OneParagraph(q)>>,
                   <<"readback-default", (e.acc /\ AllNoBlank(q)) => \A n \in TNames : e.rb[n] = OneParagraph(q)>> >>
Explained(e) == LET c == Checks(e) IN \A i \in 1..Len(c) : c[i][2]
Reasons(e)   == LET c == Checks(e) IN SelectSeq([i \in 1..Len(c) |-> IF c[i][2] THEN "" ELSE c[i][1]], LAMBDA s : s # "")

\* the transcription of the reader, evaluated on the concrete text
ModelAgrees(e) == (e.acc /\ e.items = After(e)) =>
                  LET o == ObsAll(After(e)) IN
                  /\ e.rb["sF"] = o["str"][FALSE]  /\ e.rb["sT"] = o["str"][TRUE]
                  /\ e.rb["fF"] = o["file"][FALSE] /\ e.rb["fT"] = o["file"][TRUE]
                  /\ e.rb["bF"] = o["file"][FALSE] /\ e.rb["bT"] = o["file"][TRUE]
\* the transcription of the validator against the statement layer, on the concrete value
ValidatorAgrees(e) == Accept(e.v) <=> ~DefectU(e.v)

TStep == /\ l <= Len(Tr.events)
         /\ LET e == Tr.events[l] IN
              /\ e.pos \in 1..Len(para)
              /\ Explained(e)
              /\ ((~ModelAgrees(e) \/ ~ValidatorAgrees(e)) => PrintT(<<"REJECT", tid, l, "model">>))
              /\ para' = After(e)
              /\ res' = e.res
         /\ l' = l + 1 /\ UNCHANGED <<tid, inp, out>>
         /\ (Diag => PrintT(<<"AT", tid, l>>))
         /\ (l' = Len(Tr.events) + 1 => PrintT(<<"ACCEPTED", tid>>))

TWhy == /\ Diag
        /\ l <= Len(Tr.events)
        /\ LET e == Tr.events[l] IN
             /\ e.pos \in 1..Len(para)
             /\ ~Explained(e)
             /\ PrintT(<<"REJECT", tid, l, Reasons(e)>>)
        /\ FALSE
        /\ UNCHANGED <<vars, tid, l>>

TSpec == TInit /\ [][TStep \/ TWhy]_<<vars, tid, l>>
=============================================================================
