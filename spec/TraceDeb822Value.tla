------------------------- MODULE TraceDeb822Value -------------------------
(***************************************************************************)
(* C08 -- trace validation: assignments recorded from the real Deb822 /    *)
(* Dsc classes (harness/props/c08.py) are checked against Deb822Value on   *)
(* the CONCRETE code points (arbitrary printable text, values up to 40     *)
(* characters, neighbour fields that themselves hold accepted multi-line   *)
(* values).                                                                *)
(* A trace is [init |-> paragraph, deep |-> BOOLEAN, events |-> <<event>>];*)
(* a paragraph is a sequence of [k, v] (code point sequences); an event is *)
(*   [pos, v, acc, res, items, rb]:                                        *)
(*   pos    index of the field assigned to, v the value given,             *)
(*   acc    TRUE iff the assignment returned normally, res "ok" /          *)
(*          "ValueError" / "EXC:<type>",                                   *)
(*   items  the paragraph read from the object after the call,             *)
(*   rb     when accepted: what list(Deb822.iter_paragraphs(dump, ...))    *)
(*          gave, [st, paras (key list per paragraph)], for the input      *)
(*          forms s (str), f (io.StringIO), b (io.BytesIO) and the         *)
(*          settings F (whitespace-separates-paragraphs: False) and T      *)
(*          (default):  sF sT fF fT bF bT; stored as a table of the        *)
(*          distinct observations (rb.o) and an index per name (rb.ix).    *)
(* An event is explained when                                              *)
(*   - acc agrees with Classify(v) where the statement decides ("accept" / *)
(*     "reject"; "zone" and "blank" are unspecified: the trace follows the *)
(*     code's decision),                                                   *)
(*   - not accepted: res = "ValueError" and items = the paragraph before,  *)
(*   - accepted: items has the field names of the paragraph before (it is  *)
(*     adopted as the new paragraph), and every read-back with setting F   *)
(*     -- and with T when no value of the paragraph has a blank            *)
(*     continuation line -- is exactly one paragraph with those names.     *)
(* Independently (diagnostic, never a rejection) the reader model of       *)
(* Deb822Value is evaluated on the concrete dump and compared with all six *)
(* observed read-backs, the stored value with v and Validate with the      *)
(* statement layer: a difference prints <<"REJECT", tid, l, "model">>      *)
(* (reported as spec drift; only for traces with deep = TRUE -- the reader *)
(* model costs four parses per event).  With TRACE_DIAG = "1" the first    *)
(* unexplained event prints <<"REJECT", tid, l, reasons>>.                 *)
(***************************************************************************)
EXTENDS Deb822Value, IOUtils, TLCExt

Traces == JsonDeserialize(IOEnv.TRACE_FILE)
Diag   == IOEnv.TRACE_DIAG = "1"

VARIABLES tid, l

Tr == Traces[tid]

TInit == /\ tid \in 1..Len(Traces)
         /\ l = 1
         /\ inp = <<>> /\ out = <<>> /\ res = "none"
         /\ para = Traces[tid].init

\* the statement speaks about "the paragraph" after an accepted assignment, not about how the
\* value is stored: the observed paragraph is adopted (its field names must be the old ones)
After(e) == IF e.acc THEN e.items ELSE para

\* rb = [o |-> <<distinct observations>>, ix |-> [sF |-> index into o, ...]]
RBof(e, n) == e.rb.o[e.rb.ix[n]]
FNames == {"sF", "fF", "bF"}
TNames == {"sT", "fT", "bT"}

\* name -> truth value of each obligation; an event is explained when all hold
Checks(e) == LET cls == Classify(e.v)
                 q   == After(e)
             IN << <<"must-accept", cls = "accept" => e.acc>>,
                   <<"must-reject", cls = "reject" => ~e.acc>>,
                   <<"exception-type", e.res = IF e.acc THEN "ok" ELSE "ValueError">>,
                   <<"reject-atomic", ~e.acc => e.items = para>>,
                   <<"keys-kept", e.acc => KeysOf(e.items) = KeysOf(para)>>,
                   <<"readback-ws-false", e.acc => \A n \in FNames : RBof(e, n) = OneParagraph(q)>>,
                   <<"readback-default", (e.acc /\ AllNoBlank(q)) => \A n \in TNames : RBof(e, n) = OneParagraph(q)>> >>
Explained(e) == LET c == Checks(e) IN \A i \in 1..Len(c) : c[i][2]
Reasons(e)   == LET c == Checks(e) IN SelectSeq([i \in 1..Len(c) |-> IF c[i][2] THEN "" ELSE c[i][1]], LAMBDA s : s # "")

\* the transcription of the reader, evaluated on the concrete text
ModelAgrees(e) == e.acc =>
                  LET o == ObsAll(After(e)) IN
                  /\ e.items = Stored(para, e.pos, e.v)
                  /\ RBof(e, "sF") = o["str"][FALSE]  /\ RBof(e, "sT") = o["str"][TRUE]
                  /\ RBof(e, "fF") = o["file"][FALSE] /\ RBof(e, "fT") = o["file"][TRUE]
                  /\ RBof(e, "bF") = o["file"][FALSE] /\ RBof(e, "bT") = o["file"][TRUE]
\* the transcription of the validator against the statement layer, on the concrete value
ValidatorAgrees(e) == Accept(e.v) <=> ~DefectU(e.v)

TStep == /\ l <= Len(Tr.events)
         /\ LET e == Tr.events[l] IN
              /\ e.pos \in 1..Len(para)
              /\ Explained(e)
              /\ ((Tr.deep /\ (~ModelAgrees(e) \/ ~ValidatorAgrees(e))) => PrintT(<<"REJECT", tid, l, "model">>))
              /\ para' = After(e)
              /\ res' = e.res
         /\ l' = l + 1 /\ UNCHANGED <<tid, inp, out>>
         /\ (Diag => PrintT(<<"AT", tid, l>>))
         /\ (l' = Len(Tr.events) + 1 => PrintT(<<"ACCEPTED", tid>>))

TWhy == /\ Diag
        /\ l <= Len(Tr.events)
        /\ LET e == Tr.events[l] IN
             /\ e.pos \in 1..Len(para)
             /\ ~Explained(e)
             /\ PrintT(<<"REJECT", tid, l, Reasons(e)>>)
        /\ FALSE
        /\ UNCHANGED <<vars, tid, l>>

TSpec == TInit /\ [][TStep \/ TWhy]_<<vars, tid, l>>
=============================================================================
