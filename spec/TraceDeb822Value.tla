------------------------- MODULE TraceDeb822Value -------------------------
(***************************************************************************)
(* C08 -- trace validation: assignment histories recorded from real        *)
(* Deb822 / Dsc / Changes objects (harness/props/c08.py) are checked       *)
(* against Deb822Value on the CONCRETE code points (arbitrary printable    *)
(* text, values up to 40 characters, fields that themselves hold accepted  *)
(* multi-line values, field names up to 65 characters).  Bigger sizes      *)
(* (values of 4 KiB / 64 KiB, 100 / 1 000 continuation lines, paragraphs   *)
(* of 100 fields) are NOT scanned by TLC: they go through the CASE / LTS   *)
(* replay, whose expectations TLC derived from the small abstract value    *)
(* and which are length-independent (size lemmas of Deb822Value).          *)
(* A trace is [objs, deep, events]: objs = the LIVE objects, each          *)
(* [cls |-> "Deb822" | "Dsc" | "Changes" | "BuildInfo" | "Release" |       *)
(* "PdiffIndex" | "Sources" | "Packages" | "Removals", para |-> paragraph];*)
(* a paragraph is a sequence of [k, v] (code point sequences); an event is *)
(*   [obj, cls, key, v, acc, res, items, rb]:                              *)
(*   obj    index of the live object assigned to; 0 = a throw-away object  *)
(*          of class cls receiving v under a MULTIVALUED key (Files ...),  *)
(*   key    the field name (present or absent in the paragraph), v the     *)
(*          value given,                                                   *)
(*   acc    TRUE iff the assignment returned normally, res "ok" /          *)
(*          "ValueError" / "EXC:<type>",                                   *)
(*   items  the paragraphs of ALL live objects read after the call,        *)
(*   rb     when accepted on a live object: what                           *)
(*          list(Deb822.iter_paragraphs(dump, ...)) gave, [st, paras (key  *)
(*          list per paragraph)], for the input forms s (str),             *)
(*          f (io.StringIO), b (io.BytesIO) and the settings F             *)
(*          (whitespace-separates-paragraphs: False) and T (default):      *)
(*          sF sT fF fT bF bT; plus wF / wT: the dump read back through    *)
(*          ONE of the ways the object's own class offers (e.way: Cls(x,   *)
(*          strict) or Cls.iter_paragraphs(x, strict), x = str / bytes /   *)
(*          list / StringIO / BytesIO, strict by keyword or positionally;  *)
(*          rotating; the way with the known deviation -- gpg-aware class, *)
(*          list / file input, positional strict -- is left to the CASE    *)
(*          replay).  Stored as a table of the distinct observations       *)
(*          (rb.o) and an index per name (rb.ix).                          *)
(*   op     "assign" (the above), or -- the construction actions of        *)
(*          Deb822ValueHist --                                             *)
(*          "fresh": live object obj was replaced by an EMPTY paragraph of *)
(*          its class (Cls() / Cls({}) / Cls([]) / Cls("") / empty file /  *)
(*          blank lines / comments only / clear() ...): its paragraph is   *)
(*          <<>>, nobody else changed, and every LATER assignment to it is *)
(*          judged like any other;                                         *)
(*          "build": live object obj was replaced by Cls(M), M a mapping   *)
(*          (dict / Deb822Dict / items()-only object / a paragraph of ANY  *)
(*          class, possibly one in which a key is multivalued and holds a  *)
(*          raw string nobody validated) whose fields, read before the     *)
(*          call, are e.m; no key of e.m is multivalued in cls.  Building  *)
(*          from a mapping assigns every field: all values "accept" ->     *)
(*          must be built, some value "reject" -> ValueError and obj is    *)
(*          what it was; built -> field names of FoldM(e.m), read-backs    *)
(*          as for an assignment.                                          *)
(*          "faultdump" (Deb822ValueHist.FaultDump): obj.dump(fd) was      *)
(*          called with a file object of the caller that fails while the   *)
(*          paragraph is being written (exception at some write, short     *)
(*          write, text file without text_mode ...): res = "fault" (the    *)
(*          caller's fault came out as the file object produced it),       *)
(*          nothing changed, and rb -- a NEW dump of obj made after the    *)
(*          failed one, read back -- is one paragraph with ALL the field   *)
(*          names of obj, as after an accepted assignment.                 *)
(*          "merge": obj.merge_fields(key, other) in its IN-PLACE form --  *)
(*          an entry point that ASSIGNS: the value is computed by the      *)
(*          library from obj[key] and other[key] (other = e.m: a paragraph *)
(*          of any class, a plain mapping, the other live object).  WHAT   *)
(*          is computed is not this property's business (X03); e.v is the  *)
(*          value found under key after an accepted call.  The statement   *)
(*          requires: accepted -> e.v is stored under key, the field names *)
(*          are the old ones (plus key at the end), e.v has none of the    *)
(*          statement's defects (a value that has one is REJECTED,         *)
(*          whoever computed it) and every read-back is one paragraph with *)
(*          those names; otherwise ValueError and nothing changed.  (The   *)
(*          3-argument form returns the value; assigning it is an ordinary *)
(*          "assign" event.)                                               *)
(* Same-key histories: the verdict does not depend on the value STORED     *)
(* under the key either (Deb822ValueHist, UseExt / AppendFastPath): the    *)
(* recorded histories assign chains of values that extend one another / are*)
(* prefixes of one another / share a prefix, cut at every line boundary    *)
(* (LF, CR, between CR and LF), to the SAME key; each event is judged like *)
(* any other.                                                              *)
(* The reference is HISTORY-FREE (Deb822ValueHist): an event is explained  *)
(* by the class, the key and the value alone, whatever happened before --  *)
(*   - acc agrees with Classify(v) where the statement decides ("accept" / *)
(*     "reject"; "zone" and "blank" are unspecified: the trace follows the *)
(*     code's decision),                                                   *)
(*   - not accepted: res = "ValueError" and the paragraph is unchanged,    *)
(*   - accepted: the paragraph has the field names SetField gives (the old *)
(*     ones, plus the new key at the end); it is adopted as the new        *)
(*     paragraph; every read-back with setting F -- and with T when no     *)
(*     value of the paragraph has a blank continuation line -- is exactly  *)
(*     one paragraph with those names,                                     *)
(*   - every OTHER live paragraph is exactly what it was,                  *)
(*   - a multivalued-key event (obj = 0) is outside the property's domain: *)
(*     any outcome, but no live paragraph may change (and, because the     *)
(*     reference is history-free, no later verdict either).                *)
(* Independently (diagnostic, never a rejection) the reader model of       *)
(* Deb822Value is evaluated on the concrete dump and compared with all six *)
(* observed read-backs, the stored value with v and Validate with the      *)
(* statement layer: a difference prints <<"REJECT", tid, l, "model">>      *)
(* (reported as spec drift; only for traces with deep = TRUE -- the reader *)
(* model costs four parses per event).  With TRACE_DIAG = "1" the first    *)
(* unexplained event prints <<"REJECT", tid, l, reasons>>.                 *)
(***************************************************************************)
EXTENDS Deb822Value, IOUtils, TLCExt

Traces == JsonDeserialize(IOEnv.TRACE_FILE)
Diag   == IOEnv.TRACE_DIAG = "1"

VARIABLES tid, l, ps            \* ps[o]: paragraph of live object o

Tr == Traces[tid]

\* field names that a class does not validate (its _multivalued_fields, lower case): assignments
\* to them are outside the domain of C08.  The SAME name is an ordinary, validated field in the
\* other classes (Files in Deb822 / Release / BuildInfo, Checksums-Md5 in Dsc ...).
N_checksums_md5 == <<99, 104, 101, 99, 107, 115, 117, 109, 115, 45, 109, 100, 53>>
N_checksums_sha1 == <<99, 104, 101, 99, 107, 115, 117, 109, 115, 45, 115, 104, 97, 49>>
N_checksums_sha256 == <<99, 104, 101, 99, 107, 115, 117, 109, 115, 45, 115, 104, 97, 50, 53, 54>>
N_checksums_sha512 == <<99, 104, 101, 99, 107, 115, 117, 109, 115, 45, 115, 104, 97, 53, 49, 50>>
N_files == <<102, 105, 108, 101, 115>>
N_md5sum == <<109, 100, 53, 115, 117, 109>>
N_sha1 == <<115, 104, 97, 49>>
N_sha1_current == <<115, 104, 97, 49, 45, 99, 117, 114, 114, 101, 110, 116>>
N_sha1_download == <<115, 104, 97, 49, 45, 100, 111, 119, 110, 108, 111, 97, 100>>
N_sha1_history == <<115, 104, 97, 49, 45, 104, 105, 115, 116, 111, 114, 121>>
N_sha1_patches == <<115, 104, 97, 49, 45, 112, 97, 116, 99, 104, 101, 115>>
N_sha256 == <<115, 104, 97, 50, 53, 54>>
N_sha256_current == <<115, 104, 97, 50, 53, 54, 45, 99, 117, 114, 114, 101, 110, 116>>
N_sha256_download == <<115, 104, 97, 50, 53, 54, 45, 100, 111, 119, 110, 108, 111, 97, 100>>
N_sha256_history == <<115, 104, 97, 50, 53, 54, 45, 104, 105, 115, 116, 111, 114, 121>>
N_sha256_patches == <<115, 104, 97, 50, 53, 54, 45, 112, 97, 116, 99, 104, 101, 115>>
N_sha512 == <<115, 104, 97, 53, 49, 50>>
N_x_unmerged_sha1_download == <<120, 45, 117, 110, 109, 101, 114, 103, 101, 100, 45, 115, 104, 97, 49, 45, 100, 111, 119, 110, 108, 111, 97, 100>>
N_x_unmerged_sha1_history == <<120, 45, 117, 110, 109, 101, 114, 103, 101, 100, 45, 115, 104, 97, 49, 45, 104, 105, 115, 116, 111, 114, 121>>
N_x_unmerged_sha1_patches == <<120, 45, 117, 110, 109, 101, 114, 103, 101, 100, 45, 115, 104, 97, 49, 45, 112, 97, 116, 99, 104, 101, 115>>
N_x_unmerged_sha256_download == <<120, 45, 117, 110, 109, 101, 114, 103, 101, 100, 45, 115, 104, 97, 50, 53, 54, 45, 100, 111, 119, 110, 108, 111, 97, 100>>
N_x_unmerged_sha256_history == <<120, 45, 117, 110, 109, 101, 114, 103, 101, 100, 45, 115, 104, 97, 50, 53, 54, 45, 104, 105, 115, 116, 111, 114, 121>>
N_x_unmerged_sha256_patches == <<120, 45, 117, 110, 109, 101, 114, 103, 101, 100, 45, 115, 104, 97, 50, 53, 54, 45, 112, 97, 116, 99, 104, 101, 115>>
MultiNames(cls) == CASE cls = "Deb822" -> {}
  [] cls \in {"Packages", "Removals"} -> {}
  [] cls \in {"Dsc", "Sources"} -> {N_checksums_sha1,
        N_checksums_sha256,
        N_checksums_sha512,
        N_files}
  [] cls = "Changes" -> {N_checksums_sha1,
        N_checksums_sha256,
        N_checksums_sha512,
        N_files}
  [] cls = "BuildInfo" -> {N_checksums_md5,
        N_checksums_sha1,
        N_checksums_sha256,
        N_checksums_sha512}
  [] cls = "Release" -> {N_md5sum,
        N_sha1,
        N_sha256,
        N_sha512}
  [] cls = "PdiffIndex" -> {N_sha1_current,
        N_sha1_download,
        N_sha1_history,
        N_sha1_patches,
        N_sha256_current,
        N_sha256_download,
        N_sha256_history,
        N_sha256_patches,
        N_x_unmerged_sha1_download,
        N_x_unmerged_sha1_history,
        N_x_unmerged_sha1_patches,
        N_x_unmerged_sha256_download,
        N_x_unmerged_sha256_history,
        N_x_unmerged_sha256_patches}
IsMultiKeyC(cls, k) == \E m \in MultiNames(cls) : SameName(k, m)

TInit == /\ tid \in 1..Len(Traces)
         /\ l = 1
         /\ inp = <<>> /\ out = <<>> /\ res = "none" /\ para = <<>>
         /\ ps = [o \in 1..Len(Traces[tid].objs) |-> Traces[tid].objs[o].para]

ClsOf(o) == Tr.objs[o].cls
\* the statement speaks about "the paragraph" after an accepted assignment, not about how the
\* value is stored: the observed paragraph is adopted (its field names are checked)
After(e) == IF e.acc THEN e.items[e.obj] ELSE ps[e.obj]

\* rb = [o |-> <<distinct observations>>, ix |-> [sF |-> index into o, ...]]
RBof(e, n) == e.rb.o[e.rb.ix[n]]
FNames == {"sF", "fF", "bF", "wF"}
TNames == {"sT", "fT", "bT", "wT"}

\* name -> truth value of each obligation; an event is explained when all hold
Checks(e) == LET cls == Classify(e.v)
                 q   == After(e)
             IN << <<"must-accept", cls = "accept" => e.acc>>,
                   <<"must-reject", cls = "reject" => ~e.acc>>,
                   <<"exception-type", e.res = IF e.acc THEN "ok" ELSE "ValueError">>,
                   <<"reject-atomic", ~e.acc => e.items[e.obj] = ps[e.obj]>>,
                   <<"keys-kept", e.acc => KeysOf(e.items[e.obj]) = KeysOf(SetField(ps[e.obj], e.key, e.v))>>,
                   <<"others-unchanged", \A o \in 1..Len(ps) : o # e.obj => e.items[o] = ps[o]>>,
                   <<"readback-ws-false", e.acc => \A n \in FNames : RBof(e, n) = OneParagraph(q)>>,
                   <<"readback-default", (e.acc /\ AllNoBlank(q)) => \A n \in TNames : RBof(e, n) = OneParagraph(q)>> >>
ScratchChecks(e) == << <<"others-unchanged", e.items = ps>> >>
\* construction
RECURSIVE FoldM(_, _, _)
FoldM(m, i, acc) == IF i > Len(m) THEN acc ELSE FoldM(m, i + 1, SetField(acc, m[i].k, m[i].v))
FreshChecks(e) == << <<"fresh-empty", e.items[e.obj] = <<>> >>,
                     <<"exception-type", e.acc /\ e.res = "ok">>,
                     <<"others-unchanged", \A o \in 1..Len(ps) : o # e.obj => e.items[o] = ps[o]>> >>
BuildChecks(e) == LET q == After(e) IN
                  << <<"must-accept", (\A i \in 1..Len(e.m) : Classify(e.m[i].v) = "accept") => e.acc>>,
                     <<"must-reject", (\E i \in 1..Len(e.m) : Classify(e.m[i].v) = "reject") => ~e.acc>>,
                     <<"exception-type", e.res = IF e.acc THEN "ok" ELSE "ValueError">>,
                     <<"reject-atomic", ~e.acc => e.items[e.obj] = ps[e.obj]>>,
                     <<"keys-kept", e.acc => KeysOf(e.items[e.obj]) = KeysOf(FoldM(e.m, 1, <<>>))>>,
                     <<"others-unchanged", \A o \in 1..Len(ps) : o # e.obj => e.items[o] = ps[o]>>,
                     <<"readback-ws-false", (e.acc /\ q # <<>>) => \A n \in FNames : RBof(e, n) = OneParagraph(q)>>,
                     <<"readback-default", (e.acc /\ q # <<>> /\ AllNoBlank(q)) => \A n \in TNames : RBof(e, n) = OneParagraph(q)>> >>
FaultChecks(e) == LET q == ps[e.obj] IN
                  << <<"fault-comes-out", ~e.acc /\ e.res = "fault">>,
                     <<"reject-atomic", e.items = ps>>,
                     <<"readback-ws-false", \A n \in FNames : RBof(e, n) = OneParagraph(q)>>,
                     <<"readback-default", AllNoBlank(q) => \A n \in TNames : RBof(e, n) = OneParagraph(q)>> >>
\* merge_fields in place: the library computed the value e.v and assigned it
HoldsField(p, k, v) == \E i \in 1..Len(p) : SameName(p[i].k, k) /\ p[i].v = v
MergeChecks(e) == LET q == After(e) IN
                  << <<"exception-type", e.res = IF e.acc THEN "ok" ELSE "ValueError">>,
                     <<"reject-atomic", ~e.acc => e.items[e.obj] = ps[e.obj]>>,
                     <<"stored", e.acc => HoldsField(e.items[e.obj], e.key, e.v)>>,
                     <<"must-reject", e.acc => Classify(e.v) # "reject">>,
                     <<"keys-kept", e.acc => KeysOf(e.items[e.obj]) = KeysOf(SetField(ps[e.obj], e.key, e.v))>>,
                     <<"others-unchanged", \A o \in 1..Len(ps) : o # e.obj => e.items[o] = ps[o]>>,
                     <<"readback-ws-false", e.acc => \A n \in FNames : RBof(e, n) = OneParagraph(q)>>,
                     <<"readback-default", (e.acc /\ AllNoBlank(q)) => \A n \in TNames : RBof(e, n) = OneParagraph(q)>> >>
AllChecks(e) == IF e.op = "faultdump" THEN FaultChecks(e)
                ELSE IF e.op = "merge" THEN MergeChecks(e)
                ELSE IF e.op = "fresh" THEN FreshChecks(e)
                ELSE IF e.op = "build" THEN BuildChecks(e)
                ELSE IF e.obj = 0 THEN ScratchChecks(e) ELSE Checks(e)
Explained(e) == LET c == AllChecks(e) IN \A i \in 1..Len(c) : c[i][2]
Reasons(e)   == LET c == AllChecks(e) IN SelectSeq([i \in 1..Len(c) |-> IF c[i][2] THEN "" ELSE c[i][1]], LAMBDA s : s # "")
WellFormed(e) == /\ Len(e.items) = Len(ps)
                 /\ e.op \in {"assign", "fresh", "build", "faultdump", "merge"}
                 /\ \/ e.op = "assign" /\ e.obj = 0 /\ IsMultiKeyC(e.cls, e.key)
                    \/ e.op = "assign" /\ e.obj \in 1..Len(ps) /\ e.cls = ClsOf(e.obj) /\ ~IsMultiKeyC(e.cls, e.key)
                    \/ e.op = "merge" /\ e.obj \in 1..Len(ps) /\ e.cls = ClsOf(e.obj) /\ ~IsMultiKeyC(e.cls, e.key)
                    \/ e.op = "fresh" /\ e.obj \in 1..Len(ps) /\ e.cls = ClsOf(e.obj)
                    \/ e.op = "faultdump" /\ e.obj \in 1..Len(ps) /\ e.cls = ClsOf(e.obj) /\ ps[e.obj] # <<>> /\ e.rb.o # <<>>
                    \/ /\ e.op = "build" /\ e.obj \in 1..Len(ps) /\ e.cls = ClsOf(e.obj)
                       /\ \A i \in 1..Len(e.m) : ~IsMultiKeyC(e.cls, e.m[i].k)

\* the transcription of the reader, evaluated on the concrete text
ModelAgrees(e) == (e.obj # 0 /\ e.acc /\ After(e) # <<>>) =>
                  LET o == ObsAll(After(e)) IN
                  /\ e.op \in {"assign", "merge"} => e.items[e.obj] = SetField(ps[e.obj], e.key, e.v)
                  /\ e.op = "build" => e.items[e.obj] = FoldM(e.m, 1, <<>>)
                  /\ RBof(e, "sF") = o["str"][FALSE]  /\ RBof(e, "sT") = o["str"][TRUE]
                  /\ RBof(e, "fF") = o["file"][FALSE] /\ RBof(e, "fT") = o["file"][TRUE]
                  /\ RBof(e, "bF") = o["file"][FALSE] /\ RBof(e, "bT") = o["file"][TRUE]
\* the transcription of the validator against the statement layer, on the concrete value
ValidatorAgrees(e) == /\ Accept(e.v) <=> ~DefectU(e.v)
                      /\ (e.op = "assign" /\ e.obj # 0) => (e.acc <=> Accept(e.v))
                      /\ e.op = "build" => (e.acc <=> \A i \in 1..Len(e.m) : Accept(e.m[i].v))
                      /\ (e.op = "merge" /\ e.acc) => Accept(e.v)

TStep == /\ l <= Len(Tr.events)
         /\ LET e == Tr.events[l] IN
              /\ WellFormed(e)
              /\ Explained(e)
              /\ ((Tr.deep /\ (~ModelAgrees(e) \/ ~ValidatorAgrees(e))) => PrintT(<<"REJECT", tid, l, "model">>))
              /\ ps' = IF e.obj = 0 THEN ps ELSE [ps EXCEPT ![e.obj] = After(e)]
              /\ res' = e.res
         /\ l' = l + 1 /\ UNCHANGED <<tid, inp, out, para>>
         /\ (Diag => PrintT(<<"AT", tid, l>>))
         /\ (l' = Len(Tr.events) + 1 => PrintT(<<"ACCEPTED", tid>>))

TWhy == /\ Diag
        /\ l <= Len(Tr.events)
        /\ LET e == Tr.events[l] IN
             /\ WellFormed(e)
             /\ ~Explained(e)
             /\ PrintT(<<"REJECT", tid, l, Reasons(e)>>)
        /\ FALSE
        /\ UNCHANGED <<vars, tid, l, ps>>

TSpec == TInit /\ [][TStep \/ TWhy]_<<vars, tid, l, ps>>
=============================================================================
