---------------------------- MODULE CommentNorm ----------------------------
(***************************************************************************)
(* X17 (extra) -- the comment normalisation rule of the format-preserving  *)
(* parser (debian._deb822_repro.parsing._format_comment), reached through  *)
(*   set_field_to_simple_value / set_field_from_raw_string                 *)
(*       (field_comment=[line, ...])  and  list_view.append_comment(line). *)
(*                                                                         *)
(* A comment line handed in by the caller is a sequence of TOKENS          *)
(* <<class, id>>:                                                *)
(*    "h"  one '#' character                                               *)
(*    "b"  a run of blanks (space / tab); id 1 is exactly one space        *)
(*    "x"  a run of other characters: no newline, first and last character *)
(*         neither white space nor (at the start of a line) '#'            *)
(*    "n"  one newline                                                     *)
(* TLC needs the class and equality of ids only: the harness concretizes a *)
(* token to a string of ANY length (replay) / interns the runs of a real   *)
(* string (traces); the verdict is length independent by construction.     *)
(*                                                                         *)
(* Documented rule (docstring of set_field_from_raw_string): "Each string  *)
(* in the list will become one comment line.  If you want complete control *)
(* over the formatting of the comments, then ensure that each line start   *)
(* with '#' and end with a newline before the call.  Otherwise, leading /  *)
(* trailing whitespace is normalized and the missing '#' / newline         *)
(* character is inserted."  _format_comment: '' is "an empty comment line" *)
(* and "Comment lines must not have embedded newlines" (ValueError).       *)
(*                                                                         *)
(* Norm(s, var) is the transcription of the code; the STATEMENT is the *)
(* list of laws below (Laws), checked by TLC for every line of up to       *)
(* MaxLine tokens (CommentNormMC.tla).  var = "K" reproduces the open *)
(* finding X17-blank-comment-line: a line of white space only becomes      *)
(* "# " WITHOUT newline (e = "broken"); TLC reports LawTotal violated.     *)
(***************************************************************************)
EXTENDS Integers, Sequences, FiniteSets, SequencesExt, TLC

Tk(c, i) == <<c, i>>
Cl(t)    == t[1]
HASH == Tk("h", 0)          \* the inserted '#'
SP1  == Tk("b", 1)          \* the inserted single space
NLT  == Tk("n", 0)          \* a newline

IsWsT(t)    == Cl(t) \in {"b", "n"}              \* what str.strip() removes inside the domain
NonWs(s)    == {i \in 1..Len(s) : ~IsWsT(s[i])}
CnMin(S)    == CHOOSE i \in S : \A j \in S : i <= j
CnMax(S)    == CHOOSE i \in S : \A j \in S : i >= j
LStripS(s)  == IF NonWs(s) = {} THEN <<>> ELSE SubSeq(s, CnMin(NonWs(s)), Len(s))
RStripS(s)  == IF NonWs(s) = {} THEN <<>> ELSE SubSeq(s, 1, CnMax(NonWs(s)))
StripS(s)   == LStripS(RStripS(s))
InnerNl(s)  == \E i \in 1..(Len(s) - 1) : Cl(s[i]) = "n"
BlankOnly(s) == s # <<>> /\ ~InnerNl(s) /\ NonWs(s) = {}

NR(e, r) == [e |-> e, r |-> r]
\* _format_comment, statement by statement
\* var: "S" the statement, "A" the statement with the other empty comment line, "K" the code as built
Norm(s, var) ==
   IF s = <<>> THEN NR("ok", <<HASH, NLT>>)
   ELSE IF InnerNl(s) THEN NR("bad", <<>>)
   ELSE LET c1 == IF Cl(s[Len(s)]) = "n" THEN s ELSE Append(RStripS(s), NLT)
        IN IF Cl(c1[1]) = "h" THEN NR("ok", c1)
           ELSE IF LStripS(c1) = <<>>
                THEN (CASE var = "K" -> NR("broken", <<HASH, SP1>>)
                        [] var = "A" -> NR("ok", <<HASH, SP1, NLT>>)
                        [] OTHER     -> NR("ok", <<HASH, NLT>>))
                ELSE NR("ok", <<HASH, SP1>> \o LStripS(c1))
\* a line of white space only: "# " + newline is as good an empty comment line as "#" + newline
NormAlt(s) == Norm(s, "A").r

\* ---- the statement -----------------------------------------------------------
WFLine(r)    == /\ Len(r) >= 2 /\ Cl(r[1]) = "h" /\ Cl(r[Len(r)]) = "n"
                /\ \A i \in 1..(Len(r) - 1) : Cl(r[i]) # "n"
Complete(s)  == s # <<>> /\ Cl(s[1]) = "h" /\ Cl(s[Len(s)]) = "n" /\ ~InnerNl(s)
PayloadIn(s) == IF s # <<>> /\ Cl(s[1]) = "h" THEN StripS(Tail(s)) ELSE StripS(s)
PayloadOut(r) == StripS(Tail(r))
\* every string is either refused (embedded newline: nothing else is) or becomes ONE well-formed comment line
LawTotal(s)    == Norm(s, "S").e = (IF InnerNl(s) THEN "bad" ELSE "ok")
LawWF(s)       == Norm(s, "S").e = "ok" => WFLine(Norm(s, "S").r)
\* "complete control": a line that starts with '#' and ends with a newline is used exactly as given
LawComplete(s) == Complete(s) => Norm(s, "S").r = s
\* what the comment says survives: only white space at the two ends, the '#' and the newline are touched
LawPayload(s)  == Norm(s, "S").e = "ok" => PayloadOut(Norm(s, "S").r) = PayloadIn(s)
\* a missing '#' is inserted as "# " directly in front of the text
LawPrefix(s)   == (Norm(s, "S").e = "ok" /\ s # <<>> /\ Cl(s[1]) # "h" /\ ~BlankOnly(s)) =>
                     /\ SubSeq(Norm(s, "S").r, 1, 2) = <<HASH, SP1>>
                     /\ ~IsWsT(Norm(s, "S").r[3])
\* normalising twice changes nothing
LawIdem(s)     == Norm(s, "S").e = "ok" => Norm(Norm(s, "S").r, "S") = Norm(s, "S")
Laws(s)        == LawTotal(s) /\ LawWF(s) /\ LawComplete(s) /\ LawPayload(s) /\ LawPrefix(s) /\ LawIdem(s)
\* the as-built rule: the same laws with the transcription switched to the code's behaviour
AsBuiltTotal(s) == Norm(s, "K").e = (IF InnerNl(s) THEN "bad" ELSE "ok")
=============================================================================
