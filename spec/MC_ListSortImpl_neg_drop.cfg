CONSTANTS
  Modes = {"sp", "cm", "up"}
  MaxW = 3
  MaxT = 7
  MaxC = 1
  Dups = TRUE
  MaxEdits = 1
  Edits = TRUE
  KindSel = "some"
  MinVals = 0
  AllPerms = FALSE
  Emit = FALSE
  SliceK = 1
  SliceR = 0
  DefectTrailComma = TRUE
  DefectHiddenSep = TRUE
  Exempt = TRUE
  SortDropsComments = TRUE
  SepAlways = FALSE
  NoNlBeforeCmt = FALSE
  FmtNoTrailSep = FALSE
SPECIFICATION Spec
INVARIANT Refines
CHECK_DEADLOCK FALSE
