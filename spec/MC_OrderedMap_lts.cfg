CONSTANTS
  Names = {1, 2, 3}
  Spells = {"U", "L"}
  Values = {"1", "2"}
  Emit = TRUE
SPECIFICATION Spec
INVARIANT TypeOK
INVARIANT NamesUnique
INVARIANT SortLaw
PROPERTY ErrAtomic
PROPERTY SpellingKept
PROPERTY PermutationOnly
VIEW AbsView
