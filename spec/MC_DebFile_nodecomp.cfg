CONSTANTS
  Universe <- FullUniverse
  MaxLen = 3
  AnyOrder = FALSE
  InitMatrix = TRUE
  ScriptUniverse = {"postinst"}
  FileNames = {"f1"}
  Blobs = {11}
  Decompressors = {"gz", "bz2"}
  AcceptFirstCandidate = FALSE
  InfoOptional = FALSE
  NormalizeSlash = TRUE
  Emit = FALSE
  EmitProbe = FALSE
SPECIFICATION Spec
INVARIANT AcceptIffWellFormed
INVARIANT PartsAreCandidates
INVARIANT OrderIrrelevant
INVARIANT ExtGateDead
INVARIANT SpellingInvariant
INVARIANT ContentExact
INVARIANT LazyDecompress
PROPERTY QueriesPure
VIEW DView
CHECK_DEADLOCK FALSE
