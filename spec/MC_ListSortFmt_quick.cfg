CONSTANTS
  MaxLen = 4
  MaxInp = 4
  BadShip = "no"
SPECIFICATION Spec
INVARIANT EmitCase
CHECK_DEADLOCK FALSE
INVARIANT AcceptedValid
