CONSTANTS
  Sigma = {97, 42, 92}
  NSigma = {97, 98}
  MaxParas = 3
  MaxPats = 2
  MaxPatLen = 2
  MaxSyms = 3
  MaxNameLen = 1
  Discipline = "full"
  DotAll = TRUE
  FindFirst = FALSE
  AffixFrom = 0
  Emit = "none"
  BlockLen = 0
SPECIFICATION Spec
INVARIANT MatchesIffGlob
INVARIANT BadEscapeRaises
INVARIANT LastWins
CHECK_DEADLOCK FALSE
