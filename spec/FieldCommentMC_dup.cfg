CONSTANTS
  Scn = "dup"
  MaxOps = 2
  MaxH = 3
  Emit = FALSE
  Neg = ""
SPECIFICATION FcSpec
INVARIANT InvOwnership
INVARIANT InvLinesWF
INVARIANT InvDetachAttach
INVARIANT InvModeAlgebra
PROPERTY ErrAtomic
PROPERTY Frame
PROPERTY ModeLaw
PROPERTY MovesWhole
VIEW FcView
CHECK_DEADLOCK FALSE
