CONSTANTS
  Leads = {}
  Gaps = {}
  Trails = {}
  MaxArch = 0
  MaxEdits = 0
  MaxLen = 0
  EditClasses = {}
  MaxNum = 0
  SplitComma = FALSE
  SrcNeedsWs = FALSE
  EmptyRaises = FALSE
  Emit = FALSE
  Objs = {1, 2, 3, 4}
  OFields = {"src", "bin"}
  Rich = 0
  SharedMemo = FALSE
  EmitObj = FALSE
SPECIFICATION TSpec
CHECK_DEADLOCK FALSE
