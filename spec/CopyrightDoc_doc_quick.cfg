\* C17 document layer, closed (quick): the full header x every history of <= 3 add_* calls over the four
\* context paragraphs and at most one focus paragraph (3 patterns, copyright texts of <= 2 lines x
\* license texts of <= 2 lines over E I ID P); one call the API REFUSES after 0, 1 or 2 add_* calls (RejAt; every
\* kind: BadCallsOn / BadCallsDoc) followed by add_* calls up to 2 paragraphs (RejThen); refused calls among the
\* edits of the re-parsed documents of <= 2 paragraphs (RejEditAt)
\* -- among those calls: the ones the format does not settle (MayReject: a look-alike of white space inside a pattern /
\* a synopsis / a custom value), with BOTH outcomes (acc), and the faults of caller-supplied objects (kind "fault")
CONSTANTS
  Mode = "doc"
  Alphabet = {}
  MaxLen = 0
  MaxParas = 3
  HdrKinds = {"full"}
  BigPats = {3}
  CopyMax = 2
  CopyAlpha = {"I"}
  BigTextMax = 2
  BigTextAlpha = {"E", "I", "ID", "P"}
  Emit = TRUE
  NoDotEscape = FALSE
  DecoderStrips = FALSE
  DotAnyIndent = FALSE
  StaleDump = FALSE
  LicMemoBySynopsis = FALSE
  ParseMemoAliased = FALSE
  CommaSeparates = FALSE
  RejectDrops = FALSE
  MayAcceptedSplits = FALSE
  ArgAliased = FALSE
  RejAt = {0, 1, 2}
  RejThen = 2
  RejEditAt = {0, 1, 2}
SPECIFICATION Spec
INVARIANT DocProps
INVARIANT HistoryKept
CHECK_DEADLOCK FALSE
