CONSTANTS
  MaxItems = 1
  ItemLen = 1
  RawLen = 3
  EmitItems = 0
  EmitItemLen = 0
  EmitRawLen = 0
  Emit = FALSE
  NoStrip = FALSE
  SplitLinesSingle = TRUE
SPECIFICATION CSpec
INVARIANT SingleLaw
INVARIANT EmitCase
CHECK_DEADLOCK FALSE
