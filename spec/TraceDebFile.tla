--------------------------- MODULE TraceDebFile ---------------------------
(***************************************************************************)
(* C07 -- trace validation: packages built by the harness with random      *)
(* member lists (random order, extra foreign members, defects), random     *)
(* subsets of maintainer scripts and random data files are opened by the   *)
(* real debian.debfile.DebFile; what it answered is checked against the    *)
(* actions of DebFile.tla.                                                 *)
(* A trace is [mem |-> <<member names>>, pkg |-> [c, d, m], events |-> …]; *)
(* pkg.c / pkg.d / pkg.m are JSON objects (file name -> blob id), i.e.     *)
(* functions on strings.  Events:                                          *)
(*   [op |-> "open", st]                    st = "ok" | "DebError"         *)
(*   [op |-> "has", p, sp, n, err, found]                                  *)
(*   [op |-> "get", p, sp, n, err, found, blob]                            *)
(*   [op |-> "scripts" | "md5sums", err, map]                              *)
(*   [op |-> "debcontrol", err, blob]                                      *)
(* One TLC run validates all traces of TRACE_FILE; <<"ACCEPTED", tid>> is  *)
(* printed for every trace the specification explains completely.          *)
(***************************************************************************)
EXTENDS DebFile, IOUtils, TLCExt

Traces == JsonDeserialize(IOEnv.TRACE_FILE)
Diag   == IOEnv.TRACE_DIAG = "1"

VARIABLES tid, l

Tr == Traces[tid]

TInit == /\ tid \in 1..Len(Traces)
         /\ l = 1
         /\ mem = Traces[tid].mem
         /\ dst = "building"
         /\ pkg = Traces[tid].pkg
         /\ prts = [ctrl |-> "", data |-> ""]
         /\ res = [op |-> "init"]

TStep == /\ l <= Len(Tr.events)
         /\ LET e == Tr.events[l] IN
              \/ /\ e.op = "open"
                 /\ Open
                 \* a verdict that hinges on zst support is not decided by the statement
                 /\ IF DUnspecOpen(mem) THEN e.st \in {"ok", "DebError"} ELSE e.st = dst'
              \/ /\ e.op = "has"
                 /\ HasFile(e.p, e.sp, e.n)
                 /\ res'.err = e.err /\ res'.found = e.found
              \/ /\ e.op = "get"
                 /\ GetContent(e.p, e.sp, e.n)
                 /\ res'.err = e.err /\ res'.found = e.found /\ res'.blob = e.blob
              \/ /\ e.op = "scripts"
                 /\ Scripts
                 /\ res'.err = e.err /\ res'.map = e.map
              \/ /\ e.op = "md5sums"
                 /\ Md5sums
                 /\ res'.err = e.err /\ res'.map = e.map
              \/ /\ e.op = "debcontrol"
                 /\ DebControl
                 /\ res'.err = e.err /\ res'.blob = e.blob
         /\ l' = l + 1 /\ UNCHANGED tid
         /\ (Diag => PrintT(<<"AT", tid, l>>))
         /\ (l' = Len(Tr.events) + 1 => PrintT(<<"ACCEPTED", tid>>))

TSpec == TInit /\ [][TStep]_<<dvars, tid, l>>

\* the statement-level verdict also holds along every observed execution
TAcceptIffWellFormed == (Opened /\ ~DUnspecOpen(mem)) => ((dst = "ok") <=> WellFormed(DRange(mem)))
=============================================================================
