\* C03 quick: pairs of single-component versions (upstream only), <= 3 characters over
\* 0 1 9 a . ~   (258 strings, 66 564 pairs; upper case comes in with the concretization)
CONSTANTS
  HashOnString = FALSE
  TildeOrderZero = FALSE
  Epochs <- S_none
  Revs <- S_none
  UpChars = {48, 49, 57, 97, 46, 126}
  MaxUp = 3
  Seps = FALSE
  Triples = FALSE
  EmitStride = 0
  EmitOffset = 0
SPECIFICATION Spec
INVARIANT Agree
INVARIANT SplitAgree
INVARIANT Antisym
INVARIANT Trichotomy
INVARIANT Reflexive
INVARIANT HashConsistent
INVARIANT HashImpl
CHECK_DEADLOCK FALSE
