--------------------------- MODULE TraceX03Merge ---------------------------
(***************************************************************************)
(* X03 (a) -- trace validation: histories of merge_fields calls recorded   *)
(* from the real Deb822 class on several LIVE objects (harness/props/      *)
(* x03.py) are checked against MergeFields.                                *)
(*                                                                         *)
(* A trace is [ds, objs0, events]:                                         *)
(*   objs0   object name -> paragraph (sequence of [k, v], v an abstract   *)
(*           value [t, sep, it]) before the first event;                   *)
(*   events  [op, s, a, b, key, v, res, after]:                            *)
(*             M2   objs[s].merge_fields(key, objs[a], objs[b]) -> res     *)
(*             M1   objs[s].merge_fields(key, objs[a])          -> res     *)
(*             Set / Del  an edit of objs[s] made by the harness between   *)
(*                  the calls (mutation probes);                           *)
(*           res = [k |-> "val" | "None" | "KeyError" | "ValueError" | .., *)
(*           v], after = the projection of ALL objects after the event     *)
(*           (an object the call must not touch is observed anyway);       *)
(*   ds      the defect models the trace is tried under: <<<<>>>> = the    *)
(*           statement only; for a trace the statement rejects the harness *)
(*           asks again with the known-defect models, and reports          *)
(*           KNOWN-FINDING only when exactly such a model explains it.     *)
(* A call on an unspecified pair (MergeFields!ApiUnspec, decided HERE, not *)
(* by the harness) ends the judgement of the trace: it is accepted up to   *)
(* that point and flagged <<"UNSPEC", tid, l>>.                            *)
(* <<"ACCEPTED", tid, dset>> is printed for every (trace, model) that is   *)
(* explained completely; <<"AT", tid, l>> per step when TRACE_DIAG = "1".  *)
(***************************************************************************)
EXTENDS MergeFields, IOUtils, TLCExt

Traces == JsonDeserialize(IOEnv.TRACE_FILE)
Diag   == IOEnv.TRACE_DIAG = "1"

VARIABLES tid, l, dset
tvars == <<mvars, tid, l, dset>>

Tr == Traces[tid]
SeqSet(s) == {s[i] : i \in 1..Len(s)}

TInit == /\ tid \in 1..Len(Traces)
         /\ dset \in {SeqSet(Traces[tid].ds[i]) : i \in 1..Len(Traces[tid].ds)}
         /\ l = 1
         /\ objs = Traces[tid].objs0
         /\ mres = MfNone

Done(n) == (Diag => PrintT(<<"AT", tid, l>>)) /\ (n = Len(Tr.events) + 1 => PrintT(<<"ACCEPTED", tid, dset>>))
Go      == l' = l + 1 /\ Done(l + 1) /\ UNCHANGED <<tid, dset>>
\* the rest of the history is outside the domain of the statement
Jump    == /\ l' = Len(Tr.events) + 1 /\ UNCHANGED <<tid, dset, objs, mres>>
           /\ PrintT(<<"UNSPEC", tid, l>>) /\ Done(Len(Tr.events) + 1)

TM2(e) == LET x1 == PGet(objs[e.a], e.key)
              x2 == PGet(objs[e.b], e.key)
          IN IF ApiUnspec(x1, x2) THEN Jump
             ELSE /\ ApiOk(dset, x1, x2, e.res)        \* what was returned / raised is allowed
                  /\ e.after = objs                    \* and nothing was modified: not a, not b, not the receiver
                  /\ mres' = e.res /\ UNCHANGED objs /\ Go

TM1(e) == LET x1 == PGet(objs[e.s], e.key)
              x2 == PGet(objs[e.a], e.key)
          IN IF ApiUnspec(x1, x2) THEN Jump
             ELSE IF e.res.k = "None"
             THEN LET v == PGet(e.after[e.s], e.key) IN     \* the merged value is observed in self
                  /\ v.t # "absent"
                  /\ M1Ok(dset, x1, x2, MfVal(v))
                  /\ e.after = [objs EXCEPT ![e.s] = PPut(@, e.key, v)]   \* in place / appended; nothing else
                  /\ objs' = e.after /\ mres' = MfNone /\ Go
             ELSE /\ e.res.k \in {"KeyError", "ValueError"}
                  /\ M1Ok(dset, x1, x2, e.res)
                  /\ e.after = objs
                  /\ mres' = e.res /\ UNCHANGED objs /\ Go

TSet(e) == /\ objs' = [objs EXCEPT ![e.s] = PPut(@, e.key, e.v)]
           /\ e.after = objs' /\ mres' = MfNone /\ Go
TDel(e) == /\ PHas(objs[e.s], e.key)
           /\ objs' = [objs EXCEPT ![e.s] = PDel(@, e.key)]
           /\ e.after = objs' /\ mres' = MfNone /\ Go

TStep == /\ l <= Len(Tr.events)
         /\ LET e == Tr.events[l] IN
              \/ e.op = "M2" /\ TM2(e)
              \/ e.op = "M1" /\ TM1(e)
              \/ e.op = "Set" /\ TSet(e)
              \/ e.op = "Del" /\ TDel(e)

TSpec == TInit /\ [][TStep]_tvars
=============================================================================
