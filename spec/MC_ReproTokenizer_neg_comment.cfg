CONSTANTS
  Classes = {"E", "W", "H", "C", "F1", "F1b", "F1a", "F1ba", "F0", "F0s", "X"}
  MaxLines = 3
  NarrowClasses = {}
  NarrowMaxLines = 0
  Emit = "none"
  MergeUnterminatedWs = FALSE
  DropFloatingComment = TRUE
SPECIFICATION Spec
INVARIANT PartsLossless
CHECK_DEADLOCK FALSE
