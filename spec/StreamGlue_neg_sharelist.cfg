CONSTANTS
  MaxStream = 3
  MaxContent = 2
  Emit = FALSE
  Bug = "sharelist"
SPECIFICATION Spec
INVARIANT LenRefines
INVARIANT CombRefines
INVARIANT HandedStable
PROPERTY OutcomeOK
PROPERTY Finished
VIEW View
