CONSTANTS
  MaxLen = 5
  MaxLines = 0
  BigSel = {}
  Emit = TRUE
  DashFirstOK = FALSE
  CommentClosesField = FALSE
  DupAcrossBlank = FALSE
  CaseSensitiveDup = FALSE
SPECIFICATION ESpec
INVARIANT EShape
INVARIANT ERunAgrees
INVARIANT EStable
INVARIANT EmitLine
CHECK_DEADLOCK FALSE
