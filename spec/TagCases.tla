------------------------------ MODULE TagCases ------------------------------
(***************************************************************************)
(* X12 -- tables of answers: for EVERY collection over a small universe    *)
(* (every package absent or carrying any set of tags) TLC prints one CASE  *)
(* line with the expected answer of every query and the expected value of  *)
(* every derivation (family "table"); for every short input text the       *)
(* expected result of the readers (family "read").  The harness builds the *)
(* collection in the real library through a rotating entry point and       *)
(* compares.                                                               *)
(* var = "rev": the table of the REVERSED collection (roles of packages    *)
(* and tags swapped; inconsistent when a package is untagged).             *)
(* mult = m > 1: every package stands for m packages of equal tag set      *)
(* (the harness clones it): counts of packages scale, ideal_tagset sees    *)
(* cardinalities in the interesting range 10..23 (size stress with TLC as  *)
(* the oracle).                                                            *)
(* Laws (invariant LawsOnCases) are checked on every collection.           *)
(***************************************************************************)
EXTENDS TagRel, Json

CONSTANTS PK, TG,        \* packages, tags (facet::name)
          FTC,           \* tag -> facet
          Extra,         \* a name no collection holds
          Mults,         \* multiplicities
          Family,        \* "table" | "read"
          LinePks, LineTgs, MaxLines, Drops,   \* family "read"
          WithDer        \* print the derivation tables

VARIABLES cse, done
cvars == <<cse, done>>

MCFTC == [t \in TG |-> IF t = "v::a" THEN "v" ELSE "u"]
\* family "read": what a line may list (repetitions included) and what a tag_filter may reject
MCLinePks == {<<>>, <<"p1">>, <<"p2">>, <<"p1", "p2">>, <<"p3", "p1", "p3">>, <<"p3">>}
MCLineTgs == {<<>>, <<"u::a">>, <<"u::a", "v::a">>, <<"u::b", "u::a", "u::b">>}
MCDrops   == {{}, {"u::a"}, {"u::a", "v::a", "zz"}}
Absent == {"-"}
N      == PK \cup TG \cup {Extra}

LinesOfAsg(asg) == LET ps == SetToSeq({p \in PK : asg[p] # Absent})
                   IN [i \in 1..Len(ps) |-> [pkgs |-> <<ps[i]>>, tags |-> SetToSeq(asg[ps[i]])]]

SmallSets(U) == {S \in SUBSET U : Cardinality(S) \in {1, 2}}
CombSets     == SmallSets(N) \cup {PK, TG}
Seqs(U, n)   == UNION {{s \in [1..k -> U] : \A i, j \in 1..k : s[i] = s[j] => i = j} : k \in 0..n}
IdealSeqs    == Seqs(TG \cup {Extra}, 3) \cup {<<t, t>> : t \in TG} \cup {<<t, u, t>> : t, u \in TG}

P(k, s, n) == [k |-> k, s |-> s, n |-> n]
NoPred     == [k |-> "none"]
C(op, s, pred) == [op |-> op, s |-> s, pred |-> pred]
PkSets == SUBSET PK \cup {{Extra}, PK \cup {Extra}}
TgSets == SUBSET TG \cup {{Extra}, TG \cup {Extra}}
PtPreds(U, V) == {P("has", <<t>>, 0) : t \in V} \cup {P("hasnt", <<t>>, 0) : t \in V}
                 \cup {P("sup", SetToSeq(S), 0) : S \in {X \in SUBSET V : Cardinality(X) = 2}}
                 \cup {P("atleast", <<>>, n) : n \in 0..3} \cup {P("pkgin", SetToSeq(S), 0) : S \in SmallSets(U)}
DerCalls(var) ==
   LET U == IF var = "plain" THEN PK ELSE TG
       V == IF var = "plain" THEN TG ELSE PK
       KS == IF var = "plain" THEN PkSets ELSE TgSets
       VS == IF var = "plain" THEN TgSets ELSE PkSets
   IN {C(op, <<>>, NoPred) : op \in {"reverse", "reverse_copy", "copy", "facet", "dump_read", "rdump_read"}}
      \cup {C(op, SetToSeq(S), NoPred) : op \in {"choose", "choose_copy", "filter_p", "filter_p_copy"}, S \in KS}
      \cup {C(op, SetToSeq(S), NoPred) : op \in {"filter_t", "filter_t_copy"}, S \in VS}
      \cup {C(op, <<>>, p) : op \in {"filter_pt", "filter_pt_copy"}, p \in PtPreds(U, V)}

Table(d, var, mult) ==
   [hasp   |-> {n \in N : n \in DOMAIN d.f},
    hast   |-> {n \in N : n \in DOMAIN d.b},
    tagsof |-> [n \in N |-> MAt(d.f, n)],
    pkgsof |-> [n \in N |-> MAt(d.b, n)],
    card   |-> [n \in N |-> mult * QCard(d, n)],
    discr  |-> [n \in N |-> mult * QDiscr(d, n)],
    pcount |-> mult * Cardinality(DOMAIN d.f),
    tcount |-> Cardinality(DOMAIN d.b),
    comb   |-> {[s |-> SetToSeq(S), fu |-> Combine(d.f, S, "u"), fi |-> Combine(d.f, S, "i"),
                 bu |-> Combine(d.b, S, "u"), bi |-> Combine(d.b, S, "i")] : S \in CombSets},
    ideal  |-> {[ts |-> ts, u |-> QIdealM(d, ts, "u", mult), i |-> QIdealM(d, ts, "i", mult)] : ts \in IdealSeqs},
    corrdef |-> CorrDefined(d),
    corr   |-> IF CorrDefined(d) THEN QCorr(d) ELSE {},
    rel    |-> UNION {{[s |-> SetToSeq(S), t |-> t,
                        n |-> QRel(d, DKeepPk(d, S), t).n * mult * mult, d |-> QRel(d, DKeepPk(d, S), t).d * mult]
                       : t \in {x \in N : RelDefined(d, x)}} : S \in (SUBSET PK) \ {{}}},
    der    |-> IF WithDer /\ mult = 1
               THEN {[c |-> c, ok |-> DeriveOK(FTC, d, c), tk |-> TrkAfter("full", c.op),
                      v |-> IF DeriveOK(FTC, d, c) THEN Derive(FTC, d, c) ELSE NoColl] : c \in DerCalls(var)}
               ELSE {}]

----------------------------------------------------------------------------
LineChoices == {[pkgs |-> p, tags |-> t] : p \in LinePks, t \in LineTgs} \ {x \in [pkgs : {<<>>}, tags : LineTgs] : x.tags # <<>>}
InputTexts  == UNION {[1..k -> LineChoices] : k \in 0..MaxLines}

Init == /\ done = FALSE
        /\ IF Family = "table"
           THEN \E asg \in [PK -> (SUBSET TG) \cup {Absent}], var \in {"plain", "rev"}, mult \in Mults :
                   /\ var = "rev" => (mult = 1 /\ \E p \in PK : asg[p] = {})
                   /\ cse = [fam |-> "table", lines |-> LinesOfAsg(asg), var |-> var, mult |-> mult]
           ELSE \E ls \in InputTexts, dr \in Drops :
                   /\ ReadOK(ls)
                   /\ cse = [fam |-> "read", lines |-> ls, drop |-> dr]

Coll0(c) == LET d == RdBoth(c.lines, {}) IN IF c.var = "rev" THEN Coll(d.b, d.f) ELSE d

Emit == /\ ~ done /\ done' = TRUE /\ UNCHANGED cse
        /\ IF cse.fam = "table"
           THEN LET d == Coll0(cse)
                IN PrintT(<<"CASE", ToJson([fam |-> "table", lines |-> cse.lines, var |-> cse.var, mult |-> cse.mult,
                                            pk |-> PK, tg |-> TG, extra |-> Extra,
                                            f |-> d.f, b |-> d.b, cons |-> Consistent(d), t |-> Table(d, cse.var, cse.mult)])>>)
           ELSE PrintT(<<"CASE", ToJson([fam |-> "read", lines |-> cse.lines, drop |-> cse.drop,
                                         parse |-> ParseTags(cse.lines),
                                         fwd |-> RdFwd(cse.lines, {}), bwd |-> RdBwd(cse.lines, {}),
                                         both |-> RdBoth(cse.lines, cse.drop)])>>)

Spec == Init /\ [][Emit]_cvars

\* laws on every enumerated collection
LawsOnCases ==
   cse.fam = "table" =>
      LET d == Coll0(cse) IN
      /\ Derive(FTC, Derive(FTC, d, [op |-> "reverse"]), [op |-> "reverse"]) = d
      /\ LawDumpRead(d) /\ LawRDumpRead(d)
      /\ (cse.var = "plain" => Consistent(d) /\ Derive(FTC, d, [op |-> "dump_read"]) = d)
      /\ Consistent(d) => /\ Cardinality(MPairs(d.f)) = Cardinality(MPairs(d.b))
                          /\ \A t \in DOMAIN d.b : 2 * QDiscr(d, t) <= Cardinality(DOMAIN d.f) /\ QDiscr(d, t) >= 0
                          /\ \A c \in QCorr(d) : /\ c.d1 > 0 /\ c.n1 > 0
                                                 /\ CorrDefined(d) => (c.n1 * c.d2 - c.n2 * c.d1 <= c.d1 * c.d2
                                                                       /\ c.n2 * c.d1 - c.n1 * c.d2 <= c.d1 * c.d2)
      /\ \A S \in SUBSET N :
            /\ Combine(d.f, S, "i") \subseteq Combine(d.f, S, "u")
            /\ Consistent(DKeepPk(d, S))
            /\ (Consistent(d) => Consistent(DKeepTg(d, S)))
            /\ DKeepPk(DKeepPk(d, S), PK) = DKeepPk(d, S \cap PK)
      /\ \A ts \in IdealSeqs : \A m \in {"u", "i"} :
            LET r == QIdealM(d, ts, m, cse.mult)
            IN /\ r \subseteq ToSet(ts) /\ (ts # <<>> => ts[1] \in r)
               /\ \E k \in 0..Len(ts) : r = {ts[j] : j \in 1..k}             \* a prefix of the list
=============================================================================
