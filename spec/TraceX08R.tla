----------------------------- MODULE TraceX08R -----------------------------
(***************************************************************************)
(* X08 (a) -- trace validation: histories of intern_release / Release /    *)
(* PseudoEnum calls recorded in a worker process are checked against       *)
(* ReleaseOrder.  Objects are numbered by the harness in order of first    *)
(* appearance (by identity; all stay alive), so "the same object" is "the  *)
(* same number" and a lookup that builds a new object shows as a new       *)
(* number.                                                                 *)
(*                                                                         *)
(* Events:                                                                 *)
(*   [op |-> "Intern", tab, name, res]  tab = 0: the release table, through*)
(*        any of the public ways; tab > 0: a table the harness passed as   *)
(*        `releases`; res = [k |-> "obj", id] / [k |-> "none", id |-> 0]   *)
(*   [op |-> "New", fam, name, rank, ver, cls, id]   the harness builds a   *)
(*        PseudoEnum / Release: enumeration fam, order of rank `rank`      *)
(*        (ranks stand for concrete orders, monotonically)                 *)
(*   [op |-> "Table", tab, names, ids]   the harness builds a dict         *)
(*   [op |-> "Attr", id, name, rname, cls, rcls, ver]  str(), the literal  *)
(*        inside repr(), type name, the class name in repr(), .version     *)
(*   [op |-> "Cmp", x, y, res]    < <= == != >= > and hash equality        *)
(*   [op |-> "Sort", ids, res] sorted();  "SortRev" list.sort(reverse)     *)
(*   [op |-> "Distinct", ids, n]  len(set()); "Min" / "Max" / "Index"      *)
(*   [op |-> "Keys", names]       list(Release.releases)                   *)
(* <<"ACCEPTED", tid>> per explained trace.                                *)
(***************************************************************************)
EXTENDS ReleaseOrder, IOUtils, TLCExt

Traces == JsonDeserialize(IOEnv.TRACE_FILE)
Diag   == IOEnv.TRACE_DIAG = "1"

VARIABLES tid, l, rtabs     \* rtabs: sequence of [names, ids] (caller's tables)
tvars == <<rvars, tid, l, rtabs>>

Tr == Traces[tid]
Chk(P) == P = TRUE

TInit == /\ tid \in 1..Len(Traces) /\ l = 1
         /\ robjs = <<>> /\ rres = RlResNone /\ rtabs = <<>>

Go == /\ l' = l + 1 /\ UNCHANGED tid
      /\ (Diag => PrintT(<<"AT", tid, l>>))
      /\ (l + 1 = Len(Tr) + 1 => PrintT(<<"ACCEPTED", tid>>))

TObj(fam, name, rank, ver, cls) == [fam |-> fam, name |-> name, rank |-> rank, ver |-> ver, cls |-> cls]

\* the release table: THE object of the name (numbered at its first appearance), None for other names
TInternDeb(e) ==
   LET p == RlPos(e.name)  f == RlFind(robjs, e.name) IN
   /\ IF p = 0 THEN Chk(e.res = RlResNone) /\ UNCHANGED robjs
      ELSE IF f # 0 THEN Chk(e.res = RlResObj(f)) /\ UNCHANGED robjs
      ELSE /\ Chk(e.res = RlResObj(Len(robjs) + 1))
           /\ robjs' = Append(robjs, TObj("deb", e.name, p, RlVersions[p], "Release"))
   /\ rres' = e.res /\ UNCHANGED rtabs /\ Go
\* a caller's table: table.get(name)
TInternTab(e) ==
   LET t == rtabs[e.tab]
       hit == {i \in 1..Len(t.names) : t.names[i] = e.name}
   IN /\ IF hit = {} THEN Chk(e.res = RlResNone)
         ELSE Chk(e.res = RlResObj(t.ids[CHOOSE i \in hit : TRUE]))
      /\ rres' = e.res /\ UNCHANGED <<robjs, rtabs>> /\ Go
TNew(e)   == /\ Chk(e.id = Len(robjs) + 1)
             /\ robjs' = Append(robjs, TObj(e.fam, e.name, e.rank, e.ver, e.cls))
             /\ UNCHANGED <<rres, rtabs>> /\ Go
TTable(e) == /\ Chk(e.tab = Len(rtabs) + 1)
             /\ rtabs' = Append(rtabs, [names |-> e.names, ids |-> e.ids])
             /\ UNCHANGED <<robjs, rres>> /\ Go
TAttr(e)  == LET o == robjs[e.id] IN
             /\ Chk(e.name = o.name) /\ Chk(e.rname = o.name) /\ Chk(e.ver = o.ver)
             /\ Chk(e.cls = o.cls) /\ Chk(e.rcls = o.cls)
             /\ UNCHANGED <<rvars, rtabs>> /\ Go
SameFam(ids) == \A i, j \in 1..Len(ids) : robjs[ids[i]].fam = robjs[ids[j]].fam
TCmp(e)   == /\ Chk(robjs[e.x].fam = robjs[e.y].fam)            \* harness discipline
             /\ Chk(RlCmpFits(robjs[e.x], robjs[e.y], e.res))
             /\ UNCHANGED <<rvars, rtabs>> /\ Go
RlRev(s) == [i \in 1..Len(s) |-> s[Len(s) + 1 - i]]
MinRank(ids) == CHOOSE r \in {robjs[ids[i]].rank : i \in 1..Len(ids)} :
                   \A i \in 1..Len(ids) : r <= robjs[ids[i]].rank
MaxRank(ids) == CHOOSE r \in {robjs[ids[i]].rank : i \in 1..Len(ids)} :
                   \A i \in 1..Len(ids) : r >= robjs[ids[i]].rank
FirstWith(ids, r) == ids[CHOOSE i \in 1..Len(ids) : robjs[ids[i]].rank = r
                                                     /\ \A j \in 1..(i - 1) : robjs[ids[j]].rank # r]
TColl(e)  == /\ Chk(SameFam(e.ids))
             /\ CASE e.op = "Sort"     -> Chk(e.res = RlSorted(robjs, e.ids))
                  \* list.sort(reverse=True) keeps equal elements in their original order
                  [] e.op = "SortRev"  -> Chk(e.res = RlRev(RlSorted(robjs, RlRev(e.ids))))
                  [] e.op = "Distinct" -> Chk(e.n = RlDistinct(robjs, e.ids))
                  [] e.op = "Min"      -> Chk(e.res = FirstWith(e.ids, MinRank(e.ids)))
                  [] e.op = "Max"      -> Chk(e.res = FirstWith(e.ids, MaxRank(e.ids)))
                  [] e.op = "Index"    -> Chk(e.res = CHOOSE i \in 1..Len(e.ids) :
                                                         /\ robjs[e.ids[i]].rank = robjs[e.x].rank
                                                         /\ \A j \in 1..(i - 1) : robjs[e.ids[j]].rank # robjs[e.x].rank)
             /\ UNCHANGED <<rvars, rtabs>> /\ Go
TKeys(e)  == /\ Chk(e.names = RlNames)
             /\ UNCHANGED <<rvars, rtabs>> /\ Go

TStep == /\ l <= Len(Tr)
         /\ LET e == Tr[l] IN
              \/ e.op = "Intern" /\ e.tab = 0 /\ TInternDeb(e)
              \/ e.op = "Intern" /\ e.tab > 0 /\ TInternTab(e)
              \/ e.op = "New" /\ TNew(e)
              \/ e.op = "Table" /\ TTable(e)
              \/ e.op = "Attr" /\ TAttr(e)
              \/ e.op = "Cmp" /\ TCmp(e)
              \/ e.op \in {"Sort", "SortRev", "Distinct", "Min", "Max", "Index"} /\ TColl(e)
              \/ e.op = "Keys" /\ TKeys(e)

TSpec == TInit /\ [][TStep]_tvars
=============================================================================
