CONSTANTS
  MaxLen = 0
  MaxLines = 0
  BigSel = {}
  Emit = FALSE
  DashFirstOK = FALSE
  CommentClosesField = FALSE
  DupAcrossBlank = FALSE
  CaseSensitiveDup = FALSE
SPECIFICATION TSpec
CHECK_DEADLOCK FALSE
