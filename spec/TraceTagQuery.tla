--------------------------- MODULE TraceTagQuery ---------------------------
(***************************************************************************)
(* X12 -- trace validation: histories recorded from real debian.debtags    *)
(* objects and module functions (harness/props/x12.py) are explained by    *)
(* the relation algebra of TagRel.tla and the sharing discipline stated in *)
(* TagQuery.tla.                                                           *)
(* A trace is [ft, events]: ft the facet of every tag the generator built  *)
(* as facet::name (the generator knows it by construction), an event       *)
(*   [k |-> "new",    o]                    DB()                           *)
(*   [k |-> "read",   o, lines, drop]       o.read(lines[, tag_filter])    *)
(*   [k |-> "derive", o, n, c, exc]         n = o.<derivation c>           *)
(*   [k |-> "ask",    o, q, res]            a query of o                   *)
(*   [k |-> "rel",    o, o2, q, res]        relevance_index_function(o, o2)*)
(*   [k |-> "mut",    o, side, key, how, e] a caller mutates a set it got  *)
(*   [k |-> "fn",     op, lines, drop, m, res]  a module-level function    *)
(* plus obs: the two dictionaries of every live object whose projection    *)
(* changed during the call and of the objects the call addressed.  Names   *)
(* are interned ids: TLC needs equality only, so length and characters of  *)
(* the real names cost nothing here (the verdict is length-independent by  *)
(* construction).  Objects are numbered in order of creation.              *)
(* Sharing classes: tcls as stated, tkcls as built when IOEnv.KNOWN_CCS =  *)
(* "1" (open finding X12-choose-copy-shares): a mutation that changes an   *)
(* object outside the stated class but inside the as-built class is        *)
(* accepted with a <<"REJECT", tid, "X12-choose-copy-shares", l>> note.    *)
(***************************************************************************)
EXTENDS TagRel, Json, IOUtils

Traces == JsonDeserialize(IOEnv.TRACE_FILE)
Diag   == IOEnv.TRACE_DIAG = "1"
Known  == IOEnv.KNOWN_CCS = "1"

VARIABLES tid, l, tobjs, ttrk, tcls, tkcls
tvars == <<tid, l, tobjs, ttrk, tcls, tkcls>>

Tr == Traces[tid]
Chk(P) == P = TRUE          \* a pure check inside an action (no branching)

ObjOf(o)  == Coll(MOfJson(o.f), MOfJson(o.b))
Tracked(tk, op) == tk = "full" \/ (tk = "fwd" /\ op \notin BwdQueries)

----------------------------------------------------------------------------
\* answers
SetIs(r, S)  == r.t = "set" /\ ToSet(r.x) = S
CorrOK(d, xs) ==
   LET C == QCorr(d) IN
   /\ Len(xs) = Cardinality(C)
   /\ \A i, j \in 1..Len(xs) : (xs[i].p = xs[j].p /\ xs[i].t = xs[j].t) => i = j
   /\ \A i \in 1..Len(xs) : \E c \in C : c.p = xs[i].p /\ c.t = xs[i].t /\ CorrScoreIs(c, xs[i].num, xs[i].den)

AskOK(d, q, r) ==
   LET S == ToSet(q.s) IN
   CASE q.op = "has_package"        -> r.t = "bool" /\ r.x = (q.s[1] \in DOMAIN d.f)
     [] q.op = "has_tag"            -> r.t = "bool" /\ r.x = (q.s[1] \in DOMAIN d.b)
     [] q.op = "tags_of_package"    -> SetIs(r, MAt(d.f, q.s[1]))
     [] q.op = "packages_of_tag"    -> SetIs(r, MAt(d.b, q.s[1]))
     [] q.op = "tags_of_packages"   -> S = {} \/ \E mode \in {"u", "i"} : SetIs(r, Combine(d.f, S, mode))
     [] q.op = "packages_of_tags"   -> S = {} \/ \E mode \in {"u", "i"} : SetIs(r, Combine(d.b, S, mode))
     [] q.op = "card"               -> r.t = "int" /\ r.x = QCard(d, q.s[1])
     [] q.op = "discriminance"      -> r.t = "int" /\ r.x = QDiscr(d, q.s[1])
     [] q.op = "package_count"      -> r.t = "int" /\ r.x = Cardinality(DOMAIN d.f)
     [] q.op = "tag_count"          -> r.t = "int" /\ r.x = Cardinality(DOMAIN d.b)
     [] q.op = "iter_packages"      -> r.t = "keys" /\ KeysOK(DOMAIN d.f, r.x)
     [] q.op = "iter_tags"          -> r.t = "keys" /\ KeysOK(DOMAIN d.b, r.x)
     [] q.op \in {"iter_packages_tags", "dump"}         -> r.t = "entries" /\ OutputOK(d.f, r.x)
     [] q.op \in {"iter_tags_packages", "dump_reverse"} -> r.t = "entries" /\ OutputOK(d.b, r.x)
     [] q.op = "ideal_tagset"       -> \E mode \in {"u", "i"} : SetIs(r, QIdeal(d, q.s, mode))
     [] q.op = "correlations"       -> ~ CorrDefined(d) \/ (r.t = "corr" /\ CorrOK(d, r.x))

FnOK(e) ==
   CASE e.op = "parse"     -> \/ ~ ReadOK(e.lines)
                              \/ LET P == ParseTags(e.lines) IN
                                 /\ Len(e.res) = Len(P)
                                 /\ \A i \in 1..Len(P) : ToSet(e.res[i].pkgs) = P[i].pkgs /\ ToSet(e.res[i].tags) = P[i].tags
     [] e.op = "read_fwd"  -> ~ ReadOK(e.lines) \/ MOfJson(e.res) = RdFwd(e.lines, {})
     [] e.op = "read_bwd"  -> ~ ReadOK(e.lines) \/ MOfJson(e.res) = RdBwd(e.lines, {})
     [] e.op = "read_both" -> ~ ReadOK(e.lines) \/ ObjOf(e.res) = RdBoth(e.lines, ToSet(e.drop))
     [] e.op = "reverse"   -> MOfJson(e.res) = MConv(MOfJson(e.m))
     [] e.op = "output"    -> OutputOK(MOfJson(e.m), e.res)

----------------------------------------------------------------------------
\* observations: no = objects after the call as the statement says, nt = how far they are determined
ObsOK(no, nt, obs) ==
   /\ \A i \in 1..Len(obs) : obs[i].o \in 1..Len(no)
   /\ \A x \in 1..Len(no) :
         LET I == {i \in 1..Len(obs) : obs[i].o = x} IN
         IF nt[x] = "none" THEN TRUE
         ELSE IF I = {}
              THEN x <= Len(tobjs) /\ ttrk[x] = nt[x]
                   /\ (IF nt[x] = "full" THEN no[x] = tobjs[x] ELSE no[x].f = tobjs[x].f)
              ELSE \A i \in I : IF nt[x] = "full" THEN ObjOf(obs[i]) = no[x]
                                ELSE MOfJson(obs[i].f) = no[x].f

Same(cl, x) == {y \in 1..Len(cl) : cl[y] = cl[x]}

TInit == /\ tid \in 1..Len(Traces)
         /\ l = 1
         /\ tobjs = <<>> /\ ttrk = <<>> /\ tcls = <<>> /\ tkcls = <<>>

TStep ==
   /\ l <= Len(Tr.events)
   /\ LET e == Tr.events[l]
          n == Len(tobjs)
          fresh == 1000000 + l
      IN
      CASE e.k = "new" ->
             /\ Chk(e.o = n + 1)
             /\ tobjs' = Append(tobjs, NoColl) /\ ttrk' = Append(ttrk, "full")
             /\ tcls' = Append(tcls, fresh) /\ tkcls' = Append(tkcls, fresh)
             /\ Chk(ObsOK(tobjs', ttrk', e.obs))
        [] e.k = "read" ->
             /\ Chk(e.o \in 1..n /\ e.exc = "")
             /\ tobjs' = [tobjs EXCEPT ![e.o] = RdBoth(e.lines, ToSet(e.drop))]
             /\ ttrk'  = [ttrk EXCEPT ![e.o] = IF ReadOK(e.lines) THEN "full" ELSE "none"]
             /\ tcls' = [tcls EXCEPT ![e.o] = fresh] /\ tkcls' = [tkcls EXCEPT ![e.o] = fresh]
             /\ Chk(ObsOK(tobjs', ttrk', e.obs))
        [] e.k = "derive" ->
             LET d   == tobjs[e.o]
                 tk0 == ttrk[e.o]
                 tk1 == IF tk0 = "none" \/ TrkAfter(tk0, e.c.op) = "none" THEN "none"
                        ELSE IF DeriveOK(Tr.ft, d, e.c) THEN TrkAfter(tk0, e.c.op)
                        ELSE "none"                           \* outside the domain of the derivation
             IN
             /\ Chk(e.o \in 1..n)
             /\ IF e.exc # ""
                THEN /\ Chk(tk1 = "none")                    \* an exception only where nothing is specified
                     /\ Chk(e.n = 0)
                     /\ UNCHANGED <<tobjs, ttrk, tcls, tkcls>>
                     /\ Chk(ObsOK(tobjs, ttrk, e.obs))
                ELSE /\ Chk(e.n = n + 1)
                     /\ tobjs' = Append(tobjs, IF tk1 = "none" THEN NoColl ELSE Derive(Tr.ft, d, e.c))
                     /\ ttrk' = Append(ttrk, tk1)
                     /\ tcls' = Append(tcls, IF e.c.op \in SharingOps THEN tcls[e.o] ELSE fresh)
                     /\ tkcls' = Append(tkcls, IF e.c.op \in SharingOps \cup {"choose_copy"} THEN tkcls[e.o] ELSE fresh)
                     /\ Chk(ObsOK(tobjs', ttrk', e.obs))
        [] e.k = "ask" ->
             /\ Chk(e.o \in 1..n)
             /\ Chk(~ Tracked(ttrk[e.o], e.q.op) \/ AskOK(tobjs[e.o], e.q, e.res))
             /\ UNCHANGED <<tobjs, ttrk, tcls, tkcls>>
             /\ Chk(ObsOK(tobjs, ttrk, e.obs))
        [] e.k = "rel" ->
             /\ Chk(e.o \in 1..n /\ e.o2 \in 1..n)
             /\ Chk(\/ ttrk[e.o] # "full" \/ ttrk[e.o2] # "full" \/ ~ RelDefined(tobjs[e.o], e.q.s[1])
                    \/ LET x == QRel(tobjs[e.o], tobjs[e.o2], e.q.s[1]) IN e.res.t = "rat" /\ e.res.num * x.d = x.n * e.res.den)
             /\ UNCHANGED <<tobjs, ttrk, tcls, tkcls>>
             /\ Chk(ObsOK(tobjs, ttrk, e.obs))
        [] e.k = "mut" ->
             LET no  == [tobjs EXCEPT ![e.o] = Mutate(tobjs[e.o], e.side, e.key, e.how, e.e)]
                 nt  == [x \in 1..n |-> IF x # e.o /\ x \in Same(tcls, e.o) THEN "none" ELSE ttrk[x]]
                 knt == [x \in 1..n |-> IF x # e.o /\ x \in Same(tkcls, e.o) THEN "none" ELSE nt[x]]
             IN
             /\ Chk(e.o \in 1..n)
             /\ tobjs' = no
             /\ UNCHANGED <<tcls, tkcls>>
             /\ IF ObsOK(no, nt, e.obs)
                THEN ttrk' = nt
                ELSE /\ Chk(Known /\ ObsOK(no, knt, e.obs))
                     /\ ttrk' = knt
                     /\ PrintT(<<"REJECT", tid, "X12-choose-copy-shares", l>>)
        [] e.k = "fn" ->
             /\ Chk(FnOK(e))
             /\ UNCHANGED <<tobjs, ttrk, tcls, tkcls>>
             /\ Chk(ObsOK(tobjs, ttrk, e.obs))
   /\ l' = l + 1 /\ UNCHANGED tid
   /\ IF Diag THEN PrintT(<<"AT", tid, l>>) ELSE TRUE
   /\ IF l' = Len(Tr.events) + 1 THEN PrintT(<<"ACCEPTED", tid>>) ELSE TRUE

TSpec == TInit /\ [][TStep]_tvars
=============================================================================
