---------------------------- MODULE TraceX03Env ----------------------------
(***************************************************************************)
(* X03 (b) -- trace validation: executions of BuildInfo._env_deserialise   *)
(* and BuildInfo.get_environment recorded from the real code on several    *)
(* LIVE BuildInfo objects (harness/props/x03.py) are checked against the   *)
(* character-level machine of BuildInfoEnv.                                *)
(*                                                                         *)
(* A trace is [ds, envs0, events]:                                         *)
(*   envs0   object name -> [has, txt]: whether the object has an          *)
(*           Environment field and its text (code points);                 *)
(*   events  [op, o, txt, res]:                                            *)
(*             Deser  list(BuildInfo._env_deserialise(txt)) -> res         *)
(*             Get    objs[o].get_environment() -> res (dict, in order)    *)
(*             Set / Del  the harness assigns / deletes the field of o     *)
(*           res = [k |-> "ok" | "ValueError" | "EXC:..", out |-> pairs];  *)
(*   ds      the defect models the trace is tried under (see               *)
(*           TraceX03Merge).                                               *)
(* For every call the machine is run on the text the object holds AT THAT  *)
(* MOMENT (a cached result, a dict shared between calls or objects, a      *)
(* result that depends on an earlier text cannot be explained); a text in  *)
(* the unspecified zone of BuildInfoEnv accepts every outcome (flagged      *)
(* <<"UNSPEC", tid, l>>).                                                  *)
(* <<"ACCEPTED", tid, dset>> for every (trace, model) explained completely.*)
(***************************************************************************)
EXTENDS BuildInfoEnv, IOUtils, TLCExt

Traces == JsonDeserialize(IOEnv.TRACE_FILE)
Diag   == IOEnv.TRACE_DIAG = "1"

VARIABLES tid, l, dset, envs
tvars == <<evars, tid, l, dset, envs>>

Tr == Traces[tid]
SeqSet(s) == {s[i] : i \in 1..Len(s)}

TInit == /\ tid \in 1..Len(Traces)
         /\ dset \in {SeqSet(Traces[tid].ds[i]) : i \in 1..Len(Traces[tid].ds)}
         /\ l = 1
         /\ envs = Traces[tid].envs0
         /\ inp = <<>> /\ est = EnvInit

Go == /\ l' = l + 1 /\ UNCHANGED <<tid, dset>>
      /\ (Diag => PrintT(<<"AT", tid, l>>))
      /\ (l + 1 = Len(Tr.events) + 1 => PrintT(<<"ACCEPTED", tid, dset>>))

\* the machine reads the text; the observed outcome is the machine's (or the text is unspecified)
Reads(txt, obs, asdict) ==
   /\ inp' = txt
   /\ est' = EnvRun(dset, txt)
   /\ LET o == IF asdict THEN EnvDict(EnvEnd(dset, est')) ELSE EnvEnd(dset, est')
      IN IF o.k = "unspec" THEN PrintT(<<"UNSPEC", tid, l>>) ELSE o = obs

TDeser(e) == Reads(e.txt, e.res, FALSE) /\ UNCHANGED envs /\ Go
TGet(e)   == Reads(IF envs[e.o].has THEN envs[e.o].txt ELSE <<>>, e.res, TRUE) /\ UNCHANGED envs /\ Go
TSet(e)   == envs' = [envs EXCEPT ![e.o] = [has |-> TRUE, txt |-> e.txt]] /\ UNCHANGED evars /\ Go
TDel(e)   == envs[e.o].has /\ envs' = [envs EXCEPT ![e.o] = [has |-> FALSE, txt |-> <<>>]] /\ UNCHANGED evars /\ Go

TStep == /\ l <= Len(Tr.events)
         /\ LET e == Tr.events[l] IN
              \/ e.op = "Deser" /\ TDeser(e)
              \/ e.op = "Get" /\ TGet(e)
              \/ e.op = "Set" /\ TSet(e)
              \/ e.op = "Del" /\ TDel(e)

TSpec == TInit /\ [][TStep]_tvars
=============================================================================
