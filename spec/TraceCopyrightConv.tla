------------------------ MODULE TraceCopyrightConv ------------------------
(***************************************************************************)
(* X13 -- trace validation of recorded conversions (harness/props/x13.py): *)
(* values assigned to / read from the typed attributes of real Header and  *)
(* FilesParagraph objects (and the private converter classes called        *)
(* directly), abstracted character by character to the symbols of          *)
(* CopyrightConv.tla.  An event is [op, l, x, t, text, vals]:              *)
(*   lines_to / words_to   l = the items assigned; t = "raw" (text = what  *)
(*           was stored) | "nil" (nothing stored: None) | "fail"           *)
(*           (MachineReadableFormatError) | anything else (not explained)  *)
(*   lines_from / words_from   x = the stored text; vals = the items read  *)
(*   single  x = the value assigned; t = "raw" (text stored) | "fail"      *)
(***************************************************************************)
EXTENDS CopyrightConv, IOUtils, TLCExt

Traces == JsonDeserialize(IOEnv.TRACE_FILE)
Diag   == IOEnv.TRACE_DIAG = "1"

VARIABLES tid, l
Tr == Traces[tid]
TInit == tid \in 1..Len(Traces) /\ l = 1

Chk(b) == b = TRUE
ToOK(exp, its, e) == \/ exp.t = "unspec"
                     \/ exp.t = e.t /\ (exp.t = "raw" => Flat(its, exp.out) = e.text)
TStep ==
    /\ l <= Len(Tr)
    /\ LET e == Tr[l] IN
       CASE e.op = "lines_to"   -> Chk(ToOK(LinesTo(e.l), e.l, e))
         [] e.op = "words_to"   -> Chk(ToOK(WordsTo(e.l), e.l, e))
         [] e.op = "lines_from" -> Chk(LinesFromUnspec(e.x) \/ Vals(<<e.x>>, LinesFrom(e.x)) = e.vals)
         [] e.op = "words_from" -> Chk(Vals(<<e.x>>, WordsFrom(e.x)) = e.vals)
         [] e.op = "single"     -> Chk(SingleTo(e.x) = "unspec" \/ (SingleTo(e.x) = e.t /\ (e.t = "raw" => e.text = e.x)))
         [] OTHER               -> FALSE
    /\ l' = l + 1 /\ UNCHANGED tid
    /\ (Diag => PrintT(<<"AT", tid, l>>))
    /\ (l' = Len(Tr) + 1 => PrintT(<<"ACCEPTED", tid>>))
TSpec == TInit /\ [][TStep]_<<tid, l>>
=============================================================================
