CONSTANTS
  Names = {1, 2, 3}
  Start <- StartB
  MaxParas = 1
  EditFields = TRUE
  SetVals = {101}
  SetSpells = {"L"}
  Ops = {}
  Emit = FALSE
  MaxNode = 6
  ForwardLoopInOrderFirst = TRUE
SPECIFICATION PSpec
INVARIANT Refines
INVARIANT ByNameConsistent
PROPERTY SameResult
VIEW ImplView
CHECK_DEADLOCK FALSE
