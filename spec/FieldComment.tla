---------------------------- MODULE FieldComment ----------------------------
(***************************************************************************)
(* X17 (extra) -- the comment API of the format-preserving parser          *)
(* (debian._deb822_repro.parsing): comments attached to fields.            *)
(*                                                                         *)
(* WORLD  w = [ps, held, nh]                                               *)
(*   ps    the caller's paragraphs; a paragraph is the sequence of its     *)
(*         field instances [n, s, v, c]: name (a number: names differ      *)
(*         under lower()), spelling symbol of the name as stored, value    *)
(*         symbol, comment c = [h, ls]: ls the comment LINES in front of   *)
(*         the field (token sequences of CommentNorm, <<>> = no comment    *)
(*         element), h which Deb822CommentElement OBJECT it is: a handle   *)
(*         number when the caller has seen / supplied that object, 0 for   *)
(*         an object the caller never held                                 *)
(*   held  the detached comment elements the caller holds, [h, ls] sorted  *)
(*         by handle                                                       *)
(*   nh    the next unused handle number                                   *)
(* The text of a paragraph is the concatenation, field by field, of the    *)
(* comment lines, the spelled name, ':' and the value text.                *)
(*                                                                         *)
(* One PURE outcome operator per public call (used by the closed model     *)
(* FieldCommentMC.tla and by the trace validation TraceFieldComment.tla):  *)
(*   SetOut     set_field_to_simple_value / set_field_from_raw_string and  *)
(*              the item assignments built on them, comment modes          *)
(*                "default" no keyword        "keep" preserve...=True      *)
(*                "drop" preserve...=False    "list" field_comment=[..]    *)
(*                "elem" field_comment=<held element>                      *)
(*                "self" field_comment=<the element the field has now>     *)
(*                "bad"  field_comment=<element whose last line lacks the  *)
(*                       newline>            "confK"/"confD" both keywords *)
(*   CmtOut     kvpair.comment_element = None | held element | bad element *)
(*   DelOut     del p[key] / pop / remove_kvpair_element                   *)
(*   MoveOut    order_first / order_last;  SortOut  sort_fields()          *)
(*   NewOut / DictOut / KvOut / JoinOut   new_empty_paragraph, from_dict,  *)
(*              from_kvpairs (of one paragraph, possibly reversed; of two) *)
(*   FileParts  new_empty_file() + append: paragraphs and separating lines *)
(*   FaultOut   any of the setters / from_dict with a faulting argument    *)
(* Outcome = [e, w]: "ok" | "ValueError" | "Ambiguous" | "KeyError" |      *)
(* "CallerError" (the exception of a faulting caller-supplied object) and  *)
(* the world afterwards.  kb selects the comment rule: "S" the statement,   *)
(* "A" its other acceptable empty comment line, "K" the code as built      *)
(* (open finding X17-blank-comment-line); "C" is the statement with a KEPT *)
(* comment living on in a new element object (same lines): whether the     *)
(* kept comment is the same OBJECT is not promised by the documentation -- *)
(* accepted, reported as a diagnostic only.                                *)
(*                                                                         *)
(* STATEMENT (checked by TLC in FieldCommentMC.tla against these outcome   *)
(* operators): a refused call changes nothing (ErrAtomic); a call on field *)
(* name n of paragraph p leaves every other field instance, every other    *)
(* paragraph and every held element exactly as it was (Frame); an element  *)
(* object is in one place only (Ownership); every stored comment line is a *)
(* well-formed comment line (LinesWF); the comment of the written field is *)
(* what the mode says (ModeLaw: kept object / none / the normalised lines  *)
(* / the very element handed in); deleting, moving, sorting and rebuilding *)
(* through from_kvpairs move or drop whole fields WITH their comments      *)
(* (MovesWhole); detaching and re-attaching an element restores the world  *)
(* (Detach/Attach inverse); from_dict is the fold of item assignments.     *)
(*                                                                         *)
(* Domain: keys that resolve ((name, i) with i a valid occurrence, i = 0   *)
(* for an absent name); values the setters accept; a supplied element is   *)
(* detached (not attached to another field at the same time -- sharing one *)
(* object between two fields is not specified); comment lines whose first  *)
(* and last non-blank characters are not white space in the sense of       *)
(* str.isspace(); list(...)/tuple of str for field_comment (a plain str is *)
(* not documented).                                                        *)
(***************************************************************************)
EXTENDS CommentNorm

NoIdx == -1
NoC   == [h |-> 0, ls |-> <<>>]
HasC(c) == c.ls # <<>>
Fld(n, s, v, c) == [n |-> n, s |-> s, v |-> v, c |-> c]
Key(n, s, i)    == [n |-> n, s |-> s, i |-> i]
Wd(ps, held, nh) == [ps |-> ps, held |-> held, nh |-> nh]
Oc(e, w)        == [e |-> e, w |-> w]
Mode(k, cl, h)  == [k |-> k, cl |-> cl, h |-> h]

Idx(s)          == [j \in 1..Len(s) |-> j]
Pick(s, P(_))   == LET ix == SelectSeq(Idx(s), P) IN [k \in 1..Len(ix) |-> s[ix[k]]]
Occ(fs, n)      == SelectSeq(Idx(fs), LAMBDA j : fs[j].n = n)
HeldHas(held, h) == \E k \in 1..Len(held) : held[k].h = h
HeldLs(held, h)  == held[CHOOSE k \in 1..Len(held) : held[k].h = h].ls
HeldDel(held, h) == SelectSeq(held, LAMBDA r : r.h # h)
HeldPut(held, h, ls) == SelectSeq(held, LAMBDA r : r.h < h) \o <<[h |-> h, ls |-> ls]>> \o SelectSeq(held, LAMBDA r : r.h > h)

\* a key the paragraph can resolve (the domain of the statement)
KeyOK(fs, key) == LET cnt == Len(Occ(fs, key.n)) IN
                  key.i = NoIdx \/ (cnt = 0 /\ key.i = 0) \/ (key.i >= 0 /\ key.i < cnt)
Tgt(fs, key)   == LET occ == Occ(fs, key.n) IN
                  IF occ = <<>> THEN 0 ELSE IF key.i = NoIdx THEN occ[1] ELSE occ[key.i + 1]
Amb(fs, key)   == key.i = NoIdx /\ Len(Occ(fs, key.n)) >= 2

\* ---- negative-control switches (all "" in the real model) -----------------------
CONSTANT Neg        \* "" | "StoreBroken" | "ElemStays" | "MoveLeavesComment" | "ErrDropsComment" | "KeepCopies"

\* the comment the written field gets: [e, c, held, nh]
NC(e, c, held, nh) == [e |-> e, c |-> c, held |-> held, nh |-> nh]
NewComment(w, orig, amb, m, kb) ==
   LET same == NC("ok", orig, w.held, w.nh)
       copy == NC("ok", [h |-> 0, ls |-> orig.ls], w.held, w.nh)     \* the same lines in a NEW element object
       err(x) == NC(x, orig, w.held, w.nh)
   IN CASE m.k \in {"confK", "confD"} -> err("ValueError")
        [] m.k = "list" ->
             LET nr == [j \in 1..Len(m.cl) |-> Norm(m.cl[j], kb)]
                 okl(j) == nr[j].e = "ok" \/ (Neg = "StoreBroken" /\ nr[j].e = "broken")
             IN IF \E j \in 1..Len(m.cl) : ~okl(j) THEN err("ValueError")
                ELSE IF m.cl = <<>> THEN NC("ok", NoC, w.held, w.nh)
                ELSE NC("ok", [h |-> 0, ls |-> [j \in 1..Len(m.cl) |-> nr[j].r]], w.held, w.nh)
        [] m.k = "elem" ->
             NC("ok", [h |-> m.h, ls |-> HeldLs(w.held, m.h)],
                IF Neg = "ElemStays" THEN w.held ELSE HeldDel(w.held, m.h), w.nh)
        [] m.k = "self" ->
             IF kb = "C" THEN copy
             ELSE IF orig.h = 0 THEN NC("ok", [h |-> w.nh, ls |-> orig.ls], w.held, w.nh + 1) ELSE same
        [] m.k = "bad"  -> err("ValueError")
        [] m.k = "keep" -> IF amb THEN err("Ambiguous")
                           ELSE IF Neg = "KeepCopies" \/ kb = "C" THEN copy ELSE same
        [] m.k = "drop" -> NC("ok", NoC, w.held, w.nh)
        [] OTHER        -> IF kb = "C" THEN copy ELSE same                 \* "default"

\* set_field_to_simple_value / set_field_from_raw_string (key resolves, value accepted)
SetOut(w, p, key, v, m, kb) ==
   LET fs   == w.ps[p]
       tgt  == Tgt(fs, key)
       amb  == Amb(fs, key)
       orig == IF tgt = 0 THEN NoC ELSE fs[tgt].c
       nc   == NewComment(w, orig, amb, m, kb)
       new  == IF tgt = 0 THEN Append(fs, Fld(key.n, key.s, v, nc.c))
               ELSE LET f1 == [fs EXCEPT ![tgt] = Fld(fs[tgt].n, fs[tgt].s, v, nc.c)]
                    IN IF amb THEN Pick(f1, LAMBDA j : j = tgt \/ f1[j].n # key.n) ELSE f1
   IN IF nc.e # "ok"
      THEN Oc(nc.e, IF Neg = "ErrDropsComment" /\ tgt # 0 THEN Wd([w.ps EXCEPT ![p][tgt].c = NoC], w.held, w.nh) ELSE w)
      ELSE Oc("ok", Wd([w.ps EXCEPT ![p] = new], nc.held, nc.nh))

\* kvpair.comment_element = ...  on field j of paragraph p; src "none" | "elem" | "bad"
\* (the caller takes the old element first: `e = kv.comment_element`, so a detached element is held)
CmtOut(w, p, j, src, h) ==
   LET c == w.ps[p][j].c
       heldAfterDetach == IF HasC(c) THEN HeldPut(w.held, IF c.h = 0 THEN w.nh ELSE c.h, c.ls) ELSE w.held
       nhAfterDetach   == IF HasC(c) /\ c.h = 0 THEN w.nh + 1 ELSE w.nh
   IN CASE src = "bad"  -> Oc("ValueError", w)
        [] src = "none" -> Oc("ok", Wd([w.ps EXCEPT ![p][j].c = NoC], heldAfterDetach, nhAfterDetach))
        [] OTHER        -> Oc("ok", Wd([w.ps EXCEPT ![p][j].c = [h |-> h, ls |-> HeldLs(w.held, h)]],
                                       HeldDel(heldAfterDetach, h), nhAfterDetach))

\* del p[key]: a plain name removes every occurrence, (name, i) that occurrence; absent -> KeyError
DelOut(w, p, key) ==
   LET fs  == w.ps[p]
       tgt == Tgt(fs, key)
   IN IF tgt = 0 THEN Oc("KeyError", w)
      ELSE Oc("ok", Wd([w.ps EXCEPT ![p] = Pick(fs, LAMBDA j : IF key.i = NoIdx THEN fs[j].n # key.n ELSE j # tgt)], w.held, w.nh))

\* order_first / order_last of a field that occurs once
Permuted(fs, perm) == IF Neg = "MoveLeavesComment"
                      THEN [k \in 1..Len(perm) |-> [fs[perm[k]] EXCEPT !.c = fs[k].c]]
                      ELSE [k \in 1..Len(perm) |-> fs[perm[k]]]
MoveOut(w, p, n, how) ==
   LET fs   == w.ps[p]
       j    == Tgt(fs, Key(n, "C", NoIdx))
       rest == SelectSeq(Idx(fs), LAMBDA k : k # j)
       perm == IF how = "first" THEN <<j>> \o rest ELSE rest \o <<j>>
   IN IF j = 0 THEN Oc("KeyError", w) ELSE Oc("ok", Wd([w.ps EXCEPT ![p] = Permuted(fs, perm)], w.held, w.nh))
\* sort_fields(key=str.lower): names are numbered in that order; stable
SortOut(w, p) ==
   LET fs   == w.ps[p]
       perm == SetToSortSeq(1..Len(fs), LAMBDA a, b : IF fs[a].n = fs[b].n THEN a < b ELSE fs[a].n < fs[b].n)
   IN Oc("ok", Wd([w.ps EXCEPT ![p] = Permuted(fs, perm)], w.held, w.nh))

\* constructors: a further paragraph of the caller
NewOut(w)          == Oc("ok", Wd(Append(w.ps, <<>>), w.held, w.nh))
DictFold(items)    == FoldLeft(LAMBDA acc, it : SetOut(acc, 1, Key(it.n, it.s, NoIdx), it.v, Mode("default", <<>>, 0), "S").w,
                               Wd(<< <<>> >>, <<>>, 1), items).ps[1]           \* (iterative: dicts of 100 items are validated)
DictOut(w, items)  == Oc("ok", Wd(Append(w.ps, DictFold(items)), w.held, w.nh))
\* from_kvpairs(list(p.iter_parts())) / reversed: the new paragraph takes the place of the donor
KvOut(w, p, rev)   ==
   LET fs == w.ps[p] IN
   IF fs = <<>> THEN Oc("ValueError", w)
   ELSE Oc("ok", Wd([w.ps EXCEPT ![p] = Permuted(fs, IF rev THEN [k \in 1..Len(fs) |-> Len(fs) + 1 - k] ELSE Idx(fs))], w.held, w.nh))
\* from_kvpairs(fields of p followed by fields of q): takes the place of p, q is given up
JoinOut(w, p, q)   ==
   LET both == w.ps[p] \o w.ps[q] IN
   IF both = <<>> THEN Oc("ValueError", w)
   ELSE Oc("ok", Wd(Pick([w.ps EXCEPT ![p] = both], LAMBDA k : k # q), w.held, w.nh))

\* SIZE_STRESS part 5: a call whose caller-supplied object faults while it is read -- the list of comment lines whose
\* iteration raises after k lines (op "fset"), the mapping of from_dict whose items() raises after k items (op "fdict"):
\* the CALLER's exception comes out and nothing has changed; the history goes on
FaultOut(w) == Oc("CallerError", w)

\* Deb822FileElement.new_empty_file() + append(p) for every non-empty paragraph, in order: the parts of dump()
FileParts(w) == LET ne == SelectSeq(Idx(w.ps), LAMBDA p : w.ps[p] # <<>>)
                IN [k \in 1..(2 * Len(ne) - 1) |-> IF k % 2 = 1 THEN <<"p", ne[(k + 1) \div 2]>> ELSE <<"blank", 0>>]

\* ---- properties of worlds and steps (pure) ------------------------------------------
AttachedH(w) == {a \in UNION {{<<p, j>> : j \in DOMAIN w.ps[p]} : p \in DOMAIN w.ps} : w.ps[a[1]][a[2]].c.h # 0}
Ownership(w) ==
   /\ \A a, b \in AttachedH(w) : w.ps[a[1]][a[2]].c.h = w.ps[b[1]][b[2]].c.h => a = b
   /\ \A a \in AttachedH(w) : ~HeldHas(w.held, w.ps[a[1]][a[2]].c.h)
   /\ \A k1, k2 \in 1..Len(w.held) : w.held[k1].h = w.held[k2].h => k1 = k2
   /\ \A a \in AttachedH(w) : w.ps[a[1]][a[2]].c.h < w.nh
   /\ \A k \in 1..Len(w.held) : w.held[k].h < w.nh
LinesWF(w) ==
   /\ \A p \in DOMAIN w.ps : \A j \in DOMAIN w.ps[p] : \A i \in DOMAIN w.ps[p][j].c.ls : WFLine(w.ps[p][j].c.ls[i])
   /\ \A p \in DOMAIN w.ps : \A j \in DOMAIN w.ps[p] : (w.ps[p][j].c.ls = <<>> => w.ps[p][j].c.h = 0)
\* the fields of a paragraph that do not bear name n, in order
Others(fs, n) == SelectSeq(fs, LAMBDA f : f.n # n)
\* fields as a bag of whole instances
SameBagF(s, t) == /\ Len(s) = Len(t)
                  /\ \A x \in {s[i] : i \in 1..Len(s)} \cup {t[i] : i \in 1..Len(t)} :
                        Cardinality({i \in 1..Len(s) : s[i] = x}) = Cardinality({i \in 1..Len(t) : t[i] = x})
=============================================================================
