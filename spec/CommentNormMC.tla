--------------------------- MODULE CommentNormMC ---------------------------
(***************************************************************************)
(* X17 -- every comment line of up to MaxLine tokens over the classes      *)
(* h b x n (ids = position + 1, so that a "b" token is never the inserted  *)
(* single space unless the harness says so): the laws of CommentNorm hold  *)
(* (ASSUME: evaluated once) and the outcome of every line is printed as a  *)
(* NORM line (o = what the statement says, alt = the other acceptable      *)
(* empty comment line, k = what the code does as long as the open finding  *)
(* X17-blank-comment-line stands) for the replay through                   *)
(* set_field_to_simple_value, set_field_from_raw_string and                *)
(* append_comment (harness/props/x17.py).                                  *)
(* Negative control / finding: CommentNormMC_asbuilt.cfg (AsBuilt = TRUE)  *)
(* makes the ASSUME LawsHold fail.                                         *)
(***************************************************************************)
EXTENDS CommentNorm, Json

CONSTANTS MaxLine, AsBuilt, Emit

VARIABLE cndummy

Classes == {"h", "b", "x", "n"}
LinesOf(n) == {[i \in 1..n |-> Tk(f[i], i + 1)] : f \in [1..n -> Classes]}
AllLines == UNION {LinesOf(n) : n \in 0..MaxLine}

ASSUME LawsHold == \A s \in AllLines : IF AsBuilt THEN AsBuiltTotal(s) /\ Laws(s) ELSE Laws(s)
ASSUME EmitNorm == Emit => \A s \in AllLines :
                      PrintT(<<"NORM", ToJson([s |-> s, o |-> Norm(s, "S"), alt |-> NormAlt(s), k |-> Norm(s, "K")])>>)

CnInit == cndummy = 0
CnNext == UNCHANGED cndummy
CnSpec == CnInit /\ [][CnNext]_cndummy
=============================================================================
