CONSTANTS
  CacheKeyedByNameOnly = FALSE
  ContentCacheByFile = TRUE
  ResultsAliased = FALSE
  GetMemberRewinds = FALSE
  LazyScanDiesOnFault = FALSE
  CloseForgetsPosition = FALSE
  EmitH = FALSE
SPECIFICATION Spec
INVARIANT CacheCoherent
INVARIANT NoOtherMemo
PROPERTY HistExact
PROPERTY RepeatStable
VIEW HView
CHECK_DEADLOCK FALSE
