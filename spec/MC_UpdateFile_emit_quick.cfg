\* C19 emission (quick tier): every terminal behaviour for <= 3 versions, printed as CASE lines;
\* the same run checks the invariants and termination under weak fairness (the liveness pass
\* re-evaluates actions, so CASE lines repeat: the harness removes duplicates)
SPECIFICATION FairSpec
CONSTANTS
  MaxN = 2
  Sizes = {0, 2}
  FlavourSets = {{"SHA1"}, {"SHA256"}, {"SHA1", "SHA256"}}
  Mode = "code"
  Runs = 1
  RememberIndex = FALSE
  Emit = TRUE
INVARIANTS TypeOK Converges NeverCorrupt NoTempLeft AlwaysOldOrNew FaultRaises IndexFaultConverges
           HashFaultWritesNothing GarbledNeverApplied ByPatchesWhenListed
PROPERTY Terminates
CHECK_DEADLOCK FALSE
