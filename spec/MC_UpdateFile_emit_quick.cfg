\* C19 emission (quick tier): every terminal behaviour for <= 3 versions, printed as CASE lines
\* (the same run checks the invariants; termination: MC_UpdateFile_live.cfg)
SPECIFICATION Spec
CONSTANTS
  MaxN = 2
  Sizes = {0, 2}
  FlavourSets = {{"SHA1"}, {"SHA256"}, {"SHA1", "SHA256"}}
  Mode = "code"
  Runs = 1
  RememberIndex = FALSE
  Emit = TRUE
INVARIANTS TypeOK Converges NeverCorrupt NoTempLeft AlwaysOldOrNew FaultRaises IndexFaultConverges
           HashFaultWritesNothing GarbledNeverApplied ByPatchesWhenListed
CHECK_DEADLOCK FALSE
