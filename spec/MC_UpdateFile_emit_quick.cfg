\* C19 emission (quick tier): every terminal behaviour for <= 3 versions, printed as CASE lines; each
\* input with one of the three flavour sets, rotating over the inputs (FlavourPhase is set from the seed)
\* (the same run checks the invariants; termination: MC_UpdateFile_live.cfg)
SPECIFICATION Spec
CONSTANTS
  MaxN = 2
  Sizes = {0, 2}
  FlavourSets = {{"SHA1"}, {"SHA256"}, {"SHA1", "SHA256"}}
  Mode = "code"
  Runs = 1
  FlavourPhase = 0
  FaultKinds = {"none", "patchCorrupt", "patchTruncated", "badLastPatch", "wrongResultHash", "indexMissing", "indexGarbage", "indexEmpty", "writeFails", "renameFails"}
  Entries = {"update_file", "download_file", "replace_file"}
  RememberIndex = FALSE
  Emit = TRUE
  EmitEvery = 1
  EmitPhase = 0
INVARIANTS TypeOK Converges NeverCorrupt NoTempLeft AlwaysOldOrNew FaultRaises IndexFaultConverges
           HashFaultWritesNothing GarbledNeverApplied ByPatchesWhenListed
CHECK_DEADLOCK FALSE
