\* C19 emission (quick tier): every terminal behaviour for <= 3 versions, printed as CASE lines
SPECIFICATION Spec
CONSTANTS
  MaxN = 2
  Sizes = {0, 2}
  FlavourSets = {{"SHA1"}, {"SHA256"}, {"SHA1", "SHA256"}}
  Mode = "code"
  Emit = TRUE
INVARIANTS Converges NeverCorrupt NoTempLeft AlwaysOldOrNew FaultRaises
CHECK_DEADLOCK FALSE
