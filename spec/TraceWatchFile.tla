--------------------------- MODULE TraceWatchFile ---------------------------
(***************************************************************************)
(* X02 (extra) -- trace validation: executions recorded from the real      *)
(* debian.watch (harness/props/x02.py) are checked against WatchFile,      *)
(* WatchFileOps and WatchFileExpand.  Three kinds of trace:                *)
(*                                                                         *)
(*  [kind |-> "parse", lines, strict, obs, final]                          *)
(*     lines: the physical lines as symbol sequences (known by             *)
(*     construction).  obs[i]: what from_lines returned for the first i    *)
(*     lines -- [r, ver, o, es, warn] with r = "ok" / "None" / the name of *)
(*     the exception, fields read back into symbols -- or [r |-> "skip"]   *)
(*     when that prefix was not observed; final: the same for all lines.   *)
(*     The line automaton PStep is advanced line by line (one TLC step     *)
(*     per physical line: documents of 1000+ lines are validated without   *)
(*     recursion over the text) and PEnd must explain every observation.   *)
(*     While a continuation is pending and the call is not strict only     *)
(*     the warning is required (result unspecified).                       *)
(*  [kind |-> "api", events]                                               *)
(*     events[i] = [op, t, i, f, x, v, lines, strict, out, snap]: one      *)
(*     public call on the live objects (new / parse / addopt / addent /    *)
(*     entopt / setver / delent / setfield / dump / iter) and snap, the    *)
(*     value of EVERY live WatchFile after it.  The call is applied to the *)
(*     reference state with the operators of WatchFileOps (parse: Parse,   *)
(*     dump: DumpLines); the snapshot must equal the reference state, so   *)
(*     an object that changes without being the target is rejected.        *)
(*  [kind |-> "expand", t, out]                                            *)
(*     out must be XExpand(t).                                             *)
(*                                                                         *)
(* Batched: one TLC run validates all traces of TRACE_FILE and prints      *)
(* <<"ACCEPTED", tid>> for every trace the specification explains.         *)
(***************************************************************************)
EXTENDS WatchFile, WatchFileOps, WatchFileExpand, IOUtils, TLCExt

Traces == JsonDeserialize(IOEnv.TRACE_FILE)
Diag   == IOEnv.TRACE_DIAG = "1"

VARIABLES tid, l, tps, tobjs
tvars == <<vars, xt, tid, l, tps, tobjs>>
Tr == Traces[tid]

TInit == /\ tid \in 1..Len(Traces) /\ l = 1 /\ tps = PInit /\ tobjs = <<>>
         /\ wver = 4 /\ wlines = <<>> /\ wvpos = 1 /\ wopts = <<>> /\ wents = <<>> /\ wzone = "dom"
         /\ wpp = FALSE /\ wn = 0 /\ wclosed = FALSE /\ wcur = <<>> /\ wf1 = <<>> /\ wsegs = <<>> /\ xt = <<>>
Keep == UNCHANGED <<vars, xt, tid>>

\* ---- parse traces
Explains(s, strict, ob) ==
   IF ob.r = "skip" THEN TRUE
   ELSE IF Dangling(s) /\ ~strict THEN ob.warn = TRUE /\ ob.r # "FormatError"
   ELSE ob = PEnd(s, strict)

TLine == /\ Tr.kind = "parse" /\ l <= Len(Tr.lines)
         /\ tps' = PStep(tps, Tr.lines[l])
         /\ Explains(tps', Tr.strict, Tr.obs[l])
         /\ l' = l + 1 /\ tobjs' = tobjs /\ Keep
         /\ (Diag => PrintT(<<"AT", tid, l>>))

TParseEnd == /\ Tr.kind = "parse" /\ l = Len(Tr.lines) + 1
             /\ Tr.final.r # "skip" /\ Explains(tps, Tr.strict, Tr.final)
             /\ l' = l + 1 /\ tps' = tps /\ tobjs' = tobjs /\ Keep
             /\ PrintT(<<"ACCEPTED", tid>>)

\* ---- api traces
\* what an observing call returned is what the reference says
TOk(objs, e) ==
   CASE e.op = "parse" -> e.out = Parse(e.lines, e.strict).r
     [] e.op = "dump"  -> e.out = DumpLines(objs[e.t].ver, objs[e.t].o, objs[e.t].es)
     [] e.op = "iter"  -> e.out = objs[e.t].es
     [] OTHER          -> TRUE

TApply(objs, e) ==
   CASE e.op = "new"      -> ONew(objs, e.v)
     [] e.op = "parse"    -> LET r == Parse(e.lines, e.strict) IN
                             IF r.r = "ok" THEN ONew(objs, OVal(r.ver, r.o, r.es)) ELSE objs
     [] e.op = "addopt"   -> OAddOpt(objs, e.t, e.x)
     [] e.op = "addent"   -> OAddEnt(objs, e.t, e.v)
     [] e.op = "entopt"   -> OEntOpt(objs, e.t, e.i, e.x)
     [] e.op = "setver"   -> OSetVer(objs, e.t, e.i)
     [] e.op = "delent"   -> ODelEnt(objs, e.t, e.i)
     [] e.op = "setfield" -> OSetField(objs, e.t, e.i, e.f, e.x)
     [] e.op \in {"dump", "iter"} -> objs

TEvent == /\ Tr.kind = "api" /\ l <= Len(Tr.events)
          /\ TOk(tobjs, Tr.events[l])
          /\ tobjs' = TApply(tobjs, Tr.events[l])
          /\ Tr.events[l].snap = tobjs'
          /\ l' = l + 1 /\ tps' = tps /\ Keep
          /\ (Diag => PrintT(<<"AT", tid, l>>))
          /\ (l' = Len(Tr.events) + 1 => PrintT(<<"ACCEPTED", tid>>))

\* ---- expand traces
TExpand == /\ Tr.kind = "expand" /\ l = 1
           /\ Tr.out = XExpand(Tr.t)
           /\ l' = l + 1 /\ tps' = tps /\ tobjs' = tobjs /\ Keep
           /\ PrintT(<<"ACCEPTED", tid>>)

TNext == TLine \/ TParseEnd \/ TEvent \/ TExpand
TSpec == TInit /\ [][TNext]_tvars
=============================================================================
