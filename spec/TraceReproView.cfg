CONSTANTS
  Names = {}
  Start = {}
  MaxParas = 99
  EditFields = TRUE
  SetVals = {}
  SetSpells = {}
  Ops = {}
  Emit = FALSE
  WViews = {}
  RViews = {}
  XVals = {}
  RawVals = {}
  SimpleVals = {}
  CLists = {}
  Modes = {}
  MaxW = 0
  XOps = {}
  Bugs <- NoBugs
  Neg = ""
SPECIFICATION TSpec
INVARIANT TStoredValid
CHECK_DEADLOCK FALSE
