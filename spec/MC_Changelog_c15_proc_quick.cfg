\* C15 quick: call histories of one PROCESS -- every complete text of <= 4 lines (one block without change lines) with <= 2
\* mutations out of the warning classes (defective headings, one-space / bare trailer, junk; the same line
\* twice: InsertTwiceStep) is parsed 3 times in one process, strict or lenient in every order (and with the
\* other allow_empty_author setting in the last call where a bare ' --' line makes it matter)
CONSTANTS
  Mode = "proc"
  Classes = {"TopBadKV", "TopDupKey", "TopBadUrg", "Junk", "EndOneSpace", "EndNoDetails"}
  AEAs = {FALSE}
  MaxLines = 4
  MaxBlocks = 1
  MaxBody = 0
  MaxLead = 0
  MaxSep = 0
  Budget = 2
  MaxEdits = 3
  Bug = "none"
  Emit = TRUE
SPECIFICATION Spec
INVARIANT BookkeepingOK
INVARIANT StrictIffWarn
INVARIANT ProcHistoryFree
INVARIANT StrictIffWarnProc
INVARIANT EmitProc
CHECK_DEADLOCK FALSE
