CONSTANTS
  GMaxLines = 0
  GPalette = {}
  GMaxLen = 10
  GShort = 5
  ArglessQuirk = FALSE
  FirstWins = FALSE
  ValidAny = FALSE
  GEmit = TRUE
SPECIFICATION LSpec
INVARIANT GTypeOK
INVARIANT LineRefines
INVARIANT EmitLine
CHECK_DEADLOCK FALSE
