------------------------------ MODULE ListView ------------------------------
(***************************************************************************)
(* C11 -- reference model of the list views of a deb822 field              *)
(* (debian._deb822_repro: LIST_SPACE_SEPARATED_INTERPRETATION and          *)
(* LIST_COMMA_SEPARATED_INTERPRETATION, Deb822ParsedTokenList).            *)
(*                                                                         *)
(* The text of a field value (everything after the colon, including the    *)
(* final newline) is a sequence of LAYOUT TOKENS, integers:                *)
(*    w >= 1  a word (Deb822ValueToken); equal numbers = equal text; a     *)
(*            word may begin with '#' or hold '#', ':' (and ',' in a space *)
(*            list) wherever it stands -- also first on a continuation     *)
(*            line: only a '#' in COLUMN 0 of a line makes a comment (CM)  *)
(*    SP      a run of blanks inside a line                                *)
(*    NL      the newline that ends a line of the value                    *)
(*    CT      the blank that starts a continuation line (space or tab,     *)
(*            one flavour per field, chosen when the text is made)         *)
(*    CTS     a continuation blank that is a SPACE whatever the flavour    *)
(*            (written by the code when the list had no continuation line) *)
(*    CM      a complete comment line "#...\n" inside the value            *)
(*    SEP     a comma (comma interpretation only)                          *)
(* (DESIGN.md has one token Nl+Cont; it is split here into NL and CT       *)
(* because a comment line sits BETWEEN the newline and the continuation    *)
(* blank, and because the code keeps them as two tokens.)                  *)
(*                                                                         *)
(* A VALUE of the list is the sequence of tokens of one item without its   *)
(* comment lines: <<w>> for a word, or (comma interpretation) a run such   *)
(* as <<w1, NL, CT, w2>> for an item that continues on the next line.      *)
(* The abstract state is `vals`, the sequence of values, plus `tail`:      *)
(* whether something that is not yet followed by a value or separator was  *)
(* appended ("nl" after append_newline, "cmt" after append_comment) --     *)
(* the only thing besides the list itself that later calls depend on.      *)
(*                                                                         *)
(* Split(mode, lay) is the reference reader, written from the statement,   *)
(* not from the code: "split the field's text on the separator, ignore     *)
(* comment lines, strip surrounding whitespace, drop empty items".         *)
(* Valid(lay) is "the field is still syntactically valid": it ends in a    *)
(* newline and not in a comment line, has content, every further line is a *)
(* comment line or starts with a blank and is not blank altogether.        *)
(*                                                                         *)
(* All operators are pure (no variables) up to the dashed line so that     *)
(* ListViewImpl.tla (token-list layer transcribed from the code, model     *)
(* checked over all bounded layouts x edit sequences) and                  *)
(* TraceListView.tla (validation of recorded executions) re-use them.      *)
(***************************************************************************)
EXTENDS Integers, Sequences, FiniteSets, SequencesExt, TLC

SP  == -1
NL  == -2
CT  == -3
CTS == -4
CM  == -5
SEP == -6

IsWord(t)  == t >= 1
IsCont(t)  == t \in {CT, CTS}
IsBlank(t) == t \in {SP, NL, CT, CTS}

\* ---- the reference reader -------------------------------------------------
\* cut s at the tokens satisfying Cut: the (possibly empty) pieces between the cuts
Pieces(s, Cut(_)) ==
   LET cs == SetToSortSeq({i \in 1..Len(s) : Cut(s[i])}, LAMBDA a, b : a < b)      \* the cut positions in order
       n  == Len(cs)
   IN [k \in 1..(n + 1) |-> SubSeq(s, (IF k = 1 THEN 0 ELSE cs[k - 1]) + 1, (IF k > n THEN Len(s) + 1 ELSE cs[k]) - 1)]
NonEmpty(ps) == SelectSeq(ps, LAMBDA p : p # <<>>)
NoCmt(p)     == SelectSeq(p, LAMBDA t : t # CM)
Strip(p)     == LET I == {i \in 1..Len(p) : ~IsBlank(p[i])} IN
                IF I = {} THEN <<>>
                ELSE SubSeq(p, CHOOSE i \in I : \A j \in I : i <= j, CHOOSE i \in I : \A j \in I : i >= j)
IsSep(t)     == t = SEP

Split(mode, lay) ==
   IF mode = "sp" THEN NonEmpty(Pieces(NoCmt(lay), IsBlank))
   ELSE LET ps == Pieces(lay, IsSep) IN NonEmpty([i \in DOMAIN ps |-> Strip(NoCmt(ps[i]))])

\* The same reader when comment lines are NOT discarded (interpret_as / interpret with
\* discard_comments_on_read=False): an item runs from its first to its last word, comment lines inside included.
FromFirstToLastWord(p) == LET I == {i \in 1..Len(p) : IsWord(p[i])} IN
                          IF I = {} THEN <<>>
                          ELSE SubSeq(p, CHOOSE i \in I : \A j \in I : i <= j, CHOOSE i \in I : \A j \in I : i >= j)
SplitKeep(mode, lay) ==
   IF mode = "sp" THEN Split(mode, lay)
   ELSE LET ps == Pieces(lay, IsSep) IN NonEmpty([i \in DOMAIN ps |-> FromFirstToLastWord(ps[i])])

\* ---- syntactic validity of a field value ----------------------------------
LineStart(lay, i) == i > 1 /\ lay[i - 1] \in {NL, CM}
Valid(lay) ==
   /\ Len(lay) > 0 /\ lay[Len(lay)] = NL                                \* ends in a newline, not in a comment line
   /\ \E i \in 1..Len(lay) : IsWord(lay[i]) \/ lay[i] = SEP             \* the field has content
   /\ \A i \in 1..Len(lay) :
        /\ lay[i] = CM => LineStart(lay, i)                             \* a comment is a whole line
        /\ LineStart(lay, i) => lay[i] \in {CM, CT, CTS, SP}            \* a further line is a comment or starts with a blank
        /\ (LineStart(lay, i) /\ lay[i] # CM) =>                        \* ... and is not blank altogether
              \E j \in i..Len(lay) : /\ (IsWord(lay[j]) \/ lay[j] = SEP)
                                     /\ \A k \in i..j : lay[k] # NL

\* ---- the layout automaton: which token may follow which --------------------
\* (p = the last token or 0 at the start, p2 = the token before p or 0).  hasC: the current line already
\* has a word or separator; firstLine: no newline yet ("F:\n a" and "F: \n a" are fine, a blank continuation
\* line is not).  A layout is complete after NL.  Inside one line "a b" is ONE word of the comma
\* interpretation, so there a word follows SP only when no word precedes the SP.
CanFollow(mode, p2, p, hasC, firstLine, t) ==
   CASE p = 0      -> t \in {SP, NL} \/ IsWord(t) \/ (mode = "cm" /\ t = SEP)
     [] p = SP     -> \/ (IsWord(t) /\ (mode = "sp" \/ ~IsWord(p2)))
                      \/ (mode = "cm" /\ t = SEP)
                      \/ (t = NL /\ (hasC \/ firstLine))
     [] IsWord(p)  -> t \in {SP, NL} \/ (mode = "cm" /\ t = SEP)
     [] p = SEP    -> t \in {SP, NL, SEP} \/ IsWord(t)
     [] p = NL     -> t \in {CM, CT}
     [] p = CM     -> t \in {CM, CT}
     [] p = CT     -> t = SP \/ IsWord(t) \/ (mode = "cm" /\ t = SEP)
     [] OTHER      -> FALSE

\* a complete well-formed layout: every token may follow its predecessors and the last one is the final newline
WellFormed(mode, lay) ==
   /\ lay # <<>> /\ lay[Len(lay)] = NL
   /\ \A i \in 1..Len(lay) :
        LET pre == SubSeq(lay, 1, i - 1) IN
        CanFollow(mode, IF i > 2 THEN lay[i - 2] ELSE 0, IF i > 1 THEN lay[i - 1] ELSE 0,
                  \E a \in 1..(i - 1) : (IsWord(pre[a]) \/ pre[a] = SEP) /\ \A k \in a..(i - 1) : pre[k] \notin {NL, CM},
                  \A a \in 1..(i - 1) : pre[a] # NL,
                  lay[i])

\* ---- list semantics ---------------------------------------------------------
LHas(vs, v)      == \E i \in 1..Len(vs) : vs[i] = v
LFirst(vs, v)    == CHOOSE i \in 1..Len(vs) : vs[i] = v /\ \A j \in 1..(i - 1) : vs[j] # v
LDel(vs, i)      == SubSeq(vs, 1, i - 1) \o SubSeq(vs, i + 1, Len(vs))
LSet(vs, i, w)   == [vs EXCEPT ![i] = w]

-----------------------------------------------------------------------------
VARIABLES vals,      \* the list
          tail,      \* "none" | "nl" | "cmt": dangling newline / comment line at the end of the list
          res        \* outcome of the last call: "ok" | "ValueError"
avars == <<vals, tail, res>>

Same(r) == vals' = vals /\ tail' = tail /\ res' = r
Emptied(vs) == IF vs = <<>> THEN "none" ELSE tail       \* removing the only value clears the whole token list

\* append(v): at the end
AAppend(v)     == vals' = Append(vals, v) /\ tail' = "none" /\ res' = "ok"
\* remove(v): the FIRST value equal to v; absent -> ValueError, nothing changes
ARemove(v)     == IF LHas(vals, v)
                  THEN LET n == LDel(vals, LFirst(vals, v)) IN vals' = n /\ tail' = Emptied(n) /\ res' = "ok"
                  ELSE Same("ValueError")
\* replace(v, w): the FIRST value equal to v becomes w, in place
AReplace(v, w) == IF LHas(vals, v) THEN vals' = LSet(vals, LFirst(vals, v), w) /\ tail' = tail /\ res' = "ok"
                  ELSE Same("ValueError")
\* i-th value reference (taken from iter_value_references() now): .value = w / .remove()
ARefSet(i, w)  == i \in 1..Len(vals) /\ vals' = LSet(vals, i, w) /\ tail' = tail /\ res' = "ok"
ARefRemove(i)  == i \in 1..Len(vals) /\ LET n == LDel(vals, i) IN vals' = n /\ tail' = Emptied(n) /\ res' = "ok"
\* layout-only calls: the list does not change
AAppendSep     == vals' = vals /\ tail' = "none" /\ res' = "ok"
AAppendNl      == IF tail = "none" THEN vals' = vals /\ tail' = "nl" /\ res' = "ok" ELSE Same("ValueError")
AAppendCmt     == vals' = vals /\ tail' = "cmt" /\ res' = "ok"
AReformat      == Same("ok")       \* also no_reformatting_when_finished, value_formatter(...)
\* a with-block left by an exception (__exit__ with an exception argument) writes nothing: the document
\* keeps what it held; the list object keeps its edits
AAbort         == Same("ok")
\* a call that hands in a text which is NOT a single item of the interpretation (text after an inner
\* separator, surrounding blanks, the empty string, a bare newline ...) or whose caller-supplied object
\* fails (a formatter that raises) is REFUSED: some exception r comes out and nothing changes (error
\* atomicity) -- the history then carries on from the same list
ARefuse(r)     == r # "ok" /\ Same(r)
\* the SAME list object is entered again (a view is a re-usable context manager): it keeps its own list,
\* whatever it wrote or did not write before; a write-back leaves the token list ending in the final newline
AReenter       == vals' = vals /\ tail' \in {tail, "nl"} /\ res' = "ok"
\* leaving the with-block may refuse to write (ValueError, document untouched) only when the
\* field would have no value or would end in a comment line
CloseMayRefuse == vals = <<>> \/ tail = "cmt"
=============================================================================
