---------------------------- MODULE CopyrightDoc ----------------------------
(***************************************************************************)
(* C17 -- copyright documents and license texts survive dump and re-parse  *)
(* (lib/debian/copyright.py over lib/debian/deb822.py).                    *)
(*                                                                         *)
(* LINES.  A line is [ind, b, id]: ind = number of leading white-space     *)
(* characters, b = what follows them ("none" nothing, "dot" exactly '.',   *)
(* "txt" anything else), id = the payload of a txt line as a sequence of   *)
(* word ids (opaque; one id per line except for space separated lists).    *)
(* The five line classes of the property statement are                     *)
(*    Empty (0,none)  WsOnly (>0,none)  Dot (0,dot)  Indented (>0,dot|txt) *)
(*    Plain (0,txt)                                                        *)
(* and the class symbols used by the configurations are                    *)
(*    E  W W2  D  I I2 ID(' .')  P.                                        *)
(* STRINGS.  A multi-line string is a NON-EMPTY sequence of lines ('' is   *)
(* <<Empty>>).  Join is '\n'.join, SplitLines is str.splitlines: it drops  *)
(* ONE final empty line -- which is why a text that ends in an empty line  *)
(* loses it and why the list [''] decodes to [] (DESIGN D3: both outside   *)
(* the domain; CodecNormal below shows that these are the only two         *)
(* effects of that kind).                                                  *)
(*                                                                         *)
(* Three layers of pure operators (re-used by TraceCopyrightDoc):          *)
(*  codec      FormatLines / ParseLines  = format_multiline_lines /        *)
(*             parse_multiline_as_lines (one leading blank on every line   *)
(*             but the first, blank lines written as ' .'); Normalise =    *)
(*             what a decode of an encode returns for ANY list.            *)
(*  converters SpaceTo/SpaceFrom (_SpaceSeparated), LineTo/LineFrom        *)
(*             (_LineBased), LicTo/LicFrom (License.to_str/from_str),      *)
(*             Accepts (Deb822.validate_input), DumpField/DumpDoc          *)
(*             (Deb822.dump per paragraph, '\n' between paragraphs),       *)
(*             ReadParas (Deb822.iter_paragraphs on the dumped lines:      *)
(*             field start / continuation / blank or white-space-only      *)
(*             separator / ignored line; first line of a value trimmed,    *)
(*             continuation lines taken whole).                            *)
(*  document   header + sequence of Files / License paragraphs; AddFiles   *)
(*             (inserted after the last Files paragraph) and AddLicense    *)
(*             (appended) as in Copyright.add_*_paragraph; Load =          *)
(*             Copyright(lines, strict=True): first paragraph is the       *)
(*             header (needs Format), then has Files -> Files paragraph    *)
(*             (needs Copyright, License, a non-empty list), else has      *)
(*             License -> License paragraph, else complaint.               *)
(*                                                                         *)
(* Model checking (Mode selects the state space):                          *)
(*  "codec"  closed: EVERY list of <= MaxLen symbols of Alphabet.          *)
(*           CodecProps = CodecNormal (decode(encode(ls)) = Normalise(ls), *)
(*           never an error) /\ CodecLaw (= ls whenever no line is         *)
(*           white-space-only or a lone '.', and ls # ['']) /\ CodecStable *)
(*           (re-encoding the decoded list gives the same text) /\         *)
(*           EncodedSafe (the encoded text is a value Deb822 accepts and   *)
(*           none of its continuation lines is blank: it cannot split the  *)
(*           paragraph).                                                   *)
(*  "doc"    closed: every header kind x every build history of <=         *)
(*           MaxParas add_* calls over four fixed context paragraphs and   *)
(*           AT MOST ONE focus paragraph ranging over every shape          *)
(*           (copyright texts of <= CopyMax lines x license texts of <=    *)
(*           BigTextMax lines over BigTextAlpha; every pattern count).     *)
(*           DocProps = BuildAccepted /\ FilesFirst /\ RoundTrip           *)
(*           (Load(Dump(D)) = D, strict mode raises nothing) /\ Stable     *)
(*           (Dump(Load(Dump(D))) = Dump(D)).                              *)
(*  With Emit = TRUE every state prints a CASE line carrying the input     *)
(*  AND the expected result, replayed by harness/props/c17.py.             *)
(*                                                                         *)
(* Spec-level negative controls (each tried, each makes TLC report the     *)
(* invariant; c17.py re-runs them in every check):                         *)
(*   NoDotEscape = TRUE   (encoder leaves blank lines as ' ' + line)       *)
(*        codec -> EncodedSafe;  doc -> RoundTrip (the paragraph is split) *)
(*   DecoderStrips = TRUE (decoder strips the whole indentation)           *)
(*        codec -> CodecLaw;     doc -> RoundTrip                          *)
(*   DotAnyIndent = TRUE  (decoder turns every '<blanks>.' into '')        *)
(*        codec -> CodecLaw (the line ' .' of a text)                      *)
(*                                                                         *)
(* NO STATE BETWEEN CALLS.  The property quantifies over every document    *)
(* whatever was built, dumped or parsed before.  The document layer        *)
(* therefore has a second phase: after the round trip of a (context-only)  *)
(* document the RE-PARSED document is edited once (Edits: files /          *)
(* copyright / license of one paragraph -- the license keeps its synopsis  *)
(* and changes its text -- or one more add_* call) and makes a second      *)
(* round trip; ed records the edit, the document before it and memo =      *)
(* everything the first round trip produced (the dumped text, the          *)
(* License decoded for each first line) -- a history variable that the     *)
(* correct design never reads (DumpM / LicFromM ignore it).  Negative      *)
(* controls that make a design READ it:                                    *)
(*   StaleDump = TRUE         (the document caches its dump text)          *)
(*        doc -> RoundTrip (the second dump describes the old document)    *)
(*   LicMemoBySynopsis = TRUE (License.from_str memoised by first line)    *)
(*        doc -> RoundTrip (the old license text comes back)               *)
(*   ParseMemoAliased = TRUE  (parse_multiline_as_lines returns the list   *)
(*        it returned before, which the caller has meanwhile changed)      *)
(*        codec -> CodecRepeat                                             *)
(* WORD SHAPES.  A pattern (and an entry of a line-based list) is an opaque  *)
(* word; the only thing the format says about it is that white space       *)
(* separates.  Characters that separate in OTHER list syntaxes (comma,      *)
(* semicolon, colon, bar ...) are ordinary payload, also at the edges of a  *)
(* word and as the whole word.  The payload ids of the model carry that     *)
(* shape (WShape: plain / edge = begins or ends with such a character /     *)
(* punct = consists of such characters only) so that every emitted case     *)
(* has words of every shape; the correct design never looks at it.          *)
(*   CommaSeparates = TRUE (the reader of a space separated list cuts a     *)
(*        trailing separator look-alike off each word and drops what is     *)
(*        empty then)        doc -> RoundTrip                               *)
(*                                                                         *)
(* REJECTED CALLS.  A building history also contains calls that the API     *)
(* REJECTS (Rejects: a raw value Deb822.validate_input refuses -- a         *)
(* continuation line that is not indented, an empty line inside, a final    *)
(* newline --, a list the converter refuses -- empty, an empty word, a word *)
(* containing a separator --, None for a mandatory field, item assignment   *)
(* / deletion of a restricted field, deletion of a missing field, add_* of  *)
(* the wrong paragraph class).  A rejected call raises and leaves header    *)
(* and paragraphs exactly as they were: ApplyCall(D, e) = D.  Model checking*)
(* puts such calls (BadCallsOn / BadCallsDoc) into the build histories      *)
(* (DocReject; rej = the calls, with the history length at which they were  *)
(* made; further add_* calls follow) and among the edits of the re-parsed   *)
(* document (BadEdits); traces carry accepted and rejected setter calls of  *)
(* both phases (TraceCopyrightDoc: calls / edits, `raised`).                *)
(*   RejectDrops = TRUE (a setter removes the old value before the new one  *)
(*        is validated)      doc -> RoundTrip (the field is gone: strict    *)
(*        Load fails / the comment is lost)                                 *)
(* CALLS THE FORMAT DOES NOT SETTLE (MayReject).  A value that contains a   *)
(* look-alike of white space which is NOT white space of the format (NO-    *)
(* BREAK SPACE, EM SPACE, IDEOGRAPHIC SPACE, U+001F ...; also full-width     *)
(* commas and other separator look-alikes) inside a pattern, an entry, a    *)
(* single-line value, a synopsis: the statement does not say whether the    *)
(* API takes it.  Such words carry ids >= MayBase.  The law is: the call is *)
(* REFUSED AND NOTHING CHANGED, OR it is carried out and the value is ONE    *)
(* opaque word / line of the document from then on (so RoundTrip and Stable *)
(* speak about it).  Which of the two happened is the implementation's      *)
(* choice: the field acc of the call record (model checking enumerates both *)
(* outcomes inside the build histories and the edits; a recorded call has    *)
(* acc = it did not raise).  Rejects(D, e) = refused for sure, or MayReject *)
(* and ~acc.                                                                *)
(*   MayAcceptedSplits = TRUE (the validator lets such a pattern through,    *)
(*        the reader still splits at it)   doc -> RoundTrip                 *)
(* FAULTS OF CALLER-SUPPLIED OBJECTS (kind "fault": an iterable of patterns *)
(* / entries that raises after some items, a file object whose write()      *)
(* raises during dump(f), a file object / iterator whose read raises or     *)
(* ends early during Copyright(f)): the caller's exception comes out and    *)
(* the document is as it was (Rejects = TRUE, ApplyCall = D) -- and every   *)
(* later call, dump and parse behaves as if the faulted call had not been   *)
(* made (they are ordinary steps of the histories: more calls follow).      *)
(* CALLER'S OBJECTS.  The argument of create() / a setter is a VALUE: the    *)
(* document holds what the argument was worth WHEN THE CALL WAS MADE        *)
(* (AcceptedPara: pats = e.pats; MkPara).  The caller of the model owns ONE  *)
(* list object per kind of argument (pattern list, list of entries, list of  *)
(* lines for the codec) and hands that same object to every call of every    *)
(* history, changing it in place between the calls (grown, shrunk, items     *)
(* replaced) -- the binding does exactly that.  A design that keeps the      *)
(* object, or remembers the text it made for it and recognises the object    *)
(* the next time (by identity, or by comparing with the remembered -- and     *)
(* meanwhile changed -- object), reads state of an earlier call:             *)
(*   ArgAliased = TRUE (the converted text of a pattern list is remembered   *)
(*        per caller object: every Files field is written with the text of   *)
(*        the FIRST pattern list of the history)   doc -> RoundTrip          *)
(* Not modelled: the characters inside a payload (sampled by the harness), *)
(* trailing white space, comments, PGP armor (spec/Deb822Reader.tla).      *)
(***************************************************************************)
EXTENDS Integers, Sequences, SequencesExt, FiniteSets, TLC, Json

CONSTANTS Mode,            \* "codec" | "doc" | "trace"
          Alphabet,        \* codec: class symbols the lists are drawn from
          MaxLen,          \* codec: longest list
          MaxParas,        \* doc: longest build history
          HdrKinds,        \* doc: subset of {"min","name","contact1","contact2","contact3","lic","full"}
          BigPats,         \* doc: numbers of patterns of the focus paragraph
          CopyMax, CopyAlpha,         \* doc: copyright text: "P" then <= CopyMax-1 symbols of CopyAlpha
          BigTextMax, BigTextAlpha,   \* doc: license text of the focus paragraph
          Emit,            \* TRUE: print CASE lines
          NoDotEscape, DecoderStrips, DotAnyIndent,  \* negative controls
          StaleDump, LicMemoBySynopsis, ParseMemoAliased,  \* negative controls: state kept between calls
          CommaSeparates,  \* negative control: separator look-alikes at the edge of a word are cut off
          RejectDrops,     \* negative control: a rejected assignment removes the old value
          MayAcceptedSplits, \* negative control: an accepted pattern with a white-space look-alike is split by the reader
          ArgAliased,      \* negative control: the text made for the caller's list object is remembered per object
          RejAt,           \* doc: history lengths at which ONE rejected call is made ({}: none)
          RejThen,         \* doc: longest history that goes on after a rejected call
          RejEditAt        \* doc: document lengths whose edits include rejected calls

VARIABLES lst,             \* codec: the list of symbols built so far
          hk,              \* doc: header kind
          paras,           \* doc: the document body (sequence of paragraphs)
          hist,            \* doc: the add_* calls made, in call order (paragraphs)
          big,             \* doc: the focus paragraph has been used
          ed,              \* doc: <<>> or <<[e, pre, memo]>>: the edit made after the first round trip
          rej              \* doc: the rejected calls of the build history, [at |-> Len(hist) then, e |-> call]
vars == <<lst, hk, paras, hist, big, ed, rej>>

----------------------------------------------------------------------------
\* lines and strings

Ln(n, b, id) == [ind |-> n, b |-> b, id |-> id]
EmptyLn == Ln(0, "none", <<>>)
DotWord == -1

IsEmpty(x)    == x.ind = 0 /\ x.b = "none"
IsWsOnly(x)   == x.ind > 0 /\ x.b = "none"
IsDot(x)      == x.ind = 0 /\ x.b = "dot"
IsIndented(x) == x.ind > 0 /\ x.b # "none"
IsPlain(x)    == x.ind = 0 /\ x.b = "txt"
Blank(x)      == x.b = "none"                         \* not line.strip()
StripLn(x)    == IF Blank(x) THEN EmptyLn ELSE [x EXCEPT !.ind = 0]

Mk(s, id) == CASE s = "E"  -> EmptyLn
               [] s = "W"  -> Ln(1, "none", <<>>)
               [] s = "W2" -> Ln(2, "none", <<>>)
               [] s = "D"  -> Ln(0, "dot", <<>>)
               [] s = "ID" -> Ln(1, "dot", <<>>)
               [] s = "I"  -> Ln(1, "txt", id)
               [] s = "I2" -> Ln(2, "txt", id)
               [] s = "P"  -> Ln(0, "txt", id)

Join(ls)      == IF ls = <<>> THEN <<EmptyLn>> ELSE ls                    \* '\n'.join(ls)
SplitLines(s) == IF IsEmpty(s[Len(s)]) THEN SubSeq(s, 1, Len(s) - 1) ELSE s  \* s.splitlines()

\* (FoldLeft is evaluated iteratively by TLC: no recursion depth proportional to the document length)
Flat(ss) == FoldLeft(LAMBDA acc, x : acc \o x, <<>>, ss)

----------------------------------------------------------------------------
\* codec: format_multiline_lines / parse_multiline_as_lines

EncLine(x, i) == IF i = 1 THEN x
                 ELSE IF Blank(x) THEN (IF NoDotEscape THEN [x EXCEPT !.ind = @ + 1] ELSE Ln(1, "dot", <<>>))
                 ELSE [x EXCEPT !.ind = @ + 1]
FormatLines(ls) == Join([i \in 1..Len(ls) |-> EncLine(ls[i], i)])

\* 'continued line must begin with " "'
ParseErr(s) == \E i \in 2..Len(SplitLines(s)) : SplitLines(s)[i].ind = 0
DecLine(x, i) == IF i = 1 THEN x
                 ELSE LET y == IF DecoderStrips THEN [x EXCEPT !.ind = 0] ELSE [x EXCEPT !.ind = @ - 1]
                      IN IF IsDot(y) \/ (DotAnyIndent /\ y.b = "dot") THEN EmptyLn ELSE y
ParseLines(s) == LET ls == SplitLines(s) IN [i \in 1..Len(ls) |-> DecLine(ls[i], i)]

\* what comes back for an arbitrary list
NormLine(x, i) == IF i > 1 /\ (Blank(x) \/ IsDot(x)) THEN EmptyLn ELSE x
Normalise(ls)  == IF ls = <<EmptyLn>> THEN <<>> ELSE [i \in 1..Len(ls) |-> NormLine(ls[i], i)]

\* the condition of the statement, and DESIGN D3
NoWsDot(ls)     == \A i \in 1..Len(ls) : ~IsWsOnly(ls[i]) /\ ~IsDot(ls[i])
CodecDomain(ls) == NoWsDot(ls) /\ ls # <<EmptyLn>>

\* Deb822.validate_input: no final newline; lines after the first non-empty and starting with a blank
Accepts(v) == /\ ~(Len(v) > 1 /\ IsEmpty(v[Len(v)]))
              /\ \A i \in 2..Len(SplitLines(v)) : SplitLines(v)[i].ind >= 1
\* ... and none of them can be taken for a paragraph separator by the reader
Unsplittable(v) == \A i \in 2..Len(v) : ~Blank(v[i])

----------------------------------------------------------------------------
\* converters of the restricted fields

SpaceTo(pats)  == <<Ln(0, "txt", pats)>>                                  \* ' '.join
WordsOf(x)     == IF x.b = "txt" THEN x.id ELSE IF x.b = "dot" THEN <<DotWord>> ELSE <<>>
\* shape of a word of the model (payload id Code(k, f, j), f = 1: pattern): by j
IsPatCode(w)   == w >= 1000 /\ w < 500000 /\ (w \div 100) % 10 = 1
WShape(w)      == IF ~IsPatCode(w) \/ (w % 100) % 3 = 1 THEN "plain" ELSE IF (w % 100) % 3 = 2 THEN "edge" ELSE "punct"
\* negative control: a reader that takes separator look-alikes for separators
LegacyWord(w)  == IF WShape(w) = "edge" THEN <<w + 50>> ELSE IF WShape(w) = "punct" THEN <<>> ELSE <<w>>
\* words whose acceptance the format does not settle (they contain a look-alike of white space): ids >= MayBase
MayBase        == 500000
IsMayWord(w)   == w >= MayBase
HasMay(ws)     == \E j \in 1..Len(ws) : IsMayWord(ws[j])
MayText(v)     == \E i \in 1..Len(v) : HasMay(v[i].id)
\* negative control: a reader that splits at the look-alike (the two halves are other words)
SplitWord(w)   == IF IsMayWord(w) THEN <<w + 1000000, w + 2000000>> ELSE <<w>>
SpaceFrom(v)   == LET ws == Flat([i \in 1..Len(v) |-> WordsOf(v[i])])    \* s.split()
                  IN IF CommaSeparates THEN Flat([i \in 1..Len(ws) |-> LegacyWord(ws[i])])
                     ELSE IF MayAcceptedSplits THEN Flat([i \in 1..Len(ws) |-> SplitWord(ws[i])]) ELSE ws

LineTo(es)     == IF Len(es) = 1 THEN <<Ln(0, "txt", es[1])>>             \* _LineBased.to_str (es # <<>>)
                  ELSE <<EmptyLn>> \o [i \in 1..Len(es) |-> Ln(1, "txt", es[i])]
LineFrom(v)    == LET nb == SelectSeq(v, LAMBDA x : ~Blank(x))            \* strip, splitlines, strip, drop ''
                  IN [i \in 1..Len(nb) |-> WordsOf(nb[i])]

Lic(syn, text) == [syn |-> syn, text |-> text]                            \* text: a string
LicTo(l)       == FormatLines(<<l.syn>> \o SplitLines(l.text))            \* License.to_str
LicFrom(v)     == LET ls == ParseLines(v)                                 \* License.from_str
                  IN IF ls = <<>> THEN Lic(EmptyLn, <<EmptyLn>>) ELSE Lic(ls[1], Join(Tail(ls)))

----------------------------------------------------------------------------
\* paragraphs as Deb822 field lists, dump, reader

Fld(k, v) == [k |-> k, v |-> v]
FormatLn  == Ln(0, "txt", <<1>>)                       \* the format URL

\* extra = the other fields of the paragraph, raw, in order (comment, Source, Disclaimer, custom fields)
NoPara == [kind |-> "none", pats |-> <<>>, copy |-> <<>>, lic |-> Lic(EmptyLn, <<EmptyLn>>), extra |-> <<>>]
FilesPara(pats, copy, lic) == [kind |-> "Files", pats |-> pats, copy |-> copy, lic |-> lic, extra |-> <<>>]
LicensePara(lic)           == [kind |-> "License", pats |-> <<>>, copy |-> <<>>, lic |-> lic, extra |-> <<>>]

\* header: name = optional string, uc / fe / fi = lists of entries (word sequences) of the line-based
\* fields Upstream-Contact / Files-Excluded / Files-Included, lic = optional license, extra as above
HdrX(name, uc, lic, fe, fi, extra) == [name |-> name, uc |-> uc, lic |-> lic, fe |-> fe, fi |-> fi, extra |-> extra]
Hdr(name, uc, lic) == HdrX(name, uc, lic, <<>>, <<>>, <<>>)

ParaFields(p) == (IF p.kind = "Files"                                      \* FilesParagraph.create
                  THEN <<Fld("Files", SpaceTo(p.pats))>>
                       \o (IF p.copy # <<>> THEN <<Fld("Copyright", p.copy)>> ELSE <<>>)   \* (<<>>: only with RejectDrops)
                       \o <<Fld("License", LicTo(p.lic))>>
                  ELSE <<Fld("License", LicTo(p.lic))>>)                   \* LicenseParagraph.create
                 \o p.extra
HeaderFields(h) == <<Fld("Format", <<FormatLn>>)>>
                   \o (IF h.name # <<>> THEN <<Fld("Upstream-Name", h.name[1])>> ELSE <<>>)
                   \o (IF h.uc # <<>> THEN <<Fld("Upstream-Contact", LineTo(h.uc))>> ELSE <<>>)
                   \o (IF h.lic # <<>> THEN <<Fld("License", LicTo(h.lic[1]))>> ELSE <<>>)
                   \o (IF h.fe # <<>> THEN <<Fld("Files-Excluded", LineTo(h.fe))>> ELSE <<>>)
                   \o (IF h.fi # <<>> THEN <<Fld("Files-Included", LineTo(h.fi))>> ELSE <<>>)
                   \o h.extra

\* physical lines of the dumped text: t = "F" a field start 'Key: first' / 'Key:', t = "R" any other line
FLine(k, x) == [t |-> "F", k |-> k, x |-> x]
RLine(x)    == [t |-> "R", k |-> "", x |-> x]
SepLn       == RLine(EmptyLn)
DumpField(f)  == <<FLine(f.k, f.v[1])>> \o [j \in 1..(Len(f.v) - 1) |-> RLine(f.v[j + 1])]
DumpFields(fs) == Flat([i \in 1..Len(fs) |-> DumpField(fs[i])])
DumpDoc(h, ps) == DumpFields(HeaderFields(h))
                  \o Flat([i \in 1..Len(ps) |-> <<SepLn>> \o DumpFields(ParaFields(ps[i]))])

\* Deb822.iter_paragraphs over those lines
RInit == [done |-> <<>>, cur |-> <<>>, open |-> FALSE, key |-> "", val |-> <<>>, seen |-> FALSE, stopped |-> FALSE]
Commit(fs, k, v) == IF \E i \in 1..Len(fs) : fs[i].k = k
                    THEN [i \in 1..Len(fs) |-> IF fs[i].k = k THEN Fld(k, v) ELSE fs[i]]
                    ELSE Append(fs, Fld(k, v))
Flush(s)   == IF s.open THEN Commit(s.cur, s.key, s.val) ELSE s.cur
EndPara(s) == LET f == Flush(s)
              IN [RInit EXCEPT !.done = IF f = <<>> THEN s.done ELSE Append(s.done, f), !.stopped = (f = <<>>)]
RStep(s, dl) ==
   IF s.stopped THEN s
   ELSE IF dl.t = "F" THEN [s EXCEPT !.cur = Flush(s), !.open = TRUE, !.key = dl.k,          \* _single / _multi
                                     !.val = <<StripLn(dl.x)>>, !.seen = TRUE]
   ELSE IF Blank(dl.x) THEN (IF s.seen THEN EndPara(s) ELSE s)                               \* separator
   ELSE IF dl.x.ind >= 1 THEN [s EXCEPT !.val = IF s.open THEN Append(@, dl.x) ELSE @,       \* _multidata
                                        !.seen = TRUE]
   ELSE [s EXCEPT !.seen = TRUE]                                                             \* matches nothing
ReadParas(ls) == LET s == FoldLeft(RStep, RInit, ls)
                     f == Flush(s)
                 IN IF s.stopped \/ f = <<>> THEN s.done ELSE Append(s.done, f)

Has(fs, k)  == \E i \in 1..Len(fs) : fs[i].k = k
GetV(fs, k) == fs[CHOOSE i \in 1..Len(fs) : fs[i].k = k].v

\* Copyright(lines, strict=True) and the getters of the paragraph classes
\* what earlier calls left behind (never read by the correct design)
NoMemo == [dump |-> <<>>, lics |-> {}]
LicFromM(m, v) == IF LicMemoBySynopsis /\ \E c \in m.lics : c.key = v[1]
                  THEN (CHOOSE c \in m.lics : c.key = v[1]).lic
                  ELSE LicFrom(v)

Others(fs, known) == SelectSeq(fs, LAMBDA f : f.k \notin known)
LoadHeaderM(m, fs) == HdrX(IF Has(fs, "Upstream-Name") THEN <<GetV(fs, "Upstream-Name")>> ELSE <<>>,
                      IF Has(fs, "Upstream-Contact") THEN LineFrom(GetV(fs, "Upstream-Contact")) ELSE <<>>,
                      IF Has(fs, "License") THEN <<LicFromM(m, GetV(fs, "License"))>> ELSE <<>>,
                      IF Has(fs, "Files-Excluded") THEN LineFrom(GetV(fs, "Files-Excluded")) ELSE <<>>,
                      IF Has(fs, "Files-Included") THEN LineFrom(GetV(fs, "Files-Included")) ELSE <<>>,
                      Others(fs, {"Format", "Upstream-Name", "Upstream-Contact", "License", "Files-Excluded", "Files-Included"}))
LoadParaM(m, fs) ==
   IF Has(fs, "Files") THEN
      LET pats == SpaceFrom(GetV(fs, "Files"))
          bad  == ~Has(fs, "Copyright") \/ ~Has(fs, "License") \/ pats = <<>>
                  \/ (Has(fs, "License") /\ ParseErr(GetV(fs, "License")))
      IN [err |-> bad,
          p   |-> IF bad THEN NoPara
                  ELSE [FilesPara(pats, GetV(fs, "Copyright"), LicFromM(m, GetV(fs, "License")))
                          EXCEPT !.extra = Others(fs, {"Files", "Copyright", "License"})]]
   ELSE IF Has(fs, "License") THEN
      LET bad == ParseErr(GetV(fs, "License"))
      IN [err |-> bad, p |-> IF bad THEN NoPara
                             ELSE [LicensePara(LicFromM(m, GetV(fs, "License"))) EXCEPT !.extra = Others(fs, {"License"})]]
   ELSE [err |-> TRUE, p |-> NoPara]

Failed(e) == [err |-> e, hdr |-> Hdr(<<>>, <<>>, <<>>), paras |-> <<>>]
LoadM(m, ls) ==
   LET ps == ReadParas(ls) IN
   IF ps = <<>> \/ ~Has(ps[1], "Format") THEN Failed("NotMachineReadableError")
   ELSE LET body == [i \in 1..(Len(ps) - 1) |-> LoadParaM(m, ps[i + 1])]
            hbad == Has(ps[1], "License") /\ ParseErr(GetV(ps[1], "License"))
        IN IF hbad \/ \E i \in 1..Len(body) : body[i].err THEN Failed("MachineReadableFormatError")
           ELSE [err |-> "none", hdr |-> LoadHeaderM(m, ps[1]), paras |-> [i \in 1..Len(body) |-> body[i].p]]
Load(ls) == LoadM(NoMemo, ls)
\* negative control ArgAliased: the caller hands the SAME list object to every call that takes a pattern list
\* (changed in place in between); the design remembers the text it made for that object the first time
FilesArgs == [i \in 1..Len(SelectSeq(hist, LAMBDA p : p.kind = "Files")) |-> SelectSeq(hist, LAMBDA p : p.kind = "Files")[i].pats]
ArgKept(ps) == IF ArgAliased /\ FilesArgs # <<>>
               THEN [i \in 1..Len(ps) |-> IF ps[i].kind = "Files" THEN [ps[i] EXCEPT !.pats = FilesArgs[1]] ELSE ps[i]]
               ELSE ps
DumpM(m, h, ps) == IF StaleDump /\ m.dump # <<>> THEN m.dump ELSE DumpDoc(h, ArgKept(ps))
MemoAfter(h, ps) == [dump |-> DumpDoc(h, ps),
                     lics |-> {[key |-> x.syn, lic |-> x] :
                                 x \in {ps[i].lic : i \in 1..Len(ps)} \cup {h.lic[j] : j \in 1..Len(h.lic)}}]

\* Copyright.add_files_paragraph / add_license_paragraph
LastFiles(ps) == LET S == {i \in 1..Len(ps) : ps[i].kind = "Files"}
                 IN IF S = {} THEN 0 ELSE CHOOSE i \in S : \A j \in S : j <= i
PutAfter(ps, i, x) == SubSeq(ps, 1, i) \o <<x>> \o SubSeq(ps, i + 1, Len(ps))
AddPara(ps, p) == IF p.kind = "Files" THEN PutAfter(ps, LastFiles(ps), p) ELSE Append(ps, p)
Build(ops) == FoldLeft(AddPara, <<>>, ops)

\* A CALL on a document D = [hdr, paras] through the public API: a setter of paragraph i (i = 0: the
\* header), item access, one more add_* call ("at" = number of paragraphs in front of the added one).
\*   kind      argument                         call
\*   files     pats                             p.files = [...]
\*   copy      copy                             p.copyright = text
\*   lic       lic                              p.license = License(...)         (header: h.license)
\*   raw       f, copy                          the property of the raw field f (comment, source, disclaimer ...) = text
\*   name      copy                             h.upstream_name = text
\*   entries   f, pats (sequence of entries)    h.upstream_contact / files_excluded / files_included = [...]
\*   none      f                                the property of field f = None
\*   item      f, copy                          p[f] = text
\*   delitem   f                                del p[f]
\*   wrongadd  f                                add_files_paragraph(<not a FilesParagraph>) (f = "Files"),
\*                                              add_license_paragraph(<a FilesParagraph>) ("License"), header = <a paragraph> ("Header")
\*   add       para, at                         add_files_paragraph / add_license_paragraph
\*   fault     f                                a call whose caller-supplied object fails: p.files = <iterable that raises>
\*                                              (f = "Files"), h.<line-based field> = <iterable that raises> (f = its name),
\*                                              dump(<file object whose write raises>) ("dump"), Copyright(<file object /
\*                                              iterator that raises or ends early>) ("parse")
\* acc: the implementation's choice for a call the format does not settle (MayReject): TRUE = carried out
EditRec(kind, i, at, f, pats, copy, lic, para) ==
   [kind |-> kind, i |-> i, at |-> at, f |-> f, pats |-> pats, copy |-> copy, lic |-> lic, para |-> para, acc |-> FALSE]

\* words no list converter accepts: 0 = the empty string, -2 = a string containing a separator (white
\* space in a pattern, a newline in an entry of a line-based list)
BadWords    == {0, -2}
BadList(ws) == ws = <<>> \/ \E j \in 1..Len(ws) : ws[j] \in BadWords
Mandatory(tk, f) == \/ tk = "Files" /\ f \in {"Files", "Copyright", "License"}      \* allow_none = False
                    \/ tk = "License" /\ f = "License"
                    \/ tk = "Header" /\ f = "Format"
Restricted(tk) == CASE tk = "Files"   -> {"Files", "Copyright", "License", "Comment"}
                    [] tk = "License" -> {"License", "Comment", "Files"}
                    [] OTHER          -> {"Format", "Upstream-Name", "Upstream-Contact", "Source", "Disclaimer", "Comment",
                                          "License", "Copyright", "Files-Excluded", "Files-Included"}
TKind(D, e)   == IF e.i = 0 THEN "Header" ELSE D.paras[e.i].kind
ExtraOf(D, e) == IF e.i = 0 THEN D.hdr.extra ELSE D.paras[e.i].extra
HasKey(fs, k) == \E j \in 1..Len(fs) : fs[j].k = k
\* the calls the API refuses for sure (they raise; which exception: RejectExc, diagnostic)
DefRejects(D, e) ==
   CASE e.kind = "files"    -> BadList(e.pats)
     [] e.kind = "copy"     -> ~Accepts(e.copy)
     [] e.kind = "raw"      -> ~Accepts(e.copy)
     [] e.kind = "name"     -> Len(e.copy) > 1                                   \* _single_line
     [] e.kind = "entries"  -> \E j \in 1..Len(e.pats) : BadList(e.pats[j])      \* (an empty LIST removes the field)
     [] e.kind = "none"     -> Mandatory(TKind(D, e), e.f)
     [] e.kind = "item"     -> e.f \in Restricted(TKind(D, e)) \/ ~Accepts(e.copy)
     [] e.kind = "delitem"  -> e.f \in Restricted(TKind(D, e)) \/ ~HasKey(ExtraOf(D, e), e.f)
     [] e.kind = "wrongadd" -> TRUE
     [] e.kind = "fault"    -> TRUE
     [] OTHER               -> FALSE
\* the calls the format does not settle: a value with a look-alike of white space inside
MayReject(D, e) ==
   /\ ~DefRejects(D, e)
   /\ CASE e.kind = "files"                           -> HasMay(e.pats)
        [] e.kind = "entries"                         -> \E j \in 1..Len(e.pats) : HasMay(e.pats[j])
        [] e.kind \in {"copy", "raw", "name", "item"} -> MayText(e.copy)
        [] e.kind = "lic"                             -> HasMay(e.lic.syn.id)
        \* (creating the paragraph -- FilesParagraph.create, License(...) -- is part of the step)
        [] e.kind = "add"                             -> HasMay(e.para.pats) \/ HasMay(e.para.lic.syn.id)
        [] OTHER                                      -> FALSE
\* refused: for sure, or not settled and the implementation chose to refuse
Rejects(D, e) == DefRejects(D, e) \/ (MayReject(D, e) /\ ~e.acc)
RejectExc(D, e) ==
   CASE e.kind = "fault"                                                -> "CallerError"
     [] e.kind = "files" /\ e.pats = <<>>                               -> "TypeError"
     [] e.kind \in {"none", "wrongadd"}                                 -> "TypeError"
     [] e.kind \in {"item", "delitem"} /\ e.f \in Restricted(TKind(D, e)) -> "RestrictedFieldError"
     [] e.kind = "delitem"                                              -> "KeyError"
     [] OTHER                                                           -> "ValueError"

DelKey(fs, k) == SelectSeq(fs, LAMBDA x : x.k # k)
SetKey(fs, k, v) == IF HasKey(fs, k) THEN [j \in 1..Len(fs) |-> IF fs[j].k = k THEN [k |-> k, v |-> v] ELSE fs[j]]
                    ELSE Append(fs, [k |-> k, v |-> v])
AcceptedPara(p, e) ==
   CASE e.kind = "files"               -> [p EXCEPT !.pats = e.pats]
     [] e.kind = "copy"                -> [p EXCEPT !.copy = e.copy]
     [] e.kind = "lic"                 -> [p EXCEPT !.lic = e.lic]
     [] e.kind \in {"raw", "item"}     -> [p EXCEPT !.extra = SetKey(@, e.f, e.copy)]
     [] e.kind \in {"none", "delitem"} -> [p EXCEPT !.extra = DelKey(@, e.f)]
AcceptedHdr(h, e) ==
   CASE e.kind = "name"                -> [h EXCEPT !.name = <<e.copy>>]
     [] e.kind = "lic"                 -> [h EXCEPT !.lic = <<e.lic>>]
     [] e.kind = "entries"             -> (CASE e.f = "Upstream-Contact" -> [h EXCEPT !.uc = e.pats]
                                             [] e.f = "Files-Excluded"   -> [h EXCEPT !.fe = e.pats]
                                             [] e.f = "Files-Included"   -> [h EXCEPT !.fi = e.pats])
     [] e.kind \in {"raw", "item"}     -> [h EXCEPT !.extra = SetKey(@, e.f, e.copy)]
     [] e.kind \in {"none", "delitem"} -> (CASE e.f = "Upstream-Name" -> [h EXCEPT !.name = <<>>]
                                             [] e.f = "License"       -> [h EXCEPT !.lic = <<>>]
                                             [] OTHER                 -> [h EXCEPT !.extra = DelKey(@, e.f)])
\* negative control RejectDrops: the setter of a raw field has removed the old value when validate_input refuses
Dropped(D, e) == IF e.kind = "copy" THEN [D EXCEPT !.paras[e.i].copy = <<>>]
                 ELSE IF e.kind = "raw" /\ e.i > 0 THEN [D EXCEPT !.paras[e.i].extra = DelKey(@, e.f)]
                 ELSE IF e.kind = "raw" THEN [D EXCEPT !.hdr.extra = DelKey(@, e.f)]
                 ELSE D
\* a rejected call leaves the document as it was
ApplyCall(D, e) == IF Rejects(D, e) THEN (IF RejectDrops THEN Dropped(D, e) ELSE D)
                   \* ("at" is an OBSERVED position in traces: one that the document cannot have explains nothing)
                   ELSE IF e.kind = "add" THEN (IF e.at \in 0..Len(D.paras) THEN [D EXCEPT !.paras = PutAfter(@, e.at, e.para)] ELSE D)
                   ELSE IF e.i = 0 THEN [D EXCEPT !.hdr = AcceptedHdr(@, e)]
                   ELSE [D EXCEPT !.paras[e.i] = AcceptedPara(@, e)]
ApplyCalls(D, es) == FoldLeft(ApplyCall, D, es)
DocOf(h, ps) == [hdr |-> h, paras |-> ps]

----------------------------------------------------------------------------
\* the structure spaces

SeqsUpTo(S, n) == UNION {[1..k -> S] : k \in 0..n}
Code(k, f, j)  == 1000 * k + 100 * f + j       \* payload id: call k (0 = header), part f, index j
MkText(k, f, syms) == [j \in 1..Len(syms) |-> Mk(syms[j], <<Code(k, f, j)>>)]
MkLic(k, tx)   == Lic(Ln(0, "txt", <<Code(k, 3, 0)>>), Join(MkText(k, 4, tx)))
\* DESIGN D3: a license text does not end in a newline (= its last line is not empty)
TextOK(t)      == t = <<>> \/ t[Len(t)] # "E"

FShape(np, cp, tx) == [kind |-> "Files", np |-> np, cp |-> cp, tx |-> tx, cm |-> 0]
LShape(tx)         == [kind |-> "License", np |-> 0, cp |-> <<>>, tx |-> tx, cm |-> 0]
WithComment(sh)    == [sh EXCEPT !.cm = 1]           \* p.comment = a two-line text
MkPara(k, sh) == [(IF sh.kind = "Files"
                   THEN FilesPara([j \in 1..sh.np |-> Code(k, 1, j)], MkText(k, 2, sh.cp), MkLic(k, sh.tx))
                   ELSE LicensePara(MkLic(k, sh.tx)))
                  EXCEPT !.extra = IF sh.cm = 1 THEN <<Fld("Comment", MkText(k, 7, <<"P", "I">>))>> ELSE <<>>]

SmallShapes == {FShape(1, <<"P">>, <<>>), WithComment(FShape(2, <<"P", "I">>, <<"P", "E", "I">>)),
                LShape(<<>>), WithComment(LShape(<<"P", "E", "P">>))}
BigTexts  == {t \in SeqsUpTo(BigTextAlpha, BigTextMax) : TextOK(t)}
BigCopys  == {<<"P">> \o c : c \in SeqsUpTo(CopyAlpha, CopyMax - 1)}
\* the focus paragraph: every copyright text x every license text (with the longest pattern list),
\* every pattern count (with the simplest texts), every stand-alone license text
MaxPat    == CHOOSE n \in BigPats : \A m \in BigPats : m <= n
BigShapes == {FShape(MaxPat, cp, tx) : cp \in BigCopys, tx \in BigTexts}
             \cup {FShape(np, <<"P">>, <<>>) : np \in BigPats}
             \cup {LShape(tx) : tx \in BigTexts}

NoLic == Lic(EmptyLn, <<EmptyLn>>)
FilesIdx(ps) == {i \in 1..Len(ps) : ps[i].kind = "Files"}
\* calls the API rejects (payload ids of call 8): on paragraph i of ps, and on the header / the document
BadTexts == {<<"P", "P">>, <<"P", "E", "I">>, <<"P", "I", "E">>}      \* not indented / empty line inside / final newline
BadCallsOn(ps, i) ==
   LET R(kind, f, pats, copy) == EditRec(kind, i, 0, f, pats, copy, NoLic, NoPara)
       one == <<Ln(0, "txt", <<Code(8, 9, 1)>>)>>
   IN {R("raw", "Comment", <<>>, MkText(8, 7, <<"P", "P">>)), R("item", "X-Custom", <<>>, MkText(8, 9, <<"P", "E">>)),
       R("none", "License", <<>>, <<>>), R("item", "License", <<>>, one), R("delitem", "License", <<>>, <<>>),
       R("delitem", "X-Missing", <<>>, <<>>)}
      \cup (IF ps[i].kind = "Files"
            THEN {R("files", "", <<>>, <<>>), R("files", "", <<Code(8, 1, 1), -2>>, <<>>), R("files", "", <<0, Code(8, 1, 2)>>, <<>>),
                  R("none", "Files", <<>>, <<>>), R("none", "Copyright", <<>>, <<>>), R("item", "Files", <<>>, one),
                  R("fault", "Files", <<>>, <<>>)}
                 \cup {R("copy", "", <<>>, MkText(8, 2, t)) : t \in BadTexts}
                 \* not settled by the format: a pattern with a look-alike of white space inside -- both outcomes
                 \cup {[R("files", "", <<Code(8, 1, 1), MayBase + Code(8, 1, 4)>>, <<>>) EXCEPT !.acc = a] : a \in BOOLEAN}
            ELSE {})
      \* ... a synopsis / a custom single-line value with one
      \cup {[EditRec("lic", i, 0, "", <<>>, <<>>, Lic(Ln(0, "txt", <<MayBase + Code(8, 3, 0)>>), Join(MkText(8, 4, <<"P">>))), NoPara)
               EXCEPT !.acc = a] : a \in BOOLEAN}
      \cup {[R("item", "X-Custom", <<>>, <<Ln(0, "txt", <<MayBase + Code(8, 9, 4)>>)>>) EXCEPT !.acc = a] : a \in BOOLEAN}
BadCallsDoc ==
   LET R(kind, f, pats, copy) == EditRec(kind, 0, 0, f, pats, copy, NoLic, NoPara)
   IN {R("name", "", <<>>, MkText(8, 5, <<"P", "I">>)), R("raw", "Comment", <<>>, MkText(8, 7, <<"P", "P">>)),
       R("item", "X-Custom", <<>>, MkText(8, 9, <<"P", "E", "I">>)),
       R("entries", "Upstream-Contact", <<<<Code(8, 6, 1)>>, <<-2>>>>, <<>>), R("entries", "Files-Excluded", <<<<>>>>, <<>>),
       R("none", "Format", <<>>, <<>>), R("wrongadd", "Files", <<>>, <<>>), R("wrongadd", "License", <<>>, <<>>),
       R("wrongadd", "Header", <<>>, <<>>),
       R("fault", "Upstream-Contact", <<>>, <<>>), R("fault", "dump", <<>>, <<>>), R("fault", "parse", <<>>, <<>>)}
BadEdits(ps) == IF Len(ps) \in RejEditAt
                THEN BadCallsDoc \cup (IF ps = <<>> THEN {} ELSE BadCallsOn(ps, Len(ps)))
                ELSE {}
Edits(ps) ==
   {EditRec("files", i, 0, "", <<Code(9, 1, 1), Code(9, 1, 2)>>, <<>>, NoLic, NoPara) : i \in FilesIdx(ps)}
   \cup {EditRec("copy", i, 0, "", <<>>, MkText(9, 2, <<"P", "I">>), NoLic, NoPara) : i \in FilesIdx(ps)}
   \cup {EditRec("lic", i, 0, "", <<>>, <<>>, Lic(ps[i].lic.syn, Join(MkText(9, 4, <<"P", "E", "ID">>))), NoPara) :
            i \in 1..Len(ps)}
   \cup {EditRec("add", 0, LastFiles(ps), "", <<>>, <<>>, NoLic, MkPara(9, FShape(1, <<"P">>, <<"I">>))),
         EditRec("add", 0, Len(ps), "", <<>>, <<>>, NoLic, MkPara(9, LShape(<<"P">>)))}
   \cup BadEdits(ps)

HdrOf(kind) ==
   LET nm  == <<<<Ln(0, "txt", <<Code(0, 5, 0)>>)>>>>
       e(j) == <<Code(0, 6, j)>>
   IN CASE kind = "min"      -> Hdr(<<>>, <<>>, <<>>)
        [] kind = "name"     -> Hdr(nm, <<>>, <<>>)
        [] kind = "contact1" -> Hdr(<<>>, <<e(1)>>, <<>>)
        [] kind = "contact2" -> Hdr(nm, <<e(1), e(2)>>, <<>>)
        [] kind = "contact3" -> Hdr(<<>>, <<e(1), e(2), e(3)>>, <<>>)
        [] kind = "lic"      -> Hdr(<<>>, <<>>, <<MkLic(0, <<>>)>>)
        [] kind = "full"     -> HdrX(nm, <<e(1), e(2)>>, <<MkLic(0, <<"P", "E", "ID", "I">>)>>,
                                     <<<<Code(0, 8, 1)>>, <<Code(0, 8, 2)>>>>, <<<<Code(0, 8, 3)>>>>,
                                     <<Fld("Source", <<Ln(0, "txt", <<Code(0, 9, 1)>>)>>),
                                       Fld("Comment", MkText(0, 7, <<"P", "I", "ID">>)),
                                       Fld("X-Custom", <<Ln(0, "txt", <<Code(0, 9, 2)>>)>>)>>)

----------------------------------------------------------------------------
\* state spaces

Init == /\ lst = <<>> /\ paras = <<>> /\ hist = <<>> /\ big = FALSE /\ ed = <<>> /\ rej = <<>>
        /\ hk \in (IF Mode = "doc" THEN HdrKinds ELSE {"min"})

CodecNext == /\ Mode = "codec" /\ Len(lst) < MaxLen
             /\ \E s \in Alphabet : lst' = Append(lst, s)
             /\ UNCHANGED <<hk, paras, hist, big, ed, rej>>
DocNext   == /\ Mode = "doc" /\ Len(hist) < MaxParas /\ ed = <<>>
             /\ (rej # <<>> => Len(hist) < RejThen)
             /\ \E b \in (IF big \/ rej # <<>> THEN {FALSE} ELSE BOOLEAN) :
                  \E sh \in (IF b THEN BigShapes \ SmallShapes ELSE SmallShapes) :
                     LET p == MkPara(Len(hist) + 1, sh)
                     IN /\ hist' = Append(hist, p)
                        /\ paras' = AddPara(paras, p)
                        /\ big' = (big \/ b)
             /\ UNCHANGED <<lst, hk, ed, rej>>
\* a call that the API rejects, made while the (context-only) document is built: on the paragraph added
\* last, on the header or on the document; on the FIRST paragraph once a second one has been added
PosOf(ps, p) == CHOOSE j \in 1..Len(ps) : ps[j] = p
DocReject == /\ Mode = "doc" /\ ed = <<>> /\ ~big /\ rej = <<>> /\ Len(hist) \in RejAt
             /\ \E e \in (IF Len(hist) = 0 THEN BadCallsDoc
                           ELSE IF Len(hist) = 1 THEN BadCallsDoc \cup BadCallsOn(hist, 1)
                           ELSE BadCallsOn(hist, 1)) :
                  /\ rej' = <<[at |-> Len(hist), e |-> e]>>
                  \* (e.i counts the add_* calls; the document holds the paragraph at PosOf)
                  /\ paras' = ApplyCall(DocOf(HdrOf(hk), paras),
                                        IF e.i = 0 THEN e ELSE [e EXCEPT !.i = PosOf(paras, hist[e.i])]).paras
             /\ UNCHANGED <<lst, hk, hist, big, ed>>
\* second phase: one edit of the re-parsed (context-only) document
DocEdit   == /\ Mode = "doc" /\ ed = <<>> /\ ~big /\ rej = <<>>
             /\ \E e \in Edits(paras) :
                  /\ paras' = ApplyCall(DocOf(HdrOf(hk), paras), e).paras
                  /\ ed' = <<[e |-> e, pre |-> paras, memo |-> MemoAfter(HdrOf(hk), paras)]>>
             /\ UNCHANGED <<lst, hk, hist, big, rej>>
Next == CodecNext \/ DocNext \/ DocReject \/ DocEdit
Spec == Init /\ [][Next]_vars

----------------------------------------------------------------------------
\* codec properties (evaluated for every list)

Lines(sy) == [i \in 1..Len(sy) |-> Mk(sy[i], <<i>>)]

CodecNormalOf(ls)  == LET e == FormatLines(ls) IN ~ParseErr(e) /\ ParseLines(e) = Normalise(ls)
CodecLawOf(ls)     == CodecDomain(ls) => (~ParseErr(FormatLines(ls)) /\ ParseLines(FormatLines(ls)) = ls)
CodecStableOf(ls)  == FormatLines(ParseLines(FormatLines(ls))) = FormatLines(ls)
\* as the continuation of a field whose first line is the synopsis: accepted by Deb822 and unsplittable
EncodedSafeOf(ls)  == LET v == FormatLines(<<Ln(0, "txt", <<0>>)>> \o ls) IN Accepts(v) /\ Unsplittable(v)

\* the string variants format_multiline / parse_multiline (s.splitlines() first, '\n'.join last): the
\* law holds for the text '\n'.join(ls) when, in addition, the last line is not empty
FormatStr(s) == FormatLines(SplitLines(s))
ParseStr(s)  == Join(ParseLines(s))
StrDomain(ls)      == CodecDomain(ls) /\ (ls = <<>> \/ ~IsEmpty(ls[Len(ls)]))
CodecStrLawOf(ls)  == StrDomain(ls) => (ParseStr(FormatStr(Join(ls))) = Join(ls) /\ FormatStr(Join(ls)) = FormatLines(ls))
\* License.from_str(l.to_str()) = l for a synopsis line and a text inside the domain
LicLawOf(l)        == LicFrom(LicTo(l)) = l

\* a second call on the same list, after the caller changed the list the first call returned
CodecRepeatOf(ls)  == LET first     == ParseLines(FormatLines(ls))
                          scribbled == Append(first, Ln(0, "txt", <<0>>))
                          second    == IF ParseMemoAliased THEN scribbled ELSE ParseLines(FormatLines(ls))
                      IN second = Normalise(ls)

CodecNormal == Mode = "codec" => CodecNormalOf(Lines(lst))
CodecLaw    == Mode = "codec" => CodecLawOf(Lines(lst))
CodecStable == Mode = "codec" => CodecStableOf(Lines(lst))
EncodedSafe == Mode = "codec" => EncodedSafeOf(Lines(lst))
CodecRepeat == Mode = "codec" => CodecRepeatOf(Lines(lst))

BCode(x)   == IF x.b = "none" THEN 0 ELSE IF x.b = "dot" THEN 1 ELSE 2
EncLn(x)   == <<10 * x.ind + BCode(x)>> \o x.id            \* compact form of a line in CASE lines
EncStr(s)  == [i \in 1..Len(s) |-> EncLn(s[i])]

CodecEmit == Emit => PrintT(<<"CASE", ToJson([l   |-> lst,
                                              inp |-> EncStr(Lines(lst)),
                                              enc |-> EncStr(FormatLines(Lines(lst))),
                                              out |-> EncStr(ParseLines(FormatLines(Lines(lst)))),
                                              dom |-> CodecDomain(Lines(lst)),
                                              sdom |-> StrDomain(Lines(lst))])>>)
CodecProps == Mode = "codec" =>
                 LET ls == Lines(lst)
                 IN /\ CodecNormalOf(ls) /\ CodecLawOf(ls) /\ CodecStableOf(ls) /\ EncodedSafeOf(ls)
                    /\ CodecRepeatOf(ls) /\ CodecStrLawOf(ls) /\ CodecEmit

----------------------------------------------------------------------------
\* document properties (evaluated for every header kind and build history)

DocFields(h, ps) == <<HeaderFields(h)>> \o [i \in 1..Len(ps) |-> ParaFields(ps[i])]
BuildAcceptedOf(h, ps) == \A i \in 1..(Len(ps) + 1) : \A j \in 1..Len(DocFields(h, ps)[i]) :
                              Accepts(DocFields(h, ps)[i][j].v)
FilesFirstOf(ps)  == \A i \in 1..Len(ps) : \A j \in 1..Len(ps) :
                        (ps[i].kind = "License" /\ ps[j].kind = "Files") => j < i
Loaded(h, ps)     == [err |-> "none", hdr |-> h, paras |-> ps]
RoundTripOf(h, ps, L) == L = Loaded(h, ps)
StableOf(h, ps, L)    == DumpDoc(L.hdr, L.paras) = DumpDoc(h, ps)

BuildAccepted == Mode = "doc" => BuildAcceptedOf(HdrOf(hk), paras)
FilesFirst    == Mode = "doc" => FilesFirstOf(paras)
Memo          == IF ed = <<>> THEN NoMemo ELSE ed[1].memo
RoundTrip     == Mode = "doc" => RoundTripOf(HdrOf(hk), paras, LoadM(Memo, DumpM(Memo, HdrOf(hk), paras)))
Stable        == Mode = "doc" => StableOf(HdrOf(hk), paras, LoadM(Memo, DumpM(Memo, HdrOf(hk), paras)))
\* (a call of the build phase that was carried out -- MayReject, acc -- changed the paragraph it was made on)
HistEff       == IF rej = <<>> \/ rej[1].e.i = 0 \/ Rejects(DocOf(HdrOf(hk), hist), rej[1].e) THEN hist
                 ELSE [hist EXCEPT ![rej[1].e.i] = AcceptedPara(@, rej[1].e)]
HistoryKept   == Mode = "doc" => IF ed = <<>> THEN paras = Build(HistEff) /\ Len(paras) = Len(hist)
                                 ELSE ed[1].pre = Build(hist)
                                      /\ paras = (IF Rejects(DocOf(HdrOf(hk), ed[1].pre), ed[1].e) THEN ed[1].pre
                                                  ELSE ApplyCall(DocOf(HdrOf(hk), ed[1].pre), ed[1].e).paras)

EncLic(l)  == [s |-> EncLn(l.syn), t |-> EncStr(l.text)]
EncExtra(x) == [i \in 1..Len(x) |-> [k |-> x[i].k, v |-> EncStr(x[i].v)]]
EncPara(p) == [k |-> p.kind, p |-> p.pats, c |-> EncStr(p.copy), l |-> EncLic(p.lic), x |-> EncExtra(p.extra)]
EncHdr(h)  == [n |-> IF h.name = <<>> THEN <<>> ELSE <<EncStr(h.name[1])>>,
               u |-> h.uc,
               l |-> IF h.lic = <<>> THEN <<>> ELSE <<EncLic(h.lic[1])>>,
               fe |-> h.fe, fi |-> h.fi, x |-> EncExtra(h.extra)]
EncDL(dl)  == [f |-> dl.k, x |-> EncLn(dl.x)]
EncEdit(e) == [kind |-> e.kind, i |-> e.i, at |-> e.at, f |-> e.f, p |-> e.pats, c |-> EncStr(e.copy), l |-> EncLic(e.lic),
               a |-> EncPara(e.para),
               \* what the specification says about the call: refused (and how) or carried out; may = the format
               \* does not settle it and acc is the outcome this case is about
               \* (the document a call of the build phase was made on is Build(hist): e.i counts the add_* calls)
               acc |-> e.acc,
               may |-> MayReject(DocOf(HdrOf(hk), IF ed = <<>> THEN hist ELSE ed[1].pre), e),
               rej |-> Rejects(DocOf(HdrOf(hk), IF ed = <<>> THEN hist ELSE ed[1].pre), e),
               exc |-> RejectExc(DocOf(HdrOf(hk), IF ed = <<>> THEN hist ELSE ed[1].pre), e)]
DocEmit(h, d) == Emit => PrintT(<<"CASE", ToJson([hk   |-> hk,
                                                  hdr  |-> EncHdr(h),
                                                  ops  |-> [i \in 1..Len(hist) |-> EncPara(hist[i])],
                                                  doc  |-> [i \in 1..Len(paras) |-> EncPara(paras[i])],
                                                  edit |-> IF ed = <<>> THEN <<>> ELSE <<EncEdit(ed[1].e)>>,
                                                  calls |-> [j \in 1..Len(rej) |-> [at |-> rej[j].at, e |-> EncEdit(rej[j].e)]],
                                                  pre  |-> IF ed = <<>> THEN <<>>
                                                           ELSE [i \in 1..Len(ed[1].pre) |-> EncPara(ed[1].pre[i])],
                                                  dump |-> [i \in 1..Len(d) |-> EncDL(d[i])]])>>)
DocProps == Mode = "doc" =>
               LET h == HdrOf(hk)
                   d == DumpM(Memo, h, paras)
                   L == LoadM(Memo, d)
               IN /\ BuildAcceptedOf(h, paras) /\ FilesFirstOf(paras)
                  /\ \A i \in 1..Len(paras) : LicLawOf(paras[i].lic)
                  /\ \A j \in 1..Len(h.lic) : LicLawOf(h.lic[j])
                  /\ RoundTripOf(h, paras, L) /\ StableOf(h, paras, L)
                  /\ DocEmit(h, d)
=============================================================================
