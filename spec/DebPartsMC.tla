------------------------------ MODULE DebPartsMC ------------------------------
(***************************************************************************)
(* X11 -- closed model-checking scenarios for DebParts.tla.                *)
(* TABLE scenarios (every call once, from a fresh object; families):       *)
(*   names  three data parts over the names a, u/a, .h, u/.h, ..a, h, the  *)
(*          directory u and absent names; every name in the three          *)
(*          documented spellings x has / get_content / get_file, the       *)
(*          control part likewise, ten spellings outside the documented    *)
(*          ones (unspecified), iteration                                  *)
(*   nameset (thorough tier) the same calls on every subset of six of      *)
(*          these names as the content of the data part (64 scenarios)     *)
(*   types  directory, nested directory, symlink, hard link, fifo next to  *)
(*          a regular file; a directory named like a maintainer script     *)
(*   text   ASCII / UTF-8 / undecodable / empty content x 3 codecs x 5     *)
(*          error handlers (+ binary, binary with errors=)                 *)
(*   md5    every sub-list of six md5sums lines (separators "  ", " ",     *)
(*          tab; LF / CRLF; ASCII, UTF-8, undecodable names; names that    *)
(*          start with Unicode white space), duplicates, no final newline, *)
(*          no md5sums file, md5sums a directory x 17 modes                *)
(*   chlog  every subset of {own, foreign} x {changelog.Debian.gz,         *)
(*          changelog.gz}, single / multi member gzip, not gzip, no        *)
(*          Package field, a directory in its place, broken data part      *)
(*   gate   control / data part that does not decompress, or whose member  *)
(*          name has no accepted extension (parts constructed directly)    *)
(*   ver    debian-binary texts                                            *)
(* SESSION scenarios (every history): one (1 package, 2 file objects       *)
(* outstanding), two (2 packages with the same file names, each holding a  *)
(* foreign doc directory named like the other), bad (broken data part).    *)
(***************************************************************************)
EXTENDS DebParts

CONSTANTS Which       \* families / sessions to explore

N(x)      == <<x>>
P2(x, y)  == <<x, Sl, y>>
Hid(x)    == <<Dot, x>>
F(n, b)   == [n |-> n, t |-> "file", b |-> b]
T(n, t)   == [n |-> n, t |-> t, b |-> ""]
Dr(n)     == T(n, "dir")
Root      == Dr(<<>>)
Part(ents) == [gate |-> "ok", good |-> TRUE, ents |-> ents]
Pkg(info, ctl, dat) == [info |-> info, ctl |-> ctl, dat |-> dat]

B0(k)      == [k |-> k, lines |-> <<>>, gz |-> "no", inner |-> "", pn |-> ""]
BCtl(pn)   == [B0("ascii") EXCEPT !.pn = pn]
BMd5(ls)   == [B0(IF \E i \in 1..Len(ls) : ls[i].cls = "bin" THEN "bin"
                  ELSE IF \E i \in 1..Len(ls) : ls[i].cls = "utf8" THEN "utf8" ELSE "ascii") EXCEPT !.lines = ls]
BGz(g, x)  == [B0("bin") EXCEPT !.gz = g, !.inner = x]

StdInfo    == <<"2.0", Ws>>
StdCtlEnts == <<Root, F(N("control"), "ctl"), F(N("md5sums"), "md5"), F(N("postinst"), "s1")>>
StdBlobs   == ("ctl" :> BCtl("p")) @@ ("md5" :> BMd5(<<>>)) @@ ("s1" :> B0("ascii"))
StdDat     == <<Root, F(N("a"), "b2")>>
DatBlobs   == ("b1" :> B0("ascii")) @@ ("b2" :> B0("utf8")) @@ ("b3" :> B0("bin")) @@ ("b4" :> B0("ascii"))
              @@ ("b5" :> B0("utf8")) @@ ("b6" :> B0("ascii"))
Doc        == <<"D">>
Kinds      == [cD |-> "cD", cN |-> "cN"]
DocPath(pn, kind) == Doc \o <<Sl, pn, Sl, Kinds[kind]>>

Codecs   == {"utf-8", "latin-1", "ascii"}
ErrModes == {"", "strict", "replace", "ignore", "surrogateescape"}
TextModes == {[codec |-> c, errs |-> x] : c \in Codecs, x \in ErrModes}
AllModes  == TextModes \cup {BinMode, [codec |-> "", errs |-> "replace"]}
Utf8      == [codec |-> "utf-8", errs |-> ""]
Latin1    == [codec |-> "latin-1", errs |-> ""]

Env(id, table, maxh, pk, blob, qnames, modes, calls) ==
    [id |-> id, table |-> table, maxh |-> maxh, pk |-> pk, blob |-> blob, doc |-> Doc, kinds |-> Kinds,
     qnames |-> qnames, modes |-> modes, calls |-> calls]
Q(k, p, op, q)     == C(k, p, op, q, BinMode, 0)
QM(k, p, op, q, m) == C(k, p, op, q, m, 0)
K1(op)             == C(1, "", op, NoPath, BinMode, 0)

----------------------------------------------------------------------------
\* names
NU == <<N("a"), P2("u", "a"), Hid("h"), <<"u", Sl, Dot, "h">>, <<Dot, Dot, "a">>, N("u"), N("h"),
        N("z"), Hid("z"), P2("u", "z"), P2("a", "u")>>
NUSet == {NU[i] : i \in 1..Len(NU)}
DatV == [v1 |-> <<Root, Dr(N("u")), F(P2("u", "a"), "b1"), F(N("a"), "b2"), F(Hid("h"), "b3"),
                   F(<<"u", Sl, Dot, "h">>, "b4"), F(<<Dot, Dot, "a">>, "b5")>>,
         v2 |-> <<Root, Dr(N("u")), F(P2("u", "a"), "b1"), F(<<"u", Sl, Dot, "h">>, "b4")>>,
         v3 |-> <<Root, F(N("a"), "b2"), F(Hid("h"), "b3"), F(<<Dot, Dot, "a">>, "b5"), F(N("h"), "b6")>>]
OddPaths == {<<>>, <<Dot>>, <<Sl>>, <<Dot, Sl>>, <<Dot, Sl, Dot, Sl, "a">>, <<Sl, Sl, "a">>, <<"a", Sl>>,
             <<Sl, Dot, Sl, "a">>, <<Dot, Dot, Sl, "a">>, <<"u", Sl, Sl, "a">>}
CtlNames == {N("control"), N("md5sums"), N("postinst"), N("prerm")}
NameCalls ==
    SetToSeq({Q(1, "d", op, PSpell(sp, n)) : op \in {"has", "getc", "getf"}, sp \in Spellings, n \in NUSet}
             \cup {Q(1, "c", op, PSpell(sp, n)) : op \in {"has", "getc"}, sp \in Spellings, n \in CtlNames}
             \cup {Q(1, "d", op, q) : op \in {"has", "getc"}, q \in OddPaths}
             \cup {Q(1, p, op, NoPath) : p \in PartIds, op \in {"iter", "tgz"}})
NameEnvs == {Env("names-" \o v, TRUE, 0, <<Pkg(StdInfo, Part(StdCtlEnts), Part(DatV[v]))>>, StdBlobs @@ DatBlobs,
                 NU \o <<N("control"), N("md5sums"), N("postinst"), N("prerm")>>, <<BinMode>>, NameCalls)
             : v \in {"v1", "v2", "v3"}}

\* (thorough tier) every subset of six file names as the content of the data part; the directory u exists when needed
SetFiles == <<F(N("a"), "b2"), F(P2("u", "a"), "b1"), F(Hid("h"), "b3"), F(<<"u", Sl, Dot, "h">>, "b4"), F(<<Dot, Dot, "a">>, "b5"), F(N("h"), "b6")>>
SetDat(S) == <<Root>> \o (IF S \cap {2, 4} # {} THEN <<Dr(N("u"))>> ELSE <<>>)
                      \o SelectSeq(SetFiles, LAMBDA x : \E i \in S : SetFiles[i] = x)
NameSetEnvs == {Env("nameset-" \o ToString(S), TRUE, 0, <<Pkg(StdInfo, Part(StdCtlEnts), Part(SetDat(S)))>>, StdBlobs @@ DatBlobs,
                    NU, <<BinMode>>, NameCalls) : S \in SUBSET (1..6)}

\* member types
TypeDat == <<Root, Dr(N("u")), F(P2("u", "a"), "b1"), T(P2("u", "l"), "sym"), T(P2("u", "h"), "hard"),
             T(P2("u", "o"), "other"), Dr(P2("u", "d")), F(<<"u", Sl, "d", Sl, "a">>, "b2")>>
TypeNames == {N("u"), P2("u", "a"), P2("u", "l"), P2("u", "h"), P2("u", "o"), P2("u", "d"), <<"u", Sl, "d", Sl, "a">>}
TypeCalls ==
    SetToSeq({Q(1, "d", op, PSpell(sp, n)) : op \in {"has", "getc", "getf"}, sp \in {"plain", "slash"}, n \in TypeNames}
             \cup {QM(1, "d", "getc", PSpell("dot", n), Utf8) : n \in TypeNames}
             \cup {Q(1, "c", op, N("config")) : op \in {"has", "getc", "getf"}}
             \cup {K1("scripts"), Q(1, "d", "iter", NoPath), Q(1, "c", "iter", NoPath)})
TypeEnvs == {Env("types-plain", TRUE, 0, <<Pkg(StdInfo, Part(StdCtlEnts), Part(TypeDat))>>, StdBlobs @@ DatBlobs,
                 <<N("u"), P2("u", "a"), P2("u", "d")>>, <<BinMode, Utf8>>, TypeCalls),
             Env("types-scriptdir", TRUE, 0,
                 <<Pkg(StdInfo, Part(StdCtlEnts \o <<Dr(N("config")), F(N("prerm"), "b1")>>), Part(TypeDat))>>,
                 StdBlobs @@ DatBlobs, <<N("u"), P2("u", "a"), N("config")>>, <<BinMode, Utf8>>, TypeCalls)}

\* text and binary mode
TextDat   == <<Root, F(N("ta"), "b1"), F(N("tu"), "b2"), F(N("tb"), "b3"), F(N("te"), "b4")>>
TextCalls == SetToSeq({QM(1, "d", op, PSpell(sp, n), m) : op \in {"getc", "getf"}, sp \in {"slash"},
                                                           n \in {N("ta"), N("tu"), N("tb"), N("te")}, m \in AllModes}
                      \cup {QM(1, "c", "getc", N("control"), m) : m \in AllModes})
TextEnvs  == {Env("text", TRUE, 0, <<Pkg(StdInfo, Part(StdCtlEnts), Part(TextDat))>>, StdBlobs @@ DatBlobs,
                  <<N("ta"), N("tu"), N("tb"), N("te")>>, SetToSeq(AllModes), TextCalls)}

\* md5sums
Ln(n, cls, sp, sep, eol, sum) == [n |-> n, cls |-> cls, sp |-> sp, sep |-> sep, eol |-> eol, sum |-> sum]
Md5Lines == <<Ln("f1", "ascii", "no", "2sp", "lf", "s1"),
              Ln("f2", "ascii", "no", "1sp", "crlf", "s2"),      \* blanks inside and at the end of the name
              Ln("f3", "utf8", "no", "tab", "lf", "s3"),
              Ln("f4", "bin", "no", "2sp", "lf", "s4"),
              Ln("f5", "utf8", "u8", "2sp", "lf", "s5"),         \* starts with U+00A0 / U+2003 / U+3000 ...
              Ln("f6", "ascii", "all", "2sp", "crlf", "s6")>>     \* starts with U+001C..U+001F
Md5Sub(S)  == SelectSeq(Md5Lines, LAMBDA ln : \E i \in S : Md5Lines[i] = ln)
Md5Calls   == SetToSeq({QM(1, "", "md5", NoPath, m) : m \in AllModes})
Md5Env(id, ctlents, ls) ==
    Env(id, TRUE, 0, <<Pkg(StdInfo, Part(ctlents), Part(StdDat))>>,
        (("md5" :> BMd5(ls)) @@ StdBlobs) @@ DatBlobs, <<N("md5sums")>>, SetToSeq(AllModes), Md5Calls)
Md5Envs == {Md5Env("md5-" \o ToString(S), StdCtlEnts, Md5Sub(S)) : S \in SUBSET (1..6)}
           \cup {Md5Env("md5-dup", StdCtlEnts, <<Md5Lines[1], Md5Lines[3], Md5Lines[1], Md5Lines[2], Md5Lines[3]>>),
                 Md5Env("md5-noeol", StdCtlEnts, <<Md5Lines[2], [Md5Lines[1] EXCEPT !.eol = "none"]>>),
                 Md5Env("md5-noeol3", StdCtlEnts, <<[Md5Lines[3] EXCEPT !.eol = "none"]>>),
                 Md5Env("md5-absent", <<Root, F(N("control"), "ctl")>>, <<>>),
                 Md5Env("md5-dir", <<Root, F(N("control"), "ctl"), Dr(N("md5sums"))>>, <<>>)}

\* changelog
ChItems == [oD |-> F(DocPath("p", "cD"), "gOD"), oN |-> F(DocPath("p", "cN"), "gON"),
            xD |-> F(DocPath("x", "cD"), "gXD"), xN |-> F(DocPath("x", "cN"), "gXN")]
ChOrder == <<"xN", "oN", "xD", "oD">>
ChBlobs(g1, g2) == ("gOD" :> BGz(g1, "OD")) @@ ("gON" :> BGz(g2, "ON")) @@ ("gXD" :> BGz(g2, "XD")) @@ ("gXN" :> BGz(g1, "XN"))
ChDat(S) == <<Root, Dr(Doc)>> \o [i \in 1..Len(SelectSeq(ChOrder, LAMBDA x : x \in S)) |->
                                      ChItems[SelectSeq(ChOrder, LAMBDA x : x \in S)[i]]] \o <<F(N("a"), "b2")>>
ChCalls == <<K1("chlog"), Q(1, "d", "has", DocPath("p", "cD")), Q(1, "d", "has", <<Sl>> \o DocPath("p", "cN"))>>
ChEnv(id, ctlblob, dat, blobs) ==
    Env(id, TRUE, 0, <<Pkg(StdInfo, Part(StdCtlEnts), dat)>>, ((blobs @@ ("ctl" :> ctlblob)) @@ StdBlobs) @@ DatBlobs,
        <<DocPath("p", "cD"), DocPath("p", "cN")>>, <<BinMode>>, ChCalls)
ChEnvs == {ChEnv("chlog-" \o ToString(S), BCtl("p"), Part(ChDat(S)), ChBlobs("one", "multi")) : S \in SUBSET {"oD", "oN", "xD", "xN"}}
          \cup {ChEnv("chlog-swapgz", BCtl("p"), Part(ChDat({"oD", "oN", "xD", "xN"})), ChBlobs("multi", "one")),
                ChEnv("chlog-notgz", BCtl("p"), Part(ChDat({"oN", "xD"})), ChBlobs("one", "no")),
                ChEnv("chlog-nopkg", BCtl(""), Part(ChDat({"oD", "oN"})), ChBlobs("one", "multi")),
                ChEnv("chlog-dir", BCtl("p"), Part(<<Root, Dr(DocPath("p", "cD")), F(DocPath("p", "cN"), "gON")>>), ChBlobs("one", "multi")),
                ChEnv("chlog-baddat", BCtl("p"), [Part(ChDat({"oD"})) EXCEPT !.good = FALSE], ChBlobs("one", "multi"))}

\* parts that cannot be opened
GateCalls == SetToSeq({Q(1, p, op, N("a")) : p \in PartIds, op \in {"has", "getc", "getf", "gf"}}
                      \cup {Q(1, "c", "getc", N("control"))}
                      \cup {Q(1, p, op, NoPath) : p \in PartIds, op \in {"iter", "tgz"}}
                      \cup {QM(1, "", "md5", NoPath, m) : m \in {BinMode, Utf8}}
                      \cup {K1("scripts"), K1("ctl"), K1("chlog"), K1("ver")})
GateEnv(id, ctl, dat) == Env(id, TRUE, 1, <<Pkg(StdInfo, ctl, dat)>>, StdBlobs @@ DatBlobs, <<N("a"), N("control")>>, <<BinMode>>, GateCalls)
GateEnvs == {GateEnv("gate-baddat", Part(StdCtlEnts), [Part(StdDat) EXCEPT !.good = FALSE]),
             GateEnv("gate-badctl", [Part(StdCtlEnts) EXCEPT !.good = FALSE], Part(StdDat)),
             GateEnv("gate-extdat", Part(StdCtlEnts), [Part(StdDat) EXCEPT !.gate = "noext"]),
             GateEnv("gate-extctl", [Part(StdCtlEnts) EXCEPT !.gate = "noext"], Part(StdDat))}

\* debian-binary
Infos == [std |-> StdInfo, bare |-> <<"2.0">>, padded |-> <<Ws, "2.0", Ws>>, lines |-> <<"2.0", Ws, "x", Ws>>,
          inner |-> <<Ws, "2", Ws, "0">>, empty |-> <<>>, blank |-> <<Ws>>]
VerEnvs == {Env("ver-" \o v, TRUE, 0, <<Pkg(Infos[v], Part(StdCtlEnts), Part(StdDat))>>, StdBlobs @@ DatBlobs,
                <<N("a")>>, <<BinMode>>, <<K1("ver")>>) : v \in DOMAIN Infos}

----------------------------------------------------------------------------
\* sessions
TwoLines == <<Md5Lines[1], Md5Lines[3]>>
OneDat == <<Root, Dr(N("u")), F(P2("u", "a"), "b1"), F(N("a"), "b2"), F(DocPath("p", "cD"), "gOD"), F(DocPath("p", "cN"), "gON")>>
OneCalls == <<Q(1, "d", "has", N("a")), Q(1, "d", "has", <<Sl>> \o P2("u", "a")), Q(1, "d", "has", N("z")),
              Q(1, "d", "getc", <<Dot, Sl, "a">>), QM(1, "d", "getc", P2("u", "a"), Utf8), Q(1, "c", "getc", N("control")),
              Q(1, "d", "getf", <<Sl, "a">>), Q(1, "d", "iter", NoPath), Q(1, "c", "iter", NoPath),
              Q(1, "c", "tgz", NoPath), Q(1, "d", "tgz", NoPath), K1("scripts"), K1("ctl"),
              QM(1, "", "md5", NoPath, BinMode), QM(1, "", "md5", NoPath, Utf8), K1("chlog"), K1("ver"),
              K1("close"), Q(1, "d", "closep", NoPath), Q(1, "c", "closep", NoPath), K1("enter"), K1("exit"),
              Q(1, "d", "gf", N("a")), QM(1, "d", "gf", P2("u", "a"), Latin1)>>
OneEnv == Env("one", FALSE, 2, <<Pkg(StdInfo, Part(StdCtlEnts), Part(OneDat))>>,
              ((("md5" :> BMd5(TwoLines)) @@ ChBlobs("one", "multi")) @@ StdBlobs) @@ DatBlobs,
              <<N("a"), P2("u", "a"), N("z")>>, <<BinMode, Utf8>>, OneCalls)

K2(k, op) == C(k, "", op, NoPath, BinMode, 0)
TwoDat == [k \in 1..2 |-> IF k = 1
             THEN <<Root, Dr(N("u")), F(P2("u", "a"), "b1"), F(N("a"), "b2"), F(DocPath("p", "cN"), "gON"), F(DocPath("x", "cD"), "gXD")>>
             ELSE <<Root, F(N("a"), "b4"), Dr(N("u")), F(P2("u", "a"), "b5"), F(DocPath("p", "cD"), "gOD"), F(DocPath("x", "cN"), "gXN")>>]
TwoCtl == [k \in 1..2 |-> IF k = 1 THEN StdCtlEnts
                          ELSE <<Root, F(N("control"), "ctl2"), F(N("md5sums"), "md52"), F(N("postinst"), "s2"), F(N("config"), "s1")>>]
TwoCalls == SetToSeq(UNION {{Q(k, "d", "has", N("a")), Q(k, "d", "getc", N("a")), QM(k, "d", "getc", <<Sl>> \o P2("u", "a"), Utf8),
                             QM(k, "", "md5", NoPath, BinMode), K2(k, "scripts"), K2(k, "chlog"), K2(k, "close"),
                             Q(k, "d", "iter", NoPath), K2(k, "ctl")} : k \in 1..2})
TwoEnv == Env("two", FALSE, 0, [k \in 1..2 |-> Pkg(StdInfo, Part(TwoCtl[k]), Part(TwoDat[k]))],
              ((((("ctl2" :> BCtl("x")) @@ ("md52" :> BMd5(<<Md5Lines[2]>>)) @@ ("s2" :> B0("bin")) @@ ("md5" :> BMd5(TwoLines)))
                 @@ ChBlobs("one", "multi")) @@ StdBlobs) @@ DatBlobs),
              <<N("a"), P2("u", "a")>>, <<BinMode, Utf8>>, TwoCalls)

BadCalls == <<Q(1, "d", "has", N("a")), Q(1, "c", "getc", N("control")), K1("chlog"), K1("scripts"), Q(1, "d", "tgz", NoPath),
              Q(1, "c", "tgz", NoPath), Q(1, "d", "iter", NoPath), K1("close"), Q(1, "d", "gf", N("a")), K1("ctl")>>
BadEnv == Env("bad", FALSE, 1, <<Pkg(StdInfo, Part(StdCtlEnts), [Part(OneDat) EXCEPT !.good = FALSE])>>,
              (ChBlobs("one", "multi") @@ StdBlobs) @@ DatBlobs, <<N("a")>>, <<BinMode>>, BadCalls)

----------------------------------------------------------------------------
Families == [names |-> NameEnvs, nameset |-> NameSetEnvs, types |-> TypeEnvs, text |-> TextEnvs, md5 |-> Md5Envs, chlog |-> ChEnvs,
             gate |-> GateEnvs, ver |-> VerEnvs, one |-> {OneEnv}, two |-> {TwoEnv}, bad |-> {BadEnv}]
Envs == UNION {Families[w] : w \in Which}

\* the harness reads the scenarios it has to realise from TLC
ASSUME Emit => \A e \in Envs : PrintT(<<"ENV", ToJson(e)>>)

XInit == /\ xenv \in Envs
         /\ xses = Fresh(xenv)
         /\ xres = Exact(ROk)
         /\ xcall = NoCall

XSpec == XInit /\ [][XNext]_xvars
=============================================================================
