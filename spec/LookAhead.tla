----------------------------- MODULE LookAhead -----------------------------
(***************************************************************************)
(* X06 -- reference layer for debian._deb822_repro._util.BufferingIterator *)
(* (the look-ahead iterator under the format-preserving parser): plain     *)
(* sequence semantics.                                                     *)
(*                                                                         *)
(* src is the logical source (the items the wrapped iterable produces      *)
(* before it first signals its end), pos the number of items handed out by *)
(* consuming calls.  Every public call is a function of the remainder      *)
(* SubSeq(src, pos+1, Len(src)) only:                                      *)
(*   next            first item of the remainder, consumed / "stop"        *)
(*   peek_at(k)      k-th item of the remainder / none      (peek = k=1)   *)
(*   peek_many(n)    first min(n, |remainder|) items, nothing consumed     *)
(*   consume_many(n) the same list, consumed                               *)
(*   peek_find(p,l)  1-based offset of the first item satisfying p among   *)
(*                   the first l (all when l = -1 = None) items / none     *)
(*   takewhile(p)    a lazy result; every step hands out (and consumes at  *)
(*                   that moment) the head of the remainder while it       *)
(*                   satisfies p; the first failing item is NOT consumed   *)
(*   peek_buffer     the items already looked at but not consumed: a       *)
(*                   prefix of the remainder that covers the demand so far *)
(* hi is the high-water mark of demand: the largest source index a call so *)
(* far had to know (Len(src)+1 = "had to know that the source ends").  The *)
(* implementation layer (LookAheadBuf) must never have read the source     *)
(* further than hi + Chunk - 1 (takewhile / peek_find read in chunks) and  *)
(* exactly hi for the other calls.  out is the concatenation of everything *)
(* handed out by consuming calls.                                          *)
(*                                                                         *)
(* Items are positive integers x; their class is x % NC (predicates are    *)
(* sets of classes); the harness tags the position into the value          *)
(* (x = index * NC + class) so that equal values mean the same object.     *)
(* Results are records [t, v] so that TLC can compare any two of them.     *)
(* Pure operators are prefixed LA.                                         *)
(***************************************************************************)
EXTENDS Integers, Sequences, FiniteSets, SequencesExt, TLC, Json

CONSTANTS NC,        \* modulus of the class of an item
          Chunk      \* read-ahead chunk of takewhile / peek_find (5 in the code)

VARIABLES src,       \* logical source (never changes)
          pos,       \* number of items consumed
          hi,        \* demand high-water mark (0 .. Len(src)+1)
          gens,      \* live takewhile results: <<[p |-> predicate, done |-> BOOLEAN]>>
          out,       \* everything handed out by consuming calls so far
          res        \* result of the last call

rvars == <<src, pos, hi, gens, out, res>>

LAMin(a, b) == IF a < b THEN a ELSE b
LAMax(a, b) == IF a > b THEN a ELSE b
LACls(x)    == x % NC
LASat(p, x) == LACls(x) \in p

LAR(t, v)   == [t |-> t, v |-> v]
LAItem(x)   == LAR("item", <<x>>)
LANone      == LAR("none", <<>>)
LAStop      == LAR("stop", <<>>)
LAErr       == LAR("err", <<>>)        \* an exception of the source passed through
LAList(s)   == LAR("list", s)
LAIdx(j)    == LAR("idx", <<j>>)
LAGen(g)    == LAR("gen", <<g>>)
LAOk        == LAR("ok", <<>>)

\* the logical source of a script: items (> 0) before the first end signal (0), exceptions (-1) skipped
LALogical(script) ==
    LET q   == SelectInSeq(script, LAMBDA x : x = 0)
        cut == IF q = 0 THEN script ELSE SubSeq(script, 1, q - 1)
    IN SelectSeq(cut, LAMBDA x : x > 0)

LARem(s, n) == SubSeq(s, n + 1, Len(s))
\* offset of the first item of r satisfying p among the first lim (all if lim < 0) items, 0 if none
LAFirst(r, p, lim) ==
    LET m == IF lim < 0 \/ lim > Len(r) THEN Len(r) ELSE lim
    IN SelectInSeq(SubSeq(r, 1, m), LAMBDA x : LASat(p, x))
\* length of the longest prefix of r whose items all satisfy p
LATakeLen(r, p) ==
    LET q == SelectInSeq(r, LAMBDA x : ~LASat(p, x))
    IN IF q = 0 THEN Len(r) ELSE q - 1

----------------------------------------------------------------------------
Rem     == LARem(src, pos)
Need(d) == hi' = LAMax(hi, LAMin(d, Len(src) + 1))

RInit(s) == /\ src = s /\ pos = 0 /\ hi = 0 /\ gens = <<>> /\ out = <<>> /\ res = LAOk

RNext ==
    /\ IF pos < Len(src)
       THEN res' = LAItem(src[pos + 1]) /\ pos' = pos + 1 /\ out' = Append(out, src[pos + 1])
       ELSE res' = LAStop /\ pos' = pos /\ out' = out
    /\ Need(pos + 1) /\ UNCHANGED <<src, gens>>

RPeekAt(k) ==
    /\ res' = (IF pos + k <= Len(src) THEN LAItem(src[pos + k]) ELSE LANone)
    /\ Need(pos + k) /\ UNCHANGED <<src, pos, gens, out>>

RPeekMany(n) ==
    /\ res' = LAList(SubSeq(src, pos + 1, LAMin(pos + n, Len(src))))
    /\ Need(pos + n) /\ UNCHANGED <<src, pos, gens, out>>

RConsumeMany(n) ==
    LET got == SubSeq(src, pos + 1, LAMin(pos + n, Len(src)))
    IN /\ res' = LAList(got) /\ pos' = pos + Len(got) /\ out' = out \o got
       /\ Need(pos + n) /\ UNCHANGED <<src, gens>>

RPeekFind(p, lim) ==
    LET j == LAFirst(Rem, p, lim)
    IN /\ res' = (IF j > 0 THEN LAIdx(j) ELSE LANone)
       /\ Need(IF j > 0 THEN pos + j
               ELSE IF lim >= 0 /\ lim <= Len(Rem) THEN pos + lim
               ELSE Len(src) + 1)
       /\ UNCHANGED <<src, pos, gens, out>>

\* the items looked at but not consumed: a prefix of the remainder reaching at least the
\* demand so far and at most Chunk-1 items beyond it (m = index of its last item)
PeekBufferLo == LAMax(pos, LAMin(hi, Len(src)))
PeekBufferHi == LAMin(Len(src), hi + Chunk - 1)
RPeekBuffer(m) ==
    /\ m \in PeekBufferLo..PeekBufferHi
    /\ res' = LAList(SubSeq(src, pos + 1, m))
    /\ UNCHANGED <<src, pos, hi, gens, out>>

RTwNew(p) ==
    /\ gens' = Append(gens, [p |-> p, done |-> FALSE])
    /\ res' = LAGen(Len(gens) + 1)
    /\ UNCHANGED <<src, pos, hi, out>>

RTwStep(g) ==
    IF gens[g].done
    THEN res' = LAStop /\ UNCHANGED <<src, pos, hi, gens, out>>
    ELSE IF pos < Len(src) /\ LASat(gens[g].p, src[pos + 1])
    THEN /\ res' = LAItem(src[pos + 1]) /\ pos' = pos + 1 /\ out' = Append(out, src[pos + 1])
         /\ Need(pos + 1) /\ UNCHANGED <<src, gens>>
    ELSE /\ res' = LAStop /\ gens' = [gens EXCEPT ![g].done = TRUE]
         /\ Need(pos + 1) /\ UNCHANGED <<src, pos, out>>

\* generator.close() / an abandoned result: nothing further is consumed through it
RTwClose(g) ==
    /\ gens' = [gens EXCEPT ![g].done = TRUE] /\ res' = LAOk
    /\ UNCHANGED <<src, pos, hi, out>>

\* list(takewhile(p)): all steps at once
RTwList(p) ==
    LET k == LATakeLen(Rem, p) got == SubSeq(src, pos + 1, pos + k)
    IN /\ res' = LAList(got) /\ pos' = pos + k /\ out' = out \o got
       /\ Need(pos + k + 1) /\ UNCHANGED <<src, gens>>

\* a call interrupted by an exception of the source: the exception reaches the caller,
\* nothing is consumed; an interrupted takewhile result is finished
RInterrupt(newhi, g) ==
    /\ res' = LAErr /\ hi' = LAMax(hi, LAMin(newhi, Len(src) + 1))
    /\ gens' = (IF g = 0 THEN gens ELSE [gens EXCEPT ![g].done = TRUE])
    /\ UNCHANGED <<src, pos, out>>

----------------------------------------------------------------------------
\* properties of the reference
RTypeOK     == /\ pos \in 0..Len(src) /\ hi \in pos..(Len(src) + 1)
               /\ \A i \in 1..Len(gens) : gens[i].done \in BOOLEAN
\* everything handed out so far is the consumed prefix of the source, each item once, in order
OutIsPrefix == out = SubSeq(src, 1, pos)
\* peeking calls never consume
PeekPure    == [][res'.t \in {"none", "idx", "gen", "ok", "err"} => pos' = pos]_rvars
Monotone    == [][pos' >= pos /\ hi' >= hi /\ src' = src]_rvars
=============================================================================
