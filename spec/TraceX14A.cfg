CONSTANTS
  AMode = "trace"
  ADepth = 0
  AMaxBlocks = 0
  AMaxChanges = 0
  AEmit = FALSE
  ABug = "none"
  ANewKinds = {}
  AInits = {}
SPECIFICATION TASpec
CHECK_DEADLOCK FALSE
