---------------------------- MODULE TraceX05R ----------------------------
(***************************************************************************)
(* X05 (a) -- trace validation: executions recorded from the real          *)
(* debian.deb822.Removals (harness/props/x05.py) are checked against       *)
(* RemovalsObj (objects, zones) and Removals (line grammars).              *)
(* A trace is a sequence of events; lines are token sequences [c, i] made  *)
(* by the harness' tokenizer from the concrete text (the id interns the    *)
(* text of the token), results are projected with the same tokenizer:      *)
(*                                                                         *)
(*  [op |-> "assign", o, f, ls]    r[field] = text of the lines ls (also   *)
(*                                 the way an object parsed from a file    *)
(*                                 gets its fields)                        *)
(*  [op |-> "drop", o, f]          del r[field]                            *)
(*  [op |-> "read", o, f, res]     r.sources / r.binaries;  res =          *)
(*                                 [k |-> "ok" | "exc", recs |-> <<[pkg,   *)
(*                                 ver, archs]>>]  (archs <<>> for src)    *)
(*  [op |-> "mutate", o, f]        the caller changed a returned list      *)
(*  [op |-> "fresh", o]  [op |-> "copy", o, p]                             *)
(*  [op |-> "line", f, line, res]  a one-line field of a throw-away object *)
(*  [op |-> "num", kind, has, toks, res, known]   bug / also_wnpp /        *)
(*                                 also_bugs; res = [k, nums]; known: the  *)
(*                                 harness claims the recorded divergence  *)
(*                                 is the known finding (empty field ->    *)
(*                                 ValueError) -- TLC checks the claim     *)
(*  [op |-> "date", kind, res]     kind "ok": res must be "same" (the      *)
(*                                 writer's instant), "bad": "ValueError"  *)
(*                                                                         *)
(* A read in the clean zone of a field the statement decides must return   *)
(* exactly Expected(f, field); in the unspecified zone / for undecided     *)
(* lines anything is accepted, and <<"DRIFT", tid, l>> reports a result    *)
(* that differs from the implementation layer's prediction (diagnostic).   *)
(* Batched: one TLC run validates all traces of TRACE_FILE and prints      *)
(* <<"ACCEPTED", tid>> for every trace explained completely.               *)
(***************************************************************************)
EXTENDS RemovalsObj, IOUtils, TLCExt

Traces == JsonDeserialize(IOEnv.TRACE_FILE)
Diag   == IOEnv.TRACE_DIAG = "1"

VARIABLES tid, l
tvars == <<vars, ovars, tid, l>>

Tr == Traces[tid]
Ev == Tr[l]

SeqSet(q) == {q[k] : k \in 1..Len(q)}
\* observed records (JSON) against records of the specification
SameRec(f, obs, exp) == /\ obs.pkg = exp.pkg /\ obs.ver = exp.ver
                        /\ f = "bin" => (SeqSet(obs.archs) = exp.archs /\ Len(obs.archs) = Cardinality(exp.archs))
SameRecs(f, obs, exp) == /\ Len(obs) = Len(exp)
                         /\ \A k \in 1..Len(exp) : SameRec(f, obs[k], exp[k])

TInit == /\ tid \in 1..Len(Traces)
         /\ l = 1
         /\ OInit

Keep == UNCHANGED <<fld, zone, memo, res>>

TAssign == Ev.op = "assign" /\ Assign(Ev.o, Ev.f, Ev.ls)
TDrop   == Ev.op = "drop" /\ Drop(Ev.o, Ev.f)
TMutate == Ev.op = "mutate" /\ Mutate(Ev.o, Ev.f)
TFresh  == Ev.op = "fresh" /\ Fresh(Ev.o)
TCopy   == Ev.op = "copy" /\ Copy(Ev.o, Ev.p)
TRead   == /\ Ev.op = "read"
           /\ Read(Ev.o, Ev.f)
           /\ LET fl == fld[Ev.o][Ev.f] IN
              IF zone'[Ev.o][Ev.f] = "read" /\ Decided(Ev.f, fl)
              THEN Ev.res.k = "ok" /\ \E ex \in {Expected(Ev.f, fl)} : SameRecs(Ev.f, Ev.res.recs, ex)
              ELSE (Ev.res.k # "ok" \/ ~SameRecs(Ev.f, Ev.res.recs, res'.v) \/ res'.mut) => PrintT(<<"DRIFT", tid, l>>)
\* a single line, any shape
TLine   == /\ Ev.op = "line" /\ Keep
           /\ LET e == IF Ev.f = "src" THEN ExpSrc(Ev.line) ELSE ExpBin(Ev.line)
                  i == IF Ev.f = "src" THEN SrcMatch(Ev.line) ELSE BinMatch(Ev.line)
              IN CASE e.m = "rec"  -> Ev.res.k = "ok" /\ SameRecs(Ev.f, Ev.res.recs, <<e>>)
                   [] e.m = "none" -> Ev.res.k = "ok" /\ Ev.res.recs = <<>>
                   [] OTHER -> (IF i.m = "rec" THEN Ev.res.k # "ok" \/ ~SameRecs(Ev.f, Ev.res.recs, <<i>>)
                                ELSE IF i.m = "none" THEN Ev.res.k # "ok" \/ Ev.res.recs # <<>>
                                ELSE FALSE) => PrintT(<<"DRIFT", tid, l>>)
TNum    == /\ Ev.op = "num" /\ Keep
           /\ LET st == IF Ev.has THEN NumStmt(Ev.kind, Ev.toks) ELSE NumOk(<<>>)
                  im == NumImpl(Ev.kind, Ev.toks, TRUE)
              IN IF Ev.known
                 THEN Ev.has /\ Ev.toks = <<>> /\ Ev.res = im /\ im # st
                 ELSE IF st.k = "unspec"
                      THEN (im.k # "odd" /\ Ev.res # im) => PrintT(<<"DRIFT", tid, l>>)
                      ELSE Ev.res = st
TDate   == /\ Ev.op = "date" /\ Keep
           /\ Ev.kind = "ok" => Ev.res = "same"
           /\ Ev.kind = "bad" => Ev.res = "ValueError"

TStep == /\ l <= Len(Tr)
         /\ (TAssign \/ TDrop \/ TMutate \/ TFresh \/ TCopy \/ TRead \/ TLine \/ TNum \/ TDate)
         /\ Pin
         /\ l' = l + 1 /\ UNCHANGED tid
         /\ (Diag => PrintT(<<"AT", tid, l>>))
         /\ (l' = Len(Tr) + 1 => PrintT(<<"ACCEPTED", tid>>))

TSpec == TInit /\ [][TStep]_tvars
=============================================================================
