--------------------------- MODULE ArMemberProc ---------------------------
(***************************************************************************)
(* C06 -- process-level layer: what an archive object reads must not       *)
(* depend on what the process opened before.  Deliberately tiny: file      *)
(* contents are version numbers (version v of a path = the v-th archive    *)
(* stored under that name), an "object" is one ArFile with its members.    *)
(*                                                                         *)
(*   files   path -> content currently stored under the path              *)
(*   objs    the ArFile objects created so far, each                      *)
(*           [path, byname, born, snap]:                                   *)
(*             born = content of the path when the object was built (the   *)
(*                    archive its member table describes),                 *)
(*             snap = content seen by the file object its members read     *)
(*                    through (0: none open yet).  ArFile(fileobj=f) holds *)
(*                    f from the start (snap = born); ArFile(filename=...) *)
(*                    opens lazily at the first read and keeps the object  *)
(*                    until close() (lib/debian/arfile.py read/readline/   *)
(*                    close).                                              *)
(*   cache   only with SharedHandlePerPath: content seen by the ONE file   *)
(*           object memoised per path name for all by-name members of the  *)
(*           process (entry dropped by close()).                           *)
(*                                                                         *)
(* Actions: Open(p, byname), RewritePath(p, kind) (kind "inplace" /        *)
(* "replace": write over the file or rename a new file into place; the     *)
(* same in the model), Read(o), Close(o).                                  *)
(*                                                                         *)
(* Property FreshSeesOwn: a read through an object whose path has not been *)
(* rewritten since the object was built (born = files[path]) returns bytes *)
(* of exactly that content -- in particular by-name reads of an object     *)
(* created AFTER a rewrite see the new content, whatever older objects of  *)
(* the same path did and whether or not they were closed.  Reads through   *)
(* objects OLDER than the last rewrite of their path are unspecified (the  *)
(* file changed underneath them; the model keeps one possible outcome and  *)
(* marks the read judged = FALSE).                                         *)
(*                                                                         *)
(* Negative control (tried; run by harness/props/c06.py in every check):   *)
(* SharedHandlePerPath = TRUE (members opened by name share one file       *)
(* object per path name, nothing invalidates it when the file changes)     *)
(* makes TLC report FreshSeesOwn violated by                               *)
(* Open, Read(1), RewritePath, Open, Read(2).                              *)
(***************************************************************************)
EXTENDS Naturals, Sequences, TLC, Json

CONSTANTS Paths, MaxVersion, MaxObjs, SharedHandlePerPath, Emit

VARIABLES files, objs, cache, ret

pvars == <<files, objs, cache, ret>>

NoRet == [o |-> 0, content |-> 0, judged |-> FALSE]

PInit == /\ files = [p \in Paths |-> 1]
         /\ objs = <<>>
         /\ cache = [p \in Paths |-> 0]
         /\ ret = NoRet

PEdge(op, args) ==
    Emit => PrintT(<<"EDGE", ToJson([from |-> [files |-> files, objs |-> objs], op |-> op, args |-> args,
                                      res |-> ret', to |-> [files |-> files', objs |-> objs']])>>)

Open(p, byname) ==
    /\ Len(objs) < MaxObjs
    /\ objs' = Append(objs, [path |-> p, byname |-> byname, born |-> files[p],
                             snap |-> IF byname THEN 0 ELSE files[p]])
    /\ ret' = NoRet
    /\ UNCHANGED <<files, cache>>
    /\ PEdge("open", <<p, byname>>)

RewritePath(p, kind) ==
    /\ files[p] < MaxVersion
    /\ files' = [files EXCEPT ![p] = @ + 1]
    /\ ret' = NoRet
    /\ UNCHANGED <<objs, cache>>
    /\ PEdge("rewrite", <<p, kind>>)

\* the content behind the file object the members of o read through
Handle(o) == LET x == objs[o] IN
             IF x.snap # 0 THEN x.snap
             ELSE IF SharedHandlePerPath /\ cache[x.path] # 0 THEN cache[x.path]
             ELSE files[x.path]

Read(o) ==
    LET x == objs[o]  h == Handle(o) IN
    /\ objs' = [objs EXCEPT ![o].snap = h]
    /\ cache' = IF SharedHandlePerPath /\ x.byname THEN [cache EXCEPT ![x.path] = h] ELSE cache
    /\ ret' = [o |-> o, content |-> h, judged |-> (x.born = files[x.path])]
    /\ UNCHANGED files
    /\ PEdge("read", <<o>>)

\* ArMember.close(): only by-name members drop (and close) their file object
Close(o) ==
    LET x == objs[o] IN
    /\ x.byname
    /\ objs' = [objs EXCEPT ![o].snap = 0]
    /\ cache' = IF SharedHandlePerPath THEN [cache EXCEPT ![x.path] = 0] ELSE cache
    /\ ret' = NoRet
    /\ UNCHANGED files
    /\ PEdge("close", <<o>>)

PNext == \/ \E p \in Paths : \/ \E b \in BOOLEAN : Open(p, b)
                             \/ \E k \in {"inplace", "replace"} : RewritePath(p, k)
         \/ \E o \in 1..Len(objs) : Read(o) \/ Close(o)

PSpec == PInit /\ [][PNext]_pvars
PView == <<files, objs, cache>>

PTypeOK == /\ \A p \in Paths : files[p] \in 1..MaxVersion /\ cache[p] \in 0..MaxVersion
           /\ Len(objs) <= MaxObjs
           /\ \A o \in 1..Len(objs) : objs[o].born \in 1..files[objs[o].path] /\ objs[o].snap \in 0..MaxVersion
\* a judged read returns bytes of the archive the object was built from
FreshSeesOwn == [][(ret'.o # 0 /\ ret'.judged) => ret'.content = objs[ret'.o].born]_pvars
\* an object's file object never shows a content older than the object itself
SnapNotOlder == \A o \in 1..Len(objs) : objs[o].snap = 0 \/ objs[o].snap >= objs[o].born
=============================================================================
