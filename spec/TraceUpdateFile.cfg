SPECIFICATION TSpec
CONSTANTS
  MaxN = 0
  Sizes = {}
  FlavourSets = {}
  Mode = "code"
  Runs = 9
  FlavourPhase = 9
  FaultKinds = {"none", "patchCorrupt", "patchTruncated", "badLastPatch", "wrongResultHash", "indexMissing", "indexGarbage", "indexEmpty", "writeFails", "renameFails"}
  Entries = {"update_file"}
  RememberIndex = FALSE
  Emit = FALSE
  EmitEvery = 1
  EmitPhase = 0
INVARIANT TOldOrNew
CHECK_DEADLOCK FALSE
