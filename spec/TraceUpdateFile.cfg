SPECIFICATION TSpec
CONSTANTS
  MaxN = 0
  Sizes = {}
  FlavourSets = {}
  Mode = "code"
  Emit = FALSE
INVARIANT TOldOrNew
CHECK_DEADLOCK FALSE
