SPECIFICATION TSpec
CONSTANTS
  MaxN = 0
  Sizes = {}
  FlavourSets = {}
  Mode = "code"
  Runs = 9
  RememberIndex = FALSE
  Emit = FALSE
INVARIANT TOldOrNew
CHECK_DEADLOCK FALSE
