---------------------------- MODULE DpkgVersion ----------------------------
(***************************************************************************)
(* C03 -- Debian version comparison, over CODE POINTS (a version string is *)
(* a sequence of small integers), so that the same operators serve the     *)
(* bounded-exhaustive configurations (DpkgVersionMC.tla, 8-10 chosen code  *)
(* points) and trace validation of arbitrary concrete strings recorded     *)
(* from the real code (TraceDpkgVersion.tla).  Pure operators only.        *)
(*                                                                         *)
(*  1. reference:  Parse / Verrevcmp / DpkgCmp -- dpkg's algorithm          *)
(*     (lib/dpkg/version.c: order(), verrevcmp(), dpkg_version_compare()). *)
(*     Numbers are NEVER converted to integers (TLC integers are 32 bit):  *)
(*     like dpkg, a digit run is compared by skipping leading zeros, then  *)
(*     by length, then by the first differing digit.                       *)
(*  2. implementation layer, transcribed from debian_support.NativeVersion:*)
(*     ISplit (re_valid_version), Runs (re_all_digits_or_not), padding "0",*)
(*     IOrder (_order), ICmpString (_version_cmp_string), ICmpPart         *)
(*     (_version_cmp_part, int() conversion: bounded configurations only), *)
(*     ICompare (_compare), IHashKey (__hash__/_hash_key_part, 27f4a23).   *)
(*  3. Canon: the DESIGN of a hash key -- epoch as a number, each part as   *)
(*     the sequence of (non-digit run, number) pairs, a trailing ("", 0)   *)
(*     pair dropped.  HashConsistent (DpkgVersionMC) says Canon is exactly *)
(*     the kernel of DpkgCmp; HashImpl says IHashKey induces the same      *)
(*     partition.                                                          *)
(*                                                                         *)
(* Negative controls (spec level, both tried -- see harness/props/c03.py,  *)
(* which re-runs them in every check):                                     *)
(*   HashOnString   = TRUE : hash key = the raw string (the code before    *)
(*                    27f4a23) -> TLC reports HashConsistent violated      *)
(*                    (e.g. "0" vs "00").                                  *)
(*   TildeOrderZero = TRUE : _order('~') = 0 -> TLC reports Agree violated.*)
(***************************************************************************)
EXTENDS Integers, Sequences, FiniteSets, TLC

CONSTANTS HashOnString,     \* negative control, FALSE in every property configuration
          TildeOrderZero    \* negative control, FALSE in every property configuration

Tilde  == 126
Colon  == 58
Hyphen == 45
Plus   == 43
Dot    == 46
Zero   == 48

IsDigit(c) == c \in 48..57
IsAlpha(c) == c \in 65..90 \/ c \in 97..122
\* characters of an upstream version without separators / of a revision (Policy 5.6.12)
IsRevChar(c) == IsDigit(c) \/ IsAlpha(c) \/ c \in {Plus, Dot, Tilde}

Sgn(x)     == IF x < 0 THEN -1 ELSE IF x > 0 THEN 1 ELSE 0
Drop(s, n) == SubSeq(s, n + 1, Len(s))
\* index of the first / last occurrence of c in s, 0 if there is none
FirstIdx(s, c) == LET RECURSIVE F(_)
                      F(i) == IF i > Len(s) THEN 0 ELSE IF s[i] = c THEN i ELSE F(i + 1)
                  IN  F(1)
LastIdx(s, c)  == LET RECURSIVE F(_)
                      F(i) == IF i < 1 THEN 0 ELSE IF s[i] = c THEN i ELSE F(i - 1)
                  IN  F(Len(s))

(***************************************************************************)
(* Domain (DESIGN.md D2).  valid = [0-9]+: ? then a non-empty upstream     *)
(* over [A-Za-z0-9.+~] plus '-' (and ':' only if an epoch is present),     *)
(* then, if a hyphen is present, a revision over [A-Za-z0-9+.~] after the  *)
(* last hyphen.  Unspecified: the text after the last hyphen is empty or   *)
(* contains ':', or the text before it is empty.                           *)
(***************************************************************************)
Parse(s) ==
    LET i    == FirstIdx(s, Colon)
        rest == Drop(s, i)
        j    == LastIdx(rest, Hyphen)
    IN  [he |-> i > 0, e |-> SubSeq(s, 1, i - 1),            \* epoch: up to the first colon
         u  |-> IF j = 0 THEN rest ELSE SubSeq(rest, 1, j - 1),
         hr |-> j > 0, r |-> IF j = 0 THEN <<>> ELSE Drop(rest, j)]   \* revision: after the last hyphen

InDomain(s) ==
    LET p == Parse(s) IN
    /\ p.he => (p.e # <<>> /\ \A k \in 1..Len(p.e) : IsDigit(p.e[k]))
    /\ p.u # <<>>
    /\ \A k \in 1..Len(p.u) : IsRevChar(p.u[k]) \/ (p.u[k] = Hyphen /\ p.hr) \/ (p.u[k] = Colon /\ p.he)
    /\ p.hr => (p.r # <<>> /\ \A k \in 1..Len(p.r) : IsRevChar(p.r[k]))

\* D2's unspecified zone (accepted today, rejected by dpkg): the text after the last hyphen is empty
\* or contains ':', or the text before it (after a well-formed epoch) is empty
Unspec(s) ==
    LET j    == LastIdx(s, Hyphen)
        i    == FirstIdx(s, Colon)
        wfe  == i > 1 /\ i < j /\ \A k \in 1..(i - 1) : IsDigit(s[k])
        head == SubSeq(s, IF wfe THEN i + 1 ELSE 1, j - 1)
        tail == Drop(s, j)
    IN  j > 0 /\ (tail = <<>> \/ (\E k \in 1..Len(tail) : tail[k] = Colon) \/ head = <<>>)
\* a string a Version object must REFUSE (ValueError), as construction argument and as assignment
Rejected(s) == ~InDomain(s) /\ ~Unspec(s)

(***************************************************************************)
(* 1. Reference: dpkg                                                      *)
(***************************************************************************)
\* order(): '~' -> -1, digit and end of string -> 0, letter -> its code, anything else -> code + 256
Order(c)   == IF IsDigit(c) THEN 0 ELSE IF IsAlpha(c) THEN c ELSE IF c = Tilde THEN -1 ELSE c + 256
OrderAt(s) == IF s = <<>> THEN 0 ELSE Order(Head(s))
AtDigit(s)    == s # <<>> /\ IsDigit(Head(s))
AtNonDigit(s) == s # <<>> /\ ~IsDigit(Head(s))
Adv(s)        == IF s = <<>> THEN s ELSE Tail(s)

RECURSIVE SkipZeros(_), NonDigitPhase(_, _), NumPhase(_, _, _), Verrevcmp(_, _)
SkipZeros(s) == IF s # <<>> /\ Head(s) = Zero THEN SkipZeros(Tail(s)) ELSE s

\* while ((*a && !isdigit(*a)) || (*b && !isdigit(*b))) { ac = order(*a); bc = order(*b);
\*        if (ac != bc) return ac - bc; a++; b++; }             result <<difference, a, b>>
NonDigitPhase(a, b) ==
    IF AtNonDigit(a) \/ AtNonDigit(b)
    THEN IF OrderAt(a) # OrderAt(b) THEN <<OrderAt(a) - OrderAt(b), a, b>>
         ELSE NonDigitPhase(Adv(a), Adv(b))
    ELSE <<0, a, b>>

\* while (isdigit(*a) && isdigit(*b)) { if (!first_diff) first_diff = *a - *b; a++; b++; }
\* if (isdigit(*a)) return 1; if (isdigit(*b)) return -1; if (first_diff) return first_diff;
NumPhase(a, b, fd) ==
    IF AtDigit(a) /\ AtDigit(b)
    THEN NumPhase(Tail(a), Tail(b), IF fd = 0 THEN Head(a) - Head(b) ELSE fd)
    ELSE IF AtDigit(a) THEN <<1, a, b>>
    ELSE IF AtDigit(b) THEN <<-1, a, b>>
    ELSE <<fd, a, b>>

Verrevcmp(a, b) ==
    IF a = <<>> /\ b = <<>> THEN 0
    ELSE LET nd == NonDigitPhase(a, b) IN
         IF nd[1] # 0 THEN Sgn(nd[1])
         ELSE LET np == NumPhase(SkipZeros(nd[2]), SkipZeros(nd[3]), 0) IN
              IF np[1] # 0 THEN Sgn(np[1]) ELSE Verrevcmp(np[2], np[3])

\* two digit strings as numbers (no conversion): the numeric phase alone
NumCmp(x, y) == Sgn(NumPhase(SkipZeros(x), SkipZeros(y), 0)[1])

\* dpkg_version_compare on parsed versions: epoch numerically (absent = 0), upstream,
\* revision (absent = empty)
CmpParsed(pa, pb) ==
    LET ce == NumCmp(pa.e, pb.e)
        cu == Verrevcmp(pa.u, pb.u)
    IN  IF ce # 0 THEN ce ELSE IF cu # 0 THEN cu ELSE Verrevcmp(pa.r, pb.r)
DpkgCmp(a, b) == CmpParsed(Parse(a), Parse(b))

\* what the six rich comparisons and version_compare must answer for a sign
OpTable(s) == [lt |-> s < 0, le |-> s <= 0, eq |-> s = 0, ne |-> s # 0, ge |-> s >= 0, gt |-> s > 0, cmp |-> s]

(***************************************************************************)
(* 3. Canon: design of the hash key                                        *)
(***************************************************************************)
RECURSIVE RunLen(_, _), CanonPairs(_), DropTrail(_)
\* length of the maximal prefix of s whose characters are digits (dig = TRUE) / non-digits
RunLen(s, dig) == IF s = <<>> \/ IsDigit(Head(s)) # dig THEN 0 ELSE 1 + RunLen(Tail(s), dig)
CanonPairs(s) ==
    IF s = <<>> THEN <<>>
    ELSE LET n   == RunLen(s, FALSE)
             r1  == Drop(s, n)
             m   == RunLen(r1, TRUE)
         IN  << <<SubSeq(s, 1, n), SkipZeros(SubSeq(r1, 1, m))>> >> \o CanonPairs(Drop(r1, m))
DropTrail(p) == IF p # <<>> /\ p[Len(p)] = <<<<>>, <<>>>> THEN DropTrail(SubSeq(p, 1, Len(p) - 1)) ELSE p
CanonPart(s) == DropTrail(CanonPairs(s))

Canon(v) == IF HashOnString THEN <<v>>
            ELSE LET p == Parse(v) IN <<SkipZeros(p.e), CanonPart(p.u), CanonPart(p.r)>>

(***************************************************************************)
(* 2. Implementation layer: debian_support.NativeVersion                   *)
(***************************************************************************)
\* _order
IOrder(c) == IF c = Tilde THEN (IF TildeOrderZero THEN 0 ELSE -1)
             ELSE IF IsDigit(c) THEN (c - Zero) + 1
             ELSE IF IsAlpha(c) THEN c
             ELSE c + 256

RECURSIVE Runs(_), ICmpString(_, _), ICmpPart(_, _), IntValAcc(_, _), PopZeros(_)
\* re_all_digits_or_not.findall:  \d+|\D+
Runs(s) == IF s = <<>> THEN <<>>
           ELSE LET n == RunLen(s, IsDigit(Head(s))) IN <<SubSeq(s, 1, n)>> \o Runs(Drop(s, n))
\* re_digits.match(x): x starts with a digit
IsDigits(x) == x # <<>> /\ IsDigit(x[1])
\* int(x) -- only evaluated in the bounded configurations (runs of at most 9 digits)
IntValAcc(x, acc) == IF x = <<>> THEN acc ELSE IntValAcc(Tail(x), acc * 10 + (Head(x) - Zero))
IntVal(x) == IntValAcc(x, 0)

\* _version_cmp_string: lists of _order values, the shorter one padded with 0
ICmpString(x, y) ==
    IF x = <<>> /\ y = <<>> THEN 0
    ELSE LET oa == IF x = <<>> THEN 0 ELSE IOrder(Head(x))
             ob == IF y = <<>> THEN 0 ELSE IOrder(Head(y))
         IN  IF oa < ob THEN -1 ELSE IF oa > ob THEN 1 ELSE ICmpString(Adv(x), Adv(y))

\* _version_cmp_part on the two lists of runs, the shorter one padded with "0"
ICmpPart(la, lb) ==
    IF la = <<>> /\ lb = <<>> THEN 0
    ELSE LET x == IF la = <<>> THEN <<Zero>> ELSE Head(la)
             y == IF lb = <<>> THEN <<Zero>> ELSE Head(lb)
         IN  IF IsDigits(x) /\ IsDigits(y)
             THEN IF IntVal(x) < IntVal(y) THEN -1
                  ELSE IF IntVal(x) > IntVal(y) THEN 1
                  ELSE ICmpPart(Adv(la), Adv(lb))
             ELSE LET r == ICmpString(x, y) IN IF r # 0 THEN r ELSE ICmpPart(Adv(la), Adv(lb))

\* BaseVersion.re_valid_version:  ^((?P<epoch>[0-9]+):)?(?P<upstream>[A-Za-z0-9.+:~-]+?)(-(?P<rev>[A-Za-z0-9+.~]+))?\Z
\* epoch = the digits before the first colon; upstream is NON-GREEDY: the shortest non-empty
\* prefix after which the rest is empty or "-" followed by revision characters up to the end.
\* None is represented by <<>> (the code only ever uses `x or "0"`).
ISplit(s) ==
    LET i    == FirstIdx(s, Colon)
        hasE == i > 1 /\ \A k \in 1..(i - 1) : IsDigit(s[k])
        rest == IF hasE THEN Drop(s, i) ELSE s
        n    == Len(rest)
        Ok(k) == k = n \/ (rest[k + 1] = Hyphen /\ k + 2 <= n /\ \A m \in (k + 2)..n : IsRevChar(rest[m]))
        k    == CHOOSE k \in 1..n : Ok(k) /\ \A k2 \in 1..(k - 1) : ~Ok(k2)
    IN  [e |-> IF hasE THEN SubSeq(s, 1, i - 1) ELSE <<>>, u |-> SubSeq(rest, 1, k), r |-> Drop(rest, k + 1)]

OrZero(x) == IF x = <<>> THEN <<Zero>> ELSE x         \* `x or "0"`

\* NativeVersion._compare.  IPrep is what the code derives from ONE operand (attributes after
\* `or "0"`, int(epoch), findall on both parts); ICmpPrepared is the comparison proper.
IPrep(s) == LET p == ISplit(s) IN
            [e |-> IntVal(OrZero(p.e)), u |-> Runs(OrZero(p.u)), r |-> Runs(OrZero(p.r))]
ICmpPrepared(x, y) ==
    IF x.e < y.e THEN -1
    ELSE IF x.e > y.e THEN 1
    ELSE LET res == ICmpPart(x.u, y.u) IN
         IF res # 0 THEN res ELSE ICmpPart(x.r, y.r)
ICompare(a, b) == ICmpPrepared(IPrep(a), IPrep(b))

\* NativeVersion.__hash__ / _hash_key_part: runs with numbers normalised by str(int(x)),
\* trailing "0" items popped; epoch as an integer
StrInt(x)   == LET z == SkipZeros(x) IN IF z = <<>> THEN <<Zero>> ELSE z
PopZeros(k) == IF k # <<>> /\ k[Len(k)] = <<Zero>> THEN PopZeros(SubSeq(k, 1, Len(k) - 1)) ELSE k
IKeyPart(s) == LET rs == Runs(s) IN
               PopZeros([i \in 1..Len(rs) |-> IF IsDigits(rs[i]) THEN StrInt(rs[i]) ELSE rs[i]])
IHashKey(v) == IF HashOnString THEN <<v>>
               ELSE LET p == ISplit(v) IN <<StrInt(OrZero(p.e)), IKeyPart(OrZero(p.u)), IKeyPart(OrZero(p.r))>>
=============================================================================
