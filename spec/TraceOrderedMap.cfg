CONSTANTS
  Names = {}
  Spells = {}
  Values = {}
  Emit = FALSE
SPECIFICATION TSpec
INVARIANT TNamesUnique
CHECK_DEADLOCK FALSE
