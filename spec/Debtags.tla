------------------------------ MODULE Debtags ------------------------------
(***************************************************************************)
(* C20 -- the debtags database (lib/debian/debtags.py, class DB) keeps its *)
(* package->tags index (db) and its tag->packages index (rdb) mutually     *)
(* inverse in every history, and its query methods answer like a reference *)
(* relation holding the same pairs.                                        *)
(*                                                                         *)
(* Two layers:                                                             *)
(*   reference       (P, T, R):  P / T = the key sets of the two indexes   *)
(*                   (so untagged packages are representable), R \subseteq *)
(*                   P \X T the pairs.  Operators prefixed A.              *)
(*   implementation  db : P -> SUBSET names, rdb : T -> SUBSET names, the  *)
(*                   two dictionaries, every call transcribed from the     *)
(*                   code (read_tag_database_both_ways, DB.insert,         *)
(*                   reverse(), DB.choose_* / filter_* / facet_collection, *)
(*                   DB.reverse / copy / reverse_copy).  Operators         *)
(*                   prefixed I, all pure (record [db, rdb] in, record     *)
(*                   out) so that TraceDebtags.tla re-uses them.           *)
(*                                                                         *)
(* A *name* (package or tag) is a non-empty sequence of character codes;   *)
(* Colon is the code of ':' (tags are  facet::name ).  Characters matter:  *)
(* the code has the NAMED DEVIATION                                        *)
(*     InsertNewTagStoresChars:  DB.insert(pkg, tags) stores set((pkg)) -- *)
(*     the set of the CHARACTERS of pkg -- in rdb[tag] when tag is new     *)
(* (known finding C20-insert-chars; the repo's test-suite asserts it).     *)
(* The property configurations run with the deviation OFF (Inverse,        *)
(* Refines, QueriesAgree hold in the closed state space: histories of any  *)
(* length over the model names); MC_Debtags_dev.cfg switches it ON and TLC *)
(* reports Inverse violated as soon as a 2-character name is inserted      *)
(* under a new tag (spec-level negative control, tried: counterexample     *)
(* Init -> Read -> Insert(<<2,3>>, {j::h}), 731 distinct states; it is run *)
(* by every check).  A name of length 1 makes the deviation invisible      *)
(* (Chars(<<c>>) = {<<c>>}).                                               *)
(*                                                                         *)
(* Independence of copies (fix 86ec833, finding C20-shallow-copy):         *)
(* copy() / reverse_copy() promise a collection "with the tagsets copied", *)
(* i.e. INDEPENDENT of its source.  The source of the last copy is kept    *)
(* alive as a second observed object (src, reference sabs) for SrcSteps    *)
(* further calls on the derived object; `al` records which set objects of  *)
(* the current collection are the SAME Python set object as a set of the   *)
(* source (only DB.insert mutates a set in place: rdb[tag].add(pkg), and   *)
(* the sharing derivations pass set objects on).  SourceRefines /          *)
(* SourceInverse are checked for the source after every later step.        *)
(* Second spec-level negative control: ShallowCopy = TRUE (dict.copy():    *)
(* the sets are shared) makes TLC report SourceInverse violated            *)
(* (MC_Debtags_shallow.cfg: Copy, then Insert under an existing tag).      *)
(* Sources of SHARING derivations (hardening after seed C20-H):             *)
(*  - reverse() is a VIEW: it hands out the two DICTIONARY objects of the   *)
(*    original crosswise (view.db IS orig.rdb, view.rdb IS orig.db).  The   *)
(*    original is retained as a source of kind "share" with link = "rev"    *)
(*    (a reverse() of the view gives link "same"); whatever is done through *)
(*    one of the two objects (only insert mutates in place) is done to the  *)
(*    other: the source stays the reverse (the same) collection, so it      *)
(*    stays mutually inverse, whatever the sizes of the two indexes are --  *)
(*    in particular when one index is EMPTY (packages without tags).        *)
(*    Switch continues the history on the retained object and observes the  *)
(*    former current one (mutate the original, inspect the view).           *)
(*    Negative control ViewReplacesEmptyIndex (the view is built through a  *)
(*    constructor idiom `self.db = db or {}`: an EMPTY dictionary handed in *)
(*    is replaced by a fresh private one): MC_Debtags_view.cfg -> TLC       *)
(*    reports SourceInverse violated (Read untagged packages, Reverse,      *)
(*    Insert through the view).                                             *)
(*  - choose_packages / filter_packages / filter_packages_tags / filter_tags *)
(*    share SET objects with the collection they were taken from (new       *)
(*    dictionaries): the source is retained with kind "share", link "none"  *)
(*    and must stay what it was as long as no in-place mutation reaches a   *)
(*    shared set (`al` tells); when one does (insert under an existing tag  *)
(*    of a filter_tags result, or through reverse() of a choose/filter      *)
(*    result) the documented sharing makes the source lose the inverse      *)
(*    today: that outcome is UNSPECIFIED, the source is released.           *)
(*                                                                         *)
(* Failing reads: a read() whose input iterator or tag_filter raises, or a  *)
(* qread() of a truncated pickle, is part of a history too: the exception  *)
(* propagates and the object stays consistent -- unchanged, or what reading *)
(* a line prefix gives (which of them is unspecified).  ReadFails(lines,    *)
(* drop, k) / QReadFails(lines, stage) transcribe what the code does:       *)
(* read() builds both dictionaries aside and binds them in one tuple        *)
(* assignment that is never reached (unchanged).  Negative control          *)
(* NonAtomicRead (self.db bound first and filled while streaming, self.rdb  *)
(* = reverse(db) after the loop): TLC reports Inverse violated              *)
(* (MC_Debtags_nonatomic.cfg).  qread() loads both pickles and then binds   *)
(* both dictionaries at once (fix 65b1608, finding C20-qread-nonatomic);    *)
(* negative control NonAtomicQread (self.db bound before the second load):  *)
(* MC_Debtags_qread.cfg -> Inverse violated.                                *)
(* Failing inserts (hardening after seed C20-K, notes/SIZE_STRESS.md part   *)
(* 5): insert(pkg, tags) with a tag source supplied by the caller (an       *)
(* iterator / generator / iterable backed by I/O) that RAISES after handing *)
(* over the first k tags is an ordinary step of a history: an exception     *)
(* comes out and the object stays what it was (today: tags.copy() fails     *)
(* before anything is touched); a package entered consistently with a       *)
(* prefix of the tags is tolerated like a line prefix of a failed read.     *)
(* InsertFails(p, seq, k) transcribes it; negative control NonAtomicInsert  *)
(* (the tag index is updated while the caller's iterable is still being     *)
(* consumed, db[pkg] is bound afterwards): MC_Debtags_insfail.cfg -> TLC    *)
(* reports Inverse violated (Read, InsertFails with k >= 1).                *)
(*                                                                         *)
(* Re-reading: read() / qread() on an object that derivations were taken   *)
(* from replaces its content; derivations taken afterwards are derivations *)
(* of the NEW content.  rv models a reverse view remembered by the object   *)
(* (it shares the two dictionaries until read() binds new ones); negative   *)
(* control ReverseViewCached (reverse() hands back the remembered view,     *)
(* read() does not forget it): MC_Debtags_rview.cfg -> Refines violated     *)
(* (Reverse, Read, Reverse).                                                *)
(* Deprecated camelCase aliases (packageCount, tagsOfPackage, filterTags,   *)
(* reverseCopy ...) are the SAME actions and queries as the snake_case      *)
(* methods.  ab models which object an alias is bound to; negative control  *)
(* AliasBoundToFirstObject (the alias stays bound to the first DB object    *)
(* that used it): MC_Debtags_alias.cfg -> AliasQueriesAgree violated.       *)
(*                                                                         *)
(* Names are opaque sequences of code points: nothing is normalised, case-  *)
(* folded or length-limited; the binding concretizes them with non-NFC      *)
(* twins, case hazards, non-BMP characters and lengths up to 4 KiB, and     *)
(* blows single model names up to 10 000 packages / 1 000 tags a package.   *)
(*                                                                         *)
(* Configurations: MC_Debtags.cfg (closed, 3 packages x 3 tags),           *)
(* MC_Debtags_lts.cfg (same + EDGE/STATE emission), _lts_small (2 packages *)
(* x 3 tags, the LTS replayed by the quick tier), _big (4 packages),       *)
(* _src (2 packages x 3 tags with the retained source, SrcSteps = 2),      *)
(* _dev, _shallow, _nonatomic, _qread, _rview, _alias, _view, _insfail (neg. *)
(* controls).  WatchParts = TRUE (MC_Debtags_src.cfg, thorough tier) also   *)
(* retains the sources of the set-sharing restrictions; the quick            *)
(* configuration retains copies and the originals of views (27 592 states). *)
(*                                                                         *)
(* Domain (DESIGN D3 / section 5 C20): inserts use fresh package names;    *)
(* read() gets each package on one line only; facet_collection is applied  *)
(* to tags of the form facet::name; choose_packages_copy gets present      *)
(* packages.  Everything else is unspecified (TraceDebtags accepts any     *)
(* outcome there).                                                         *)
(***************************************************************************)
EXTENDS Naturals, Sequences, FiniteSets, TLC, Json

SX == INSTANCE SequencesExt      \* named: its Functions!Inverse must not clash with the invariant below
ToSet(s)    == SX!ToSet(s)
SetToSeq(S) == SX!SetToSeq(S)
SetToSeqs(S) == SX!SetToSeqs(S)

CONSTANTS PK,          \* package names offered by the model configuration
          FT,          \* full tags (facet::name) offered by the model configuration
          Colon,       \* character code of ':'
          ReadDrops,   \* tag sets offered as read(tag_filter=...): the tags the filter drops
          ReReadKeys,  \* packages used for "read() over a non-empty database" (replaces, never merges)
          InsertNewTagStoresChars,   \* the named deviation (BOOLEAN)
          NonAtomicRead,     \* negative control: read() binds self.db first, self.rdb after the loop
          NonAtomicQread,    \* negative control: qread() binds self.db before loading the second pickle
          ReverseViewCached,       \* negative control: reverse() returns a remembered view that read() does not drop
          AliasBoundToFirstObject, \* negative control: a deprecated alias stays bound to the first object that used it
          ShallowCopy, \* negative control: copy()/reverse_copy() share the set objects with the source
          ViewReplacesEmptyIndex,  \* negative control: reverse() replaces an EMPTY dictionary of the original by a private one
          WatchParts,  \* TRUE: the source of a set-sharing restriction (choose_* / filter_*) is retained as well
          SrcSteps,    \* the source of a copy stays observed for this many further calls (0: never)
          Emit         \* TRUE: print EDGE / STATE lines (the complete LTS of the reference)

VARIABLES P, T, R,     \* reference relation
          db, rdb,     \* implementation: the two dictionaries
          sabs,        \* reference relation of the retained source of the last copy
          src,         \* the retained source object [live, age, db, rdb, kind, link, sd, sr]: kind "copy" (promised
                       \* independent) / "share"; link "rev" / "same": the current object is a reverse / straight
                       \* view sharing the source's db (sd) and rdb (sr) DICTIONARY objects; "none": no dictionary shared
          al,          \* [db, rdb]: for every set of the current object the source set it IS (or NoCell)
          rv,          \* reverse view remembered by the current object [has, stale, db, rdb]
          ab           \* the object a deprecated alias is bound to [set, cur, db, rdb]

avars == <<P, T, R>>
ivars == <<db, rdb>>
vars  == <<P, T, R, db, rdb, sabs, src, al, rv, ab>>

----------------------------------------------------------------------------
\* names
Chars(n)        == {<<n[i]>> : i \in 1..Len(n)}           \* set((pkg)) in Python
ColonAt(t, i)   == t[i] = Colon /\ \A j \in 1..(i - 1) : t[j] # Colon
HasFacetForm(t) == \E i \in 2..Len(t) : ColonAt(t, i)     \* non-empty facet, then ':' ...
FacetOf(t)      == SubSeq(t, 1, (CHOOSE i \in 2..Len(t) : ColonAt(t, i)) - 1)   \* re ^([^:]+).+ -> \1

----------------------------------------------------------------------------
\* reference layer: pure operators on a = [P, T, R]
AEmpty        == [P |-> {}, T |-> {}, R |-> {}]
AUsedP(r)     == {x[1] : x \in r}
AUsedT(r)     == {x[2] : x \in r}
\* read: `lines` is a sequence of [pkgs, tags] (one text line each), `drop` the filtered-out tags
ARead(lines, drop) ==
   LET r == UNION {ln.pkgs \X (ln.tags \ drop) : ln \in ToSet(lines)}
   IN [P |-> UNION {ln.pkgs : ln \in ToSet(lines)}, T |-> AUsedT(r), R |-> r]
AInsert(a, p, S)  == [P |-> a.P \cup {p}, T |-> a.T \cup S, R |-> a.R \cup ({p} \X S)]
AReverse(a)       == [P |-> a.T, T |-> a.P, R |-> {<<x[2], x[1]>> : x \in a.R}]
\* choose_packages / filter_packages / filter_packages_tags: only tags still in use survive
ARestrictP(a, S)  == LET r == {x \in a.R : x[1] \in S} IN [P |-> a.P \cap S, T |-> AUsedT(r), R |-> r]
\* filter_tags: only packages that still have a tag survive
ARestrictT(a, S)  == LET r == {x \in a.R : x[2] \in S} IN [P |-> AUsedP(r), T |-> a.T \cap S, R |-> r]
AFacet(a)         == LET r == {<<x[1], FacetOf(x[2])>> : x \in a.R} IN [P |-> a.P, T |-> AUsedT(r), R |-> r]
AFacetDomain(a)   == \A x \in a.R : HasFacetForm(x[2])
\* queries
ATagsOf(a, n)     == {x[2] : x \in {y \in a.R : y[1] = n}}
APkgsOf(a, n)     == {x[1] : x \in {y \in a.R : y[2] = n}}
ACard(a, n)       == Cardinality(APkgsOf(a, n))
APkgCount(a)      == Cardinality(a.P)
ADiscriminance(a, n) == LET c == ACard(a, n) t == Cardinality(a.P) IN IF c <= t - c THEN c ELSE t - c   \* min(n, tot - n)
ATagCount(a)      == Cardinality(a.T)
AHasPkg(a, n)     == n \in a.P
AHasTag(a, n)     == n \in a.T

----------------------------------------------------------------------------
\* implementation layer: pure operators on st = [db, rdb], transcribed from debtags.py
NoDict    == <<>>                                          \* {}
IEmpty    == [db |-> NoDict, rdb |-> NoDict]
\* reverse(db): for pkg, tags in db.items(): for tag in tags: res.setdefault(tag, set()).add(pkg)
RevFn(d)  == LET ks == UNION {d[k] : k \in DOMAIN d} IN [t \in ks |-> {k \in DOMAIN d : t \in d[k]}]

\* read_tag_database_both_ways, one loop iteration per line
RECURSIVE IReadFrom(_, _, _, _)
IReadFrom(lines, i, drop, st) ==
   IF i > Len(lines) THEN st
   ELSE LET pk == lines[i].pkgs
            tg == lines[i].tags \ drop                     \* set(filter(tag_filter, tags))
            d1 == [k \in DOMAIN st.db \cup pk |-> IF k \in pk THEN tg ELSE st.db[k]]        \* db[pkg] = tags.copy()
            r1 == [t \in DOMAIN st.rdb \cup tg |->
                      IF t \in tg THEN (IF t \in DOMAIN st.rdb THEN st.rdb[t] \cup pk      \* dbr[tag] |= pkgs
                                        ELSE pk)                                            \* dbr[tag] = pkgs.copy()
                      ELSE st.rdb[t]]
        IN IReadFrom(lines, i + 1, drop, [db |-> d1, rdb |-> r1])
IRead(lines, drop) == IReadFrom(lines, 1, drop, IEmpty)    \* self.db, self.rdb = ... (replaces)
\* the same result without recursion, for inputs naming every package on one line only (the domain);
\* used by trace validation (long inputs), equality with the loop is asserted in every Read step
IReadClosed(lines, drop) ==
   LET idx == 1..Len(lines)
       pk  == UNION {lines[i].pkgs : i \in idx}
       tg  == UNION {lines[i].tags \ drop : i \in idx}
   IN [db  |-> [k \in pk |-> lines[CHOOSE i \in idx : k \in lines[i].pkgs].tags \ drop],
       rdb |-> [t \in tg |-> UNION {lines[i].pkgs : i \in {j \in idx : t \in lines[j].tags}}]]

\* a read() that raises after k complete lines (the input raises, or tag_filter raises while line k+1
\* is filtered): the tuple assignment is never reached and the object is unchanged.
\* nonatomic (negative control): db = self.db = {} is bound first and filled while streaming,
\* self.rdb = reverse(db) is only reached after the loop
IReadFails(st, lines, drop, k, nonatomic) ==
   IF nonatomic THEN [db |-> IRead(SubSeq(lines, 1, k), drop).db, rdb |-> st.rdb] ELSE st
\* qread(file) failing while the 1st (stage 0) / the 2nd (stage 1) pickle is loaded; new = the pickled
\* collection.  dbfirst: self.db = pickle.load(file) is already bound when the second load raises
IQReadFails(st, new, stage, dbfirst) ==
   IF dbfirst /\ stage = 1 THEN [db |-> new.db, rdb |-> st.rdb] ELSE st
\* what a failed read may leave behind: the old collection or a consistent prefix collection
IReadFailsAllowed(st, lines, drop, k) == {st} \cup {IReadClosed(SubSeq(lines, 1, j), drop) : j \in 0..k}
AReadFailsAllowed(a, lines, drop, k)  == {a} \cup {ARead(SubSeq(lines, 1, j), drop) : j \in 0..k}

\* DB.insert(pkg, tags); dev = TRUE is what the code does today for a new tag: set((pkg))
IInsert(st, p, S, dev) ==
   [db  |-> [k \in DOMAIN st.db \cup {p} |-> IF k = p THEN S ELSE st.db[k]],
    rdb |-> [t \in DOMAIN st.rdb \cup S |->
                IF t \in S THEN (IF t \in DOMAIN st.rdb THEN st.rdb[t] \cup {p}
                                 ELSE IF dev THEN Chars(p) ELSE {p})
                ELSE st.rdb[t]]]
\* insert(pkg, source) where the caller's tag source hands over seq[1..k] and then RAISES: tags.copy()
\* (or building the new tag set) fails before either dictionary is touched -- the object is unchanged.
\* nonatomic (negative control NonAtomicInsert): rdb is updated tag by tag while the source is still
\* being consumed, db[pkg] is only bound after the loop (never reached)
NonAtomicInsert == FALSE          \* a cfg may override it (MC_Debtags_insfail.cfg: NonAtomicInsert <- MC_True)
MC_True == TRUE
IInsertFails(st, p, seq, k, nonatomic) ==
   IF nonatomic THEN [db |-> st.db, rdb |-> IInsert(st, p, ToSet(SubSeq(seq, 1, k)), FALSE).rdb] ELSE st
\* what a failed insert may leave behind: the old collection, or the package entered consistently with a
\* prefix of the tags that were handed over (dev: with today's set((pkg)) for a new tag)
IInsertFailsAllowed(st, p, seq, k, dev) ==
   {st} \cup {IInsert(st, p, ToSet(SubSeq(seq, 1, j)), FALSE) : j \in 0..k}
        \cup (IF dev THEN {IInsert(st, p, ToSet(SubSeq(seq, 1, j)), TRUE) : j \in 0..k} ELSE {})
AInsertFailsAllowed(a, p, seq, k) == {a} \cup {AInsert(a, p, ToSet(SubSeq(seq, 1, j))) : j \in 0..k}
IReverse(st)     == [db |-> st.rdb, rdb |-> st.db]
ICopy(st)        == [db |-> [k \in DOMAIN st.db |-> st.db[k]], rdb |-> [t \in DOMAIN st.rdb |-> st.rdb[t]]]
\* dump() / output(db) printed and read() again: the tag index is rebuilt from the package index;
\* dump_reverse() printed and read() again: the reverse collection rebuilt from the tag index
IDumpRead(st)        == [db |-> st.db,  rdb |-> RevFn(st.db)]
IDumpReverseRead(st) == [db |-> st.rdb, rdb |-> RevFn(st.rdb)]
IReverseCopy(st) == [db |-> [t \in DOMAIN st.rdb |-> st.rdb[t]], rdb |-> [k \in DOMAIN st.db |-> st.db[k]]]
\* choose_packages(S): `if pkg in self.db`;  choose_packages_copy(S): no test (domain: S present)
IChoose(st, S)     == LET d == [k \in {x \in S : x \in DOMAIN st.db} |-> st.db[k]] IN [db |-> d, rdb |-> RevFn(d)]
IChooseCopy(st, S) == LET d == [k \in S |-> st.db[k]] IN [db |-> d, rdb |-> RevFn(d)]
\* filter_packages(_copy)(f) / filter_packages_tags(_copy)(f): S = the keys (items) the filter accepts
IFilterP(st, S)    == LET d == [k \in {x \in DOMAIN st.db : x \in S} |-> st.db[k]] IN [db |-> d, rdb |-> RevFn(d)]
IFilterPT(st, S)   == LET d == [k \in {x \in DOMAIN st.db : x \in S} |-> st.db[k]] IN [db |-> d, rdb |-> RevFn(d)]
\* filter_tags(_copy)(f)
IFilterT(st, S)    == LET r == [t \in {x \in DOMAIN st.rdb : x \in S} |-> st.rdb[t]] IN [db |-> RevFn(r), rdb |-> r]
\* facet_collection: fcoll.insert(pkg, {facet(t) : t in tags}) for the packages in dictionary order
RECURSIVE IFacetFrom(_, _, _, _, _)
IFacetFrom(st, order, i, dev, acc) ==
   IF i > Len(order) THEN acc
   ELSE IFacetFrom(st, order, i + 1, dev,
                   IInsert(acc, order[i], {FacetOf(t) : t \in st.db[order[i]]}, dev))
IFacet(st, order, dev) == IFacetFrom(st, order, 1, dev, IEmpty)
\* without the deviation the order does not matter; the same result without recursion (trace validation)
IFacetClosed(st) ==
   LET ft(p) == {FacetOf(t) : t \in st.db[p]}
       fs    == UNION {ft(p) : p \in DOMAIN st.db}
   IN [db |-> [p \in DOMAIN st.db |-> ft(p)], rdb |-> [f \in fs |-> {p \in DOMAIN st.db : f \in ft(p)}]]
\* with the deviation the result depends on the dictionary order only through "which package
\* brought facet f first"; o is explained iff for every facet some first package explains it
IFacetDevExplains(st, o) ==
   LET ft(p) == {FacetOf(t) : t \in st.db[p]}
       fs    == UNION {ft(p) : p \in DOMAIN st.db}
       W(f)  == {p \in DOMAIN st.db : f \in ft(p)}
   IN /\ o.db = [p \in DOMAIN st.db |-> ft(p)]
      /\ DOMAIN o.rdb = fs
      /\ \A f \in fs : \E q \in W(f) : o.rdb[f] = Chars(q) \cup (W(f) \ {q})
IFacetDomain(st) == \A p \in DOMAIN st.db : \A t \in st.db[p] : HasFacetForm(t)
\* queries
ITagsOf(st, n)   == IF n \in DOMAIN st.db THEN st.db[n] ELSE {}
IPkgsOf(st, n)   == IF n \in DOMAIN st.rdb THEN st.rdb[n] ELSE {}
ICard(st, n)     == IF n \in DOMAIN st.rdb THEN Cardinality(st.rdb[n]) ELSE 0
IPkgCount(st)    == Cardinality(DOMAIN st.db)
IDiscriminance(st, n) == LET c == ICard(st, n) t == Cardinality(DOMAIN st.db) IN IF c <= t - c THEN c ELSE t - c
ITagCount(st)    == Cardinality(DOMAIN st.rdb)
IHasPkg(st, n)   == n \in DOMAIN st.db
IHasTag(st, n)   == n \in DOMAIN st.rdb

\* ---- identity of set objects: which sets of the current object are shared with the retained
\* source of the last copy()/reverse_copy().  A cell is <<"db", key>> / <<"rdb", key>> of the source.
NoCell      == <<>>
NoSrc       == [live |-> FALSE, age |-> 0, db |-> NoDict, rdb |-> NoDict, kind |-> "copy", link |-> "none", sd |-> FALSE, sr |-> FALSE]
Unlinked(s) == [s EXCEPT !.link = "none", !.sd = FALSE, !.sr = FALSE]
FlipLink(l) == IF l = "rev" THEN "same" ELSE IF l = "same" THEN "rev" ELSE "none"
NoAlias(st) == [db |-> [k \in DOMAIN st.db |-> NoCell], rdb |-> [t \in DOMAIN st.rdb |-> NoCell]]
\* insert: db[pkg] = tags.copy() is a new set; rdb[tag] of an existing tag is MUTATED (stays the
\* same object); rdb[tag] of a new tag is a new set
LInsert(a, st, p, S) ==
   [db  |-> [k \in DOMAIN st.db \cup {p} |-> IF k = p THEN NoCell ELSE a.db[k]],
    rdb |-> [t \in DOMAIN st.rdb \cup S |-> IF t \in DOMAIN st.rdb THEN a.rdb[t] ELSE NoCell]]
\* ... and what that in-place mutation does to the source when the set is shared with it
SrcInsert(s, a, st, p, S) ==
   LET hit(c) == \E t \in S \cap DOMAIN st.rdb : a.rdb[t] = c
   IN [s EXCEPT !.db  = [k \in DOMAIN s.db  |-> IF hit(<<"db", k>>)  THEN s.db[k]  \cup {p} ELSE s.db[k]],
                !.rdb = [t \in DOMAIN s.rdb |-> IF hit(<<"rdb", t>>) THEN s.rdb[t] \cup {p} ELSE s.rdb[t]]]
LReverse(a)  == [db |-> a.rdb, rdb |-> a.db]               \* reverse(): the very same dictionaries
\* copy(): {k: v.copy()} -- or, shallow, dict.copy(): new dictionaries holding the source's sets
LCopy(st, shallow) ==
   IF shallow THEN [db |-> [k \in DOMAIN st.db |-> <<"db", k>>], rdb |-> [t \in DOMAIN st.rdb |-> <<"rdb", t>>]]
   ELSE NoAlias(st)
LReverseCopy(st, shallow) ==
   IF shallow THEN [db |-> [t \in DOMAIN st.rdb |-> <<"rdb", t>>], rdb |-> [k \in DOMAIN st.db |-> <<"db", k>>]]
   ELSE NoAlias(IReverse(st))
\* choose_packages(_copy) / filter_packages / filter_packages_tags: db[pkg] = self.db[pkg] (share = TRUE),
\* the _copy filters: self.db[pkg].copy(); rdb = reverse(db) is always new.  st2 = the result
LRestrictDb(a, st2, share)  == [db  |-> [k \in DOMAIN st2.db |-> IF share THEN a.db[k] ELSE NoCell],
                                rdb |-> [t \in DOMAIN st2.rdb |-> NoCell]]
LRestrictRdb(a, st2, share) == [db  |-> [k \in DOMAIN st2.db |-> NoCell],
                                rdb |-> [t \in DOMAIN st2.rdb |-> IF share THEN a.rdb[t] ELSE NoCell]]
CellOf(s, c) == IF c[1] = "db" THEN s.db[c[2]] ELSE s.rdb[c[2]]
\* a sharing restriction taken from an object that becomes the retained source itself
LOwnRestrictDb(st2, share)  == [db  |-> [k \in DOMAIN st2.db |-> IF share THEN <<"db", k>> ELSE NoCell],
                                rdb |-> [t \in DOMAIN st2.rdb |-> NoCell]]
LOwnRestrictRdb(st2, share) == [db  |-> [k \in DOMAIN st2.db |-> NoCell],
                                rdb |-> [t \in DOMAIN st2.rdb |-> IF share THEN <<"rdb", t>> ELSE NoCell]]
\* ---- views: dictionary objects shared with the retained source s.  Which dictionary of s the
\* db / rdb dictionary of the current object IS (or "" when it is a private one)
CurDbIs(s)  == IF s.link = "rev" THEN (IF s.sr THEN "rdb" ELSE "") ELSE IF s.link = "same" THEN (IF s.sd THEN "db" ELSE "") ELSE ""
CurRdbIs(s) == IF s.link = "rev" THEN (IF s.sd THEN "db" ELSE "") ELSE IF s.link = "same" THEN (IF s.sr THEN "rdb" ELSE "") ELSE ""
\* every set in a shared dictionary is a set of the source: identities of the sets of st2
ViewAl(a2, st2, s) ==
   [db  |-> [k \in DOMAIN st2.db  |-> IF s.live /\ CurDbIs(s)  # "" THEN <<CurDbIs(s), k>>  ELSE a2.db[k]],
    rdb |-> [t \in DOMAIN st2.rdb |-> IF s.live /\ CurRdbIs(s) # "" THEN <<CurRdbIs(s), t>> ELSE a2.rdb[t]]]
\* the source after the current object was changed in place to st2: a shared dictionary has ONE value
Mirror(s, st2) ==
   IF ~s.live \/ s.link = "none" THEN s
   ELSE [s EXCEPT !.db  = IF ~s.sd THEN s.db  ELSE IF s.link = "rev" THEN st2.rdb ELSE st2.db,
                  !.rdb = IF ~s.sr THEN s.rdb ELSE IF s.link = "rev" THEN st2.db  ELSE st2.rdb]
\* the reference relation the source of a view must show when the current object shows a
ViewAbs(s, a, old) == IF s.live /\ s.link = "rev" THEN AReverse(a) ELSE IF s.live /\ s.link = "same" THEN a ELSE old

\* the two indexes as pair sets, and the abstraction function
PairsDb(st)  == UNION {{<<p, t>> : t \in st.db[p]} : p \in DOMAIN st.db}
PairsRdb(st) == UNION {{<<p, t>> : p \in st.rdb[t]} : t \in DOMAIN st.rdb}
InverseOf(st) == PairsDb(st) = PairsRdb(st)
AbsOf(st)     == [P |-> DOMAIN st.db, T |-> DOMAIN st.rdb, R |-> PairsDb(st)]

----------------------------------------------------------------------------
\* the state machine: every action = reference action /\ implementation action
Abs  == [P |-> P, T |-> T, R |-> R]
Impl == [db |-> db, rdb |-> rdb]
SetAbs(a)   == P' = a.P /\ T' = a.T /\ R' = a.R
SetImpl(st) == db' = st.db /\ rdb' = st.rdb
AbsNext     == [P |-> P', T |-> T', R |-> R']

Edge(op, a, s, lines) ==
   Emit => PrintT(<<"EDGE", ToJson([from |-> Abs, op |-> op, a |-> a, s |-> s, lines |-> lines, to |-> AbsNext])>>)

Dev == InsertNewTagStoresChars

NoView  == [has |-> FALSE, stale |-> FALSE, db |-> NoDict, rdb |-> NoDict]
NoBound == [set |-> FALSE, cur |-> FALSE, db |-> NoDict, rdb |-> NoDict]

Init == /\ P = {} /\ T = {} /\ R = {} /\ db = NoDict /\ rdb = NoDict
        /\ sabs = AEmpty /\ src = NoSrc /\ al = NoAlias(IEmpty) /\ rv = NoView /\ ab = NoBound

\* a call that is not a copy: s = the source after the effects of the call, a2 = the identities of
\* the sets of the new current object st2; the source is released SrcSteps calls after the copy
Release(st2) == src' = NoSrc /\ al' = NoAlias(st2) /\ sabs' = AEmpty
KeepSrcA(s, a2, st2, sa) ==
   IF s.live /\ s.age < SrcSteps
   THEN src' = [s EXCEPT !.age = s.age + 1] /\ al' = a2 /\ sabs' = sa
   ELSE Release(st2)
KeepSrc(s, a2, st2) == KeepSrcA(s, a2, st2, sabs)
\* copy()/reverse_copy()/pickle: the object copied (st) becomes the retained source
Retain(st, a2, st2) ==
   IF SrcSteps > 0
   THEN src' = [NoSrc EXCEPT !.live = TRUE, !.db = st.db, !.rdb = st.rdb] /\ sabs' = Abs /\ al' = a2
   ELSE Release(st2)
\* a sharing derivation st2 of the object st: st becomes the retained source (kind "share");
\* lnk = "rev" for reverse() -- the dictionaries themselves are handed out, unless the negative
\* control replaces an empty one -- "none" for the restrictions (set objects shared as a2 says)
RetainShared(st, lnk, a2, st2) ==
   IF SrcSteps > 0
   THEN LET s == [NoSrc EXCEPT !.live = TRUE, !.db = st.db, !.rdb = st.rdb, !.kind = "share", !.link = lnk,
                               !.sd = lnk # "none" /\ ~(ViewReplacesEmptyIndex /\ DOMAIN st.db = {}),
                               !.sr = lnk # "none" /\ ~(ViewReplacesEmptyIndex /\ DOMAIN st.rdb = {})]
        IN src' = s /\ sabs' = Abs /\ al' = ViewAl(a2, st2, s)
   ELSE Release(st2)
\* a new object derived from the current one while a source is watched: no dictionary is shared
\* any more (set objects may be: a2); a source that was viewed stays of kind "share"
KeepDerived(a2, st2) == KeepSrc(Unlinked(src), a2, st2)

\* ---- object identity for the two negative controls (both variables stay constant when the
\* controls are off).  Deprecated aliases are used on the current object after every call.
\* a call on the SAME object; how = "read": self.db / self.rdb are bound to new dictionaries (a
\* remembered reverse view keeps the old ones), "qread": the same and the view is forgotten,
\* "mutate": the dictionaries are changed in place (a remembered view shares them)
SameObject(how) ==
   /\ ab' = IF AliasBoundToFirstObject /\ ~ab.set THEN [NoBound EXCEPT !.set = TRUE, !.cur = TRUE] ELSE ab
   /\ rv' = IF how = "qread" THEN NoView
            ELSE IF how = "read" /\ rv.has /\ ~rv.stale THEN [has |-> TRUE, stale |-> TRUE, db |-> rdb, rdb |-> db]
            ELSE rv
\* the current object is replaced by a new one which remembers the view `view`
NewObject(view) ==
   /\ ab' = IF ~AliasBoundToFirstObject THEN NoBound
            ELSE IF ~ab.set THEN [NoBound EXCEPT !.set = TRUE, !.cur = TRUE]
            ELSE IF ab.cur THEN [set |-> TRUE, cur |-> FALSE, db |-> db, rdb |-> rdb]     \* stays with the old object
            ELSE ab
   /\ rv' = view
\* the object the alias methods answer for
AliasTarget == IF ab.set /\ ~ab.cur THEN [db |-> ab.db, rdb |-> ab.rdb] ELSE [db |-> db, rdb |-> rdb]

\* An EDGE is printed once per reference transition; where several methods of DB implement the
\* same reference transition (`variants`), each of them is a disjunct of the implementation
\* layer, so Refines is checked for every one of them and the harness may call any of them.
\* read(lines, tag_filter) / qread(pickle of that collection) -- also over a non-empty object (re-read)
Read(lines, drop) == /\ SetAbs(ARead(lines, drop))
                     /\ Edge("read", <<>>, drop, lines)
                     /\ LET st2 == IRead(lines, drop) IN SetImpl(st2) /\ KeepDerived(NoAlias(st2), st2)    \* new dictionaries are bound
                     /\ Assert(IRead(lines, drop) = IReadClosed(lines, drop), "IReadClosed differs from the transcribed loop")
                     /\ (SameObject("read") \/ (drop = {} /\ SameObject("qread")))
Insert(p, S)      == /\ p \notin P
                     /\ SetAbs(AInsert(Abs, p, S))
                     /\ Edge("insert", p, S, <<>>)
                     /\ LET st2 == IInsert(Impl, p, S, Dev)
                            \* an in-place mutation reaches a set shared with a source of a partially sharing derivation
                            hit == src.live /\ src.kind = "share" /\ src.link = "none"
                                      /\ \E t \in S \cap DOMAIN rdb : al.rdb[t] # NoCell
                        IN /\ SetImpl(st2)
                           /\ IF hit THEN Release(st2)                   \* unspecified: the source is not looked at any more
                              ELSE KeepSrcA(Mirror(SrcInsert(src, al, Impl, p, S), st2),
                                            ViewAl(LInsert(al, Impl, p, S), st2, src), st2,
                                            ViewAbs(src, AInsert(Abs, p, S), sabs))
                     /\ SameObject("mutate")
\* reverse() / reverse_copy().  reverse() is a view on the same two dictionaries; with
\* ReverseViewCached it is remembered (and remembers its origin), and a stale one is handed back
Reverse           == /\ SetAbs(AReverse(Abs))
                     /\ Edge("reverse", <<>>, {}, <<>>)
                     /\ \/ IF ReverseViewCached /\ rv.has /\ rv.stale
                           THEN LET st2 == [db |-> rv.db, rdb |-> rv.rdb]
                                IN /\ SetImpl(st2) /\ KeepDerived(NoAlias(st2), st2)
                                   /\ NewObject([has |-> TRUE, stale |-> TRUE, db |-> db, rdb |-> rdb])
                           ELSE /\ SetImpl(IReverse(Impl))
                                \* a view of a view shares the same dictionaries the other way round; the view of an
                                \* unwatched object makes that object the retained source
                                /\ IF src.live THEN KeepSrc([src EXCEPT !.link = FlipLink(src.link)], LReverse(al), IReverse(Impl))
                                   ELSE RetainShared(Impl, "rev", LReverse(NoAlias(Impl)), IReverse(Impl))
                                /\ NewObject(IF ReverseViewCached THEN [NoView EXCEPT !.has = TRUE] ELSE NoView)
                        \/ /\ SetImpl(IReverseCopy(Impl))
                           /\ Retain(Impl, LReverseCopy(Impl, ShallowCopy), IReverseCopy(Impl))
                           /\ NewObject(NoView)

\* copy() / qwrite() + qread() into a new DB / pickle or deepcopy of the object (never share)
Copy              == /\ SetAbs(Abs)
                     /\ Edge("copy", <<>>, {}, <<>>)
                     /\ SetImpl(ICopy(Impl))
                     /\ (Retain(Impl, LCopy(Impl, ShallowCopy), ICopy(Impl)) \/ Retain(Impl, NoAlias(Impl), ICopy(Impl)))
                     /\ NewObject(NoView)
\* the text printed by dump() / output(db) -- or by dump_reverse() -- read into a new DB: the text
\* format has one line per key of the printed index, so keys of the OTHER index that occur in no
\* pair (a tag without packages / an untagged package of the reversed view) are not written
DumpRead          == /\ SetAbs([P |-> P, T |-> AUsedT(R), R |-> R])
                     /\ Edge("dumpread", <<>>, {}, <<>>)
                     /\ SetImpl(IDumpRead(Impl)) /\ Retain(Impl, NoAlias(IDumpRead(Impl)), IDumpRead(Impl))
                     /\ NewObject(NoView)
DumpReverseRead   == /\ SetAbs([P |-> T, T |-> AUsedP(R), R |-> AReverse(Abs).R])
                     /\ Edge("dumprevread", <<>>, {}, <<>>)
                     /\ SetImpl(IDumpReverseRead(Impl)) /\ Retain(Impl, NoAlias(IDumpReverseRead(Impl)), IDumpReverseRead(Impl))
                     /\ NewObject(NoView)
\* choose_packages(S \cup X) with X absent names / choose_packages_copy(S) /
\* filter_packages(_copy)(in S) / filter_packages_tags(_copy)(item key in S),   S \subseteq P
RestrictPackages(S, X) ==
                     /\ S \subseteq P /\ X \cap P = {}
                     /\ SetAbs(ARestrictP(Abs, S))
                     /\ Edge("restrict_p", <<>>, S, <<>>)
                     /\ \E st2 \in {IChoose(Impl, S), IChoose(Impl, S \cup X), IChooseCopy(Impl, S),
                                    IFilterP(Impl, S), IFilterPT(Impl, S)} :
                           /\ SetImpl(st2)
                           /\ \E share \in BOOLEAN :
                                 IF src.live THEN KeepDerived(LRestrictDb(al, st2, share), st2)
                                 ELSE IF ~WatchParts THEN Release(st2)
                                 ELSE IF share THEN RetainShared(Impl, "none", LOwnRestrictDb(st2, TRUE), st2)
                                 ELSE Release(st2)      \* the _copy forms: nothing shared (watched by the trace module only)
                     /\ NewObject(NoView)
\* filter_tags(_copy)(in S)
FilterTags(S)     == /\ SetAbs(ARestrictT(Abs, S))
                     /\ Edge("filter_t", <<>>, S, <<>>)
                     /\ LET st2 == IFilterT(Impl, S)
                        IN SetImpl(st2) /\ \E share \in BOOLEAN :
                              IF src.live THEN KeepDerived(LRestrictRdb(al, st2, share), st2)
                              ELSE IF ~WatchParts THEN Release(st2)
                              ELSE IF share THEN RetainShared(Impl, "none", LOwnRestrictRdb(st2, TRUE), st2)
                              ELSE Release(st2)
                     /\ NewObject(NoView)
\* the reference outcome of a failed read: the exception propagates and the object is one of the
\* allowed consistent collections; if the implementation leaves anything else the reference
\* stays where it was and Refines / Inverse fail
AfterFailure(st2, allowed) == IF InverseOf(st2) /\ AbsOf(st2) \in allowed THEN AbsOf(st2) ELSE Abs
EdgeF(op, lines, k, allowed) ==
   Emit => PrintT(<<"EDGE", ToJson([from |-> Abs, op |-> op, a |-> <<>>, s |-> {}, lines |-> lines, k |-> k,
                                     allowed |-> allowed, to |-> AbsNext])>>)
ReadFails(lines, drop, k) ==
   LET st2     == IReadFails(Impl, lines, drop, k, NonAtomicRead)
       allowed == AReadFailsAllowed(Abs, lines, drop, k)
   IN /\ SetAbs(AfterFailure(st2, allowed))
      /\ EdgeF("read_fails", lines, k, allowed)
      /\ SetImpl(st2)
      /\ (IF st2 = Impl THEN KeepSrc(src, al, st2) ELSE KeepDerived([db |-> NoAlias(st2).db, rdb |-> al.rdb], st2))
      /\ SameObject("mutate")
QReadFails(lines, stage) ==
   LET new     == IRead(lines, {})
       st2     == IQReadFails(Impl, new, stage, NonAtomicQread)
       allowed == {Abs, ARead(lines, {})}
   IN /\ SetAbs(AfterFailure(st2, allowed))
      /\ EdgeF("qread_fails", lines, stage, allowed)
      /\ SetImpl(st2)
      /\ (IF st2 = Impl THEN KeepSrc(src, al, st2) ELSE KeepDerived([db |-> NoAlias(st2).db, rdb |-> al.rdb], st2))
      /\ SameObject("mutate")
\* insert(p, source) whose source raises after handing over seq[1..k] (k = Len(seq): at the very end)
InsertFails(p, seq, k) ==
   LET st2     == IInsertFails(Impl, p, seq, k, NonAtomicInsert)
       allowed == AInsertFailsAllowed(Abs, p, seq, k)
   IN /\ p \notin P
      /\ SetAbs(AfterFailure(st2, allowed))
      /\ (Emit => PrintT(<<"EDGE", ToJson([from |-> Abs, op |-> "insert_fails", a |-> p, s |-> ToSet(seq), lines |-> <<>>,
                                            seq |-> seq, k |-> k, allowed |-> allowed, to |-> AbsNext])>>))
      /\ SetImpl(st2)
      /\ (IF st2 = Impl THEN KeepSrc(src, al, st2) ELSE Release(st2))
      /\ SameObject("mutate")
FacetCollection   == /\ AFacetDomain(Abs)
                     /\ SetAbs(AFacet(Abs))
                     /\ Edge("facet", <<>>, {}, <<>>)
                     /\ \E order \in (IF Dev THEN SetToSeqs(DOMAIN db) ELSE {SetToSeq(DOMAIN db)}) :
                           LET st2 == IFacet(Impl, order, Dev) IN SetImpl(st2) /\ KeepDerived(NoAlias(st2), st2)
                     /\ NewObject(NoView)

\* the history continues on the retained source of a view (the ORIGINAL is used again after its
\* reverse() view was edited, or the other way round); the former current object becomes the
\* watched one.  Not a transition of the reference on its own: with link "rev" it is the reference
\* transition of reverse(), with link "same" a stuttering step (the harness concretizes a reverse
\* edge of the LTS as "go back to the original")
Switch            == /\ src.live /\ src.link # "none" /\ src.age < SrcSteps
                     /\ SetAbs(sabs) /\ SetImpl([db |-> src.db, rdb |-> src.rdb])
                     /\ LET s == [src EXCEPT !.db = db, !.rdb = rdb, !.age = src.age + 1,
                                             !.sd = IF src.link = "rev" THEN src.sr ELSE src.sd,
                                             !.sr = IF src.link = "rev" THEN src.sd ELSE src.sr]
                            st2 == [db |-> src.db, rdb |-> src.rdb]
                        IN src' = s /\ sabs' = Abs /\ al' = ViewAl(NoAlias(st2), st2, s)
                     /\ NewObject(NoView)

\* ---- bounded choice of arguments for the closed configurations
FC        == {FacetOf(t) : t \in FT}                      \* the facets of the model tags
TagNames  == FT \cup FC
Flipped   == (P \cup T # {}) /\ P \subseteq TagNames /\ T \subseteq PK     \* after reverse(): keys are tags
KeyPool   == IF Flipped THEN (IF P \cap FC # {} THEN FC ELSE FT) ELSE PK     \* names usable as new db keys
ValPool   == IF Flipped THEN PK ELSE (IF T \cap FC # {} THEN FC ELSE FT)     \* names usable in inserted tag sets
\* one text line per distinct tag set, packages with the same tags share the line
LinesOf(c) == LET vals == {c[k] : k \in DOMAIN c}
              IN SetToSeq({[pkgs |-> {k \in DOMAIN c : c[k] = v}, tags |-> v] : v \in vals})
Pristine  == P = {} /\ T = {}

ReReadTag == CHOOSE t \in FT : TRUE
\* the two-line input of the failing reads: "k: t" and "k2: t2" (other package, other tag)
FailLines == <<[pkgs |-> ReReadKeys, tags |-> {ReReadTag}],
               [pkgs |-> {CHOOSE p \in PK \ ReReadKeys : TRUE}, tags |-> {CHOOSE t \in FT \ {ReReadTag} : TRUE}]>>
\* the tag source of the failing inserts: every name usable as a tag here (known and new ones), fixed order
FailTags == SetToSeq(ValPool)
Next == \/ \E K \in SUBSET PK : \E c \in [K -> SUBSET FT] :
              \/ Pristine /\ \E d \in ReadDrops : Read(LinesOf(c), d)
              \/ ~Pristine /\ K = ReReadKeys /\ (\A k \in K : c[k] = {ReReadTag}) /\ Read(LinesOf(c), {})
        \/ \E p \in KeyPool \ P : \E S \in SUBSET ValPool : Insert(p, S)
        \/ Reverse \/ Copy \/ DumpRead \/ DumpReverseRead \/ Switch
        \/ \E S \in SUBSET P : RestrictPackages(S, KeyPool \ P)
        \/ \E S \in SUBSET T : FilterTags(S)
        \/ FacetCollection
        \/ \E k \in 0..Len(FailLines) : ReadFails(FailLines, {}, k)
        \/ \E stage \in {0, 1} : QReadFails(FailLines, stage)
        \/ KeyPool \ P # {} /\ \E k \in 0..Len(FailTags) : InsertFails(CHOOSE p \in KeyPool \ P : TRUE, FailTags, k)

Spec == Init /\ [][Next]_vars

----------------------------------------------------------------------------
\* what TLC checks in every reachable state
TypeOK       == R \subseteq P \X T
Inverse      == InverseOf(Impl)                 \* listed under a tag exactly when the tag is listed for the package
InverseWeak  == \A p \in DOMAIN db, t \in DOMAIN rdb : (t \in db[p]) <=> (p \in rdb[t])    \* DESIGN appendix B
Refines      == AbsOf(Impl) = Abs /\ Inverse
AllNames     == PK \cup TagNames
QueriesAgree == /\ IPkgCount(Impl) = APkgCount(Abs) /\ ITagCount(Impl) = ATagCount(Abs)
                /\ \A n \in AllNames : /\ ITagsOf(Impl, n) = ATagsOf(Abs, n)
                                       /\ IPkgsOf(Impl, n) = APkgsOf(Abs, n)
                                       /\ ICard(Impl, n) = ACard(Abs, n)
                                       /\ IDiscriminance(Impl, n) = ADiscriminance(Abs, n)
                                       /\ IHasPkg(Impl, n) = AHasPkg(Abs, n)
                                       /\ IHasTag(Impl, n) = AHasTag(Abs, n)
\* the deprecated aliases answer for the object they are called on
AliasQueriesAgree ==
   /\ IPkgCount(AliasTarget) = APkgCount(Abs) /\ ITagCount(AliasTarget) = ATagCount(Abs)
   /\ \A n \in AllNames : /\ ITagsOf(AliasTarget, n) = ATagsOf(Abs, n)
                          /\ IPkgsOf(AliasTarget, n) = APkgsOf(Abs, n)
                          /\ IHasPkg(AliasTarget, n) = AHasPkg(Abs, n)
                          /\ IHasTag(AliasTarget, n) = AHasTag(Abs, n)
\* the retained source of a copy is untouched by everything done to the copy and its derivations
SourceInverse == src.live => InverseOf(src)
SourceRefines == src.live => (AbsOf(src) = sabs /\ InverseOf(src))
\* a shared set object has one value
AliasOK      == /\ \A k \in DOMAIN db  : al.db[k]  # NoCell => (src.live /\ CellOf(src, al.db[k])  = db[k])
                /\ \A t \in DOMAIN rdb : al.rdb[t] # NoCell => (src.live /\ CellOf(src, al.rdb[t]) = rdb[t])
                /\ DOMAIN al.db = DOMAIN db /\ DOMAIN al.rdb = DOMAIN rdb
\* the closed form used by trace validation explains every dictionary order of facet_collection
FacetFormsAgree == IFacetDomain(Impl) =>
                      /\ \A order \in SetToSeqs(DOMAIN db) :
                            /\ IFacetDevExplains(Impl, IFacet(Impl, order, TRUE))
                            /\ IFacet(Impl, order, FALSE) = IFacetClosed(Impl)

\* the reference answers, printed once per distinct state for the harness (an invariant that is TRUE)
QN == SetToSeq(AllNames)
EmitState == Emit => PrintT(<<"STATE", ToJson([s |-> Abs,
                 q |-> [names  |-> QN,
                        tagsOf |-> [i \in 1..Len(QN) |-> ATagsOf(Abs, QN[i])],
                        pkgsOf |-> [i \in 1..Len(QN) |-> APkgsOf(Abs, QN[i])],
                        card   |-> [i \in 1..Len(QN) |-> ACard(Abs, QN[i])],
                        disc   |-> [i \in 1..Len(QN) |-> ADiscriminance(Abs, QN[i])],
                        hasP   |-> [i \in 1..Len(QN) |-> AHasPkg(Abs, QN[i])],
                        hasT   |-> [i \in 1..Len(QN) |-> AHasTag(Abs, QN[i])],
                        pc     |-> APkgCount(Abs),
                        tc     |-> ATagCount(Abs)]])>>)

----------------------------------------------------------------------------
\* constants of the closed configurations (cfg files cannot write tuples)
\* packages p, ab, cdc (lengths 1, 2, 3);  tags fg::h, fg::i, j::h  (0 = ':'), facets fg and j
MC_PK   == {<<1>>, <<2, 3>>, <<4, 5, 4>>}
MC_PK4  == MC_PK \cup {<<11, 12>>}
MC_PK2  == {<<1>>, <<2, 3, 2>>}                 \* quick LTS: p, aba (3 characters, 2 distinct)
MC_FT   == {<<6, 7, 0, 0, 8>>, <<6, 7, 0, 0, 9>>, <<10, 0, 0, 8>>}
MC_FT2  == {<<6, 7, 0, 0, 8>>, <<10, 0, 0, 8>>}    \* quick retained-source configuration: fg::h, j::h
MC_Drops1 == {{}}
MC_Drops == {{}, {<<6, 7, 0, 0, 8>>}, {<<6, 7, 0, 0, 9>>, <<10, 0, 0, 8>>}}
MC_ReRead == {<<2, 3>>}
MC_ReRead2 == {<<2, 3, 2>>}
=============================================================================
