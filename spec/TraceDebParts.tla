---------------------------- MODULE TraceDebParts ----------------------------
(***************************************************************************)
(* X11 -- trace validation: histories recorded from real DebFile /         *)
(* DebControl / DebData / DebPart objects (harness/props/x11.py: one to    *)
(* three random packages open at once, queried through every public entry  *)
(* point) are explained by the pure operator PCall of DebParts.tla.        *)
(* A trace is [env, events]: env describes what the harness PACKED (the    *)
(* same shape as the scenarios of DebPartsMC.tla: tar members as token     *)
(* paths with interned atoms, blob properties, md5sums lines), an event is *)
(* [call, res]: the call and what it returned / raised, projected to the   *)
(* vocabulary of the specification.  Payloads are interned ids: TLC needs  *)
(* equality only, so the size / character stress of names and contents     *)
(* costs nothing here and the verdict is length-independent.               *)
(* An event is explained by the statement; with IOEnv.KNOWN_DIR /          *)
(* KNOWN_UNI = "1" (open findings, KNOWN in x11.py) an event that only the *)
(* as-built behaviour explains is accepted with a <<"REJECT", tid, id, l>> *)
(* note for the harness.                                                   *)
(***************************************************************************)
EXTENDS DebParts, IOUtils, TLCExt

Traces   == JsonDeserialize(IOEnv.TRACE_FILE)
Diag     == IOEnv.TRACE_DIAG = "1"
KnownDir == IOEnv.KNOWN_DIR = "1"
KnownUni == IOEnv.KNOWN_UNI = "1"

VARIABLES tid, l

Tr == Traces[tid]

TInit == /\ tid \in 1..Len(Traces)
         /\ l = 1
         /\ xenv = Traces[tid].env
         /\ xses = Fresh(Traces[tid].env)
         /\ xres = Exact(ROk)
         /\ xcall = NoCall

KnownFlags == Flags(KnownDir, KnownUni, FALSE, FALSE, FALSE, FALSE, FALSE, FALSE)
Chk(P) == P = TRUE

TStep == /\ l <= Len(Tr.events)
         /\ LET e == Tr.events[l]
                s == PCall(xenv, xses, StmtFlags, e.call)
            IN IF Allowed(s.o, e.res)
               THEN xses' = s.ses /\ xres' = s.o /\ xcall' = e.call
               ELSE LET b == PCall(xenv, xses, KnownFlags, e.call) IN
                    /\ Chk(Allowed(b.o, e.res))
                    /\ xses' = b.ses /\ xres' = b.o /\ xcall' = e.call
                    /\ PrintT(<<"REJECT", tid, IF e.call.op = "md5" THEN "X11-md5sums-text-strips-unicode-space"
                                               ELSE "X11-get-content-nonfile-raises", l>>)
         /\ l' = l + 1 /\ UNCHANGED <<tid, xenv>>
         /\ (Diag => PrintT(<<"AT", tid, l>>))
         /\ (l' = Len(Tr.events) + 1 => PrintT(<<"ACCEPTED", tid>>))

TSpec == TInit /\ [][TStep]_<<xvars, tid, l>>
=============================================================================
