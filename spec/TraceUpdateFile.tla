-------------------------- MODULE TraceUpdateFile --------------------------
(***************************************************************************)
(* C19 -- trace validation: executions of the real update_file recorded by *)
(* harness/props/c19.py are matched against the actions of UpdateFile.     *)
(*                                                                         *)
(* A trace is                                                              *)
(*   [in     |-> the input of the call in the vocabulary of UpdateFile     *)
(*               (hist, h0, local0, fault, nw, flav as a sequence),        *)
(*    obs    |-> [fs |-> BOOLEAN, net |-> BOOLEAN]  which kinds of steps   *)
(*               the recorder could observe,                               *)
(*    events |-> <<[a, i, loc]>> the observed steps in order: a = action   *)
(*               name, i = its argument, loc = content id of the local     *)
(*               file when the step began,                                 *)
(*    out    |-> [pc, ret, local, dotNew] how the call ended and what the  *)
(*               file system looked like afterwards].                      *)
(* The specification takes its own steps; a step whose action is of an     *)
(* observable kind must be the next recorded event (same name, argument,   *)
(* and the local file as the specification has it), all other steps are    *)
(* internal.  The trace is accepted when the specification reaches a       *)
(* terminal state that equals `out` with every event consumed.  With       *)
(* obs.fs = obs.net = FALSE and no events this is the coarse check of the  *)
(* verdict observables alone.                                              *)
(***************************************************************************)
EXTENDS UpdateFile, IOUtils, TLCExt

Traces == JsonDeserialize(IOEnv.TRACE_FILE)
Diag   == IOEnv.TRACE_DIAG = "1"

VARIABLES tid, l

Tr == Traces[tid]

SeqToSet(s) == {s[j] : j \in 1..Len(s)}
InOf(t) == [hist |-> t.in.hist, h0 |-> t.in.h0, local0 |-> t.in.local0,
            fault |-> [k |-> t.in.fault.k, i |-> t.in.fault.i],
            nw |-> t.in.nw, flav |-> SeqToSet(t.in.flav)]

TInit == /\ tid \in 1..Len(Traces)
         /\ l = 1
         /\ WellFormedInput(InOf(Traces[tid]))
         /\ InitVars(InOf(Traces[tid]))

FsActs  == {"OpenNew", "WriteNew", "CloseNew", "Rename", "CleanupNew"}
NetActs == {"FetchIndex", "DownloadPatch", "FullDownload"}
Observable(a) == \/ Tr.obs.fs /\ a.a \in FsActs /\ ~(a.a = "CleanupNew" /\ a.i = 0)
                 \/ Tr.obs.net /\ a.a \in NetActs

TStep == /\ Next
         /\ LET a == path'[Len(path')] IN
              IF Observable(a)
              THEN /\ l <= Len(Tr.events)
                   /\ Tr.events[l].a = a.a
                   /\ Tr.events[l].i = a.i
                   /\ (a.a \in FsActs => Tr.events[l].loc = local)
                   /\ l' = l + 1
              ELSE l' = l
         /\ UNCHANGED tid
         /\ (Diag => PrintT(<<"AT", tid, Len(path')>>))
         /\ (pc' \in Terminal =>
               /\ l' = Len(Tr.events) + 1
               /\ Tr.out.pc = pc'
               /\ Tr.out.local = local'
               /\ Tr.out.dotNew = (IF dotNew' = "absent" THEN "absent" ELSE "present")
               /\ (pc' = "returned" => Tr.out.ret = ret')
               /\ PrintT(<<"ACCEPTED", tid>>))

TSpec == TInit /\ [][TStep]_<<vars, tid, l>>
\* the statement's invariants also hold along every explained execution
TOldOrNew == AlwaysOldOrNew
=============================================================================
