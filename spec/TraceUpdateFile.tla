-------------------------- MODULE TraceUpdateFile --------------------------
(***************************************************************************)
(* C19 -- trace validation: executions of the real update_file recorded by *)
(* harness/props/c19.py are matched against the actions of UpdateFile.     *)
(*                                                                         *)
(* A trace is [runs |-> <<call, ...>>]: one or more consecutive calls made *)
(* in ONE Python process on the same local path (the repository moves on   *)
(* or is exchanged in between).  A call is                                 *)
(*   [in     |-> the input of the call in the vocabulary of UpdateFile     *)
(*               (hist, h0, local0, fault, nw, flav as a sequence, url,    *)
(*               rep, entry = the public function that was called),        *)
(*    obs    |-> [fs |-> BOOLEAN, net |-> BOOLEAN]  which kinds of steps   *)
(*               the recorder could observe,                               *)
(*    events |-> <<[a, i, loc]>> the observed steps in order: a = action   *)
(*               name, i = its argument, loc = content id of the local     *)
(*               file when the step began,                                 *)
(*    out    |-> [pc, ret, local, dotNew] how the call ended and what the  *)
(*               file system looked like afterwards].                      *)
(* The specification takes its own steps; a step whose action is of an     *)
(* observable kind must be the next recorded event (same name, argument,   *)
(* and the local file as the specification has it), all other steps are    *)
(* internal.  A call is explained when the specification reaches a         *)
(* terminal state that equals `out` with every event consumed; the next    *)
(* call then starts (NextRun) from the file system the specification has   *)
(* -- nothing else is carried over, so an execution in which an earlier    *)
(* call influences a later one otherwise than through the local file is    *)
(* rejected.  The trace is accepted when its last call is explained.       *)
(* With obs.fs = obs.net = FALSE and no events this is the coarse check of *)
(* the verdict observables alone.                                          *)
(*                                                                         *)
(* Sizes: in.nw is the number of DISTINGUISHED write calls.  For ordinary  *)
(* traces that is the number of lines of the published text; for           *)
(* size-stressed executions (100000 lines, 16 MiB) the recorder reports    *)
(* only the first, some middle and the last (or failing) write call and    *)
(* numbers them 1..nw, so the length of the text never reaches TLC; what   *)
(* the specification predicts does not depend on it.  Histories of 200     *)
(* versions are validated literally (content ids are integers).            *)
(***************************************************************************)
EXTENDS UpdateFile, IOUtils, TLCExt

Traces == JsonDeserialize(IOEnv.TRACE_FILE)
Diag   == IOEnv.TRACE_DIAG = "1"

VARIABLES tid, l

Tr == Traces[tid]
Rn == Tr.runs[run]

SeqToSet(s) == {s[j] : j \in 1..Len(s)}
InOf(t) == [hist |-> t.in.hist, h0 |-> t.in.h0, local0 |-> t.in.local0,
            fault |-> [k |-> t.in.fault.k, i |-> t.in.fault.i],
            nw |-> t.in.nw, flav |-> SeqToSet(t.in.flav), url |-> t.in.url, rep |-> t.in.rep,
            entry |-> t.in.entry]

TInit == /\ tid \in 1..Len(Traces)
         /\ l = 1
         /\ WellFormedInput(InOf(Traces[tid].runs[1]))
         /\ InitVars(InOf(Traces[tid].runs[1]))

FsActs  == {"OpenNew", "WriteNew", "CloseNew", "Rename", "CleanupNew"}
NetActs == {"FetchIndex", "DownloadPatch", "FullDownload"}
Observable(a) == \/ Rn.obs.fs /\ a.a \in FsActs /\ ~(a.a = "CleanupNew" /\ a.i = 0)
                 \/ Rn.obs.net /\ a.a \in NetActs

TStep == /\ RunNext
         /\ LET a == path'[Len(path')] IN
              IF Observable(a)
              THEN /\ l <= Len(Rn.events)
                   /\ Rn.events[l].a = a.a
                   /\ Rn.events[l].i = a.i
                   /\ (a.a \in FsActs => Rn.events[l].loc = local)
                   /\ l' = l + 1
              ELSE l' = l
         /\ UNCHANGED tid
         /\ (Diag => PrintT(<<"AT", tid, (run - 1) * 1000 + Len(path')>>))
         /\ (pc' \in Terminal =>
               /\ l' = Len(Rn.events) + 1
               /\ Rn.out.pc = pc'
               /\ Rn.out.local = local'
               /\ Rn.out.dotNew = (IF dotNew' = "absent" THEN "absent" ELSE "present")
               /\ (pc' = "returned" => Rn.out.ret = ret')
               /\ (run = Len(Tr.runs) => PrintT(<<"ACCEPTED", tid>>)))

\* the next call of the same process: its input is what the trace says, its local file is what
\* the specification has after the previous call
TNextRun == /\ pc \in Terminal /\ run < Len(Tr.runs)
            /\ WellFormedInput(InOf(Tr.runs[run + 1]))
            /\ NextRun(InOf(Tr.runs[run + 1]))
            /\ l' = 1 /\ UNCHANGED tid

TSpec == TInit /\ [][TStep \/ TNextRun]_<<vars, tid, l>>
\* the statement's invariants also hold along every explained execution
TOldOrNew == AlwaysOldOrNew
=============================================================================
