CONSTANTS
  MaxLines = 4
  EmitMin = 0
  FExact = FALSE
  FStop = FALSE
  FKeepCont = FALSE
  FWsFlip = FALSE
  Emit = TRUE
SPECIFICATION DSpec
INVARIANT FilterIsRestriction
INVARIANT CtorIsFirst
INVARIANT CaseInsensitiveFilter
INVARIANT FilterIsASet
INVARIANT StrictLaw
INVARIANT CommentLaw
INVARIANT SplitUnsigned
INVARIANT SplitFeedsParser
INVARIANT ArmorLaw
INVARIANT ResultsUnique
INVARIANT DefaultsLaw
INVARIANT EmitCase
INVARIANT EmitArmor
CHECK_DEADLOCK FALSE
