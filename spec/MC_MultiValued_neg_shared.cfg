\* C12 -- NEGATIVE CONTROL: records parsed from identical lines are one shared object; an in-place edit of one position shows at the others: EditIsLocal must be violated
CONSTANTS
  Tables <- DocTables
  Modes <- ModesNegShared
  IterateAllFields = FALSE
  SplitEverySpace = FALSE
  CacheWidths = FALSE
  SharedEqualRecords = TRUE
  ClassLevelOption = FALSE
  StoreBeforeValidate = FALSE
  ReorderStoresPlainKeys = FALSE
  RefusedUnlinksFirst = FALSE
  Emit = FALSE
  EmitOff = 0
SPECIFICATION Spec
INVARIANT TypeOK
INVARIANT DumpTotal
INVARIANT RecordsRoundTrip
PROPERTY EditIsLocal
CHECK_DEADLOCK FALSE
