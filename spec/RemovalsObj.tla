---------------------------- MODULE RemovalsObj ----------------------------
(***************************************************************************)
(* X05 (a) -- Removals OBJECTS: the `sources` / `binaries` properties are  *)
(* memoised per object (`_sources`, `_binaries`).  Several live objects,   *)
(* assignment and deletion of the two fields, repeated reads, mutation of  *)
(* a returned list by the caller, copy() and re-creation.                  *)
(*                                                                         *)
(* STATEMENT (object level).  A read of `sources` / `binaries` returns the *)
(* records of the object's CURRENT field (Removals!SrcRecords /            *)
(* BinRecords; [] when the field is absent), however often it is repeated  *)
(* and whatever happened to OTHER objects or to the OTHER property --      *)
(* provided the field was not assigned or deleted after the first read of  *)
(* that property and the caller did not mutate a list returned earlier by  *)
(* that very property of that very object.  These two situations are the   *)
(* UNSPECIFIED zone (zone = "unspec": the code returns the stale /         *)
(* mutated memo; executed, any outcome accepted, recorded as drift).       *)
(*                                                                         *)
(* State per object o and field f \in {"src", "bin"}:                      *)
(*   fld[o][f]  = [has, ls]   the field: present?, its lines (tokens)      *)
(*   zone[o][f] = "fresh" (never read) | "read" | "unspec"    (reference)  *)
(*   memo[o][f] = [set, mut, v]  the implementation's cache                *)
(*   res        = the result of the last call (not part of the VIEW)       *)
(* One action per public call: Assign, Drop, Read, Mutate, Copy, Fresh.    *)
(*                                                                         *)
(* Invariants (closed configurations: 2 interchangeable objects -- model   *)
(* values + SYMMETRY ObjSym -- over OFields, and the complete one-object   *)
(* LTS over both fields that x05.py replays): MemoSound (a clean memo is   *)
(* the records of the current field), NoGhostMemo, ResSound (a read in the *)
(* clean zone returned them; action property, res is outside the VIEW),    *)
(* PaletteDecided (the statement decides every palette line and agrees     *)
(* with the implementation layer on it).                                   *)
(* Spec-level negative control (tried; x05.py re-runs it in every check):  *)
(*   SharedMemo = TRUE  (the cache is a class attribute shared by all      *)
(*                       objects)                  -> MemoSound violated   *)
(***************************************************************************)
EXTENDS Removals

CONSTANTS Objs,        \* object names
          OFields,     \* the fields modelled: a subset of {"src", "bin"}
          Rich,        \* 0, 1, 2: how many field contents are offered
          SharedMemo,  \* negative control
          EmitObj      \* TRUE: print one EDGE line per evaluated action instance

VARIABLES fld, zone, memo, res
ovars == <<fld, zone, memo, res>>

Fields == OFields

----------------------------------------------------------------------------
\* a palette of lines (ids 1..7 name the words; 90.. the fixed texts)
sp == Tk("SP", 90)
us == Tk("U", 91)
lb == Tk("L", 92)
rb == Tk("R", 93)
cm == Tk("C", 94)
PW(i) == Tk("W", i)
Pal == << <<sp, PW(1), us, PW(2)>>,                                          \* " a_1"
          <<sp, PW(3), us, PW(4)>>,                                          \* " b_2"
          <<sp, PW(1), us, PW(2), sp, lb, PW(5), rb>>,                       \* " a_1 [x]"
          <<sp, PW(3), us, PW(4), sp, lb, PW(5), cm, sp, PW(6), rb>>,        \* " b_2 [x, y]"
          <<sp, PW(7)>> >>                                                   \* " junk"
PalLines(ix) == [k \in 1..Len(ix) |-> Pal[ix[k]]]
Choices(f) == IF f = "src"
              THEN {PalLines(<<1>>), PalLines(<<1, 2>>)}
                   \cup (IF Rich >= 1 THEN {PalLines(<<>>)} ELSE {})
                   \cup (IF Rich >= 2 THEN {PalLines(<<5, 2>>), PalLines(<<1, 1>>)} ELSE {})
              ELSE {PalLines(<<3>>)}
                   \cup (IF Rich >= 1 THEN {PalLines(<<4, 3>>)} ELSE {})
                   \cup (IF Rich >= 2 THEN {PalLines(<<5>>)} ELSE {})

----------------------------------------------------------------------------
Records(f, fl) == IF ~fl.has THEN <<>>
                  ELSE IF f = "src" THEN SrcRecords(fl.ls, 1) ELSE BinRecords(fl.ls, 1)
Decided(f, fl) == ~fl.has \/ (IF f = "src" THEN SrcDecided(fl.ls) ELSE BinDecided(fl.ls))
Expected(f, fl) == IF ~fl.has THEN <<>>
                   ELSE IF f = "src" THEN SrcExpected(fl.ls, 1) ELSE BinExpected(fl.ls, 1)

Absent   == [has |-> FALSE, ls |-> <<>>]
NoMemo   == [set |-> FALSE, mut |-> FALSE, v |-> <<>>]
NoRes    == [o |-> 0, f |-> "-", mut |-> FALSE, v |-> <<>>]
MKey(o)  == IF SharedMemo THEN CHOOSE x \in Objs : TRUE ELSE o

Edge(op, args) == EmitObj => PrintT(<<"EDGE", ToJson([from |-> [fld |-> fld, zone |-> zone, memo |-> memo],
                                                      op |-> op, args |-> args, res |-> res',
                                                      to |-> [fld |-> fld', zone |-> zone', memo |-> memo']])>>)

Touch(o, f) == zone' = [zone EXCEPT ![o][f] = IF @ = "fresh" THEN "fresh" ELSE "unspec"]

\* r['Sources'] = ... / r['Binaries'] = ...
Assign(o, f, ls) == /\ fld' = [fld EXCEPT ![o][f] = [has |-> TRUE, ls |-> ls]]
                    /\ Touch(o, f)
                    /\ memo' = memo /\ res' = NoRes
\* del r['Sources']
Drop(o, f) == /\ fld[o][f].has
              /\ fld' = [fld EXCEPT ![o][f] = Absent]
              /\ Touch(o, f)
              /\ memo' = memo /\ res' = NoRes
\* r.sources / r.binaries
Read(o, f) == LET m == memo[MKey(o)][f]
                  v == IF m.set THEN m.v ELSE Records(f, fld[o][f])
              IN /\ memo' = [memo EXCEPT ![MKey(o)][f] = [set |-> TRUE, mut |-> m.mut, v |-> v]]
                 /\ res' = [o |-> o, f |-> f, mut |-> m.mut, v |-> v]
                 /\ zone' = [zone EXCEPT ![o][f] = IF @ = "fresh" THEN "read" ELSE @]
                 /\ fld' = fld
\* the caller changes a list (or a record of it) that a read returned: it IS the cache
Mutate(o, f) == /\ zone[o][f] # "fresh"
                /\ memo' = [memo EXCEPT ![MKey(o)][f].mut = TRUE]
                /\ zone' = [zone EXCEPT ![o][f] = "unspec"]
                /\ fld' = fld /\ res' = NoRes
\* the name o now denotes a new object (the old one stays alive somewhere)
Fresh(o) == /\ fld' = [fld EXCEPT ![o] = [f \in Fields |-> Absent]]
            /\ zone' = [zone EXCEPT ![o] = [f \in Fields |-> "fresh"]]
            /\ memo' = IF SharedMemo THEN memo ELSE [memo EXCEPT ![o] = [f \in Fields |-> NoMemo]]
            /\ res' = NoRes
\* p = o.copy(): a new object with the same fields
Copy(o, p) == /\ o # p
              /\ fld' = [fld EXCEPT ![p] = fld[o]]
              /\ zone' = [zone EXCEPT ![p] = [f \in Fields |-> "fresh"]]
              /\ memo' = IF SharedMemo THEN memo ELSE [memo EXCEPT ![p] = [f \in Fields |-> NoMemo]]
              /\ res' = NoRes

Pin == UNCHANGED <<rline, redits, nline>>

OInit == /\ rline = <<>> /\ redits = 0 /\ nline = <<>>
         /\ fld  = [o \in Objs |-> [f \in Fields |-> Absent]]
         /\ zone = [o \in Objs |-> [f \in Fields |-> "fresh"]]
         /\ memo = [o \in Objs |-> [f \in Fields |-> NoMemo]]
         /\ res = NoRes
ONext == /\ Pin
         /\ \E o \in Objs :
               \/ \E f \in Fields : \/ \E ls \in Choices(f) : Assign(o, f, ls) /\ Edge("assign", <<o, f, ls>>)
                                    \/ Drop(o, f) /\ Edge("drop", <<o, f>>)
                                    \/ Read(o, f) /\ Edge("read", <<o, f>>)
                                    \/ Mutate(o, f) /\ Edge("mutate", <<o, f>>)
               \/ Fresh(o) /\ Edge("fresh", <<o>>)
               \/ \E p \in Objs : Copy(o, p) /\ Edge("copy", <<o, p>>)
OSpec == OInit /\ [][ONext]_<<vars, ovars>>

OView == <<fld, zone, memo>>
\* the objects are interchangeable (used with model values in the 2-object configurations)
ObjSym == Permutations(Objs)

----------------------------------------------------------------------------
OTypeOK == /\ \A o \in Objs, f \in Fields : zone[o][f] \in {"fresh", "read", "unspec"}
           /\ \A o \in Objs, f \in Fields : fld[o][f].has \in BOOLEAN

\* in the clean zone the cache of an object is the records of its current field
MemoSound == \A o \in Objs, f \in Fields :
                zone[o][f] = "read" =>
                   LET m == memo[MKey(o)][f] IN m.set /\ ~m.mut /\ m.v = Records(f, fld[o][f])
\* ... and a never-read property has no cache at all
NoGhostMemo == SharedMemo \/ \A o \in Objs, f \in Fields : zone[o][f] = "fresh" => ~memo[o][f].set
\* a read in the clean zone returned the records of the current field
\* (res is not part of the VIEW: an action property, checked on every transition)
ResSoundStep == (res'.o # 0 /\ zone'[res'.o][res'.f] = "read") =>
                   (~res'.mut /\ res'.v = Records(res'.f, fld'[res'.o][res'.f]))
ResSound == [][ResSoundStep]_<<vars, ovars>>
\* for the palette the implementation layer agrees with the statement
PaletteDecided == \A f \in Fields : \A ls \in Choices(f) :
                     LET fl == [has |-> TRUE, ls |-> ls] IN Decided(f, fl) /\ Expected(f, fl) = Records(f, fl)
=============================================================================
