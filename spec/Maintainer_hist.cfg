CONSTANTS
  MtMode = "hist"
  MtDefects = {}
  MtEmit = "none"
SPECIFICATION MtSpec
INVARIANT MtTypeOK
INVARIANT EnvUntouched
INVARIANT ResultIsCurrent
CHECK_DEADLOCK FALSE
