CONSTANTS
  FdSpan = 1600
  FdJulian = TRUE
  FdEmit = FALSE
  FdCaseDays = {}
  FdCaseSods = {}
  FdCaseOffs = {}
SPECIFICATION FdSpec
INVARIANT CivilAgrees
CHECK_DEADLOCK FALSE
