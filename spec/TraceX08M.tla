----------------------------- MODULE TraceX08M -----------------------------
(***************************************************************************)
(* X08 (b) -- trace validation: call histories of the real                 *)
(* debian.changelog.get_maintainer() recorded in a worker process          *)
(* (harness/worker_x08.py) are checked against Maintainer.                 *)
(*                                                                         *)
(* A trace is [ds, events]:                                                *)
(*   events  [op |-> "Set", v, x]   the harness assigns os.environ[v]      *)
(*           [op |-> "Del", v]      ... deletes it                         *)
(*           [op |-> "Sys", s]      ... changes password database /        *)
(*                                  mailname / host name (term of msys)    *)
(*           [op |-> "Call", name, email, env]                             *)
(*                                  one call: the result as terms (tok /   *)
(*                                  addr / none / empty / raise / other)   *)
(*                                  and the four variables as found in     *)
(*                                  os.environ AFTER the call (terms)      *)
(*   ds      the defect models the trace is tried under (sequences of      *)
(*           switch names); {} is the statement.                           *)
(* Texts stay in the harness: a token is a number; distinct tokens of a    *)
(* trace have distinct texts, an observed text that is no token of the     *)
(* trace is the term "other", which fits nothing but "any".                *)
(* Every call is decided on the environment the model holds AT THAT        *)
(* MOMENT: a cached result, a result depending on an earlier environment   *)
(* or a modified os.environ cannot be explained under ds = {}.             *)
(* <<"ACCEPTED", tid, dset>> for every (trace, model) explained completely.*)
(***************************************************************************)
EXTENDS Maintainer, IOUtils, TLCExt

Traces == JsonDeserialize(IOEnv.TRACE_FILE)
Diag   == IOEnv.TRACE_DIAG = "1"

VARIABLES tid, l, dset
tvars == <<mvars, tid, l, dset>>

Tr == Traces[tid]
SeqSet(s) == {s[i] : i \in 1..Len(s)}
Chk(P) == P = TRUE       \* a pure check inside an action must not branch

TInit == /\ tid \in 1..Len(Traces)
         /\ dset \in {SeqSet(Traces[tid].ds[i]) : i \in 1..Len(Traces[tid].ds)}
         /\ l = 1
         /\ menv = MtEnv0 /\ penv = MtEnv0 /\ msys = MtSys0
         /\ mres = MtCallOn({}, MtEnv0, MtSys0)

Go == /\ l' = l + 1 /\ UNCHANGED <<tid, dset>>
      /\ (Diag => PrintT(<<"AT", tid, l>>))
      /\ (l + 1 = Len(Tr.events) + 1 => PrintT(<<"ACCEPTED", tid, dset>>))

TSet(e)  == /\ menv' = [menv EXCEPT ![e.v] = e.x] /\ penv' = [penv EXCEPT ![e.v] = e.x]
            /\ UNCHANGED <<msys, mres>> /\ Go
TDel(e)  == /\ menv' = [menv EXCEPT ![e.v] = MtUnset] /\ penv' = [penv EXCEPT ![e.v] = MtUnset]
            /\ UNCHANGED <<msys, mres>> /\ Go
TSys(e)  == /\ msys' = e.s /\ UNCHANGED <<menv, penv, mres>> /\ Go
TCall(e) == LET r == MtCallOn(dset, penv, msys) IN
            /\ Chk(MtFits(r.name, e.name))
            /\ Chk(MtFits(r.email, e.email))
            /\ Chk(MtEnvFits(r.post, e.env))
            /\ mres' = r /\ penv' = r.post
            /\ UNCHANGED <<menv, msys>> /\ Go

TStep == /\ l <= Len(Tr.events)
         /\ LET e == Tr.events[l] IN
              \/ e.op = "Set" /\ TSet(e)
              \/ e.op = "Del" /\ TDel(e)
              \/ e.op = "Sys" /\ TSys(e)
              \/ e.op = "Call" /\ TCall(e)

TSpec == TInit /\ [][TStep]_tvars
=============================================================================
