CONSTANTS
  Universe <- OneUniverse
  MaxLen = 0
  AnyOrder = TRUE
  InitMatrix = FALSE
  ScriptUniverse = {}
  FileNames = {}
  Blobs = {}
  Decompressors = {"gz", "bz2", "xz", "lzma"}
  AcceptFirstCandidate = FALSE
  InfoOptional = FALSE
  NormalizeSlash = TRUE
  Emit = FALSE
  EmitProbe = FALSE
SPECIFICATION TSpec
INVARIANT TAcceptIffWellFormed
CHECK_DEADLOCK FALSE
