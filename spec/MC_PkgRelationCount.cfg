\* C13 count dimension (thorough): as MC_PkgRelationCount_quick.cfg with the whole ladder of boundary counts
CONSTANTS
  MaxConj = 0
  MaxAlt = 0
  MaxAtoms = 0
  MaxArch = 0
  MaxGroups = 0
  MaxTerms = 0
  OpIds = {}
  CtxKinds = {}
  Emit = TRUE
  RestrictionsFirst = FALSE
  IgnoreNegation = FALSE
  PipeFirst = FALSE
  FormatInKeyOrder = FALSE
  SplitLimit = 0
  LimitedSplits = {}
  KeyOrders <- OneKeyOrder
  Levels = {"conj", "alt", "arch", "groups", "terms"}
  Counts = {1, 2, 9, 33, 101, 127, 128, 129, 255, 256, 257, 258, 259, 300, 511, 512, 513, 1000, 1023, 1024, 1025, 2049}
  Positions = {1, 2, 3}
SPECIFICATION CSpec
INVARIANT CountProps
CHECK_DEADLOCK FALSE
