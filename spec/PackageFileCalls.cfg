CONSTANTS
  NoText = 0
  TrimEnd = TRUE
  LenientBlank = FALSE
  FlushOnError = FALSE
  MaxLen = 0
  MaxLines = 0
  BigSel = {}
  Emit = TRUE
  MaxObjs = 4
  MaxIters = 2
  SharedPkg = FALSE
  SharedLineno = FALSE
SPECIFICATION CSpec
INVARIANT ReturnedFresh
INVARIANT ErrLocal
INVARIANT StopAtEnd
INVARIANT ItsConsistent
INVARIANT IdenticalParas
PROPERTY FreshIdentity
PROPERTY NoSpontaneousChange
CHECK_DEADLOCK FALSE
