--------------------------- MODULE TraceReproView ---------------------------
(***************************************************************************)
(* X10 -- trace validation.  Histories recorded from real paragraphs       *)
(* (harness/props/x10.py): each event is one public call through a view    *)
(* (number w = its five flags) or on the paragraph / key-value pair, with   *)
(* its outcome (exception class, or the returned text lexed back into       *)
(* pieces) and the projection of the whole document after the call.  Every  *)
(* event must be explained by the outcome operator of ReproView for that    *)
(* call.  Calls outside the statement's domain (SetDomain / DelDomain /     *)
(* RawDomain: an ambiguous name written or deleted through a view that does *)
(* not resolve, several causes of failure at once) are accepted with any    *)
(* outcome.  KNOWN_BLANK / KNOWN_CONT = "1" additionally accept the outcome *)
(* of the two open findings; such a trace is reported with a REJECT note.   *)
(***************************************************************************)
EXTENDS ReproView, IOUtils, TLCExt

Traces == JsonDeserialize(IOEnv.TRACE_FILE)
Diag   == IOEnv.TRACE_DIAG = "1"
KnownBugs == {[blank |-> b, cont |-> c] : b \in {FALSE, IOEnv.KNOWN_BLANK = "1"}, c \in {FALSE, IOEnv.KNOWN_CONT = "1"}} \ {NoBugs}

VARIABLES tid, l
Tr == Traces[tid]
K(a) == [n |-> a[1], i |-> a[2]]
Chk(P) == P = TRUE

\* exception types in the unspecified zone are interchangeable (as in TraceReproDoc)
EqRes(m, o) == /\ m.t = o.t
               /\ \/ m.e = o.e
                  \/ m.e = "IndexError" /\ o.e = "KeyError"
Explains(o, e) == EqRes(o.r, e.res) /\ o.d = e.obs
\* out(b) = the outcome of the call under the bug switches b
Judge(out(_), e) ==
   \/ Chk(Explains(out(NoBugs), e))
   \/ /\ Chk(~Explains(out(NoBugs), e))
      /\ \E b \in KnownBugs : /\ Chk(Explains(out(b), e))
                              /\ PrintT(<<"REJECT", tid, IF b.blank /\ ~Explains(out([b EXCEPT !.blank = FALSE]), e) THEN "known-blank" ELSE "known-cont">>)
Unspec(e) == TRUE      \* outside the domain of the statement: any outcome

TInit == /\ tid \in 1..Len(Traces)
         /\ l = 1
         /\ doc = Traces[tid].init
         /\ res = RV("ok", <<>>)
         /\ nw = 0
         /\ last = Lst("init", 0, NoKey, NoView, <<>>)

TStep == /\ l <= Len(Tr.events)
         /\ LET e == Tr.events[l]
                w == View(e.w)
                key == K(e.k)
            IN /\ Chk(e.p \in 1..NParas)
               /\ \/ e.op = "get"    /\ Judge(LAMBDA b : GetOut(doc, e.p, w, key), e)
                  \/ e.op = "has"    /\ Judge(LAMBDA b : HasOut(doc, e.p, w, key.n, b), e)
                  \/ e.op = "kv"     /\ Judge(LAMBDA b : KvOut(doc, e.p, key, e.ug), e)
                  \/ e.op = "set"    /\ \/ Chk(~SetDomain(e.p, w, key, e.x)) /\ Unspec(e)
                                        \/ Chk(SetDomain(e.p, w, key, e.x)) /\ Judge(LAMBDA b : VSetOut(doc, e.p, w, key, e.x, e.s, b), e)
                  \/ e.op = "del"    /\ \/ Chk(~(DelDomain(e.p, w, key))) /\ Unspec(e)
                                        \/ Chk(DelDomain(e.p, w, key)) /\ Judge(LAMBDA b : DelOut(doc, e.p, key), e)
                  \/ e.op = "raw"    /\ \/ Chk(~RawDomain(e.p, key, e.x, e.mode, e.cl)) /\ Unspec(e)
                                        \/ Chk(RawDomain(e.p, key, e.x, e.mode, e.cl)) /\ Judge(LAMBDA b : RawSetOut(doc, e.p, key, e.x, e.s, e.mode, e.cl, b), e)
                  \/ e.op = "simple" /\ \/ Chk(~RawDomain(e.p, key, IF HasNl(e.x) THEN <<>> ELSE <<N>>, e.mode, e.cl)) /\ Unspec(e)
                                        \/ Chk(RawDomain(e.p, key, IF HasNl(e.x) THEN <<>> ELSE <<N>>, e.mode, e.cl))
                                           /\ Judge(LAMBDA b : SimpleSetOut(doc, e.p, key, e.x, e.s, e.mode, e.cl, b), e)
                  \/ e.op = "cmt"    /\ Chk(e.j \in Idx(Para(e.p).fs) /\ e.j2 \in Idx(Para(e.p).fs))
                                     /\ Judge(LAMBDA b : CmtOut(doc, e.p, e.j, e.src, e.j2), e)
                  \/ e.op = "val"    /\ Chk(e.j \in Idx(Para(e.p).fs)) /\ Judge(LAMBDA b : ValOut(doc, e.p, e.j, e.x), e)
               /\ doc' = e.obs
               /\ res' = e.res
               /\ nw' = nw
               /\ last' = last
         /\ l' = l + 1 /\ UNCHANGED tid
         /\ (Diag => PrintT(<<"AT", tid, l>>))
         /\ (l' = Len(Tr.events) + 1 => PrintT(<<"ACCEPTED", tid>>))

TSpec == TInit /\ [][TStep]_<<xvars, tid, l>>
\* what the real documents hold is always text a field can hold, and code and docstring agree on it
TStoredValid == StoredValid
TReadAgree == ReadAgree
=============================================================================
