CONSTANTS
  Which = "one"
  MaxLen = 4
  NF = 2
  NL = 1
  Emit = TRUE
  AddMode = "afterlast"
  SharedList = FALSE
SPECIFICATION SSpec
INVARIANT DocsOK
PROPERTY AddFilesRule
PROPERTY AddLicenseRule
PROPERTY SetHeaderRule
PROPERTY HeaderKept
PROPERTY TypeChecked
PROPERTY ErrAtomic
PROPERTY QueriesPure
PROPERTY DocsIndependent
PROPERTY ViewsAgree
PROPERTY LayoutKept
VIEW SView
CHECK_DEADLOCK FALSE
