---------------------------- MODULE ListViewImpl ----------------------------
(***************************************************************************)
(* C11 -- token-list layer of the list views, transcribed from             *)
(* lib/debian/_deb822_repro/parsing.py (ListInterpretation._parse_stream,  *)
(* _parse_whitespace_list_value, _parse_comma_list_value,                  *)
(* Deb822ParsedTokenList.__init__/append_value/append_separator/           *)
(* append_newline/append_comment/_append_continuation_line_token_if_       *)
(* necessary/_continuation_line_char/replace/remove/_remove_node/          *)
(* ValueReference/_update_field) and formatter.py                          *)
(* (one_value_per_line_trailing_separator), on top of the reference        *)
(* ListView.tla.                                                           *)
(*                                                                         *)
(* A behaviour: the layout automaton GROWS a field value token by token    *)
(* (every well-formed layout within the bounds, both interpretations);     *)
(* Open reads it the way the code does (toks: a sequence of ENTRIES, a     *)
(* plain token <<t>> or a value element <<w, ..., w>>) while the reference *)
(* list is Split(lay); then up to MaxEdits calls, each the conjunction of  *)
(* the abstract action and the step-by-step update of the token list;      *)
(* leaving the with-block is the state function COut/CRes (and the action  *)
(* Close when cases are emitted for the harness).                          *)
(*                                                                         *)
(* Checked in every reachable state (all layouts x all edit sequences):    *)
(*   LayoutValid   the automaton only produces syntactically valid fields  *)
(*   Refines       values rendered from the token list = reference list    *)
(*                 (at Open this is ReadExact: code reader = Split)        *)
(*   KeepExact     the value elements WITH their comment lines = SplitKeep *)
(*   RoundTrip     writing back an untouched token list gives the layout   *)
(*   TailOK        the abstract `tail` is the real tail of the token list  *)
(*   EditResult    what the with-block writes re-reads (Split) as the list *)
(*   StillValid    ... and is a syntactically valid field                  *)
(*   RefuseOnlyWhen  ValueError on leaving only for an empty list / a      *)
(*                 trailing comment; then nothing is written               *)
(*                                                                         *)
(* Configurations: MC_ListViewImpl_quick.cfg (<= 3 words / 7 tokens / 1    *)
(* comment line x 2 calls), MC_ListViewImpl.cfg (<= 4 words / 9 tokens / 2 *)
(* comment lines x 2 calls; the final newline counts as a token),          *)
(* MC_ListViewImpl_deep.cfg (<= 2 words / 6 tokens x 3 calls); the         *)
(* harness generates the emission configurations (Emit = TRUE, a slice of  *)
(* the layouts chosen by the seed).                                        *)
(*                                                                         *)
(* Removing the ONLY value: the code clears the token list and refuses to  *)
(* write on leaving (ValueError "Field must have content"), the document   *)
(* stays as it was -- consistent with "the document is still syntactically *)
(* valid", so it is modelled as the code does (CRes = "ValueError").       *)
(*                                                                         *)
(* Leaving with an EMPTY list that the code does write (possible only     *)
(* after append_separator) is unspecified (EmptyWrite): with                *)
(* reformat_when_finished on top the code writes a field without content   *)
(* -- TLC shows it with MaxEdits = 3 when the exemption is removed.        *)
(*                                                                         *)
(* Negative controls (constants that switch in a wrong design; each makes  *)
(* TLC report the named invariant: MC_ListViewImpl_neg_remove / _leak /    *)
(* _cont / _cmtnl.cfg, run by the thorough tier):                          *)
(*   RemoveNodeOnly  remove() deletes just the value token  -> StillValid  *)
(*                   (a blank continuation line is left behind)            *)
(*   LeakComments    a value is rendered with its comment lines -> Refines *)
(*                   (the defect repaired by /repo 04a941e)                *)
(*   NoContinuation  append after a newline/comment forgets the            *)
(*                   continuation blank -> StillValid                      *)
(*   DropNlBeforeCmt append_comment does not end the line first            *)
(*                   -> StillValid (comment is no longer a whole line)     *)
(***************************************************************************)
EXTENDS ListView, Json

CONSTANTS Modes,            \* subset of {"sp", "cm"}
          MaxW, MaxT, MaxC, \* layout bounds: words, tokens (incl. final NL), comment lines
          Dups,             \* TRUE: one word of the layout may repeat word 1; append may add word 1 again
          MaxEdits,         \* calls between Open and leaving the with-block
          Extras,           \* TRUE: also append_separator / append_newline / append_comment / reformat_when_finished
          Emit,             \* TRUE: Close is an action and prints one CASE line per behaviour
          SliceK, SliceR,   \* only layouts with LayHash % SliceK = SliceR are opened (1, 0: all) ...
          InnerAlways,      \* ... plus, with one call, every layout that has a comment line INSIDE a value
          RemoveNodeOnly, LeakComments, NoContinuation, DropNlBeforeCmt   \* negative controls

VARIABLES mode, lay, phase, toks, contc, changed, reform, steps, out, cres, hist
ivars == <<mode, lay, phase, toks, contc, changed, reform, steps, out, cres, hist>>
vars  == <<avars, ivars>>

NEWW   == 9          \* a word that is not in any layout
ABSENT == 8          \* a word that is never in the list
Tl(s)  == s[Len(s)]

\* ---- growing a layout ------------------------------------------------------
WordsOf(l)    == SelectSeq(l, IsWord)
NCm(l)        == Len(SelectSeq(l, LAMBDA t : t = CM))
LineHasC(l)   == \E i \in 1..Len(l) : (IsWord(l[i]) \/ l[i] = SEP) /\ \A k \in i..Len(l) : l[k] \notin {NL, CM}
FirstLine(l)  == \A i \in 1..Len(l) : l[i] # NL
P1(l)         == IF l = <<>> THEN 0 ELSE l[Len(l)]
P2(l)         == IF Len(l) < 2 THEN 0 ELSE l[Len(l) - 1]
Distinct(s)   == \A i, j \in 1..Len(s) : s[i] = s[j] => i = j
NextWords(l)  == LET n == Len(WordsOf(l)) IN
                 {n + 1} \cup (IF Dups /\ n >= 1 /\ Distinct(WordsOf(l)) THEN {1} ELSE {})
\* tokens still needed after t to complete the layout (prunes dead ends only)
Need(l, t)    == CASE t = NL -> 0
                   [] t = CM -> 3
                   [] t = CT -> 2
                   [] t = SP -> IF LineHasC(l) \/ FirstLine(l) THEN 1 ELSE 2
                   [] OTHER  -> 1
Complete(l)   == l # <<>> /\ Tl(l) = NL /\ WordsOf(l) # <<>>
LayHash(l)    == LET F[i \in 0..Len(l)] == IF i = 0 THEN 0 ELSE (F[i - 1] * 7 + l[i] + 7) % 1000003 IN F[Len(l)]

\* ---- reading: ListInterpretation._parse_stream -----------------------------
IsVal(e)   == IsWord(e[1])
RECURSIVE ReadCm(_, _)
ReadCm(l, i) ==      \* _parse_comma_list_value: up to the next comma (or the end), trimmed to the last word
   IF i > Len(l) THEN <<>>
   ELSE IF IsWord(l[i]) THEN
        LET seps  == {j \in i..Len(l) : l[j] = SEP}
            stop  == IF seps = {} THEN Len(l) + 1 ELSE CHOOSE j \in seps : \A k \in seps : j <= k
            lastw == CHOOSE j \in i..(stop - 1) : IsWord(l[j]) /\ \A k \in (j + 1)..(stop - 1) : ~IsWord(l[k])
        IN << SubSeq(l, i, lastw) >> \o ReadCm(l, lastw + 1)
   ELSE << <<l[i]>> >> \o ReadCm(l, i + 1)
ReadToks(m, l) == IF m = "sp" THEN [i \in 1..Len(l) |-> <<l[i]>>] ELSE ReadCm(l, 1)
\* Deb822ParsedTokenList.__init__: the last newline is popped
Opened(m, l)   == LET r == ReadToks(m, l) IN IF Tl(r) = <<NL>> THEN SubSeq(r, 1, Len(r) - 1) ELSE r

Render(e)      == IF LeakComments THEN e ELSE NoCmt(e)       \* convert_to_text_without_comments
ValEntries(ts) == SelectSeq(ts, IsVal)
RenderVals(ts) == LET v == ValEntries(ts) IN [i \in 1..Len(v) |-> Render(v[i])]
ValIdx(ts, k)  == CHOOSE n \in 1..Len(ts) : IsVal(ts[n]) /\ Cardinality({j \in 1..n : IsVal(ts[j])}) = k
FirstIdx(ts, v) == CHOOSE n \in 1..Len(ts) : /\ IsVal(ts[n]) /\ Render(ts[n]) = v
                                              /\ \A j \in 1..(n - 1) : ~(IsVal(ts[j]) /\ Render(ts[j]) = v)
HasVal(ts, v)  == \E n \in 1..Len(ts) : IsVal(ts[n]) /\ Render(ts[n]) = v

\* ---- writing primitives (st = [ts |-> token list, cc |-> cached continuation char or 0]) ----
IsStype(m, e)  == IF m = "sp" THEN e[1] \in {SP, NL, CT, CTS} ELSE e[1] = SEP
EndsNl(e)      == e[1] \in {NL, CM}                          \* convert_to_text().endswith("\n")
\* _append_continuation_line_token_if_necessary + _continuation_line_char (first existing one, else ' ', cached)
Cont1(st) ==
   IF st.ts # <<>> /\ EndsNl(Tl(st.ts)) /\ ~NoContinuation
   THEN LET c == IF st.cc # 0 THEN st.cc
                 ELSE IF \E i \in 1..Len(st.ts) : IsCont(st.ts[i][1]) THEN CT ELSE CTS
        IN [ts |-> Append(st.ts, <<c>>), cc |-> c]
   ELSE st
\* append_separator(space_after_separator)
AppSep(m, st, space) ==
   LET s1 == Cont1(st) IN
   [s1 EXCEPT !.ts = IF m = "sp" THEN Append(@, <<SP>>)
                     ELSE IF space THEN @ \o << <<SEP>>, <<SP>> >> ELSE Append(@, <<SEP>>)]
NeedsSep(m, ts) == LET I == {i \in 1..Len(ts) : IsVal(ts[i]) \/ IsStype(m, ts[i])} IN
                   I # {} /\ IsVal(ts[CHOOSE i \in I : \A j \in I : i >= j])
\* append_value
AppVal(m, st, v) ==
   LET s1 == IF st.ts = <<>> THEN [st EXCEPT !.ts = << <<SP>> >>]
             ELSE IF NeedsSep(m, st.ts) THEN AppSep(m, st, TRUE) ELSE st
       s2 == Cont1(s1)
   IN [s2 EXCEPT !.ts = Append(@, v)]
\* append_newline (caller checked the tail) / append_comment
AppNl(ts)  == Append(ts, <<NL>>)
AppCmt(ts) == (IF (ts = <<>> \/ ~EndsNl(Tl(ts))) /\ ~DropNlBeforeCmt THEN AppNl(ts) ELSE ts) \o << <<CM>> >>

\* _remove_node(n)
RmNode(ts, n) ==
   LET L  == {i \in 1..(n - 1) : IsVal(ts[i])}
       R  == {i \in (n + 1)..Len(ts) : IsVal(ts[i])}
       l  == IF L = {} THEN 0 ELSE CHOOSE i \in L : \A j \in L : i >= j
       r  == IF R = {} THEN 0 ELSE CHOOSE i \in R : \A j \in R : i <= j
       cl == \E i \in (l + 1)..(n - 1) : ts[i] = <<CM>>
       cr == \E i \in (n + 1)..(IF r = 0 THEN Len(ts) ELSE r - 1) : ts[i] = <<CM>>
       dl == IF l # 0 /\ ~cl THEN TRUE ELSE IF r # 0 /\ ~cr THEN FALSE ELSE l # 0
   IN IF RemoveNodeOnly THEN SubSeq(ts, 1, n - 1) \o SubSeq(ts, n + 1, Len(ts))
      ELSE IF l = 0 /\ r = 0 THEN <<>>                                             \* the only value: clear()
      ELSE IF dl THEN SubSeq(ts, 1, l) \o SubSeq(ts, n + 1, Len(ts))               \* delete to the left
      ELSE SubSeq(ts, 1, n - 1) \o SubSeq(ts, r, Len(ts))                          \* delete to the right

\* ---- leaving the with-block: _update_field ---------------------------------
Flat(ts)       == LET F[i \in 0..Len(ts)] == IF i = 0 THEN <<>> ELSE F[i - 1] \o ts[i] IN F[Len(ts)]
HasContent(ts) == \E i \in 1..Len(ts) : \E j \in 1..Len(ts[i]) : IsWord(ts[i][j]) \/ ts[i][j] = SEP
Written(ts)    == Flat(ts) \o (IF EndsNl(Tl(ts)) THEN <<>> ELSE <<NL>>)
\* one_value_per_line_trailing_separator through format_field
Format(m, ts)  ==
   LET it == SelectSeq(ts, LAMBDA e : e = <<CM>> \/ IsVal(e))
       F[i \in 0..Len(it)] ==
          IF i = 0 THEN <<>>
          ELSE F[i - 1] \o (IF it[i] = <<CM>> THEN (IF i = 1 THEN <<NL, CM>> ELSE <<CM>>)
                            ELSE (IF i = 1 THEN <<SP>> ELSE <<CTS, SP>>) \o it[i]
                                 \o (IF m = "cm" THEN <<SEP>> ELSE <<>>) \o <<NL>>)
   IN F[Len(it)]
CRes == IF ~changed THEN "nowrite"
        ELSE IF ~HasContent(toks) THEN "ValueError"                  \* "Field must have content"
        ELSE IF Tl(toks) = <<CM>> THEN "ValueError"                  \* "Fields must not end on a comment"
        ELSE "ok"
\* the new text is parsed and the value element of its first field replaces the old one: comment lines
\* that no continuation line follows are not part of a field and silently stay behind
RECURSIVE TakeField(_)
TakeField(w) == IF w # <<>> /\ Tl(w) = CM THEN TakeField(SubSeq(w, 1, Len(w) - 1)) ELSE w
COut == IF CRes = "ok" THEN TakeField(IF reform THEN Format(mode, toks) ELSE Written(toks)) ELSE lay

-----------------------------------------------------------------------------
Init == /\ mode \in Modes /\ lay = <<>> /\ phase = "grow"
        /\ toks = <<>> /\ contc = 0 /\ changed = FALSE /\ reform = FALSE /\ steps = 0
        /\ out = <<>> /\ cres = "-" /\ hist = <<>>
        /\ vals = <<>> /\ tail = "none" /\ res = "ok"

Grow(t) == /\ phase = "grow"
           /\ Len(lay) + 1 + Need(lay, t) <= MaxT
           /\ IsWord(t) => Len(WordsOf(lay)) < MaxW
           /\ t = CM => NCm(lay) < MaxC
           /\ CanFollow(mode, P2(lay), P1(lay), LineHasC(lay), FirstLine(lay), t)
           /\ lay' = Append(lay, t)
           /\ UNCHANGED <<avars, mode, phase, toks, contc, changed, reform, steps, out, cres, hist>>

InSlice(l)     == LayHash(l) % SliceK = SliceR
HasInner(m, l) == \E i \in 1..Len(l) : l[i] = CM /\ \E e \in {Opened(m, l)[k] : k \in 1..Len(Opened(m, l))} : IsVal(e) /\ CM \in {e[k] : k \in 1..Len(e)}
EditLimit      == IF InSlice(lay) THEN MaxEdits ELSE 1

Open == /\ phase = "grow" /\ Complete(lay)
        /\ InSlice(lay) \/ (InnerAlways /\ HasInner(mode, lay))
        /\ phase' = "open"
        /\ toks' = Opened(mode, lay)
        /\ vals' = Split(mode, lay) /\ tail' = "none" /\ res' = "ok"
        /\ UNCHANGED <<mode, lay, contc, changed, reform, steps, out, cres, hist>>

St       == [ts |-> toks, cc |-> contc]
SetSt(s) == toks' = s.ts /\ contc' = s.cc
Log(op, v, w, i) == IF Emit THEN Append(hist, [op |-> op, v |-> v, w |-> w, i |-> i, r |-> res', vals |-> vals']) ELSE hist
Step(op, v, w, i) == /\ phase = "open" /\ steps < EditLimit
                     /\ steps' = steps + 1 /\ hist' = Log(op, v, w, i)
                     /\ UNCHANGED <<mode, lay, phase, out, cres>>

Append1(v)    == /\ AAppend(v) /\ SetSt(AppVal(mode, St, v)) /\ changed' = TRUE /\ UNCHANGED reform
                 /\ Step("append", v, <<>>, 0)
Remove1(v)    == /\ ARemove(v)
                 /\ IF HasVal(toks, v) THEN toks' = RmNode(toks, FirstIdx(toks, v)) /\ changed' = TRUE
                                       ELSE UNCHANGED <<toks, changed>>
                 /\ UNCHANGED <<contc, reform>> /\ Step("remove", v, <<>>, 0)
Replace1(v, w) == /\ AReplace(v, w)
                  /\ IF HasVal(toks, v) THEN toks' = [toks EXCEPT ![FirstIdx(toks, v)] = w] /\ changed' = TRUE
                                        ELSE UNCHANGED <<toks, changed>>
                  /\ UNCHANGED <<contc, reform>> /\ Step("replace", v, w, 0)
RefSet1(i, w) == /\ ARefSet(i, w) /\ i <= Len(ValEntries(toks))
                 /\ toks' = [toks EXCEPT ![ValIdx(toks, i)] = w] /\ changed' = TRUE
                 /\ UNCHANGED <<contc, reform>> /\ Step("refset", <<>>, w, i)
RefRemove1(i) == /\ ARefRemove(i) /\ i <= Len(ValEntries(toks))
                 /\ toks' = RmNode(toks, ValIdx(toks, i)) /\ changed' = TRUE
                 /\ UNCHANGED <<contc, reform>> /\ Step("refremove", <<>>, <<>>, i)
\* append / replace / reference assignment with a text that is NOT a single item of the interpretation: the value
\* factory refuses it, the token list is not touched and the list is not marked as changed (ListView!ARefuse)
Refused1(op, v, i) == /\ ARefuse("ValueError") /\ UNCHANGED <<toks, contc, changed, reform>>
                      /\ Step(op, v, <<>>, i)
AppendSep1(sp) == /\ mode = "cm"              \* (in a space list the separator is a blank: not exercised)
                  /\ AAppendSep /\ SetSt(AppSep(mode, St, sp)) /\ changed' = TRUE /\ UNCHANGED reform
                  /\ Step(IF sp THEN "sep" ELSE "sep0", <<>>, <<>>, 0)
AppendNl1     == /\ AAppendNl
                 /\ IF toks # <<>> /\ EndsNl(Tl(toks)) THEN UNCHANGED toks ELSE toks' = AppNl(toks)
                 /\ UNCHANGED <<contc, changed, reform>> /\ Step("nl", <<>>, <<>>, 0)
AppendCmt1    == /\ AAppendCmt /\ toks' = AppCmt(toks)
                 /\ UNCHANGED <<contc, changed, reform>> /\ Step("cmt", <<>>, <<>>, 0)
Reformat1     == /\ ~reform /\ AReformat /\ reform' = TRUE /\ changed' = TRUE
                 /\ UNCHANGED <<toks, contc>> /\ Step("reformat", <<>>, <<>>, 0)
\* no_reformatting_when_finished(): back to the original formatting (the list stays marked as changed)
NoReformat1   == /\ reform /\ AReformat /\ reform' = FALSE
                 /\ UNCHANGED <<toks, contc, changed>> /\ Step("noreformat", <<>>, <<>>, 0)
\* value_formatter(one_value_per_line_trailing_separator, force_reformat=force): reformat IF something is written
VFmt1(force)  == /\ ~reform /\ AReformat /\ reform' = TRUE /\ changed' = (changed \/ force)
                 /\ UNCHANGED <<toks, contc>> /\ Step(IF force THEN "vfmtf" ELSE "vfmt", <<>>, <<>>, 0)

Close == /\ Emit /\ phase = "open"
         /\ phase' = "closed" /\ cres' = CRes /\ out' = COut
         /\ PrintT(<<"CASE", ToJson([mode |-> mode, lay |-> lay, v0 |-> Split(mode, lay), ops |-> hist,
                                     vals |-> vals, tail |-> tail, cres |-> CRes, out |-> COut])>>)
         /\ UNCHANGED <<avars, mode, lay, toks, contc, changed, reform, steps, hist>>

AppendVals == {<<NEWW>>} \cup (IF Dups THEN {<<1>>} ELSE {})
Targets    == {vals[i] : i \in 1..Len(vals)} \cup {<<ABSENT>>}

Next == \/ (phase = "grow" /\ ((\E t \in {SP, NL, CT, CM, SEP} \cup NextWords(lay) : Grow(t)) \/ Open))
        \/ (phase = "open" /\ steps < EditLimit /\
              \/ \E v \in AppendVals : Append1(v)
              \/ \E v \in Targets : Remove1(v) \/ Replace1(v, <<NEWW>>)
              \/ \E i \in 1..Len(vals) : RefSet1(i, <<NEWW>>) \/ RefRemove1(i)
              \/ (Extras /\ (\/ Refused1("badappend", <<>>, 0)
                             \/ \E i \in 1..Len(vals) : Refused1("badreplace", vals[i], 0) \/ Refused1("badrefset", <<>>, i)))
              \/ (Extras /\ (AppendSep1(TRUE) \/ AppendSep1(FALSE) \/ AppendNl1 \/ AppendCmt1 \/ Reformat1
                              \/ NoReformat1 \/ VFmt1(TRUE) \/ VFmt1(FALSE))))
        \/ Close
Spec == Init /\ [][Next]_vars

-----------------------------------------------------------------------------
IsOpen == phase = "open"
LayoutValid == (phase = "grow" /\ Complete(lay)) => Valid(lay)
Refines     == IsOpen => RenderVals(toks) = vals
RoundTrip   == (IsOpen /\ steps = 0) => Written(toks) = lay
\* ... and without discarding comments the code's value elements are the items from first to last word
KeepExact   == (IsOpen /\ steps = 0) => ValEntries(toks) = SplitKeep(mode, lay)
TailOK      == IsOpen => /\ (tail = "cmt") <=> (toks # <<>> /\ Tl(toks) = <<CM>>)
                         /\ (tail = "nl")  <=> (toks # <<>> /\ Tl(toks) = <<NL>>)
\* Writing an EMPTY list is unspecified: normally the code refuses (CRes = "ValueError"); after
\* append_separator it writes the separators, and with reformat_when_finished on top a field without
\* content (remove(only value); append_separator(); reformat_when_finished() -- 3 calls).
EmptyWrite  == vals = <<>> /\ CRes = "ok"
EditResult  == (IsOpen /\ ~EmptyWrite) => IF CRes = "ok" THEN Split(mode, COut) = vals
                                          ELSE IF CRes = "nowrite" THEN vals = Split(mode, lay) ELSE TRUE
StillValid  == (IsOpen /\ ~EmptyWrite) => Valid(COut)
RefuseOnlyWhen == IsOpen => /\ (CRes = "ValueError" => CloseMayRefuse)
                            /\ (vals = <<>> /\ changed /\ ~HasContent(toks)) => CRes = "ValueError"
\* the value elements are atomic: a word of the list is never split or glued by an edit
ValuesWellFormed == IsOpen => \A i \in 1..Len(vals) : vals[i] # <<>> /\ IsWord(vals[i][1]) /\ IsWord(Tl(vals[i]))
=============================================================================
