CONSTANTS
  CacheKeyedByNameOnly = FALSE
  ContentCacheByFile = FALSE
  ResultsAliased = FALSE
  GetMemberRewinds = FALSE
  LazyScanDiesOnFault = FALSE
  CloseForgetsPosition = FALSE
  EmitH = TRUE
SPECIFICATION Spec
INVARIANT CacheCoherent
INVARIANT NoOtherMemo
INVARIANT NoHiddenState
INVARIANT HandleSound
PROPERTY HistExact
PROPERTY RepeatStable
VIEW HView
CHECK_DEADLOCK FALSE
