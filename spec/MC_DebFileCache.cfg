CONSTANTS
  CacheKeyedByNameOnly = FALSE
  ContentCacheByFile = FALSE
  ResultsAliased = FALSE
  EmitH = TRUE
SPECIFICATION Spec
INVARIANT CacheCoherent
INVARIANT NoOtherMemo
PROPERTY HistExact
PROPERTY RepeatStable
VIEW HView
CHECK_DEADLOCK FALSE
