CONSTANTS
  AMode = "hist"
  ADepth = 2
  AMaxBlocks = 9
  AMaxChanges = 9
  AEmit = FALSE
  ABug = "none"
  ANewKinds <- AAllNewKinds
  AInits = {"empty", "two"}
SPECIFICATION ASpec
INVARIANT ATypeOK
INVARIANT IndexLaws
INVARIANT LookupByValue
INVARIANT VersionsMatchBlocks
INVARIANT AddChangeIsRule
INVARIANT RenderLaws
INVARIANT NormShape
PROPERTY NewBlockOnTop
PROPERTY OnlyTopChanges
PROPERTY ReadBack
PROPERTY ErrAtomic
PROPERTY EmptyRaises
CHECK_DEADLOCK FALSE
