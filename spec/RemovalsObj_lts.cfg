CONSTANTS
  Leads = {}
  Gaps = {}
  Trails = {}
  MaxArch = 0
  MaxEdits = 0
  MaxLen = 0
  EditClasses = {}
  MaxNum = 0
  SplitComma = FALSE
  SrcNeedsWs = FALSE
  EmptyRaises = FALSE
  Emit = FALSE
  Objs = {1}
  OFields = {"src", "bin"}
  Rich = 0
  SharedMemo = FALSE
  EmitObj = TRUE
SPECIFICATION OSpec
INVARIANT OTypeOK
INVARIANT MemoSound
INVARIANT NoGhostMemo
PROPERTY ResSound
VIEW OView
INVARIANT PaletteDecided
CHECK_DEADLOCK FALSE
