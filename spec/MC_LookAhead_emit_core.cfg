CONSTANTS
  NC = 8
  Chunk = 5
  Classes = {0, 1}
  Scripts <- MCScripts
  ShortLen = 2
  LongLens = {6}
  LongErr = FALSE
  ArgK = {0, 1, 2, 6}
  Lims <- LimsQuick
  Preds <- PredsThree
  MaxGens = 0
  Latch = TRUE
  UseClosed = FALSE
  Bug = "none"
  Emit = TRUE
SPECIFICATION ISpec
VIEW IView
