\* C13 in-place edits, design level: a layer that remembers text per dict (from the parse and from every format call)
\* and drops it in the mutators of EVERY container inside the dict is invisible (EditProps holds).  c13.py derives the
\* negative controls from this file: Forgets = {"key"} (the seeded change C13-seedK), {"key", "arch", "groups"},
\* and Remember = "format" with Starts = {"bare"} must each make TLC report EditProps
CONSTANTS
  MaxConj = 0
  MaxAlt = 0
  MaxAtoms = 0
  MaxArch = 0
  MaxGroups = 0
  MaxTerms = 0
  OpIds = {}
  CtxKinds = {}
  RestrictionsFirst = FALSE
  IgnoreNegation = FALSE
  PipeFirst = FALSE
  FormatInKeyOrder = FALSE
  SplitLimit = 0
  LimitedSplits = {}
  KeyOrders <- OneKeyOrder
  Emit = FALSE
  Remember = "format"
  Forgets = {"key", "arch", "groups", "terms"}
  Starts = {"one", "bare"}
  DeepStarts = {"one", "bare"}
  MaxEdits = 2
SPECIFICATION ESpec
INVARIANT EditProps
CHECK_DEADLOCK FALSE
