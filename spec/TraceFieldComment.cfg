CONSTANTS
  Neg = ""
SPECIFICATION TSpec
INVARIANT TOwnership
INVARIANT TLinesWF
CHECK_DEADLOCK FALSE
