CONSTANTS
  Neg = ""
SPECIFICATION TSpec
CHECK_DEADLOCK FALSE
