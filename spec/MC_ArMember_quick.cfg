\* C06 design configuration, quick tier: closed state space of the two-layer model,
\* archives of 0..2 members with 0..2 data bytes over {NL, x}, one shared file object
\* (the by-name mode is in MC_ArMember_quick_byname.cfg; MC_ArMember.cfg has both at full size)
CONSTANTS
  Bytes = {10, 120}
  Names = {1}
  MaxMembers = 2
  MaxData = 2
  RdSizes = {1, 2}
  RlSizes = {0, 1, 2}
  SeekMax = 3
  Ops = TRUE
  Hints = {1, 2}
  Faults = {"raise"}
  IterSingleLine = FALSE
  Emit = FALSE
  Modes = {"shared"}
  ClampReadline = TRUE
  PadOdd = TRUE
  SeekFirst = TRUE
  IterYieldsAll = TRUE
  FdKinds = {"none"}
  TrustFd = FALSE
  CommitAfterRead = TRUE
  Bases = {0, 1}
  TellOffsets = TRUE
  FreshLists = TRUE
SPECIFICATION Spec
INVARIANT TypeOK
INVARIANT IndexExact
INVARIANT Refines
PROPERTY SameResult
PROPERTY NamesExact
PROPERTY Isolation
PROPERTY RExact
PROPERTY RLinesNL
PROPERTY RIsolated
VIEW ImplView
CHECK_DEADLOCK FALSE
