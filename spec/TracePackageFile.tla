------------------------- MODULE TracePackageFile -------------------------
(***************************************************************************)
(* X01 -- binding of PackageFile.tla to the real reader                    *)
(* (harness/props/x01.py).  Two specifications over IOEnv.TRACE_FILE.      *)
(*                                                                         *)
(* CSpec (TracePackageFile_cls.cfg): the file is a sequence of CHUNKS of   *)
(* lines [rs, nl] (runs [c, n] of character classes, terminated by a       *)
(* newline or not); <<"CLS", chunk, ToJson(<<Classify(rs, nl)>>)>> is      *)
(* printed per chunk.  The harness cuts the concrete line at the spans     *)
(* TLC returns: the class of every line and the tokens (name, stripped     *)
(* text) used below therefore come from the specification, whatever the    *)
(* length of the runs.                                                     *)
(*                                                                         *)
(* TSpec (TracePackageFile.cfg): a trace is one file fed to the real code  *)
(*   [lines |-> <<[c, k, t]>>,      class and tokens as classified above   *)
(*    obs   |-> <<[np, last, ek, el]>>,  obs[i] = what iterating a new     *)
(*              reader over the first i lines gave (prefix closure):       *)
(*              number of paragraphs yielded, the last one as <<[k, v]>>   *)
(*              (v = the value split at newlines), kind ("none" "record"   *)
(*              "field") and line number of the ParseError; np = -2: this  *)
(*              prefix was not observed (large files)                      *)
(*    final |-> [out, err]]         the complete outcome for all lines     *)
(* The automaton (StepF) is replayed over the lines; after every line      *)
(* Result(xrd) -- what the specification says the caller gets if the file  *)
(* ends here -- must explain the observation.  <<"ACCEPTED", tid>> is      *)
(* printed for every trace explained completely; corrupted control traces  *)
(* must not be.                                                            *)
(***************************************************************************)
EXTENDS PackageFile, Integers, IOUtils, TLCExt

Traces == JsonDeserialize(IOEnv.TRACE_FILE)
Diag   == IOEnv.TRACE_DIAG = "1"

VARIABLES tid, l
tvars == <<vars, tid, l>>
Tr == Traces[tid]

----------------------------------------------------------------------------
CInit == /\ tid \in 1..Len(Traces) /\ l = 0
         /\ xrd = RInit /\ xdoc = <<>> /\ xln = [cs |-> <<>>, nl |-> TRUE]
CNext == /\ l = 0 /\ l' = 1 /\ UNCHANGED <<vars, tid>>
         /\ PrintT(<<"CLS", tid, ToJson([i \in 1..Len(Tr) |-> Classify(Tr[i].rs, Tr[i].nl)])>>)
CSpec == CInit /\ [][CNext]_tvars

----------------------------------------------------------------------------
TInit == /\ tid \in 1..Len(Traces) /\ l = 1
         /\ xrd = RInit /\ xdoc = <<>> /\ xln = [cs |-> <<>>, nl |-> TRUE]

Explains(r, o) == \/ o.np = -2
                  \/ /\ Len(r.out) = o.np
                     /\ IF r.out = <<>> THEN o.last = <<>> ELSE r.out[Len(r.out)] = o.last
                     /\ r.err = [kind |-> o.ek, lineno |-> o.el]

TStep == /\ l <= Len(Tr.lines)
         /\ xrd' = StepF(xrd, Tr.lines[l])
         /\ Explains(Result(xrd'), Tr.obs[l])
         /\ (l = Len(Tr.lines) => Result(xrd') = Tr.final)
         /\ l' = l + 1 /\ UNCHANGED <<tid, xdoc, xln>>
         /\ (Diag => PrintT(<<"AT", tid, l>>))
         /\ (l' = Len(Tr.lines) + 1 => PrintT(<<"ACCEPTED", tid>>))

\* the empty file
TEmpty == /\ Tr.lines = <<>> /\ l = 1
          /\ Result(xrd) = Tr.final
          /\ l' = 2 /\ UNCHANGED <<tid, vars>>
          /\ PrintT(<<"ACCEPTED", tid>>)

TSpec == TInit /\ [][TStep \/ TEmpty]_tvars
\* the reader invariants also hold along every observed execution
TShape == /\ ~xrd.open => (xrd.pkg = <<>> /\ xrd.content = <<>>)
          /\ Tr.lines # <<>> => xrd.lineno = (IF xrd.err.kind = "none" THEN l - 1 ELSE xrd.err.lineno)
=============================================================================
