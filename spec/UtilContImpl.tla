---------------------------- MODULE UtilContImpl ----------------------------
(***************************************************************************)
(* X15 -- implementation layer of UtilCont.tla: the data structures of     *)
(* lib/debian/_util.py transcribed statement by statement.                 *)
(*                                                                         *)
(*   LinkedListNode   nxt[x] (next_node), prv[x] (previous_node, a weak    *)
(*                    reference in the code), ival[x] (value); made = the  *)
(*                    nodes that exist                                     *)
(*   LinkedList       head[l], tail[l], size[l]  (head_node, tail_node,    *)
(*                    _size); lists 1..nl are public, list nl + s is the   *)
(*                    private __order of ordered set s                     *)
(*   OrderedSet       table[s][n] = the node stored under the dict key of  *)
(*                    lower-case class n (0 = no such key); the universe   *)
(*                    of this layer is restricted to items whose dict key  *)
(*                    is determined by n (_CaseInsensitiveString in any    *)
(*                    spelling, plain lower-case str) plus unhashable ones *)
(*                                                                         *)
(* ICall(im, its, fl, c) = [im |-> structures after, r |-> result] follows *)
(* the code of the called method; UtilContMC checks in every reachable     *)
(* state that the structures are consistent (LinksOK EndsOK SizeOK BackOK  *)
(* TableOK ...), that they represent the reference state (Refines) and     *)
(* that every call computes the reference result (SameResult).             *)
(*                                                                         *)
(* Switches: fl.sole / fl.empick as in UtilCont (AS BUILT when TRUE); with *)
(* fl.sole = FALSE insert_node_before/after perform the ownership test the *)
(* statement asks for (the new node must not be the head of a list).       *)
(* Negative controls (constants of UtilContMC, handed down as `neg`):      *)
(*   notail     remove_node without the `elif node is self.tail_node` part *)
(*   keepsize   clear() that forgets `self._size = 0`                      *)
(*   nohead     insert_node_before that forgets to move head_node          *)
(*   keepnext   node.remove() that keeps next_node of the removed node     *)
(***************************************************************************)
EXTENDS UtilCont

IR(im, r) == [im |-> im, r |-> r]

EmptyImpl(nl, ns, nn, nnames) ==
    [nxt |-> [x \in 1..nn |-> 0], prv |-> [x \in 1..nn |-> 0], ival |-> [x \in 1..nn |-> NoV], made |-> {},
     head |-> [l \in 1..(nl + ns) |-> 0], tail |-> [l \in 1..(nl + ns) |-> 0], size |-> [l \in 1..(nl + ns) |-> 0],
     table |-> [s \in 1..ns |-> [n \in 1..nnames |-> 0]], nl |-> nl, neg |-> ""]

\* ---- walks (fuel bounds them on broken structures)
RECURSIVE IFwdFrom(_, _, _)
IFwdFrom(im, x, fuel) == IF x = 0 \/ fuel = 0 THEN <<>> ELSE <<x>> \o IFwdFrom(im, im.nxt[x], fuel - 1)
RECURSIVE IBwdFrom(_, _, _)
IBwdFrom(im, x, fuel) == IF x = 0 \/ fuel = 0 THEN <<>> ELSE <<x>> \o IBwdFrom(im, im.prv[x], fuel - 1)
Fuel(im)        == Len(im.nxt) + 1
IWalk(im, x)    == IFwdFrom(im, x, Fuel(im))          \* node.iter_next()
IWalkBack(im, x) == IBwdFrom(im, x, Fuel(im))         \* node.iter_previous()
IVals(im, s)    == [i \in 1..Len(s) |-> im.ival[s[i]]]
IFresh(im)      == CHOOSE x \in DOMAIN im.ival : x \notin im.made /\ \A z \in 1..(x - 1) : z \in im.made
IMake(im, y, v) == [im EXCEPT !.ival[y] = v, !.made = @ \cup {y}]
IGarbage(im, x) == [im EXCEPT !.ival[x] = NoV, !.made = @ \ {x}]

\* ---- LinkedListNode
\* link_nodes(previous_node, next_node)
ILink(im, p, q) == LET i1 == IF q # 0 THEN [im EXCEPT !.prv[q] = p] ELSE im
                   IN IF p # 0 THEN [i1 EXCEPT !.nxt[p] = q] ELSE i1
\* node.remove()
INRemove(im, x) == LET i1 == ILink(im, im.prv[x], im.nxt[x]) IN
                   IF im.neg = "keepnext" THEN [i1 EXCEPT !.prv[x] = 0] ELSE [i1 EXCEPT !.prv[x] = 0, !.nxt[x] = 0]
\* x.insert_before(y) / x.insert_after(y): the assertion, then _insert_link
INInsBefore(im, x, y) == IF y = x \/ y = im.prv[x] THEN IR(im, Err("Refused"))
                         ELSE IR(ILink(ILink(im, im.prv[x], y), y, x), ROk)
INInsAfter(im, x, y)  == IF y = x \/ y = im.nxt[x] THEN IR(im, Err("Refused"))
                         ELSE IR(ILink(ILink(im, x, y), y, im.nxt[x]), ROk)

\* ---- LinkedList
IRemoveNode(im, l, x) ==
    LET i1 == IF x = im.head[l]
              THEN [im EXCEPT !.head[l] = im.nxt[x], !.tail[l] = IF im.nxt[x] = 0 THEN 0 ELSE @]
              ELSE IF x = im.tail[l] /\ im.neg # "notail" THEN [im EXCEPT !.tail[l] = im.prv[x]] ELSE im
    IN IF i1.size[l] = 0 THEN IR(i1, Err("Refused"))                    \* assert self._size > 0
       ELSE IR(INRemove([i1 EXCEPT !.size[l] = @ - 1], x), ROk)
\* append(value) once the node exists
IAppendNode(im, l, y) ==
    IF im.head[l] = 0 THEN [im EXCEPT !.head[l] = y, !.tail[l] = y, !.size[l] = @ + 1]
    ELSE [INInsAfter(im, im.tail[l], y).im EXCEPT !.tail[l] = y, !.size[l] = @ + 1]
IAppend(im, l, y, v) == IAppendNode(IMake(im, y, v), l, y)
HeadOfAList(im, y)   == \E m \in DOMAIN im.head : im.head[m] = y
IInsNodeBefore(im, fl, l, y, x) ==
    IF im.head[l] = 0 THEN IR(im, Err("ValueError"))
    ELSE IF im.nxt[y] # 0 \/ im.prv[y] # 0 THEN IR(im, Err("ValueError"))
    ELSE IF ~fl.sole /\ y # x /\ HeadOfAList(im, y) THEN IR(im, Err("ValueError"))
    ELSE LET o == INInsBefore(im, x, y) IN
         IF o.r.t = "err" THEN o
         ELSE IR([o.im EXCEPT !.head[l] = IF x = im.head[l] /\ im.neg # "nohead" THEN y ELSE @, !.size[l] = @ + 1], RNode(y))
IInsNodeAfter(im, fl, l, y, x) ==
    IF im.tail[l] = 0 THEN IR(im, Err("ValueError"))
    ELSE IF im.nxt[y] # 0 \/ im.prv[y] # 0 THEN IR(im, Err("ValueError"))
    ELSE IF ~fl.sole /\ y # x /\ HeadOfAList(im, y) THEN IR(im, Err("ValueError"))
    ELSE LET o == INInsAfter(im, x, y) IN
         IF o.r.t = "err" THEN o
         ELSE IR([o.im EXCEPT !.tail[l] = IF x = im.tail[l] THEN y ELSE @, !.size[l] = @ + 1], RNode(y))
\* insert_before(value, existing) = insert_node_before(LinkedListNode(value), existing): a refused call leaves no node
IInsVal(im, fl, l, y, v, x, after) ==
    LET i1 == IMake(im, y, v)
        o  == IF after THEN IInsNodeAfter(i1, fl, l, y, x) ELSE IInsNodeBefore(i1, fl, l, y, x)
    IN IF o.r.t = "err" THEN IR(im, o.r) ELSE o
IAtHead(im, fl, l, y, v) == IF im.head[l] = 0 THEN IR(IAppend(im, l, y, v), RNode(y))
                            ELSE IInsVal(im, fl, l, y, v, im.head[l], FALSE)
IPop(im, l)     == IF im.tail[l] = 0 THEN IR(im, Err("IndexError")) ELSE IRemoveNode(im, l, im.tail[l])
IExtend(im, l, f, vs) == FoldLeft(LAMBDA acc, i : IAppend(acc, l, f[i], vs[i]), im, [i \in 1..Len(f) |-> i])
\* clear(); the nodes the list held are garbage from now on (nobody uses them: their links are not looked at)
IClear(im, l)   == LET old == ToSet(IWalk(im, im.head[l]))
                       i1  == IF im.neg = "keepsize" THEN [im EXCEPT !.head[l] = 0, !.tail[l] = 0]
                              ELSE [im EXCEPT !.head[l] = 0, !.tail[l] = 0, !.size[l] = 0]
                   IN [i1 EXCEPT !.made = @ \ old,
                                 !.ival = [x \in DOMAIN @ |-> IF x \in old THEN NoV ELSE @[x]],
                                 !.nxt = [x \in DOMAIN @ |-> IF x \in old THEN 0 ELSE @[x]],
                                 !.prv = [x \in DOMAIN @ |-> IF x \in old THEN 0 ELSE @[x]]]
IListVals(im, l) == IVals(im, IWalk(im, im.head[l]))                       \* list(self)
\* object.__reduce_ex__ / copy / pickle: state = __getstate__(); new object; __setstate__(state) = clear + extend
Dropped(fl, c, state) == fl.empick /\ c.k \in {"pickle0", "pickle1"} /\ state = <<>>

\* ---- OrderedSet (private list PL(s), table[s])
PL(im, s)       == im.nl + s
\* add(item): `item not in self` (first hash), append to the order, `self.__table[item] = node` (second hash; on an
\* exception the node is removed again and the exception re-raised)  -> [im, ok, e]
IOAdd1(im, s, a) ==
    IF Fails1(a) THEN [im |-> im, ok |-> FALSE, e |-> a]
    ELSE IF a.k = "U" THEN LET y  == IFresh(im)
                               i1 == IAppend(im, PL(im, s), y, a)
                           IN [im |-> IGarbage(IRemoveNode(i1, PL(im, s), y).im, y), ok |-> FALSE, e |-> a]
    ELSE IF im.table[s][a.n] # 0 THEN [im |-> im, ok |-> TRUE, e |-> NoItem]
    ELSE LET y == IFresh(im) IN
         [im |-> [IAppend(im, PL(im, s), y, a) EXCEPT !.table[s][a.n] = y], ok |-> TRUE, e |-> NoItem]
IOAddAll(im, s, as) == FoldLeft(LAMBDA acc, it : IF acc.ok THEN IOAdd1(acc.im, s, it) ELSE acc,
                                [im |-> im, ok |-> TRUE, e |-> NoItem], as)
IOReset(im, s)  == [IClear(im, PL(im, s)) EXCEPT !.table[s] = [n \in DOMAIN @ |-> 0]]
\* a key whose second hash() would fail is hashed once here: it is simply absent
Absent(im, s, a) == a.k = "U" \/ im.table[s][a.n] = 0
IORemove(im, s, a) ==
    IF Fails1(a) THEN IR(im, UErr(a))
    ELSE IF Absent(im, s, a) THEN IR(im, Err("KeyError"))
    ELSE LET x == im.table[s][a.n]
             o == IRemoveNode([im EXCEPT !.table[s][a.n] = 0], PL(im, s), x)
         IN IR(IGarbage(o.im, x), o.r)
\* _reorder(item, reinserter)
IOReorder(im, fl, s, a, how, refnode) ==
    IF Fails1(a) THEN IR(im, UErr(a))
    ELSE IF Absent(im, s, a) THEN IR(im, Err("KeyError"))
    ELSE LET x  == im.table[s][a.n]
             l  == PL(im, s)
             i1 == IRemoveNode(im, l, x).im
             y  == IFresh(i1)                       \* the removed node is still referenced by _reorder
             v  == im.ival[x]
             i2 == CASE how = "olast"   -> IAppend(i1, l, y, v)
                     [] how = "ofirst"  -> IAtHead(i1, fl, l, y, v).im
                     [] how = "obefore" -> IInsVal(i1, fl, l, y, v, refnode, FALSE).im
                     [] how = "oafter"  -> IInsVal(i1, fl, l, y, v, refnode, TRUE).im
         IN IR(IGarbage([i2 EXCEPT !.table[s][a.n] = y], x), ROk)
IORel(im, fl, s, a, b, how) ==
    IF SEq(a, b) THEN IR(im, Err("ValueError"))
    ELSE IF Fails1(b) THEN IR(im, UErr(b))
    ELSE IF Absent(im, s, b) THEN IR(im, Err("KeyError"))
    ELSE IOReorder(im, fl, s, a, how, im.table[s][b.n])
IOItems(im, s)  == IListVals(im, PL(im, s))

----------------------------------------------------------------------------
ICall(im, its, fl, c) ==
    CASE c.op = "node"      -> IR(IMake(im, c.f[1], c.v), RNode(c.f[1]))
      [] c.op = "drop"      -> IR(IGarbage(im, c.x), ROk)
      [] c.op = "nvalue"    -> IR(im, RVal(im.ival[c.x]))
      [] c.op = "nsetvalue" -> IR([im EXCEPT !.ival[c.x] = c.v], ROk)
      [] c.op = "nprev"     -> IR(im, RNode(im.prv[c.x]))
      [] c.op = "nnext"     -> IR(im, RNode(im.nxt[c.x]))
      [] c.op = "nwalk"     -> IR(im, R("nodes", CASE c.k = "n"  -> IWalk(im, c.x)
                                                  [] c.k = "ns" -> IWalk(im, im.nxt[c.x])
                                                  [] c.k = "p"  -> IWalkBack(im, c.x)
                                                  [] c.k = "ps" -> IWalkBack(im, im.prv[c.x])))
      [] c.op = "nremove"   -> IR(INRemove(im, c.x), RVal(im.ival[c.x]))
      [] c.op = "nlink"     -> IR(ILink(im, c.x, c.y), ROk)
      [] c.op = "ninsbefore" -> INInsBefore(im, c.x, c.y)
      [] c.op = "ninsafter" -> INInsAfter(im, c.x, c.y)
      [] c.op = "lnew"      -> IF c.k = "boom" THEN IR(im, Err("Boom")) ELSE IR(IExtend(im, c.l, c.f, c.vs), ROk)
      [] c.op = "lbool"     -> IR(im, RBool(im.head[c.l] # 0))
      [] c.op = "llen"      -> IR(im, R("int", im.size[c.l]))
      [] c.op = "lhead"     -> IR(im, RNode(im.head[c.l]))
      [] c.op = "ltailnode" -> IR(im, RNode(im.tail[c.l]))
      [] c.op = "ltail"     -> IR(im, RVal(IF im.tail[c.l] = 0 THEN NoneV ELSE im.ival[im.tail[c.l]]))
      [] c.op = "lnodes"    -> IR(im, R("nodes", IWalk(im, im.head[c.l])))
      [] c.op \in {"lvalues", "lgetstate"} -> IR(im, R("vals", IListVals(im, c.l)))
      [] c.op = "lrev"      -> IR(im, R("vals", IVals(im, IWalkBack(im, im.tail[c.l]))))
      [] c.op = "lpop"      -> IPop(im, c.l)
      [] c.op = "lremove"   -> IRemoveNode(im, c.l, c.x)
      [] c.op = "lappend"   -> IR(IAppend(im, c.l, c.f[1], c.v), RNode(c.f[1]))
      [] c.op = "lathead"   -> IAtHead(im, fl, c.l, c.f[1], c.v)
      [] c.op = "linsbefore" -> IInsVal(im, fl, c.l, c.f[1], c.v, c.x, FALSE)
      [] c.op = "linsafter" -> IInsVal(im, fl, c.l, c.f[1], c.v, c.x, TRUE)
      [] c.op = "linsnodebefore" -> IInsNodeBefore(im, fl, c.l, c.y, c.x)
      [] c.op = "linsnodeafter"  -> IInsNodeAfter(im, fl, c.l, c.y, c.x)
      [] c.op = "lextend"   -> IR(IExtend(im, c.l, c.f, c.vs), IF c.k = "boom" THEN Err("Boom") ELSE ROk)
      [] c.op = "lclear"    -> IR(IClear(im, c.l), ROk)
      [] c.op = "lsetstate" -> IR(IExtend(IClear(im, c.l), c.l, c.f, c.vs), ROk)
      [] c.op = "lcopy"     -> LET state == IListVals(im, c.l) IN
                               IF Dropped(fl, c, state) THEN IR(im, R("broken", 0))
                               ELSE IR(IExtend(IClear(im, c.m), c.m, c.f, state), ROk)
      [] c.op = "itopen"    -> LET x == CASE c.k \in {"ln", "lv"} -> im.head[c.l]
                                          [] c.k = "lr"  -> im.tail[c.l]
                                          [] c.k \in {"nn", "np"} -> c.x
                                          [] c.k = "nns" -> im.nxt[c.x]
                                          [] c.k = "nps" -> im.prv[c.x]
                               IN IR(im, IF x = 0 THEN RStop
                                         ELSE IF ItKind(c.k) \in {"fn", "bn"} THEN RNode(x) ELSE RVal(im.ival[x]))
      [] c.op = "itnext"    -> LET it == its[c.i]
                                   x  == IF Fwd(it.k) THEN im.nxt[it.cur] ELSE im.prv[it.cur]
                               IN IR(im, IF x = 0 THEN RStop
                                         ELSE IF it.k \in {"fn", "bn"} THEN RNode(x) ELSE RVal(im.ival[x]))
      [] c.op = "onew"      -> LET o == IOAddAll(IOReset(im, c.l), c.l, c.as) IN
                               IF ~o.ok THEN IR(im, UErr(o.e)) ELSE IF c.k = "boom" THEN IR(im, Err("Boom")) ELSE IR(o.im, ROk)
      [] c.op \in {"oadd", "oappend"} -> LET o == IOAdd1(im, c.l, c.a) IN IR(o.im, IF o.ok THEN ROk ELSE UErr(o.e))
      [] c.op = "oremove"   -> IORemove(im, c.l, c.a)
      [] c.op = "oextend"   -> LET o == IOAddAll(im, c.l, c.as) IN
                               IR(o.im, IF ~o.ok THEN UErr(o.e) ELSE IF c.k = "boom" THEN Err("Boom") ELSE ROk)
      [] c.op = "ohas"      -> IF Fails1(c.a) THEN IR(im, UErr(c.a)) ELSE IR(im, RBool(~Absent(im, c.l, c.a)))
      [] c.op = "olen"      -> IR(im, R("int", im.size[PL(im, c.l)]))
      [] c.op \in {"oiter", "ogetstate"} -> IR(im, R("items", IOItems(im, c.l)))
      [] c.op = "orev"      -> IR(im, R("items", IVals(im, IWalkBack(im, im.tail[PL(im, c.l)]))))
      [] c.op \in {"ofirst", "olast"} -> IOReorder(im, fl, c.l, c.a, c.op, 0)
      [] c.op \in {"obefore", "oafter"} -> IORel(im, fl, c.l, c.a, c.b, c.op)
      [] c.op = "ocopy"     -> LET state == IOItems(im, c.l) IN
                               IF Dropped(fl, c, state) THEN IR(im, R("broken", 0))
                               ELSE IR(im, R("items", OAddAll(<<>>, state).q))       \* __init__(state) of the new object
      [] c.op = "osetstate" -> IR(IOAddAll(IOReset(im, c.l), c.l, c.as).im, ROk)
      [] OTHER              -> IR(im, UCall(EmptyState(0, 0, 0, 0), fl, c).r)      \* the string algebra has no structure

----------------------------------------------------------------------------
\* ---- the statement on the structures
ILists(im)   == DOMAIN im.head
Chain(im, l) == IWalk(im, im.head[l])
LinksOK(im)  == \A x \in im.made : /\ im.nxt[x] # 0 => (im.nxt[x] \in im.made /\ im.prv[im.nxt[x]] = x)
                                   /\ im.prv[x] # 0 => (im.prv[x] \in im.made /\ im.nxt[im.prv[x]] = x)
EndsOK(im)   == \A l \in ILists(im) : /\ (im.head[l] = 0) <=> (im.tail[l] = 0)
                                      /\ im.head[l] # 0 => (im.prv[im.head[l]] = 0 /\ im.nxt[im.tail[l]] = 0
                                                            /\ im.head[l] \in im.made /\ im.tail[l] \in im.made)
SizeOK(im)   == \A l \in ILists(im) : im.size[l] = Len(Chain(im, l)) /\ NoDup(Chain(im, l))
BackOK(im)   == \A l \in ILists(im) : IWalkBack(im, im.tail[l]) = Reverse(Chain(im, l))
DisjointOK(im) == \A l, m \in ILists(im) : l # m => ToSet(Chain(im, l)) \cap ToSet(Chain(im, m)) = {}
UnmadeOK(im) == \A x \in DOMAIN im.nxt : x \notin im.made => (im.nxt[x] = 0 /\ im.prv[x] = 0)
TableOK(im)  == \A s \in DOMAIN im.table :
                   LET q == Chain(im, PL(im, s)) IN
                   /\ \A n \in DOMAIN im.table[s] : im.table[s][n] # 0 =>
                          (im.table[s][n] \in ToSet(q) /\ im.ival[im.table[s][n]].n = n)
                   /\ \A i \in 1..Len(q) : im.table[s][im.ival[q[i]].n] = q[i]
StructOK(im) == LinksOK(im) /\ EndsOK(im) /\ SizeOK(im) /\ BackOK(im) /\ DisjointOK(im) /\ UnmadeOK(im) /\ TableOK(im)

\* ---- the reference state the structures represent
Private(im)  == UNION {ToSet(Chain(im, l)) : l \in {m \in ILists(im) : m > im.nl}}
InList(im)   == UNION {ToSet(Chain(im, l)) : l \in ILists(im)}
AbsLst(im)   == [l \in 1..im.nl |-> Chain(im, l)]
AbsCh(im)    == {IWalk(im, x) : x \in {z \in im.made \ InList(im) : im.prv[z] = 0}}
AbsOs(im)    == [s \in DOMAIN im.table |-> IVals(im, Chain(im, PL(im, s)))]
Covered(im)  == im.made = InList(im) \cup UNION {ToSet(s) : s \in AbsCh(im)}
ValRefines(im, st) == \A x \in DOMAIN im.ival :
                          IF x \in im.made /\ x \notin Private(im) THEN st.val[x] = im.ival[x] ELSE st.val[x] = NoV
RefinesSt(im, st) == /\ AbsLst(im) = st.lst /\ AbsCh(im) = st.ch /\ AbsOs(im) = st.os
                     /\ Covered(im) /\ ValRefines(im, st)
=============================================================================
