CONSTANTS
  MaxStream = 4
  MaxContent = 6
  Emit = TRUE
  Bug = "none"
SPECIFICATION Spec
INVARIANT LenRefines
INVARIANT CombRefines
INVARIANT HandedStable
PROPERTY OutcomeOK
PROPERTY Finished
VIEW View
