\* C12 -- quick tier: every subset of every class (PdiffIndex 2^14 x 2 shapes), single fields x record lists, pairs of fields; closed; props/c12.py sets EmitOff from the seed
CONSTANTS
  Tables <- DocTables
  Modes <- ModesQuick
  IterateAllFields = FALSE
  SplitEverySpace = FALSE
  Emit = TRUE
  EmitOff = 0
SPECIFICATION Spec
INVARIANT TypeOK
INVARIANT DumpTotal
INVARIANT DumpExplains
INVARIANT RecordsRoundTrip
INVARIANT SubFieldNames
INVARIANT WidthRule
INVARIANT RightAligned
INVARIANT SingleBlanks
PROPERTY LoadIsIdentity
CHECK_DEADLOCK FALSE
