\* C12 -- quick tier: 4-field classes: every subset x 7 uniform shapes; single fields x record lists; pairs of fields (closed)
CONSTANTS
  Tables <- DocTables
  Modes <- ModesQuick
  IterateAllFields = FALSE
  SplitEverySpace = FALSE
  CacheWidths = FALSE
  SharedEqualRecords = FALSE
  ClassLevelOption = FALSE
  StoreBeforeValidate = FALSE
  ReorderStoresPlainKeys = FALSE
  RefusedUnlinksFirst = FALSE
  Emit = TRUE
  EmitOff = 0
SPECIFICATION Spec
INVARIANT TypeOK
INVARIANT DumpTotal
INVARIANT KeysFold
INVARIANT KeysListed
INVARIANT WidthTable
INVARIANT DumpExplains
INVARIANT RecordsRoundTrip
INVARIANT SubFieldNames
INVARIANT WidthRule
INVARIANT RightAligned
INVARIANT SingleBlanks
PROPERTY LoadIsIdentity
PROPERTY EditIsLocal
PROPERTY OtherIsOther
PROPERTY RefusedIsAtomic
CHECK_DEADLOCK FALSE
