----------------------- MODULE TraceReproTokenizer -----------------------
(***************************************************************************)
(* C01 -- trace validation: parses recorded from the real                  *)
(* debian._deb822_repro (harness/props/c01.py) are checked against         *)
(* ReproTokenizer.  One trace = one document, in one of two forms:         *)
(*                                                                         *)
(* abs = 0 (small documents: <= 60 lines of <= 100 code points)            *)
(*   [lines |-> << [t |-> code points of the line as fed to the parser,    *)
(*                  cls |-> candidate classes of the line (independent     *)
(*                          classifier of the harness; more than one where *)
(*                          the deb822 syntax and Unicode whitespace leave *)
(*                          the class open)] >>,                           *)
(*    exc |-> "none" or the exception type raised by parse/dump/tokenize,  *)
(*    outs |-> the observed outputs (dump(), the joined token texts, the   *)
(*             dump() repeated after later parses) as code points,         *)
(*    kinds |-> observed token kinds (KindCode), parts |-> observed        *)
(*    top-level parts (PartsView), diag |-> 1]                             *)
(* abs = 1 (size-stressed documents: lines up to 64 KiB, up to 10 000      *)
(*   lines).  What TLC scans stays small: a line is [n |-> its length,     *)
(*   h |-> a 30-bit checksum of its text, hn |-> the checksum of the text  *)
(*   followed by a newline, nl |-> 1 iff it ends in a newline, inner |-> 1 *)
(*   iff it has a newline elsewhere, cls]; an observed output is           *)
(*   [pieces |-> << <<length, checksum>> >>] of the output cut after every *)
(*   newline.  The identity expectation is LENGTH-INDEPENDENT: a line is   *)
(*   an opaque blob, the expected output is the sequence of the blobs (in  *)
(*   mode N each followed by a newline), so length and checksum per blob   *)
(*   are all the specification needs; the text itself never reaches TLC.   *)
(*   diag = 0 (documents of more than 300 lines) skips the diagnostic      *)
(*   replay below (its history variables grow with the document).          *)
(*                                                                         *)
(* VERDICT (step 0, decided here, not in the harness): the specification   *)
(* derives termination flags and input mode (abs = 0: from the code        *)
(* points); if the document is in the domain of C01 (DocMode # "out") the  *)
(* parse must have returned and every observed output must be the expected *)
(* one = the lines (in mode N each followed by a newline).                 *)
(* <<"ACCEPTED", tid>> is printed iff that holds (documents outside the    *)
(* domain are accepted whatever happened).                                 *)
(* DIAGNOSTIC (steps 1..n+1): the tokenizer/builder automaton is replayed  *)
(* over the class sequence with the actions of ReproTokenizer and must     *)
(* produce the observed token kinds (checked line by line) and finally the *)
(* observed part list; <<"AT", tid, l>> marks progress, a document         *)
(* explained completely reaches l = n + 1.  A document that is ACCEPTED    *)
(* but not explained is specification drift, not a violation.              *)
(***************************************************************************)
EXTENDS ReproTokenizer, Integers, IOUtils, TLCExt

Traces == JsonDeserialize(IOEnv.TRACE_FILE)

VARIABLES tid, l
tvars == <<vars, tid, l>>

Tr == Traces[tid]
NL == Len(Tr.lines)

Terminated(t) == Len(t) > 0 /\ t[Len(t)] = 10
HasNl(t)      == \E j \in 1..Len(t) : t[j] = 10
InnerNl(t)    == \E j \in 1..(Len(t) - 1) : t[j] = 10

IsAbs(T) == T.abs = 1
LTerminated(T, i) == IF IsAbs(T) THEN T.lines[i].nl = 1 ELSE Terminated(T.lines[i].t)
LInnerNl(T, i)    == IF IsAbs(T) THEN T.lines[i].inner = 1 ELSE InnerNl(T.lines[i].t)
LEmpty(T, i)      == IF IsAbs(T) THEN T.lines[i].n = 0 ELSE Len(T.lines[i].t) = 0

\* the domain of C01: "each line ending in a newline, except possibly the last" (a line has at
\* least one character and no newline inside), or "two or more lines, none terminated"
DomT(T) == /\ \A i \in 1..Len(T.lines) : ~LEmpty(T, i) /\ ~LInnerNl(T, i)
           /\ \A i \in 1..(Len(T.lines) - 1) : LTerminated(T, i)
DomN(T) == Len(T.lines) >= 2 /\ \A i \in 1..Len(T.lines) : ~LTerminated(T, i) /\ ~LInnerNl(T, i)
DocMode(T) == IF DomT(T) THEN "T" ELSE IF DomN(T) THEN "N" ELSE "out"

RECURSIVE Cat(_, _, _)
Cat(T, i, addNl) == IF i > Len(T.lines) THEN <<>>
                    ELSE T.lines[i].t \o (IF addNl THEN <<10>> ELSE <<>>) \o Cat(T, i + 1, addNl)
Expected(T) == Cat(T, 1, DocMode(T) = "N")

\* abs = 1: the expected output, cut after every newline, is one blob per line
ExpectedPiece(T, i, nmode) == IF nmode THEN <<T.lines[i].n + 1, T.lines[i].hn>>
                              ELSE <<T.lines[i].n, T.lines[i].h>>
OutOk(T, o) == IF IsAbs(T)
               THEN LET nmode == DocMode(T) = "N" IN
                    /\ Len(T.outs[o].pieces) = Len(T.lines)
                    /\ \A i \in 1..Len(T.lines) : T.outs[o].pieces[i] = ExpectedPiece(T, i, nmode)
               ELSE T.outs[o] = Expected(T)

Verdict(T) == DocMode(T) # "out" =>
                 /\ T.exc = "none"
                 /\ Len(T.outs) >= 1
                 /\ \A o \in 1..Len(T.outs) : OutOk(T, o)

TInit == /\ tid \in 1..Len(Traces)
         /\ l = 0
         /\ mode = (IF DocMode(Traces[tid]) = "N" THEN "N" ELSE "T")
         /\ ended = FALSE /\ fld = FALSE /\ wsOpen = FALSE /\ last = "brk"
         /\ lines = <<>> /\ toks = <<>> /\ parts = <<>> /\ pendToks = <<>>

TVerdict == /\ l = 0
            /\ (Verdict(Tr) => PrintT(<<"ACCEPTED", tid>>))
            /\ IF DocMode(Tr) = "out" \/ Tr.diag = 0
               THEN PrintT(<<"AT", tid, NL + 1>>) /\ l' = NL + 2
               ELSE l' = 1
            /\ UNCHANGED <<vars, tid>>

\* the tokens added by the step (from index `from` on) have the observed kinds
KindsFrom(ts, K, from) == \A j \in from..Len(ts) : j <= Len(K) /\ KindCode(ts[j].k) = K[j]

TLine == /\ 1 <= l /\ l <= NL
         /\ \E j \in 1..Len(Tr.lines[l].cls) : Step(Tr.lines[l].cls[j], LTerminated(Tr, l))
         /\ KindsFrom(toks', Tr.kinds, Len(toks) + 1)
         /\ PrintT(<<"AT", tid, l>>)
         /\ l' = l + 1 /\ UNCHANGED tid

TEnd == /\ l = NL + 1
        /\ Len(toks) = Len(Tr.kinds)
        /\ PartsView(FinalParts(P0)) = Tr.parts
        /\ PrintT(<<"AT", tid, l>>)
        /\ l' = l + 1 /\ UNCHANGED <<vars, tid>>

TNext == TVerdict \/ TLine \/ TEnd
TSpec == TInit /\ [][TNext]_tvars
=============================================================================
