----------------------- MODULE TraceReproTokenizer -----------------------
(***************************************************************************)
(* C01 -- trace validation: parses recorded from the real                  *)
(* debian._deb822_repro (harness/props/c01.py) are checked against         *)
(* ReproTokenizer.  One trace = one document:                              *)
(*   [lines |-> << [t |-> code points of the line as fed to the parser,    *)
(*                  cls |-> candidate classes of the line (independent     *)
(*                          classifier of the harness; more than one where *)
(*                          the deb822 syntax and Unicode whitespace leave *)
(*                          the class open)] >>,                           *)
(*    exc |-> "none" or the exception raised by parse / dump / tokenize,   *)
(*    outs |-> the observed outputs (dump() and the joined token texts) as *)
(*             code points, kinds |-> observed token kinds (KindCode),     *)
(*    parts |-> observed top-level parts (PartsView)]                      *)
(*                                                                         *)
(* VERDICT (step 0, decided here, not in the harness): the specification   *)
(* derives termination flags and input mode from the code points; if the   *)
(* document is in the domain of C01 (DocMode # "out") the parse must have  *)
(* returned and every observed output must equal Expected = the lines (in  *)
(* mode N each followed by a newline).  <<"ACCEPTED", tid>> is printed iff *)
(* that holds (documents outside the domain are accepted whatever          *)
(* happened).                                                              *)
(* DIAGNOSTIC (steps 1..n+1): the tokenizer/builder automaton is replayed  *)
(* over the class sequence with the actions of ReproTokenizer and must     *)
(* produce the observed token kinds (checked line by line)               *)
(* and finally the observed part list; <<"AT", tid, l>> marks progress, a  *)
(* document explained completely reaches l = n + 1.  A document that is    *)
(* ACCEPTED but not explained is specification drift, not a violation.     *)
(***************************************************************************)
EXTENDS ReproTokenizer, Integers, IOUtils, TLCExt

Traces == JsonDeserialize(IOEnv.TRACE_FILE)

VARIABLES tid, l
tvars == <<vars, tid, l>>

Tr == Traces[tid]
NL == Len(Tr.lines)

Terminated(t) == Len(t) > 0 /\ t[Len(t)] = 10
HasNl(t)      == \E j \in 1..Len(t) : t[j] = 10
InnerNl(t)    == \E j \in 1..(Len(t) - 1) : t[j] = 10

\* the domain of C01: "each line ending in a newline, except possibly the last" (a line has at
\* least one character and no newline inside), or "two or more lines, none terminated"
DomT(T) == /\ \A i \in 1..Len(T.lines) : Len(T.lines[i].t) > 0 /\ ~InnerNl(T.lines[i].t)
           /\ \A i \in 1..(Len(T.lines) - 1) : Terminated(T.lines[i].t)
DomN(T) == Len(T.lines) >= 2 /\ \A i \in 1..Len(T.lines) : ~HasNl(T.lines[i].t)
DocMode(T) == IF DomT(T) THEN "T" ELSE IF DomN(T) THEN "N" ELSE "out"

RECURSIVE Cat(_, _, _)
Cat(T, i, addNl) == IF i > Len(T.lines) THEN <<>>
                    ELSE T.lines[i].t \o (IF addNl THEN <<10>> ELSE <<>>) \o Cat(T, i + 1, addNl)
Expected(T) == Cat(T, 1, DocMode(T) = "N")

Verdict(T) == DocMode(T) # "out" =>
                 /\ T.exc = "none"
                 /\ Len(T.outs) >= 1
                 /\ \A o \in 1..Len(T.outs) : T.outs[o] = Expected(T)

TInit == /\ tid \in 1..Len(Traces)
         /\ l = 0
         /\ mode = (IF DocMode(Traces[tid]) = "N" THEN "N" ELSE "T")
         /\ ended = FALSE /\ fld = FALSE /\ wsOpen = FALSE /\ last = "brk"
         /\ lines = <<>> /\ toks = <<>> /\ parts = <<>> /\ pendToks = <<>>

TVerdict == /\ l = 0
            /\ (Verdict(Tr) => PrintT(<<"ACCEPTED", tid>>))
            /\ IF DocMode(Tr) = "out"
               THEN PrintT(<<"AT", tid, NL + 1>>) /\ l' = NL + 2
               ELSE l' = 1
            /\ UNCHANGED <<vars, tid>>

\* the tokens added by the step (from index `from` on) have the observed kinds
KindsFrom(ts, K, from) == \A j \in from..Len(ts) : j <= Len(K) /\ KindCode(ts[j].k) = K[j]

TLine == /\ 1 <= l /\ l <= NL
         /\ \E j \in 1..Len(Tr.lines[l].cls) : Step(Tr.lines[l].cls[j], Terminated(Tr.lines[l].t))
         /\ KindsFrom(toks', Tr.kinds, Len(toks) + 1)
         /\ PrintT(<<"AT", tid, l>>)
         /\ l' = l + 1 /\ UNCHANGED tid

TEnd == /\ l = NL + 1
        /\ Len(toks) = Len(Tr.kinds)
        /\ PartsView(FinalParts(P0)) = Tr.parts
        /\ PrintT(<<"AT", tid, l>>)
        /\ l' = l + 1 /\ UNCHANGED <<vars, tid>>

TNext == TVerdict \/ TLine \/ TEnd
TSpec == TInit /\ [][TNext]_tvars
=============================================================================
