------------------------------ MODULE TraceX14A ------------------------------
(***************************************************************************)
(* X14 (b) -- trace validation: histories of calls recorded on several     *)
(* live debian.changelog.Changelog objects (harness/props/x14.py) are      *)
(* explained by the pure operators of ChangelogApi, one action per public  *)
(* call.  A trace is [objs, events]: objs = the changelogs at the start    *)
(* (<<>> for Changelog(), the blocks as written for a parsed text, with    *)
(* the encoding), an event [o |-> object, op, ...]:                        *)
(*   new_block [a, r, st]   set [f, v, r, st]   set_version [vv, r, st]    *)
(*   add_change [cv, r, st]        st = every public attribute of every    *)
(*                                 block of object o after the call (chk = *)
(*                                 FALSE: not read this time, big objects) *)
(*   len [n]  versions [vs]  getidx [i, pos]  getver [vv, pos]             *)
(*   top [p, val]  norm [i, nk]  iter [ps]                                 *)
(*   render [i, form, ok]    i = 0: the changelog, else block i; when the  *)
(*                           model renders, the expected pieces go to the  *)
(*                           harness as <<"RENDER", tid, l, json>> and are *)
(*                           compared there with str() / bytes() / the     *)
(*                           text written to a file                        *)
(*   adopt [src, done, st]   object o := the parse of str(object src)      *)
(*   peek [st]               no call: the object still is what the model   *)
(*                           says (calls on OTHER objects came between)    *)
(* Payloads are interned ids; versions / change lines / keys carry the     *)
(* structure the model needs (parts and equality class; blank; character   *)
(* classes).  <<"ACCEPTED", tid>> per explained trace.                     *)
(***************************************************************************)
EXTENDS ChangelogApi, IOUtils, TLCExt

Traces == JsonDeserialize(IOEnv.TRACE_FILE)
Diag   == IOEnv.TRACE_DIAG = "1"

VARIABLES tid, tl, aobjs
tavars == <<avars, tid, tl, aobjs>>
Tr == Traces[tid]
Chk(P) == P = TRUE

TAInit == /\ tid \in 1..Len(Traces) /\ tl = 1
          /\ aobjs = Traces[tid].objs
          /\ ablks = <<>> /\ atick = 0 /\ aenc = "utf-8" /\ ainit = "trace" /\ ahist = <<>> /\ ares = <<>>

Go == /\ tl' = tl + 1 /\ UNCHANGED <<tid, avars>>
      /\ (Diag => PrintT(<<"AT", tid, tl>>))
      /\ (tl + 1 = Len(Tr.events) + 1 => PrintT(<<"ACCEPTED", tid>>))

TMutate(e) ==
    LET ob == aobjs[e.o]
        c  == CASE e.op = "new_block"   -> ACall(e.op, "", "", VNone, B0, e.a, "")
                [] e.op = "set"         -> ACall(e.op, e.f, e.v, VNone, B0, ANone, "")
                [] e.op = "set_version" -> ACall(e.op, "", "", e.vv, B0, ANone, "")
                [] e.op = "add_change"  -> ACall(e.op, "", "", VNone, e.cv, ANone, "")
        out == AApply(ob.blks, ob.enc, c)
    IN /\ Chk(out.r = e.r \/ (out.r = "err:any" /\ e.r \in {"err:index", "err:value"}))
       /\ Chk(~e.chk \/ AProjAll(out.bs) = e.st)
       /\ aobjs' = [aobjs EXCEPT ![e.o].blks = out.bs]
       /\ Go

TQuery(e) ==
    LET bs == aobjs[e.o].blks IN
    /\ CASE e.op = "len"      -> Chk(QLen(bs) = e.n)
         [] e.op = "versions" -> Chk(QVersions(bs) = e.vs)
         [] e.op = "getidx"   -> Chk(QIdx(bs, e.i) = e.pos)
         [] e.op = "getver"   -> Chk(QVer(bs, e.vv) = e.pos)
         [] e.op = "top"      -> Chk(QTop(bs, e.p) = e.val \/ QTop(bs, e.p) = "unspec")
         [] e.op = "norm"     -> Chk(e.i \in 1..Len(bs) /\ QNorm(bs[e.i]) = e.nk)
         [] e.op = "iter"     -> Chk(e.ps = [i \in 1..Len(bs) |-> i])
         [] e.op = "peek"     -> Chk(AProjAll(bs) = e.st)
         [] e.op = "render"   ->
              LET r  == IF e.i = 0 THEN QWhole(bs) ELSE QRender(bs[e.i])
                  en == IF e.i = 0 THEN aobjs[e.o].enc ELSE bs[e.i].en
              IN /\ Chk(r.ok = e.ok)
                 /\ IF r.ok THEN PrintT(<<"RENDER", tid, tl, ToJson([en |-> en, lines |-> r.lines])>>) ELSE TRUE
         [] OTHER -> Chk(FALSE)         \* "bad": the harness could not even read the answer
    /\ UNCHANGED aobjs /\ Go

\* object o := Changelog(str(object src)) (any input form / parse_changelog): the same blocks in the encoding of
\* o, sharing nothing; only possible when the text exists
TAdopt(e) ==
    LET src == aobjs[e.src].blks  enc == aobjs[e.o].enc IN
    /\ Chk(e.done = QWhole(src).ok)
    /\ IF e.done THEN aobjs' = [aobjs EXCEPT ![e.o].blks = [i \in 1..Len(src) |-> [src[i] EXCEPT !.en = enc]]]
       ELSE UNCHANGED aobjs
    /\ Chk(AProjAll(aobjs'[e.o].blks) = e.st)
    /\ Go

TAStep == /\ tl <= Len(Tr.events)
          /\ LET e == Tr.events[tl] IN
             IF e.op \in {"new_block", "set", "set_version", "add_change"} THEN TMutate(e)
             ELSE IF e.op = "adopt" THEN TAdopt(e) ELSE TQuery(e)

TASpec == TAInit /\ [][TAStep]_tavars
=============================================================================
