------------------------- MODULE TraceListViewMulti -------------------------
(***************************************************************************)
(* C11 -- trace validation of executions with SEVERAL list views alive at  *)
(* once (harness/props/c11.py, recorder `record_multi`) against            *)
(* ListViewMulti.  A trace is [lays, events]: lays[f][m] is the token       *)
(* layout of field f as read by interpretation m (<<>>: not used), the     *)
(* same text in every document; an event is                                *)
(*   [op, h, d, f, m, v, w, i, res, got, all, read, doc]                   *)
(* op/h/arguments, the outcome, `got` (what open / a fresh read / a held   *)
(* reference showed), `all` (what EVERY live handle shows after the call:  *)
(* a leak into another view is visible at once), read = "failed" when a    *)
(* fresh view could not be read (acceptable only where the list is         *)
(* unspecified), doc = "ok" when no document changed that should not       *)
(* (every other document byte-identical after every call; on leaving:      *)
(* every other field byte-identical, no error element, one paragraph, same *)
(* field names).                                                           *)
(***************************************************************************)
EXTENDS ListViewMulti, IOUtils, TLCExt

LV == INSTANCE ListView WITH vals <- <<>>, tail <- "none", res <- "ok"

Traces == JsonDeserialize(IOEnv.TRACE_FILE)
Diag   == IOEnv.TRACE_DIAG = "1"

VARIABLES tid, l
Tr == Traces[tid]

TInit == /\ tid \in 1..Len(Traces) /\ l = 1
         /\ doc = [d \in Docs |-> [f \in Fields |-> [m \in Modes |-> LV!Split(m, Traces[tid].lays[f][m])]]]
         /\ unk = [d \in Docs |-> [f \in Fields |-> [m \in Modes |-> Traces[tid].lays[f][m] = <<>>]]]
         /\ H = [h \in Handles |-> Dead] /\ held = [h \in Handles |-> <<>>]
         /\ actor = 0 /\ lastop = "-" /\ res = "ok" /\ got = <<>> /\ steps = 0 /\ hist = <<>>

\* a reference whose value has been removed meanwhile is invalid: using it must fail and change nothing
Stale(e) == /\ InBlock(e.h) /\ e.i \in 1..Len(held[e.h]) /\ e.res # "ok"
            /\ H' = H /\ res' = e.res /\ got' = <<>> /\ UNCHANGED <<doc, unk, held>> /\ Note(e.h, e.op)

TStep == /\ l <= Len(Tr.events)
         /\ LET e == Tr.events[l] IN
            /\ \/ e.op = "open"       /\ Open(e.h, e.d, e.f, e.m, e.got) /\ e.got = Vals(H'[e.h].el)
               \/ e.op = "read"       /\ Read1(e.d, e.f, e.m, e.got) /\ (e.read = "failed" => unk[e.d][e.f][e.m])
               \/ e.op = "append"     /\ Append1(e.h, e.v)
               \/ e.op = "remove"     /\ Remove1(e.h, e.v, e.res)
               \/ e.op = "replace"    /\ Replace1(e.h, e.v, e.w, e.res)
               \/ e.op = "refset"     /\ RefSet1(e.h, e.i, e.w)
               \/ e.op = "refremove"  /\ RefRemove1(e.h, e.i)
               \/ e.op = "hold"       /\ Hold1(e.h, e.i)
               \/ e.op = "heldget"    /\ (IF HeldOK(e.h, e.i) THEN HeldGet1(e.h, e.i) /\ got' = e.got ELSE Stale(e))
               \/ e.op = "heldset"    /\ (IF HeldOK(e.h, e.i) THEN HeldSet1(e.h, e.i, e.w) ELSE Stale(e))
               \/ e.op = "heldremove" /\ (IF HeldOK(e.h, e.i) THEN HeldRemove1(e.h, e.i) ELSE Stale(e))
               \/ e.op \in {"badappend", "badreplace", "badrefset"} /\ Bad1(e.h, e.op, e.res)     \* refused, nothing changes anywhere
               \/ e.op = "sep"        /\ Sep1(e.h)
               \/ e.op = "nl"         /\ Nl1(e.h, e.res)
               \/ e.op = "cmt"        /\ Cmt1(e.h)
               \/ e.op = "reformat"   /\ Reformat1(e.h)
               \/ e.op = "noreformat" /\ NoReformat1(e.h)
               \/ e.op = "vfmt"       /\ VFmt1(e.h, FALSE)
               \/ e.op = "vfmtf"      /\ VFmt1(e.h, TRUE)
               \/ e.op = "abort"      /\ Abort1(e.h)
               \/ e.op = "leave"      /\ Leave1(e.h, e.res)
               \/ e.op = "reenter"    /\ Reenter1(e.h)
               \/ e.op = "drop"       /\ Drop1(e.h)
            /\ res' = e.res
            /\ (e.op = "read" /\ e.read = "ok") => got' = e.got
            /\ \A h \in Handles : H'[h].live => e.all[h] = Vals(H'[h].el)     \* no view shows anything but its own list
            /\ e.doc = "ok"
         /\ hist' = hist
         /\ l' = l + 1 /\ UNCHANGED tid
         /\ (Diag => PrintT(<<"AT", tid, l>>))
         /\ (l' = Len(Tr.events) + 1 => PrintT(<<"ACCEPTED", tid>>))

TSpec == TInit /\ [][TStep]_<<mvars, tid, l>>
TLayoutsOK == \A f \in Fields, m \in Modes : Tr.lays[f][m] = <<>> \/ Len(Tr.lays[f][m]) > 300 \/ LV!WellFormed(m, Tr.lays[f][m])
=============================================================================
