\* C17 spec-level negative controls: small spaces; c17.py sets Mode, switches ONE of the negative-control constants
\* to TRUE, keeps ONE invariant and requires TLC to report it (see CopyrightDoc.tla)
CONSTANTS
  Mode = "codec"
  Alphabet = {"E", "ID", "I", "P"}
  MaxLen = 3
  MaxParas = 2
  HdrKinds = {"full"}
  BigPats = {1}
  CopyMax = 2
  CopyAlpha = {"I"}
  BigTextMax = 2
  BigTextAlpha = {"E", "I", "P"}
  Emit = FALSE
  NoDotEscape = FALSE
  DecoderStrips = FALSE
  DotAnyIndent = FALSE
  StaleDump = FALSE
  LicMemoBySynopsis = FALSE
  ParseMemoAliased = FALSE
  CommaSeparates = FALSE
  RejectDrops = FALSE
  MayAcceptedSplits = FALSE
  ArgAliased = FALSE
  RejAt = {1}
  RejThen = 2
  RejEditAt = {1}
SPECIFICATION Spec
INVARIANT CodecNormal
INVARIANT CodecLaw
INVARIANT CodecStable
INVARIANT EncodedSafe
INVARIANT CodecRepeat
INVARIANT BuildAccepted
INVARIANT FilesFirst
INVARIANT RoundTrip
INVARIANT Stable
INVARIANT HistoryKept
CHECK_DEADLOCK FALSE
