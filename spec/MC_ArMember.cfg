\* C06 design configuration, thorough tier: closed state space of the two-layer model,
\* archives of 0..2 members with 0..3 data bytes over {NL, x}, one shared file object
\* (the by-name mode: MC_ArMember_byname.cfg, 0..2 data bytes)
CONSTANTS
  Bytes = {10, 120}
  Names = {1}
  MaxMembers = 2
  MaxData = 3
  RdSizes = {1, 2, 4}
  RlSizes = {0, 1, 2, 4}
  SeekMax = 4
  Ops = TRUE
  Hints = {1, 2}
  Faults = {"raise"}
  IterSingleLine = FALSE
  Emit = FALSE
  Modes = {"shared"}
  ClampReadline = TRUE
  PadOdd = TRUE
  SeekFirst = TRUE
  IterYieldsAll = TRUE
  FdKinds = {"none"}
  TrustFd = FALSE
  CommitAfterRead = TRUE
  Bases = {0, 1}
  TellOffsets = TRUE
  FreshLists = TRUE
SPECIFICATION Spec
INVARIANT TypeOK
INVARIANT IndexExact
INVARIANT Refines
PROPERTY SameResult
PROPERTY NamesExact
PROPERTY Isolation
PROPERTY RExact
PROPERTY RLinesNL
PROPERTY RIsolated
VIEW ImplView
CHECK_DEADLOCK FALSE
