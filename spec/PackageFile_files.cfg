CONSTANTS
  NoText = 0
  TrimEnd = TRUE
  LenientBlank = FALSE
  FlushOnError = FALSE
  MaxLen = 0
  MaxLines = 5
  BigSel = {}
  Emit = TRUE
SPECIFICATION BSpec
INVARIANT BTotality
INVARIANT BRunAgrees
INVARIANT BShape
INVARIANT BAccepts
INVARIANT BRoundTrip
INVARIANT BFinalBlank
INVARIANT BErrorLine
INVARIANT EmitCase
CHECK_DEADLOCK FALSE
