CONSTANTS
  Ids = {1, 2}
  MaxBuf = 4
  MaxCmds = 2
  MinBlock = 1
  MaxBlock = 2
  Adjacent = TRUE
  Ascending = FALSE
  OffByOne = FALSE
  AcceptUnterminated = FALSE
  Emit = TRUE
SPECIFICATION Spec
INVARIANT TypeOK
INVARIANT SequentiallyValid
INVARIANT ImplEqualsEd
INVARIANT TargetReached
INVARIANT StructureConsistent
INVARIANT CorruptRaises
INVARIANT EmitCase
INVARIANT EmitCorrupt
CHECK_DEADLOCK FALSE
