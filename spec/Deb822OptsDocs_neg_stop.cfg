CONSTANTS
  MaxLines = 3
  EmitMin = 0
  FExact = FALSE
  FStop = TRUE
  FKeepCont = FALSE
  FWsFlip = FALSE
  Emit = FALSE
SPECIFICATION DSpec
INVARIANT FilterIsRestriction
INVARIANT CtorIsFirst
INVARIANT CaseInsensitiveFilter
INVARIANT FilterIsASet
INVARIANT StrictLaw
INVARIANT CommentLaw
INVARIANT SplitUnsigned
INVARIANT SplitFeedsParser
INVARIANT ArmorLaw
INVARIANT ResultsUnique
INVARIANT DefaultsLaw
CHECK_DEADLOCK FALSE
