CONSTANTS
  Names = {1, 2, 3}
  Start <- StartC
  MaxParas = 1
  EditFields = TRUE
  SetVals = {101}
  SetSpells = {"L"}
  Ops = {}
  Emit = FALSE
  MaxNode = 6
  ForwardLoopInOrderFirst = FALSE
SPECIFICATION PSpec
INVARIANT Refines
INVARIANT ByNameConsistent
PROPERTY SameResult
VIEW ImplView
CHECK_DEADLOCK FALSE
