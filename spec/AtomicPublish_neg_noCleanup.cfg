CONSTANTS
  ApEntries = {"replace_file", "download_file", "download_gunzip_lines"}
  ApMode = "noCleanup"
  ApMaxW = 1
  ApBuffered = FALSE
  ApEmit = FALSE
SPECIFICATION ApSpec
CHECK_DEADLOCK FALSE
INVARIANT NoTempLeft
