\* C15 quick: None as an edit value -- <= 2 editing calls out of UnsetFocusOps (the six attributes assigned
\* None, new_block with and without arguments, add_change, version / author assigned a value) on the empty
\* changelog and on every prefix of a well-formed one-block text; both outcomes of Changelog.version = None
\* (unset, or kept as a value)
CONSTANTS
  Mode = "edit"
  Classes = {}
  AEAs = {FALSE}
  MaxLines = 3
  MaxBlocks = 1
  MaxBody = 1
  MaxLead = 0
  MaxSep = 0
  Budget = 0
  MaxEdits = 2
  Bug = "none"
  Emit = TRUE
  EditOpsUsed <- UnsetFocusOps
SPECIFICATION Spec
INVARIANT BookkeepingOK
INVARIANT NormalFormEdited
INVARIANT EmitEdit
CHECK_DEADLOCK FALSE
