CONSTANTS
  Which = "two"
  MaxLen = 2
  NF = 1
  NL = 1
  Emit = FALSE
  AddMode = "afterlast"
  SharedList = TRUE
SPECIFICATION SSpec
PROPERTY DocsIndependent
VIEW SView
CHECK_DEADLOCK FALSE
