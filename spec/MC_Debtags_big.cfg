CONSTANTS
  PK <- MC_PK4
  FT <- MC_FT
  Colon = 0
  ReadDrops <- MC_Drops
  ReReadKeys <- MC_ReRead
  InsertNewTagStoresChars = FALSE
  NonAtomicRead = FALSE
  NonAtomicQread = FALSE
  ReverseViewCached = FALSE
  AliasBoundToFirstObject = FALSE
  ShallowCopy = FALSE
  ViewReplacesEmptyIndex = FALSE
  WatchParts = FALSE
  SrcSteps = 0
  Emit = FALSE
SPECIFICATION Spec
INVARIANT TypeOK
INVARIANT Inverse
INVARIANT InverseWeak
INVARIANT Refines
INVARIANT QueriesAgree
INVARIANT AliasQueriesAgree
INVARIANT FacetFormsAgree
