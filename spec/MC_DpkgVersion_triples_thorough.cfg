\* C03 thorough: triples (transitivity): epoch absent/0, revision absent/0, upstream <= 2 characters over 0 1 a . ~
\* (120 versions, 1 728 000 triples)
CONSTANTS
  HashOnString = FALSE
  TildeOrderZero = FALSE
  Epochs <- E_two
  Revs <- R_two
  UpChars = {48, 49, 97, 46, 126}
  MaxUp = 2
  Seps = FALSE
  Triples = TRUE
  EmitStride = 0
  EmitOffset = 0
  CheckPos = FALSE
SPECIFICATION Spec
INVARIANT Agree
INVARIANT Antisym
INVARIANT Trichotomy
INVARIANT Trans
INVARIANT HashConsistent
INVARIANT HashImpl
CHECK_DEADLOCK FALSE
