CONSTANTS
  Modes = {"cm"}
  MaxW = 2
  MaxT = 10
  MaxC = 2
  Dups = FALSE
  MaxEdits = 1
  Edits = FALSE
  KindSel = "some"
  MinVals = 0
  AllPerms = FALSE
  Emit = FALSE
  SliceK = 1
  SliceR = 0
  DefectTrailComma = FALSE
  DefectHiddenSep = FALSE
  Exempt = FALSE
  SortDropsComments = FALSE
  SepAlways = FALSE
  NoNlBeforeCmt = FALSE
  FmtNoTrailSep = FALSE
SPECIFICATION Spec
INVARIANT LayoutValid
INVARIANT ReaderAgrees
INVARIANT ReadTotal
INVARIANT FailExactly
INVARIANT Refines
INVARIANT RoundTrip
INVARIANT TailOK
INVARIANT EditResult
INVARIANT StillValid
INVARIANT WriteBack
INVARIANT RefuseOnlyWhen
INVARIANT ShapeOK
INVARIANT KhidTight
INVARIANT ValuesWellFormed
CHECK_DEADLOCK FALSE
