---------------------------- MODULE ListSortFmt ----------------------------
(***************************************************************************)
(* X04 (extra) -- the formatter contract of debian._deb822_repro.formatter *)
(* (format_field and one_value_per_line_trailing_separator).               *)
(*                                                                         *)
(* (1) every output stream of an arbitrary formatter up to MaxLen symbols  *)
(*     (ListSort!FmtSyms: value / comment / separator tokens and the       *)
(*     strings "\n", " ", "\n ", "x") is enumerated; its verdict           *)
(*     FmtVerdict ("accept": the concatenation is returned, "reject":      *)
(*     ValueError, "unspec": a whitespace-only line) is printed as a CASE  *)
(*     line and replayed through format_field by harness/props/x04.py.     *)
(* (2) Ship(mode, inp) transcribes one_value_per_line_trailing_separator   *)
(*     for an input of value/comment/separator tokens; ShippedPasses (an   *)
(*     ASSUME, evaluated for every input up to MaxInp tokens that has a    *)
(*     value and does not end in a comment): its output is accepted by the *)
(*     contract and has the documented shape; SHIP lines are replayed      *)
(*     against the real formatter.                                         *)
(* Negative control: BadShip = "nocont" (no newline in front of a leading  *)
(* comment) / "nosep" (no trailing separator) makes the ASSUME fail.       *)
(***************************************************************************)
EXTENDS ListSort, Json

CONSTANTS MaxLen, MaxInp, BadShip

VARIABLE fstream

\* one_value_per_line_trailing_separator; "i" = the indent (a str of len(name)+2 blanks), "b" = one blank
Ship(mode, inp) ==
   LET Emitted(i) == \E k \in 1..(i - 1) : inp[k] \in {"V", "C"}
       F[i \in 0..Len(inp)] ==
          IF i = 0 THEN <<>>
          ELSE F[i - 1] \o
               (CASE inp[i] = "C" -> (IF ~Emitted(i) /\ BadShip # "nocont" THEN <<"n">> ELSE <<>>) \o <<"C">>
                  [] inp[i] = "V" -> (IF ~Emitted(i) THEN <<"b">> ELSE <<"i">>) \o <<"V">>
                                     \o (IF mode # "sp" /\ BadShip # "nosep" THEN <<"S">> ELSE <<>>) \o <<"n">>
                  [] OTHER        -> <<>>)
   IN F[Len(inp)]
AsSyms(s) == [k \in 1..Len(s) |-> IF s[k] = "i" THEN "b" ELSE s[k]]
\* the same as layout tokens: values are words 1, 2, ..; comment lines CM0, CM0 - 1, ..
AsLayout(s) ==
   LET nV(k) == Cardinality({j \in 1..k : s[j] = "V"})
       nC(k) == Cardinality({j \in 1..k : s[j] = "C"})
       F[k \in 0..Len(s)] ==
          IF k = 0 THEN <<>>
          ELSE F[k - 1] \o (CASE s[k] = "V" -> <<nV(k)>>
                              [] s[k] = "C" -> <<CM0 - (nC(k) - 1)>>
                              [] s[k] = "S" -> <<SEP>>
                              [] s[k] = "n" -> <<NL>>
                              [] s[k] = "b" -> <<SP>>
                              [] s[k] = "i" -> <<CT, SP>>
                              [] OTHER      -> <<>>)
   IN F[Len(s)]
Inputs == UNION {[1..n -> {"V", "C", "S"}] : n \in 1..MaxInp}
InDom(inp) == /\ \E k \in 1..Len(inp) : inp[k] = "V"
              /\ LET K == {k \in 1..Len(inp) : inp[k] # "S"} IN inp[SMax(K)] = "V"
ShippedOK(mode, inp) ==
   LET o == Ship(mode, inp) IN
   /\ FmtVerdict(AsSyms(o)) = "accept"
   /\ Valid(Anon(AsLayout(o)))
   /\ HasShape(mode, AsLayout(o))
   /\ Len(ValsOf(mode, AsLayout(o))) = Cardinality({k \in 1..Len(inp) : inp[k] = "V"})
   /\ Len(CmOf(AsLayout(o))) = Cardinality({k \in 1..Len(inp) : inp[k] = "C"})
ASSUME ShippedPasses == \A mode \in {"sp", "cm"} : \A inp \in Inputs : InDom(inp) => ShippedOK(mode, inp)
ASSUME ShipCases == \A mode \in {"sp", "cm"} : \A inp \in Inputs :
                       InDom(inp) => PrintT(<<"SHIP", ToJson([mode |-> mode, inp |-> inp, out |-> Ship(mode, inp)])>>)

\* (the list variables of ListSort are not used here)
Init == /\ fstream = <<>> /\ vals = <<>> /\ tail = "none" /\ res = "ok" /\ ann = <<>> /\ pend = <<>>
        /\ cknown = TRUE /\ reform = FALSE /\ khid = FALSE
Next == Len(fstream) < MaxLen /\ (\E y \in FmtSyms : fstream' = Append(fstream, y)) /\ UNCHANGED xvars
Spec == Init /\ [][Next]_<<fstream, xvars>>
EmitCase == PrintT(<<"CASE", ToJson([st |-> fstream, verdict |-> FmtVerdict(fstream)])>>)
\* sanity of the contract itself: an accepted stream is a valid field when it holds a value and does not
\* end in a comment (format_field refuses a trailing comment only in its INPUT)
AcceptedValid == (FmtVerdict(fstream) = "accept" /\ fstream[Len(fstream)] # "C" /\ (\E k \in 1..Len(fstream) : fstream[k] = "V") /\ (\A j \in 1..Len(fstream) : fstream[j] # "x"))
                 => Valid(Anon(AsLayout(fstream)))
=============================================================================
