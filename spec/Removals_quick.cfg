CONSTANTS
  Leads = {"none", "SP", "WS"}
  Gaps = {"SP", "WS"}
  Trails = {"none", "SP"}
  MaxArch = 2
  MaxEdits = 1
  MaxLen = 16
  EditClasses = {"SP", "WS", "W", "U", "L", "R", "C"}
  MaxNum = 0
  SplitComma = FALSE
  SrcNeedsWs = FALSE
  EmptyRaises = FALSE
  Emit = TRUE
SPECIFICATION Spec
INVARIANT TypeOK
INVARIANT SrcRoundTrip
INVARIANT BinRoundTrip
INVARIANT SrcOnBinLine
INVARIANT NoUnderscoreNoRecord
INVARIANT LineRefines
INVARIANT EmitLine
CHECK_DEADLOCK FALSE
