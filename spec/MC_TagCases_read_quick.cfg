CONSTANTS
  PK = {"p1", "p2", "p3"}
  TG = {"u::a", "v::a"}
  FTC <- MCFTC
  Extra = "zz"
  Mults = {1, 5}
  Family = "read"
  LinePks <- MCLinePks
  LineTgs <- MCLineTgs
  MaxLines = 2
  Drops <- MCDrops
  WithDer = TRUE
SPECIFICATION Spec
CHECK_DEADLOCK FALSE
