CONSTANTS
  FdSpan = 4800
  FdJulian = FALSE
  FdEmit = FALSE
  FdCaseDays = {}
  FdCaseSods = {}
  FdCaseOffs = {}
SPECIFICATION FdSpec
INVARIANT FdTypeOK
INVARIANT MonthIsDays
INVARIANT CivilAgrees
INVARIANT DaysAgrees
INVARIANT WeekdayAgrees
INVARIANT PeriodShift
INVARIANT FieldsAgree
CHECK_DEADLOCK FALSE
