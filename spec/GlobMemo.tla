------------------------------ MODULE GlobMemo ------------------------------
(***************************************************************************)
(* C16 -- what a pattern list matches depends on that list only, not on    *)
(* which other lists were translated earlier in the process.               *)
(* A history machine over globs_to_re(list) called DIRECTLY (patterns may  *)
(* contain LF and blanks here: the property quantifies over "patterns over *)
(* literals, '*', '?', escapes and newlines") interleaved with fresh       *)
(* FilesParagraph objects, sharing one process-wide memo of translated     *)
(* regexes.  The current code has no memo; a memo keyed by the list itself *)
(* (MemoKeyJoined = FALSE) is unobservable, and that is what is model-     *)
(* checked: OutFaithful and SameAnswer hold in every reachable state.      *)
(* Negative control: MemoKeyJoined = TRUE keys the memo by the patterns    *)
(* joined with JoinSep (10 = LF, 32 = blank, 0 = nothing)  : ['a\nb'] and   *)
(* ['a','b'] collide and TLC reports OutFaithful violated (seeded change   *)
(* C16-seedD).                                                             *)
(* doc = <<list translated last>> (<<>> before the first), out = the regex *)
(* the caller holds, memo = set of <<key, regex>>.  The LTS (states        *)
(* identified by the list held) is emitted as EDGE lines and replayed.     *)
(***************************************************************************)
EXTENDS Glob

CONSTANTS MPool,          \* pattern lists translated
          MNames,         \* names queried
          MemoKeyJoined,  \* FALSE
          JoinSep         \* separator code point of the joined key, 0 = none

VARIABLES memo, out, res

mvars == <<doc, n, memo, out, res>>

RECURSIVE JoinFrom(_, _)
JoinFrom(ps, i) == IF i > Len(ps) THEN <<>>
                   ELSE (IF i > 1 /\ JoinSep > 0 THEN <<JoinSep>> ELSE <<>>) \o ps[i] \o JoinFrom(ps, i + 1)
MemoKeyOf(ps) == IF MemoKeyJoined THEN JoinFrom(ps, 1) ELSE ps

Hit(ps)      == {e \in memo : e[1] = MemoKeyOf(ps)}
Lookup(ps)   == IF Hit(ps) # {} THEN (CHOOSE e \in Hit(ps) : TRUE)[2] ELSE Regex(ps)
Remember(ps) == IF Hit(ps) # {} THEN memo ELSE memo \cup {<<MemoKeyOf(ps), Regex(ps)>>}
MatchRe(re, nm) == IF RegexMatch(re, nm, Discipline) THEN "match" ELSE "nomatch"

Edge(op, args) == (Emit # "none") =>
    PrintT(<<"EDGE", ToJson([from |-> doc, op |-> op, args |-> args, res |-> res', to |-> doc'])>>)

MInit == doc = <<>> /\ n = <<>> /\ memo = {} /\ out = <<>> /\ res = "ok"

\* rx = globs_to_re(ps)   (an ill-formed list raises, nothing is remembered, rx keeps its value)
Translate(ps) ==
   /\ UNCHANGED n
   /\ IF RegexErr(ps) THEN res' = "FormatError" /\ UNCHANGED <<doc, memo, out>>
      ELSE doc' = <<ps>> /\ res' = "ok" /\ out' = Lookup(ps) /\ memo' = Remember(ps)
   /\ Edge("translate", <<ps>>)

\* rx.fullmatch(nm)
Query(nm) == /\ doc # <<>> /\ n' = nm /\ UNCHANGED <<doc, memo, out>>
             /\ res' = MatchRe(out, nm) /\ Edge("query", <<nm>>)

\* FilesParagraph.create(ps, ...).matches(nm): a fresh paragraph goes through the same globs_to_re
ParaMatch(ps, nm) ==
   /\ Representable(<<ps>>) /\ n' = nm /\ UNCHANGED <<doc, out>>
   /\ IF RegexErr(ps) THEN res' = "FormatError" /\ UNCHANGED memo
      ELSE res' = MatchRe(Lookup(ps), nm) /\ memo' = Remember(ps)
   /\ Edge("paramatch", <<ps, nm>>)

MNext == \/ \E ps \in MPool : Translate(ps)
         \/ \E nm \in MNames : Query(nm)
         \/ \E ps \in MPool, nm \in MNames : ParaMatch(ps, nm)
MSpec == MInit /\ [][MNext]_mvars
MView == <<doc, memo, out>>
MViewCur == doc                  \* emission: the LTS over the list held (the memo is unobservable)

\* the regex handed out is the translation of the list it was asked for
OutFaithful == doc # <<>> => out = Regex(doc[1])
SameAnswer  == [][\A nm \in MNames : (n' = nm /\ res' \in {"match", "nomatch", "FormatError"}) =>
                       /\ Query(nm) => res' = RefMatches(doc[1], nm)
                       /\ \A ps \in MPool : ParaMatch(ps, nm) => res' = RefMatches(ps, nm)]_mvars

\* constants of MC_GlobMemo.cfg: lists whose LF- / blank- / empty- / "', "- / '|'-joined text coincide
MCMPool  == { << <<97, 10, 98>> >>, << <<97>>, <<98>> >>, << <<97, 32, 98>> >>, << <<97, 98>> >>,
              << <<97, 63>>, <<98, 42>> >>, << <<97, 63, 10, 98, 42>> >>,
              << <<97, 39, 44, 32, 39, 98>> >>, << <<97, 124, 98>> >>,
              << <<97>>, <<92>> >> }                                               \* ill-formed
MCMPoolSmall == { << <<97, 10, 98>> >>, << <<97>>, <<98>> >>, << <<97, 32, 98>> >>, << <<97, 98>> >>,
                  << <<97>>, <<92>> >> }                                           \* quick design check
MCMNames == { <<97>>, <<98>>, <<97, 98>>, <<97, 10, 98>>, <<97, 32, 98>>, <<97, 120, 10, 98>>,
              <<97, 39, 44, 32, 39, 98>>, <<97, 124, 98>> }
=============================================================================
