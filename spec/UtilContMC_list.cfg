CONSTANTS
  Which = "list"
  NNodes = 3
  NLists = 2
  NSets = 0
  NNames = 1
  Values = {"A", "B"}
  Spells = {}
  MaxSeq = 2
  Hows = {"copy", "pickle0"}
  ItKinds = {"ln", "lr", "nns", "nps"}
  FSole = FALSE
  FEmPick = FALSE
  Neg = ""
  Emit = FALSE
  WithImpl = TRUE
SPECIFICATION USpec
INVARIANT WellFormed
INVARIANT Refines
INVARIANT Structure
PROPERTY SameResult
PROPERTY ErrAtomic
PROPERTY ImplErrAtomic
PROPERTY QueriesPure
PROPERTY NodesConserved
PROPERTY DetachedReally
PROPERTY PopDetaches
PROPERTY Frame
PROPERTY CopyEqual
PROPERTY CursorLaw
VIEW UView
