--------------------------- MODULE ArMemberRef ---------------------------
(***************************************************************************)
(* C06 -- reference (abstract) layer: an ar archive as a sequence of       *)
(* members [name, data]; "opening" it yields the index (members in order   *)
(* with name / size / recorded header fields, and for every member the     *)
(* position of the LAST member of the same name); after that every member  *)
(* is an independent in-memory file (data, pos) with io.BytesIO semantics. *)
(*                                                                         *)
(* data is a sequence of byte values (NL = 10 is the only byte with a      *)
(* meaning); positions are 0-based like Python's.  Results never contain   *)
(* byte values but the 1-based INDICES of the data cells returned, so that *)
(* "exactly its own bytes" is expressible: the implementation layer        *)
(* (ArMember.tla) must return the very same cells of the archive, and the  *)
(* harness / the trace module map indices to concrete bytes.               *)
(*                                                                         *)
(* Result shape (uniform, so that results can be compared in TLC):         *)
(*   [k |-> kind, v |-> sequence of chunks (sequences of indices), n |-> int]*)
(*   read/readline: k = "b", one chunk      readlines: k = "l", chunk/line  *)
(*   seek: k = "z" (return value not specified, see D4)   tell: k = "t", n  *)
(*   faulted call: k = "x" (the caller's exception), k = "s" (short result) *)
(* API variants with the same meaning are not separate actions: next() and *)
(* next(iter(member), b'') are readline(); readlines(0 / -1 / None) is     *)
(* readlines(); seek(off) is seek(off, 0); keyword forms -- the harness     *)
(* rotates through them for the same abstract call.  Separate actions:     *)
(* AReadLinesHint (advisory hint, several outcomes allowed) and AIter      *)
(* (list(member): all lines; the deviation IterSingleLine is a named,      *)
(* switchable outcome, see harness/props/c06.py).                          *)
(*                                                                         *)
(* The B* operators are pure (no variables) and are re-used by ArMember    *)
(* and TraceArMember.  Domain decisions (DESIGN.md D4): read() = read(n<0) *)
(* = everything, read(n) only for n >= 1, readline(n) for any n, seek only *)
(* to non-negative targets (any whence), readlines() without hint.         *)
(***************************************************************************)
EXTENDS Integers, Sequences, FiniteSets, TLC, Json

CONSTANTS Bytes,        \* byte values a data cell may hold (model: {10, 120})
          Names,        \* member names (model: small naturals)
          MaxMembers,   \* archives of 0..MaxMembers members
          MaxData,      \* member data of 0..MaxData bytes
          RdSizes,      \* arguments n >= 1 of read(n) (n = -1 is always explored)
          RlSizes,      \* arguments n >= 0 of readline(n) (n = -1 is always explored)
          SeekMax,      \* seek targets 0..SeekMax (closes the state space)
          Hints,        \* arguments h >= 1 of readlines(h) ({}: action not explored)
          IterSingleLine, \* TRUE would re-admit the old one-line outcome of list(member) (fixed: always FALSE)
          Faults,       \* subset of {"raise", "short"}: faults of the CALLER's file object explored (see AFault)
          Ops,          \* FALSE: only the index (Open) is explored
          Emit          \* TRUE: print one EDGE / INDEX line per evaluated action instance

NL == 10

VARIABLES mem,          \* the archive: sequence of [name |-> , data |-> ]
          opened,       \* the archive has been indexed
          pos,          \* member -> position of its file view
          aidx,         \* output of Open: the index
          aret,         \* output of the last member call
          am            \* member of the last call (0: none)

rvars == <<mem, opened, pos, aidx, aret, am>>

Lo(a, b) == IF a < b THEN a ELSE b
RECURSIVE Cat(_)
Cat(s) == IF s = <<>> THEN <<>> ELSE Head(s) \o Cat(Tail(s))

----------------------------------------------------------------------------
\* io.BytesIO on a byte sequence d at 0-based position p
BAvail(d, p)      == IF p >= Len(d) THEN 0 ELSE Len(d) - p
\* number of bytes read(n) returns (n < 0: everything)
BReadLen(d, p, n) == IF n < 0 THEN BAvail(d, p) ELSE Lo(n, BAvail(d, p))
\* number of bytes readline(lim) returns (lim < 0: no limit): up to and including the first NL
RECURSIVE BLineLen(_, _, _)
BLineLen(d, p, lim) == IF p >= Len(d) \/ lim = 0 THEN 0
                       ELSE IF d[p + 1] = NL THEN 1
                       ELSE 1 + BLineLen(d, p + 1, IF lim < 0 THEN lim ELSE lim - 1)
\* the data cells p+1 .. p+n
Span(p, n) == [j \in 1..n |-> p + j]
\* readlines(): successive readline() results until the empty one
RECURSIVE BLineSpans(_, _)
BLineSpans(d, p) == LET n == BLineLen(d, p, -1)
                    IN IF n = 0 THEN <<>> ELSE <<Span(p, n)>> \o BLineSpans(d, p + n)
\* total length of the first k chunks
RECURSIVE TakeLen(_, _)
TakeLen(sp, k) == IF k = 0 THEN 0 ELSE Len(sp[k]) + TakeLen(sp, k - 1)
\* seek(off, whence) target
BSeekTarget(d, p, off, wh) == CASE wh = 0 -> off [] wh = 1 -> p + off [] wh = 2 -> Len(d) + off

\* the index of an archive a
IdxMembers(a) == [k \in 1..Len(a) |-> [name |-> a[k].name, size |-> Len(a[k].data), id |-> k]]
LastNamed(a, nm) == IF \E j \in 1..Len(a) : a[j].name = nm
                    THEN CHOOSE j \in 1..Len(a) : a[j].name = nm /\ \A i \in (j + 1)..Len(a) : a[i].name # nm
                    ELSE 0
IdxLast(a)    == [k \in 1..Len(a) |-> LastNamed(a, a[k].name)]
Index(a)      == [members |-> IdxMembers(a), last |-> IdxLast(a)]

----------------------------------------------------------------------------
DataSet  == UNION {[1..k -> Bytes] : k \in 0..MaxData}
Archives == UNION {[1..n -> [name : Names, data : DataSet]] : n \in 0..MaxMembers}

Res(k, v, n) == [k |-> k, v |-> v, n |-> n]
NoRes == Res("-", <<>>, 0)
NoIdx == [members |-> <<>>, last |-> <<>>]
D(m)  == mem[m].data

Edge(op, m, args) ==
    Emit => PrintT(<<"EDGE", ToJson([a |-> [k \in 1..Len(mem) |-> mem[k].data], f |-> pos, op |-> op, m |-> m,
                                      args |-> args, res |-> aret', t |-> pos'])>>)

RInit == /\ mem \in Archives
         /\ opened = FALSE
         /\ pos = [m \in 1..Len(mem) |-> 0]
         /\ aidx = NoIdx /\ aret = NoRes /\ am = 0

\* ArFile(...): index the archive
AOpen == /\ ~opened /\ opened' = TRUE
         /\ aidx' = Index(mem)
         /\ UNCHANGED <<mem, pos, aret, am>>
         /\ (Emit => PrintT(<<"INDEX", ToJson([a |-> mem, idx |-> aidx'])>>))

ACall(m, r, np) == /\ opened /\ Ops
                   /\ aret' = r /\ pos' = [pos EXCEPT ![m] = np] /\ am' = m
                   /\ UNCHANGED <<mem, opened, aidx>>

ARd(m, n)  == LET c == BReadLen(D(m), pos[m], n) IN ACall(m, Res("b", <<Span(pos[m], c)>>, 0), pos[m] + c)
ARl(m, n)  == LET c == BLineLen(D(m), pos[m], n) IN ACall(m, Res("b", <<Span(pos[m], c)>>, 0), pos[m] + c)

ARead(m)         == ARd(m, -1) /\ Edge("read", m, <<>>)              \* read()
AReadN(m, n)     == ARd(m, n)  /\ Edge("readn", m, <<n>>)            \* read(n), n >= 1 or n < 0
AReadLine(m)     == ARl(m, -1) /\ Edge("readline", m, <<>>)          \* readline()
AReadLineN(m, n) == ARl(m, n)  /\ Edge("readlinen", m, <<n>>)        \* readline(n)
AReadLines(m)    == /\ ACall(m, Res("l", BLineSpans(D(m), pos[m]), 0), pos[m] + BAvail(D(m), pos[m]))
                    /\ Edge("readlines", m, <<>>)
\* readlines(h), h >= 1: complete lines from the position; the hint is advisory -- io.BytesIO stops
\* once the total length reaches h, ArMember ignores it: any number k of lines is allowed that
\* either reaches the hint or the end of the data (h <= 0 / None mean readlines(): AReadLines)
AReadLinesHint(m, h, k) ==
    LET sp == BLineSpans(D(m), pos[m]) IN
    /\ h >= 1 /\ k \in 0..Len(sp)
    /\ (k = Len(sp) \/ TakeLen(sp, k) >= h)
    /\ ACall(m, Res("l", SubSeq(sp, 1, k), 0), pos[m] + TakeLen(sp, k))
    /\ Edge("readlinesh", m, <<h, k>>)
\* list(member) / a complete `for line in member`: every remaining line, like readlines().
\* Former deviation (fixed in 225a5e1; only IterSingleLine = TRUE would admit it): ONE line.
AIter(m, k) ==
    LET sp == BLineSpans(D(m), pos[m]) IN
    /\ k = Len(sp) \/ (IterSingleLine /\ k = Lo(1, Len(sp)))
    /\ ACall(m, Res("l", SubSeq(sp, 1, k), 0), pos[m] + TakeLen(sp, k))
    /\ Edge("iter", m, <<k>>)
\* ---- faults of the file object the CALLER supplied (ArFile(fileobj=f)), then carry on.
\* The file object raises during a call on member m ("raise"): the caller's exception propagates, nothing
\* is returned.  One-step calls (read, read(n), readline, readline(n)) are atomic: the position is unchanged.
\* Multi-line calls (readlines, list(member)) are successive readline()s: k complete lines were consumed
\* before the failing one, the position is behind them.  Nothing else changes, so every later call -- on
\* this member, on the others, on a new ArFile over the same input -- behaves as if nothing had happened
\* at the position tell() reports.
AFault(m, kind, k) ==
    LET sp == BLineSpans(D(m), pos[m]) IN
    /\ "raise" \in Faults
    /\ kind \in {"one", "lines"}
    /\ k \in 0..(IF kind = "lines" THEN Len(sp) ELSE 0)
    /\ ACall(m, Res("x", <<>>, 0), pos[m] + TakeLen(sp, k))
    /\ Edge("fault", m, <<kind, k>>)
\* The file object returns SHORT (fewer bytes than asked for, possibly none) during a reading call: what
\* the call returns is not the in-memory result, but it still is the member's own next k bytes, nothing
\* skipped or duplicated, and the position is behind them (chunking of the k bytes is not specified).
AShort(m, k) ==
    /\ "short" \in Faults
    /\ k \in 0..BAvail(D(m), pos[m])
    /\ ACall(m, Res("s", <<Span(pos[m], k)>>, 0), pos[m] + k)
    /\ Edge("short", m, <<k>>)
\* ArFile(fileobj=f) itself fails with the caller's exception: no object exists, nothing changed
AOpenFault == /\ "raise" \in Faults /\ ~opened /\ UNCHANGED rvars

\* ---- results belong to the caller.  getnames() answers with the names of the members in archive order (v = one
\* chunk of member ids), EVERY time it is asked; what a caller does to a list the API handed out earlier
\* (getnames(), readlines(), readlines(h), list(member): sort / remove / append / clear in place) is no action of the
\* archive at all -- ACallerEdits changes nothing, so every later call is judged as if the edit had not happened.
ANames == /\ opened
          /\ aret' = Res("n", <<[k \in 1..Len(mem) |-> k]>>, 0) /\ am' = 0
          /\ UNCHANGED <<mem, opened, pos, aidx>>
ACallerEdits == opened /\ UNCHANGED rvars

ASeek(m, off, wh) == LET t == BSeekTarget(D(m), pos[m], off, wh)
                     IN /\ t \in 0..SeekMax
                        /\ ACall(m, Res("z", <<>>, 0), t)
                        /\ Edge("seek", m, <<off, wh>>)
ATell(m)         == ACall(m, Res("t", <<>>, pos[m]), pos[m]) /\ Edge("tell", m, <<>>)

RNext == \/ AOpen \/ ANames \/ ACallerEdits
         \/ \E m \in 1..Len(mem) :
              \/ ARead(m) \/ AReadLine(m) \/ AReadLines(m) \/ ATell(m)
              \/ \E n \in RdSizes \cup {-1} : AReadN(m, n)
              \/ \E n \in RlSizes \cup {-1} : AReadLineN(m, n)
              \/ \E wh \in 0..2, off \in (0 - SeekMax)..SeekMax : ASeek(m, off, wh)
              \/ \E h \in Hints, k \in 0..(MaxData + 1) : AReadLinesHint(m, h, k)
              \/ \E k \in 0..(MaxData + 1) : AIter(m, k)
              \/ \E kind \in {"one", "lines"}, k \in 0..(MaxData + 1) : AFault(m, kind, k)
              \/ \E k \in 0..MaxData : AShort(m, k)

RSpec == RInit /\ [][RNext]_rvars
RView == <<mem, opened, pos>>       \* aidx, aret, am are outputs: no action reads them

----------------------------------------------------------------------------
\* properties of the reference itself
RTypeOK   == /\ opened \in BOOLEAN /\ Len(mem) <= MaxMembers
             /\ \A m \in 1..Len(mem) : pos[m] \in 0..SeekMax
\* the bytes returned by a read are exactly the cells between the old and the new position
\* (nothing skipped, nothing duplicated, nothing outside 1..len), and lines end at NL or at
\* the limit / end of data
RExact    == [][aret'.k \in {"b", "l", "s"} =>
                  LET m == am' IN
                  /\ Cat(aret'.v) = Span(pos[m], pos'[m] - pos[m])
                  /\ pos'[m] <= IF pos[m] > Len(D(m)) THEN pos[m] ELSE Len(D(m))]_rvars
RLinesNL  == [][aret'.k = "l" =>
                  \A i \in 1..Len(aret'.v) :
                     LET ch == aret'.v[i] IN
                     /\ ch # <<>>
                     /\ \A j \in 1..(Len(ch) - 1) : D(am')[ch[j]] # NL
                     /\ (i < Len(aret'.v) => D(am')[ch[Len(ch)]] = NL)]_rvars
\* a call on one member never moves another member's position
RIsolated == [][\A m \in 1..Len(mem) : m # am' => pos'[m] = pos[m]]_rvars
=============================================================================
