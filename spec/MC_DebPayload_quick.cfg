\* C07 payload layer, quick: every sequence over the 7 classes up to length 4, over {x,b,s,n} up to 7
SPECIFICATION Spec
CONSTANTS
  Alphabet = {"x", "b", "v", "s", "u", "n", "r"}
  CoreAlphabet = {"x", "b", "s", "n"}
  ShortLen = 4
  MaxLen = 7
  CtlSplitsLikeStr = FALSE
  Md5StripsLine = FALSE
  Md5TextSplitsLikeStr = FALSE
  EmitShapes = TRUE
INVARIANTS CtlExact D1IsReject Md5Exact Shapes
CHECK_DEADLOCK FALSE
