CONSTANTS
  MaxLen = 4
  MaxInp = 4
  BadShip = "nosep"
SPECIFICATION Spec
INVARIANT EmitCase
CHECK_DEADLOCK FALSE
