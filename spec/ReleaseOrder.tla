----------------------------- MODULE ReleaseOrder -----------------------------
(***************************************************************************)
(* X08 (a) -- debian.debian_support: PseudoEnum, Release, intern_release   *)
(* (and its deprecated alias internRelease), Release.releases.             *)
(*                                                                         *)
(* STATEMENT ("A base class for types which resemble enumeration types";   *)
(* "Debian release defined with respect to its name, order of release and  *)
(* version. The latter can be empty in case of 'sid'"; the release table   *)
(* of list_releases; the repository's test: buzz < hamm, sarge < etch,     *)
(* lenny < squeeze).                                                       *)
(*  * The Debian releases are the enumeration RlNames in order of release  *)
(*    (buzz first, sid -- which is never released -- last); for every name *)
(*    of the table intern_release(name) -- through the function, its       *)
(*    alias, with releases=None positionally or by keyword, and as         *)
(*    Release.releases[name] -- is THE one Release object of that name     *)
(*    (the same object whenever and however it is asked for, different     *)
(*    names different objects), str() is the name, repr() is               *)
(*    Release('<name>'), .version the version of the table ('' for sid);   *)
(*    for every other name the result is None (no exception).              *)
(*  * With an explicit table intern_release(name, table) is table.get(name)*)
(*    (the object stored there, None when absent).                         *)
(*  * Objects of one enumeration (the release table; or PseudoEnum /        *)
(*    Release objects a caller made with orders of one totally ordered     *)
(*    type) are totally pre-ordered by their order: < <= == != >= > all    *)
(*    agree with the comparison of the orders, equal objects have equal    *)
(*    hashes (so sets / dict keys / sorted / min / max behave like on the  *)
(*    orders), and comparing never changes anything.                       *)
(* Out of the domain (not exercised as verdicts): comparisons with objects *)
(* that are not PseudoEnums (the code raises AttributeError -- reported as *)
(* an observation) or between enumerations; callers that mutate            *)
(* Release.releases or attributes of the shared objects (nothing is        *)
(* promised: the table is one shared dict; list_releases itself is deleted *)
(* from the module and is not public).                                     *)
(*                                                                         *)
(* Model.  The release table is data (RlNames, RlVersions).  "Order of     *)
(* release" is cross-checked against the version numbers: in VersionsAgree *)
(* the numeric order of the versions must be the order of the table and    *)
(* sid, without version, must come last.  RlKey is the order key in force: *)
(* RlKeyMode = "position" is the statement; "verlex" (negative control)    *)
(* orders by the version STRING, which breaks OrderIsPosition ("10" < "7", *)
(* "" first).  The state machine is the interning discipline: RlIntern     *)
(* looks a name up, RlNew makes a caller's object; RlCopies = TRUE         *)
(* (negative control) lets every lookup build a new object -> InternUnique.*)
(* Every call prints an EDGE with its result; PAIRs with all comparison    *)
(* results are printed once (RlEmit).                                      *)
(***************************************************************************)
EXTENDS Integers, Sequences, FiniteSets, TLC, Json

CONSTANTS RlKeyMode,    \* "position" | "verlex"
          RlCopies,     \* negative control: interning builds a new object per call
          RlAsk,        \* names the bounded state machine asks for
          RlMaxObjs,    \* bound on live objects
          RlEmit

VARIABLES robjs,        \* live objects in order of first appearance: [fam, name, rank]
          rres          \* result of the last call
rvars == <<robjs, rres>>

----------------------------------------------------------------------------
\* the release table (https://www.debian.org/releases/)

RlNames == <<"buzz", "rex", "bo", "hamm", "slink", "potato", "woody", "sarge", "etch", "lenny",
             "squeeze", "wheezy", "jessie", "stretch", "buster", "bullseye", "bookworm", "trixie", "sid">>
RlVersions == <<"1.1", "1.2", "1.3", "2.0", "2.1", "2.2", "3.0", "3.1", "4.0", "5.0",
                "6.0", "7", "8", "9", "10", "11", "12", "13", "">>
\* the same versions as numbers (major, minor) and as code points
RlVerNum == << <<1, 1>>, <<1, 2>>, <<1, 3>>, <<2, 0>>, <<2, 1>>, <<2, 2>>, <<3, 0>>, <<3, 1>>, <<4, 0>>, <<5, 0>>,
               <<6, 0>>, <<7, 0>>, <<8, 0>>, <<9, 0>>, <<10, 0>>, <<11, 0>>, <<12, 0>>, <<13, 0>>, <<>> >>
RlVerChars == << <<49, 46, 49>>, <<49, 46, 50>>, <<49, 46, 51>>, <<50, 46, 48>>, <<50, 46, 49>>, <<50, 46, 50>>,
                 <<51, 46, 48>>, <<51, 46, 49>>, <<52, 46, 48>>, <<53, 46, 48>>, <<54, 46, 48>>, <<55>>, <<56>>, <<57>>,
                 <<49, 48>>, <<49, 49>>, <<49, 50>>, <<49, 51>>, <<>> >>
RlN == Len(RlNames)

RlPos(name) == IF \E i \in 1..RlN : RlNames[i] = name THEN CHOOSE i \in 1..RlN : RlNames[i] = name ELSE 0

RECURSIVE RlLexLess(_, _)
RlLexLess(x, y) == IF y = <<>> THEN FALSE ELSE IF x = <<>> THEN TRUE
                   ELSE IF Head(x) # Head(y) THEN Head(x) < Head(y) ELSE RlLexLess(Tail(x), Tail(y))

\* is table entry i before table entry j under the key in force
RlBefore(i, j) == IF RlKeyMode = "position" THEN i < j ELSE RlLexLess(RlVerChars[i], RlVerChars[j])

\* the six comparisons, hash equality and what containers make of them, from "before"
RlCmp(lt, gt) == [lt |-> lt, le |-> ~gt, eq |-> ~lt /\ ~gt, ne |-> lt \/ gt, ge |-> ~lt, gt |-> gt,
                  heq |-> ~lt /\ ~gt]
\* objects of one family are compared by rank (for the release table: the position)
RlCmpObjs(x, y) == RlCmp(x.rank < y.rank, x.rank > y.rank)
\* observed comparison o fits: all six operators as predicted; equal objects must have equal hashes
RlCmpFits(x, y, o) == LET w == RlCmpObjs(x, y) IN
                      /\ o.lt = w.lt /\ o.le = w.le /\ o.eq = w.eq /\ o.ne = w.ne /\ o.ge = w.ge /\ o.gt = w.gt
                      /\ (w.eq => o.heq)

\* sorting a sequence of objects (ids into objs) by rank, stable: the position of element i in the result
RlSortedPos(objs, ids, i) ==
   Cardinality({j \in 1..Len(ids) : \/ objs[ids[j]].rank < objs[ids[i]].rank
                                     \/ (objs[ids[j]].rank = objs[ids[i]].rank /\ j <= i)})
RlSorted(objs, ids) == [p \in 1..Len(ids) |-> ids[CHOOSE i \in 1..Len(ids) : RlSortedPos(objs, ids, i) = p]]
RlDistinct(objs, ids) == Cardinality({objs[ids[i]].rank : i \in 1..Len(ids)})

----------------------------------------------------------------------------
\* invariants on the table itself (state independent: evaluated in the initial state only; the
\* guard also makes them state-level formulas for TLC, which reports violated constant formulas
\* in a different way)
RlFirstState == robjs = <<>>

\* "order of release": the version numbers grow along the table and sid (no version) is last
VersionsAgree ==
   RlFirstState =>
   /\ Len(RlVersions) = RlN /\ Len(RlVerNum) = RlN /\ Len(RlVerChars) = RlN
   /\ RlVerNum[RlN] = <<>> /\ RlNames[RlN] = "sid"
   /\ \A i, j \in 1..(RlN - 1) :
         i < j <=> \/ RlVerNum[i][1] < RlVerNum[j][1]
                   \/ (RlVerNum[i][1] = RlVerNum[j][1] /\ RlVerNum[i][2] < RlVerNum[j][2])
   /\ \A i, j \in 1..RlN : i # j => RlNames[i] # RlNames[j]
\* the order in force is the order of the table
OrderIsPosition == RlFirstState => \A i, j \in 1..RlN : RlBefore(i, j) <=> i < j
\* ... and is a strict total order, the six operators are consistent
OrderLaws ==
   RlFirstState => \A i, j \in 1..RlN :
      LET c == RlCmp(RlBefore(i, j), RlBefore(j, i)) IN
      /\ ~(c.lt /\ c.gt)                                       \* asymmetric
      /\ (c.eq <=> i = j)                                       \* antisymmetric / total
      /\ c.le = (c.lt \/ c.eq) /\ c.ge = (c.gt \/ c.eq) /\ c.ne = ~c.eq
      /\ \A k \in 1..RlN : RlBefore(i, j) /\ RlBefore(j, k) => RlBefore(i, k)

----------------------------------------------------------------------------
\* the interning discipline

RlObj(fam, name, rank) == [fam |-> fam, name |-> name, rank |-> rank]
RlFind(objs, name) == IF \E i \in 1..Len(objs) : objs[i].fam = "deb" /\ objs[i].name = name
                      THEN CHOOSE i \in 1..Len(objs) : objs[i].fam = "deb" /\ objs[i].name = name ELSE 0
RlResObj(id) == [k |-> "obj", id |-> id]
RlResNone    == [k |-> "none", id |-> 0]

RlInit == robjs = <<>> /\ rres = RlResNone
RlIntern(name) ==
   LET p == RlPos(name)  f == RlFind(robjs, name) IN
   /\ IF p = 0 THEN rres' = RlResNone /\ UNCHANGED robjs
      ELSE IF f # 0 /\ ~RlCopies THEN rres' = RlResObj(f) /\ UNCHANGED robjs
      ELSE /\ Len(robjs) < RlMaxObjs                            \* first appearance of the object
           /\ robjs' = Append(robjs, RlObj("deb", name, p))
           /\ rres' = RlResObj(Len(robjs) + 1)
   /\ (RlEmit => PrintT(<<"EDGE", ToJson([from |-> robjs, op |-> "Intern", name |-> name, res |-> rres', to |-> robjs'])>>))
RlNext == \E name \in RlAsk : RlIntern(name)
RlSpec == RlInit /\ [][RlNext]_rvars

RlTypeOK == \A i \in 1..Len(robjs) : robjs[i].fam = "deb" /\ robjs[i].rank = RlPos(robjs[i].name) /\ robjs[i].rank > 0
\* one object per name, whatever the history
InternUnique == \A i, j \in 1..Len(robjs) : robjs[i].name = robjs[j].name => i = j
\* live objects compare like their table positions
LiveOrder == \A i, j \in 1..Len(robjs) :
                LET c == RlCmpObjs(robjs[i], robjs[j]) IN
                /\ c.lt = (RlPos(robjs[i].name) < RlPos(robjs[j].name))
                /\ c.eq = (i = j)

\* emission: every pair of the table with all comparison results, every entry with its attributes
EmitPairs ==
   (RlEmit /\ robjs = <<>>) =>
      /\ \A i, j \in 1..RlN :
            PrintT(<<"PAIR", ToJson([x |-> RlNames[i], y |-> RlNames[j],
                                     want |-> RlCmp(RlBefore(i, j), RlBefore(j, i))])>>)
      /\ \A i \in 1..RlN :
            PrintT(<<"ENTRY", ToJson([name |-> RlNames[i], version |-> RlVersions[i], pos |-> i])>>)
=============================================================================
