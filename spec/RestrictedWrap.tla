--------------------------- MODULE RestrictedWrap ---------------------------
(***************************************************************************)
(* X07 (extra) -- debian.deb822.RestrictedWrapper / RestrictedField /      *)
(* _ClassInitMeta / RestrictedFieldError.                                  *)
(*                                                                         *)
(* STATEMENT.  A wrapper object exposes the Deb822 paragraph it was given  *)
(* (by reference: no copy, no cache) as a mapping: item reads, iteration,  *)
(* len(), `in` and dump() are those of the paragraph; item assignment and  *)
(* deletion of a field that the wrapper's class (or a class it inherits    *)
(* from) declares as RestrictedField raise RestrictedFieldError and leave  *)
(* the paragraph unchanged, whatever the case of the key and whether or    *)
(* not the field is present; on every other field they behave exactly like *)
(* the paragraph's own.  Every RestrictedField is an attribute: reading    *)
(* returns from_str(raw) (raw = None when the field is absent; the raw     *)
(* string when from_str is None); assigning v stores to_str(v) (v itself   *)
(* when to_str is None) under the declared name -- position and spelling   *)
(* of an existing field are kept --, an exception of the conversion        *)
(* propagates and changes nothing, and v = None or to_str(v) = None        *)
(* deletes the field when allow_none and raises TypeError (nothing         *)
(* changed) otherwise.  Wrappers share nothing but the paragraph they were *)
(* given: a call changes at most the addressed field of the wrapper's own  *)
(* paragraph, and the restricted set of a class depends on its own         *)
(* definition and its bases only.                                          *)
(*                                                                         *)
(* MODEL.  env (never changes) describes the scenario:                     *)
(*   names, spells, raws   finite alphabets (MC) / ids (traces)            *)
(*   conv[k]   a conversion pair as TABLES: to[v] \in raws \cup {none,     *)
(*             fail}, from[r] for r \in raws \cup {none}, offer = values   *)
(*             a caller may assign, canon[v] = the value read back         *)
(*   classes[c] = [fields |-> <<[attr, n, s, kind, an]>>, own, all]        *)
(*             fields: every RestrictedField attribute of the class        *)
(*             (inherited ones included), own: names declared in the class *)
(*             statement itself, all: own + inherited                      *)
(*   wrappers[w] = [c |-> class, p |-> paragraph]                          *)
(* paras[p] is the paragraph: a sequence of [n |-> name, s |-> spelling    *)
(* as stored, v |-> raw value] (ordered, case-insensitive, case            *)
(* preserving: the Deb822 mapping of spec/OrderedMap.tla).                 *)
(* One action per public call, all through the pure operator Call:         *)
(*   getitem setitem delitem (item protocol), aget aset (the property;     *)
(*   aset with v = none is "delete by None"), iter len has dump, and       *)
(*   dset ddel = the owner of the paragraph changes it directly ("sub-     *)
(*   classes may keep a reference to the data").                           *)
(*                                                                         *)
(* Defect switches (all FALSE = the statement):                            *)
(*   FSub      a subclass forgets the restricted fields of its bases       *)
(*             (AS BUILT: _class_init overwrites the set with the fields   *)
(*             of the class statement)   -> RestrictedOnlyViaAttr violated *)
(*   FInx      `key in wrapper` compares the stored spelling exactly       *)
(*             (AS BUILT: no __contains__, falls back to __iter__)         *)
(*                                       -> ContainsAgrees violated        *)
(*   FShared   one restricted set shared by all classes                    *)
(*                                       -> UnrestrictedLikeDeb822 violated*)
(*   FKeepNone assigning None keeps the field                              *)
(*                                       -> SetNoneDeletes violated        *)
(* The first two are the behaviour of the pinned code (findings, KNOWN in  *)
(* harness/props/x07.py): every EDGE line carries the statement's result   *)
(* (res, to) AND the as-built result (kres, kto).                          *)
(***************************************************************************)
EXTENDS Naturals, Sequences, FiniteSets, SequencesExt, TLC, Json

CONSTANTS FSub, FInx, FShared, FKeepNone,   \* defect switches
          Emit                              \* TRUE: print one EDGE line per evaluated action instance

VARIABLES env,      \* the scenario (constant along a behaviour)
          paras,    \* paragraph id -> mapping
          res,      \* result of the last call   (output: not in the VIEW)
          call      \* the last call             (output: not in the VIEW)

rvars == <<env, paras, res, call>>

NoneV == "none"
FailV == "fail"

Flags(sub, inx, shared, keepnone) == [sub |-> sub, inx |-> inx, shared |-> shared, keepnone |-> keepnone]
StmtFlags  == Flags(FALSE, FALSE, FALSE, FALSE)
CfgFlags   == Flags(FSub, FInx, FShared, FKeepNone)
BuiltFlags == Flags(TRUE, TRUE, FALSE, FALSE)

----------------------------------------------------------------------------
\* results
R(t, x) == [t |-> t, x |-> x]
ROk     == R("ok", "")
Err(k)  == R("err", k)
Bool(b) == R("bool", IF b THEN "true" ELSE "false")

\* the ordered mapping
MHas(m, n)  == \E i \in 1..Len(m) : m[i].n = n
MIdx(m, n)  == CHOOSE i \in 1..Len(m) : m[i].n = n
MGet(m, n)  == m[MIdx(m, n)]
MRm(m, n)   == SelectSeq(m, LAMBDA x : x.n # n)
MPut(m, n, s, v) == IF MHas(m, n) THEN [m EXCEPT ![MIdx(m, n)].v = v]
                    ELSE Append(m, [n |-> n, s |-> s, v |-> v])
MUnique(m)  == \A i, j \in 1..Len(m) : m[i].n = m[j].n => i = j

\* the scenario
Cls(e, w)        == e.classes[e.wrappers[w].c]
Fields(e, w)     == ToSet(Cls(e, w).fields)
Attrs(e, w)      == {f.attr : f \in Fields(e, w)}
FieldOf(e, w, a) == CHOOSE f \in Fields(e, w) : f.attr = a
AllOwn(e)        == UNION {ToSet(e.classes[c].own) : c \in DOMAIN e.classes}
Restr(e, w, fl)  == IF fl.shared THEN AllOwn(e)
                    ELSE IF fl.sub THEN ToSet(Cls(e, w).own)
                    ELSE ToSet(Cls(e, w).all)
ToStr(e, k, v)   == e.conv[k].to[v]
FromStr(e, k, r) == e.conv[k].from[r]

\* outcome of a call on one mapping: [m |-> mapping afterwards, r |-> result]
Out(m, r) == [m |-> m, r |-> r]
OGet(m, n)       == Out(m, IF MHas(m, n) THEN R("val", MGet(m, n).v) ELSE Err("KeyError"))
OSet(m, n, s, v) == Out(MPut(m, n, s, v), ROk)
ODel(m, n)       == IF MHas(m, n) THEN Out(MRm(m, n), ROk) ELSE Out(m, Err("KeyError"))
RawOf(m, n)      == IF MHas(m, n) THEN MGet(m, n).v ELSE NoneV
AttrRes(e, k, raw) == LET v == FromStr(e, k, raw) IN IF v = FailV THEN Err("ConvError") ELSE R("attr", v)
OAGet(e, m, f)   == Out(m, AttrRes(e, f.kind, RawOf(m, f.n)))
ONone(m, f, fl)  == IF f.an THEN Out(IF fl.keepnone THEN m ELSE MRm(m, f.n), ROk)
                    ELSE Out(m, Err("TypeError"))
OASet(e, m, f, v, fl) ==
    IF v = NoneV THEN ONone(m, f, fl)
    ELSE LET raw == ToStr(e, f.kind, v) IN
         IF raw = FailV THEN Out(m, Err("ConvError"))
         ELSE IF raw = NoneV THEN ONone(m, f, fl)
         ELSE Out(MPut(m, f.n, f.s, raw), ROk)
OIter(m)         == Out(m, R("keys", [i \in 1..Len(m) |-> m[i].s]))
OLen(m)          == Out(m, R("len", Len(m)))
OHas(m, n, s, fl) == Out(m, Bool(IF fl.inx THEN \E i \in 1..Len(m) : m[i].n = n /\ m[i].s = s
                                 ELSE MHas(m, n)))
ODump(m)         == Out(m, R("dump", m))
Refuse(m)        == Out(m, Err("RestrictedFieldError"))

\* a call: every field is always present (dummies 0 / "")
C(w, op, n, s, v, a, p) == [w |-> w, op |-> op, n |-> n, s |-> s, v |-> v, a |-> a, p |-> p]
NoCall == C(0, "-", 0, "", "", "", 0)
IsDirect(c) == c.op \in {"dset", "ddel"}
Queries == {"getitem", "aget", "iter", "len", "has", "dump"}
ParaOf(e, c) == IF IsDirect(c) THEN c.p ELSE e.wrappers[c.w].p

Call(e, ps, fl, c) ==
    LET p == ParaOf(e, c)
        m == ps[p]
        o == CASE c.op = "getitem" -> OGet(m, c.n)
               [] c.op = "setitem" -> IF c.n \in Restr(e, c.w, fl) THEN Refuse(m) ELSE OSet(m, c.n, c.s, c.v)
               [] c.op = "delitem" -> IF c.n \in Restr(e, c.w, fl) THEN Refuse(m) ELSE ODel(m, c.n)
               [] c.op = "aget"    -> OAGet(e, m, FieldOf(e, c.w, c.a))
               [] c.op = "aset"    -> OASet(e, m, FieldOf(e, c.w, c.a), c.v, fl)
               [] c.op = "iter"    -> OIter(m)
               [] c.op = "len"     -> OLen(m)
               [] c.op = "has"     -> OHas(m, c.n, c.s, fl)
               [] c.op = "dump"    -> ODump(m)
               [] c.op = "dset"    -> OSet(m, c.n, c.s, c.v)
               [] c.op = "ddel"    -> ODel(m, c.n)
    IN [ps |-> [ps EXCEPT ![p] = o.m], r |-> o.r]

----------------------------------------------------------------------------
\* model checking: env is one of Configs (RestrictedWrapMC.tla), paragraphs start empty
Edge(c, o) == Emit => LET k == Call(env, paras, BuiltFlags, c) IN
                      PrintT(<<"EDGE", ToJson([cfg |-> env.id, from |-> paras, call |-> c, res |-> o.r, to |-> o.ps,
                                               kres |-> k.r, kto |-> k.ps])>>)

Do(c) == LET o == Call(env, paras, CfgFlags, c) IN
         /\ \A p \in DOMAIN o.ps : Len(o.ps[p]) <= env.maxlen
         /\ paras' = o.ps /\ res' = o.r /\ call' = c /\ UNCHANGED env
         /\ Edge(c, o)

Names  == ToSet(env.names)
Spells == ToSet(env.spells)
Raws   == ToSet(env.raws)

\* values a caller may assign in this scenario: those whose stored form stays inside the raw alphabet
Offered(k) == {v \in ToSet(env.conv[k].offer) : ToStr(env, k, v) \in Raws \cup {NoneV, FailV}}

WNext(w) ==
    \/ \E n \in Names : \/ Do(C(w, "getitem", n, "", "", "", 0))
                        \/ Do(C(w, "delitem", n, "", "", "", 0))
                        \/ \E s \in Spells : \/ Do(C(w, "has", n, s, "", "", 0))
                                             \/ \E v \in Raws : Do(C(w, "setitem", n, s, v, "", 0))
    \/ \E a \in Attrs(env, w) : \/ Do(C(w, "aget", 0, "", "", a, 0))
                                \/ \E v \in Offered(FieldOf(env, w, a).kind) \cup {NoneV} :
                                       Do(C(w, "aset", 0, "", v, a, 0))
    \/ Do(C(w, "iter", 0, "", "", "", 0)) \/ Do(C(w, "len", 0, "", "", "", 0)) \/ Do(C(w, "dump", 0, "", "", "", 0))

DNext(p) == \E n \in ToSet(env.direct) :
                \/ Do(C(0, "ddel", n, "", "", "", p))
                \/ \E s \in Spells, v \in Raws : Do(C(0, "dset", n, s, v, "", p))

RNext == \/ \E w \in DOMAIN env.wrappers : WNext(w)
         \/ \E p \in DOMAIN paras : DNext(p)

RView == <<env, paras>>

----------------------------------------------------------------------------
\* properties of the design (call' / res' are outputs: action properties)
ParasOK   == \A p \in DOMAIN paras : /\ MUnique(paras[p])
                                     /\ \A i \in 1..Len(paras[p]) : /\ paras[p][i].n \in Names
                                                                    /\ paras[p][i].s \in Spells
                                                                    /\ paras[p][i].v \in Raws

\* the conversion tables are retractions on what may be assigned: reading back gives the canonical value
ConvLaw   == \A k \in DOMAIN env.conv : \A v \in ToSet(env.conv[k].offer) :
                 LET r == ToStr(env, k, v) IN
                 r \notin {NoneV, FailV} => FromStr(env, k, r) = env.conv[k].canon[v]

TargetName(e, c) == IF c.op \in {"aget", "aset"} THEN FieldOf(e, c.w, c.a).n ELSE c.n
Others(m, n) == SelectSeq(m, LAMBDA x : x.n # n)

ErrAtomic   == [][res'.t = "err" => paras' = paras]_rvars
QueriesPure == [][call'.op \in Queries => paras' = paras]_rvars
\* a call changes at most the addressed field of the wrapper's own paragraph; the others keep value, spelling, order
Frame       == [][LET p == ParaOf(env, call') IN
                  /\ \A q \in DOMAIN paras : q # p => paras'[q] = paras[q]
                  /\ Others(paras'[p], TargetName(env, call')) = Others(paras[p], TargetName(env, call'))]_rvars
\* an existing field keeps its position and spelling under any assignment
KeepsPlace  == [][LET p == ParaOf(env, call') n == TargetName(env, call') IN
                  (MHas(paras[p], n) /\ MHas(paras'[p], n)) =>
                      /\ MIdx(paras'[p], n) = MIdx(paras[p], n)
                      /\ MGet(paras'[p], n).s = MGet(paras[p], n).s]_rvars
\* restricted fields (declared in the class or inherited) cannot be changed through the item protocol
RestrictedOnlyViaAttr ==
    [][(call'.op \in {"setitem", "delitem"} /\ call'.n \in ToSet(Cls(env, call'.w).all))
        => (res' = Err("RestrictedFieldError") /\ paras' = paras)]_rvars
\* every other field behaves like the paragraph's own item protocol
UnrestrictedLikeDeb822 ==
    [][(call'.op \in {"setitem", "delitem"} /\ call'.n \notin ToSet(Cls(env, call'.w).all))
        => LET p == ParaOf(env, call')
               d == IF call'.op = "setitem" THEN OSet(paras[p], call'.n, call'.s, call'.v) ELSE ODel(paras[p], call'.n)
           IN paras'[p] = d.m /\ res' = d.r]_rvars
\* reading an attribute back after a successful assignment of a value returns the canonical value
ReadBack    == [][(call'.op = "aset" /\ res' = ROk /\ call'.v # NoneV) =>
                  LET f == FieldOf(env, call'.w, call'.a) p == ParaOf(env, call') IN
                  ToStr(env, f.kind, call'.v) # NoneV =>
                      /\ MHas(paras'[p], f.n) /\ MGet(paras'[p], f.n).v = ToStr(env, f.kind, call'.v)
                      /\ OAGet(env, paras'[p], f).r = R("attr", env.conv[f.kind].canon[call'.v])]_rvars
IsNoneSet(e, c) == c.op = "aset" /\ (c.v = NoneV \/ ToStr(e, FieldOf(e, c.w, c.a).kind, c.v) = NoneV)
SetNoneDeletes == [][(IsNoneSet(env, call') /\ FieldOf(env, call'.w, call'.a).an) =>
                     LET f == FieldOf(env, call'.w, call'.a) p == ParaOf(env, call') IN
                     /\ res' = ROk /\ ~MHas(paras'[p], f.n)
                     /\ OAGet(env, paras'[p], f).r = AttrRes(env, f.kind, NoneV)]_rvars
NoneRefused == [][(IsNoneSet(env, call') /\ ~FieldOf(env, call'.w, call'.a).an) =>
                     (res' = Err("TypeError") /\ paras' = paras)]_rvars
\* `in` agrees with item access
ContainsAgrees == [][call'.op = "has" =>
                     (res'.x = "true" <=> OGet(paras[ParaOf(env, call')], call'.n).r.t = "val")]_rvars
=============================================================================
