CONSTANTS
  Vers = {3, 4}
  MaxItems = 1
  ItemMode = "core"
  LayoutMode = 1
  GapMode = 0
  VFormMode = 0
  StripIndentV3 = FALSE
  LeakBlank = FALSE
  NeverQuote = FALSE
  PPKnown = TRUE
  CommentEndsCont = FALSE
  Emit = FALSE
SPECIFICATION Spec
INVARIANT TypeOK
INVARIANT ParseOK
INVARIANT RoundTrip
INVARIANT NoVersion
INVARIANT InnerSkipped
INVARIANT BadOK
CHECK_DEADLOCK FALSE
