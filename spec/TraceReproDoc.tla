--------------------------- MODULE TraceReproDoc ---------------------------
(***************************************************************************)
(* C05 / C10 -- trace validation.  Histories recorded from the real        *)
(* format-preserving parser (harness/props/c10.py, c05.py): each event is  *)
(* one public call with its outcome and the projection of the whole        *)
(* document (paragraphs as lists of [n, s, v, c] looked up by text,        *)
(* separators by text) after the call.  Every event must be explained by   *)
(* the corresponding ReproDoc action.                                      *)
(***************************************************************************)
EXTENDS ReproDoc, IOUtils, TLCExt

Traces == JsonDeserialize(IOEnv.TRACE_FILE)
Diag   == IOEnv.TRACE_DIAG = "1"

VARIABLES tid, l
Tr == Traces[tid]

K(a) == [n |-> a[1], i |-> a[2]]

\* observed outcome vs model result (exception types in the unspecified zone are interchangeable)
ResOK(m, o) == \/ m = o
               \/ m = "IndexError" /\ o \in {"KeyError", "IndexError"}
               \/ m = "KeyOrValueError" /\ o \in {"KeyError", "ValueError"}
               \/ m = "LookupOrValueError" /\ o \in {"KeyError", "IndexError", "ValueError"}
               \/ m = "ValueErrorOrAccepted" /\ o = "ValueError"    \* an ACCEPTED call of that zone is never recorded (history ends)

TInit == /\ tid \in 1..Len(Traces)
         /\ l = 1
         /\ doc = Traces[tid].init
         /\ res = "ok"

TStep == /\ l <= Len(Tr.events)
         /\ LET e == Tr.events[l] IN
              /\ e.op \in {"insert", "append", "appendo", "inserto"} \/ e.p \in 1..NParas
              /\ \/ e.op = "get"    /\ Get(e.p, K(e.k))
                 \/ e.op = "set"    /\ Assign(e.p, K(e.k), e.s, e.v)
                 \/ e.op = "del"    /\ DelOK(e.p, K(e.k)) /\ Del(e.p, K(e.k))
                 \/ e.op = "first"  /\ OrderFirst(e.p, K(e.k))
                 \/ e.op = "last"   /\ OrderLast(e.p, K(e.k))
                 \/ e.op = "before" /\ Rel(e.p, K(e.k), K(e.r), TRUE)
                 \/ e.op = "after"  /\ Rel(e.p, K(e.k), K(e.r), FALSE)
                 \/ e.op = "sort"   /\ SortFields(e.p)
                 \/ e.op = "sortby" /\ SortBy(e.p, e.kt)      \* e.kt: the key function's table (sequence over name ranks)
                 \/ e.op = "insert" /\ InsertPara(e.idx, e.n)
                 \/ e.op = "append" /\ AppendPara(e.n)
                 \/ e.op = "appendo" /\ e.w \in 0..NParas /\ AppendOwned(e.w)          \* e.w: owner of the paragraph (0 = another file)
                 \/ e.op = "inserto" /\ e.w \in 0..NParas /\ InsertOwned(e.idx, e.w)
              /\ ResOK(res', e.res)
              /\ DocSame(doc', e.obs) = TRUE    \* equality; for documents that track nl: modulo the newline at the very end
              \* a REFUSED structural call (events that carry the observation same = "dump() returns exactly
              \* the text it returned before the call, up to a MISSING newline supplied at the very end of
              \* the document"): no other byte changed - no second newline, nothing in front
              /\ (("same" \in DOMAIN e /\ res' # "ok") => (doc' = doc /\ e.same)) = TRUE
         /\ l' = l + 1 /\ UNCHANGED tid
         /\ (Diag => PrintT(<<"AT", tid, l>>))
         /\ (l' = Len(Tr.events) + 1 => PrintT(<<"ACCEPTED", tid>>))

TSpec == TInit /\ [][TStep]_<<dvars, tid, l>>
\* invariants of the reference also hold along every observed execution
TParasSeparated == ParasSeparated
TNoEmptyPara == NoEmptyPara
=============================================================================
