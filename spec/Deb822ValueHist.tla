-------------------------- MODULE Deb822ValueHist --------------------------
(***************************************************************************)
(* C08, histories -- the verdict of an assignment and the paragraph after  *)
(* it depend on NOTHING but the class, the field name and the value: not   *)
(* on what was assigned before (to this or any other paragraph, accepted   *)
(* or rejected), not on other live paragraphs.                             *)
(*                                                                         *)
(* State: hp[o], the paragraph of each LIVE object o (classes HCls: "D" =  *)
(* Deb822, no multivalued field; "S" = Dsc / Changes, where Files is       *)
(* multivalued and therefore NOT validated), and memo, a process-wide      *)
(* table of the implementation layer.                                      *)
(* Actions:                                                                *)
(*   Assign(o, k, v)  o[k] = v for a key that is not multivalued in o's    *)
(*                    class; k may be absent (the field is appended).      *)
(*                    Reference: Accept(v) -> SetField, else ValueError    *)
(*                    and hp unchanged.                                    *)
(*   Scratch(c, v)    the same value assigned to the multivalued key Files *)
(*                    of a throw-away object of class c: the statement     *)
(*                    does not decide the outcome (no validation today);   *)
(*                    it must not change any live paragraph nor any later  *)
(*                    verdict.                                             *)
(* Implementation layer: MemoMode = "none" is the code (no memo); the      *)
(* negative controls                                                       *)
(*   MemoMode = "value"     verdict memoised by the value only             *)
(*                          -> Scratch("S", "x\n") then Assign(1, A, "x\n")*)
(*                             is accepted: HistoryFree violated           *)
(*   MemoMode = "keyvalue"  memoised by (key, value), class ignored        *)
(*                          -> Scratch("S", b) then Assign(1, Files, b) on *)
(*                             the Deb822 object: HistoryFree violated     *)
(*   RejectStoresEmpty      a rejected assignment to an absent key leaves  *)
(*                          the key behind with an empty value             *)
(*                          -> HistoryFree (paragraph after ValueError)    *)
(* were run; c08.py re-runs them in every check.                           *)
(* Properties (MC_Deb822ValueHist*.cfg; the state space is CLOSED: any     *)
(* history over three objects x keys {A, N, Files} x values {"x\n x",      *)
(* "x\nx:x", "x\n"}):                                                      *)
(*   HistoryFree  (action property) every Assign step has the reference    *)
(*                result, the reference paragraph, and leaves the other    *)
(*                live paragraphs alone; a Scratch step changes nothing    *)
(*   HistSound    every live paragraph of every reachable state reads back *)
(*                (model reader, both forms, both settings) as one         *)
(*                paragraph with its own keys                              *)
(* EmitH = TRUE prints the complete LTS as EDGE lines; c08.py replays      *)
(* walks through it on real objects (Deb822 / Dsc / Changes), concretizing *)
(* the three values with payload runs, line counts, key lengths and        *)
(* paragraph sizes far beyond the model (the size lemmas of Deb822Value    *)
(* make the expectation length-independent).                               *)
(***************************************************************************)
EXTENDS Deb822Value

CONSTANTS MemoMode, RejectStoresEmpty, EmitH

VARIABLES hp, memo, hres

hvars == <<hp, memo, hres>>

HCls   == <<"D", "S", "S">>
Objs   == 1..Len(HCls)
KA     == <<65>>                                   \* "A"  present from the start
KN     == <<78>>                                   \* "N"  absent at first
KF     == <<70, 105, 108, 101, 115>>               \* "Files"
HKeys  == {KA, KN, KF}
VX     == <<120>>                                  \* "x"       initial value of A
VG     == <<120, 10, 32, 120>>                     \* "x\n x"   accepted
VB1    == <<120, 10, 120, 58, 120>>                \* "x\nx:x"  would inject field x
VB2    == <<120, 10>>                              \* "x\n"     would split the paragraph
HValues == {VG, VB1, VB2}

IsMultiKey(c, k) == c = "S" /\ SameName(k, KF)
HasKey(p, k)     == \E i \in 1..Len(p) : SameName(p[i].k, k)

\* reference: history-free
RefOutcome(p, k, v) == IF Accept(v) THEN [res |-> "ok", para |-> SetField(p, k, v)]
                       ELSE [res |-> "ValueError", para |-> p]

\* implementation layer
MemoKey(c, k, v) == CASE MemoMode = "value"    -> <<v>>
                      [] MemoMode = "keyvalue" -> <<k, v>>
                      [] OTHER                 -> <<c, k, v>>
Verdict(c, k, v) == IF MemoMode # "none" /\ MemoKey(c, k, v) \in DOMAIN memo THEN memo[MemoKey(c, k, v)]
                    ELSE IF IsMultiKey(c, k) THEN "ok"              \* _multivalued.validate_input: pass
                    ELSE Validate(v)
Remember(c, k, v) == IF MemoMode = "none" \/ MemoKey(c, k, v) \in DOMAIN memo THEN memo
                     ELSE memo @@ (MemoKey(c, k, v) :> Verdict(c, k, v))
ImplPara(p, k, v, verdict) == IF verdict = "ok" THEN SetField(p, k, v)
                              ELSE IF RejectStoresEmpty /\ ~HasKey(p, k) THEN Append(p, [k |-> k, v |-> <<>>])
                              ELSE p

Edge(op, args, r) == EmitH => PrintT(<<"EDGE", ToJson([from |-> hp, op |-> op, args |-> args, res |-> r, to |-> hp'])>>)

HInit == /\ hp = [o \in Objs |-> << [k |-> KA, v |-> VX] >>]
         /\ memo = <<>>
         /\ hres = [op |-> "none", o |-> 0, k |-> <<>>, v |-> <<>>, res |-> "none"]
         /\ inp = <<>> /\ para = <<>> /\ res = "none" /\ out = <<>>
         /\ (EmitH => \A v \in HValues \cup {VX} :
                         PrintT(<<"VALUE", ToJson([v |-> v, cls |-> Classify(v), segs |-> Segs(v)])>>))

Assign(o, k, v) == /\ ~IsMultiKey(HCls[o], k)
                   /\ LET vd == Verdict(HCls[o], k, v) IN
                        /\ hp' = [hp EXCEPT ![o] = ImplPara(hp[o], k, v, vd)]
                        /\ memo' = Remember(HCls[o], k, v)
                        /\ hres' = [op |-> "assign", o |-> o, k |-> k, v |-> v, res |-> vd]
                        /\ Edge("assign", <<o, k, v>>, vd)
                   /\ UNCHANGED vars
Scratch(c, v)   == /\ IsMultiKey(c, KF)
                   /\ hp' = hp
                   /\ memo' = Remember(c, KF, v)
                   /\ hres' = [op |-> "scratch", o |-> 0, k |-> KF, v |-> v, res |-> "unspec"]
                   /\ Edge("scratch", <<c, KF, v>>, "unspec")
                   /\ UNCHANGED vars

HNext == \/ \E o \in Objs, k \in HKeys, v \in HValues : Assign(o, k, v)
         \/ \E v \in HValues : Scratch("S", v)
HSpec == HInit /\ [][HNext]_<<hvars, vars>>
HView == <<hp, memo>>                  \* hres is an output

HistoryFreeStep ==
    LET e == hres' IN
    /\ e.op = "assign" => LET r == RefOutcome(hp[e.o], e.k, e.v) IN
                          /\ e.res = r.res
                          /\ hp'[e.o] = r.para
                          /\ \A q \in Objs \ {e.o} : hp'[q] = hp[q]
    /\ e.op = "scratch" => hp' = hp
HistoryFree == [][HistoryFreeStep]_<<hvars, vars>>

HistSound == \A o \in Objs : SoundObs(hp[o], ObsAll(hp[o]))
=============================================================================
